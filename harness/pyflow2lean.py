"""Argument-flow records: translate an entry point (a method / function / closure) to WHICH VALUE IS HANDED TO WHICH
PARAMETER OF WHICH CALLEE, by symbolic execution of its body.

The result is a Lean term of type `Gen.Flow` (lean/XyzModel/Gen/DefaultFlow.lean):

    calls   the declared calls in program order: callee, positional arguments (renamed to the callee's parameter names
            when the callee's `def` is found in the repository), keyword arguments, `**splats`, and the path condition
    paths   one entry per way the body ends without raising: path condition, returned value, and the WRITES the body made
            on that path to objects that outlive it — `self.<attr> = e`, and in-place changes (`x.update(e)`, `x[k] = e`) of
            an object that IS (or may be) a stored attribute or an object handed in by the caller

Values are first-order terms `Gen.FlowE` over: the parameters as given by the caller (`param`), the attributes of `self`
as they are on entry (`stored`), literals, `{**a, **b}` (`merge`; also what `a.update(b)` leaves in `a`), conditionals
(`ite`), attribute access, `e[k]`, what the i-th recorded call returned (`ret i`), and applications of functions /
operators known by name only (`fn`, `ap`, `kw`).  Locals are resolved away (renaming a local or hoisting an expression
into a local does not change the record).

Aliasing: a local bound to `self.<a>`, to a parameter, or to the result of a function that may return its argument
(decided by looking at the function's `def` when it is in the repository: some `return <parameter>`; unknown functions are
assumed to) is the same object, so changing it in place is a write to that attribute / caller's object.

Refused (`Untranslatable`, the anchor falls back): loops, try, with, starred positionals, calls of methods that are
neither declared nor known to be read-only, calls through local names, any statement not listed above.
"""
import ast
from pyexpr2lean import Untranslatable, lean_str

READ_METHODS = {'keys', 'values', 'items', 'get', 'copy', 'format'}
PURE_FUNCS = {'dict', 'tuple', 'list', 'len', 'sorted', 'zip', 'set', 'any', 'all', 'isinstance', 'callable', 'str', 'int',
              'bool', 'range', 'enumerate', 'functools.update_wrapper', 'min', 'max'}
FRESH_FUNCS = {'dict', 'tuple', 'list', 'len', 'sorted', 'zip', 'set', 'any', 'all', 'isinstance', 'callable', 'str', 'int',
               'bool', 'range', 'enumerate', 'min', 'max'}
OPS = {ast.And: 'and', ast.Or: 'or', ast.Not: 'not', ast.Eq: '==', ast.NotEq: '!=', ast.Lt: '<', ast.LtE: '<=', ast.Gt: '>',
       ast.GtE: '>=', ast.In: 'in', ast.NotIn: 'not in', ast.Add: '+', ast.Sub: '-', ast.Mult: '*', ast.USub: 'neg',
       ast.Is: 'is', ast.IsNot: 'is not'}


# ------------------------------------------------------------------------------------------------ terms
def param(n): return ('param', n)
def stored(a): return ('stored', a)
def lit(s): return ('lit', s)
def fn(f): return ('fn', f)
def ap(f, *xs):
    for x in xs: f = ('ap', f, x)
    return f
def kw(n, e): return ('kw', n, e)
def ite(c, t, e): return t if t == e else ('ite', c, t, e)
def merge(a, b): return ('merge', a, b)


def lean(t):
    k = t[0]
    if k in ('param', 'stored', 'lit', 'fn'): return f'(FlowE.{k} {lean_str(t[1])})'
    if k == 'attr': return f'(FlowE.attr {lean(t[1])} {lean_str(t[2])})'
    if k == 'item': return f'(FlowE.item {lean(t[1])} {lean_str(t[2])})'
    if k == 'kw': return f'(FlowE.kw {lean_str(t[1])} {lean(t[2])})'
    if k == 'ret': return f'(FlowE.ret {t[1]})'
    if k in ('merge', 'ap'): return f'(FlowE.{k} {lean(t[1])} {lean(t[2])})'
    if k == 'ite': return f'(FlowE.ite {lean(t[1])} {lean(t[2])} {lean(t[3])})'
    raise Untranslatable('term ' + repr(t)[:60])


def lean_cond(cond):
    return '[' + ', '.join(f'({lean(c)}, {"true" if b else "false"})' for c, b in cond) + ']'


class Env:
    def __init__(self):
        self.vars = {}        # python local -> term
        self.alias = {}       # python local -> set of roots ('stored', a) / ('param', n) the object may be
        self.st = {}          # attribute of self -> its current term (only those written)
        self.pw = {}          # parameter object -> its current content (only those changed in place)

    def copy(self):
        e = Env()
        e.vars, e.alias, e.st, e.pw = dict(self.vars), {k: set(v) for k, v in self.alias.items()}, dict(self.st), dict(self.pw)
        return e


class FlowSpec:
    """file, path       where the entry point is (key of extract.FILES, [class, method] / [function, closure])
    targets          {text of the called expression: (file key, path of its def) or None}: the calls to record
    inline           {text of the called expression: (file key, path)}: sibling methods executed in place
    self_name        the name of the receiver (None for plain functions)
    outer            for a closure: the enclosing function's body may only be docstring / guard-raise / the def / return
    """

    def __init__(self, file, path, targets, inline=None, self_name='self', closure=False, fresh=()):
        self.file, self.path, self.targets, self.inline = file, list(path), dict(targets), dict(inline or {})
        self.self_name, self.closure = self_name, closure
        self.fresh = set(fresh)


class FlowTr:
    def __init__(self, spec, trees, find):
        self.spec, self.trees, self.find = spec, trees, find
        self.calls = []       # (callee term, pos [terms], kws [(name, term)], splat [terms], cond)
        self.paths = []       # (cond, ret term, writes [(root term, term)])
        self.depth = 0

    # -------------------------------------------------------------------------------------------- helpers
    def params_of(self, f, skip_self):
        a = f.args
        names = [x.arg for x in a.posonlyargs + a.args]
        if skip_self and names: names = names[1:]
        return names, [x.arg for x in a.kwonlyargs], (a.vararg.arg if a.vararg else None), (a.kwarg.arg if a.kwarg else None)

    def callee_def(self, where):
        if where is None: return None
        key, path = where
        try:
            f = self.find(self.trees[key], path)
        except Exception:
            return None
        if isinstance(f, ast.ClassDef):
            try:
                f = self.find(f, ['__init__'])
            except Exception:
                return None
        return f

    def may_return_arg(self, name):
        """does the function `name` possibly return (one of) its argument object(s)?"""
        if name in FRESH_FUNCS or name in self.spec.fresh: return False
        for key, tree in self.trees.items():
            target = name
            for _ in range(4):          # follow module-level `a = b` aliases
                hit = [n for n in tree.body if isinstance(n, ast.Assign) and len(n.targets) == 1
                       and isinstance(n.targets[0], ast.Name) and n.targets[0].id == target and isinstance(n.value, ast.Name)]
                if not hit: break
                target = hit[-1].value.id
            defs = [n for n in tree.body if isinstance(n, ast.FunctionDef) and n.name == target]
            if defs:
                f = defs[-1]
                ps = {x.arg for x in f.args.posonlyargs + f.args.args + f.args.kwonlyargs}
                return any(isinstance(n, ast.Return) and n.value is not None and
                           any(isinstance(m, ast.Name) and m.id in ps for m in ast.walk(n.value)) for n in ast.walk(f))
        return True

    # -------------------------------------------------------------------------------------------- expressions
    def aliases(self, e, env):
        if isinstance(e, ast.Name):
            return set(env.alias.get(e.id, ()))
        if isinstance(e, ast.Attribute) and isinstance(e.value, ast.Name) and e.value.id == self.spec.self_name:
            return {('stored', e.attr)}
        if isinstance(e, ast.IfExp):
            return self.aliases(e.body, env) | self.aliases(e.orelse, env)
        if isinstance(e, ast.BoolOp):
            out = set()
            for v in e.values: out |= self.aliases(v, env)
            return out
        if isinstance(e, ast.Call):
            name = ast.unparse(e.func)
            if name in self.spec.targets or name in self.spec.inline: return set()
            if isinstance(e.func, ast.Attribute) and e.func.attr in READ_METHODS: return set()
            if self.may_return_arg(name):
                out = set()
                for a in list(e.args) + [k.value for k in e.keywords]:
                    out |= self.aliases(a.value if isinstance(a, ast.Starred) else a, env)
                return out
        return set()

    def expr(self, e, env, cond):
        if isinstance(e, ast.Constant):
            return lit(repr(e.value))
        if isinstance(e, ast.Name):
            if e.id in env.vars: return env.vars[e.id]
            if e.id == self.spec.self_name: raise Untranslatable('the receiver used as a value')
            return fn(e.id)
        if isinstance(e, ast.Attribute):
            if isinstance(e.value, ast.Name) and e.value.id == self.spec.self_name:
                return env.st.get(e.attr, stored(e.attr))
            return ('attr', self.expr(e.value, env, cond), e.attr)
        if isinstance(e, ast.Dict):
            if not e.keys: return lit('{}')
            if all(k is None for k in e.keys):
                t = self.expr(e.values[0], env, cond)
                if len(e.values) == 1: return ap(fn('dict'), t)
                for v in e.values[1:]: t = merge(t, self.expr(v, env, cond))
                return t
            if all(isinstance(k, ast.Constant) and isinstance(k.value, str) for k in e.keys):
                return ap(fn('dict'), *[kw(k.value, self.expr(v, env, cond)) for k, v in zip(e.keys, e.values)])
            raise Untranslatable('dict display ' + ast.unparse(e)[:60])
        if isinstance(e, (ast.Tuple, ast.List)):
            if any(isinstance(x, ast.Starred) for x in e.elts): raise Untranslatable('starred element')
            if not e.elts: return lit('()' if isinstance(e, ast.Tuple) else '[]')
            return ap(fn('tuple' if isinstance(e, ast.Tuple) else 'list[]'), *[self.expr(x, env, cond) for x in e.elts])
        if isinstance(e, ast.IfExp):
            return ite(self.expr(e.test, env, cond), self.expr(e.body, env, cond), self.expr(e.orelse, env, cond))
        if isinstance(e, ast.BoolOp):
            t = self.expr(e.values[0], env, cond)
            for v in e.values[1:]: t = ap(fn(OPS[type(e.op)]), t, self.expr(v, env, cond))
            return t
        if isinstance(e, ast.UnaryOp) and type(e.op) in OPS:
            return ap(fn(OPS[type(e.op)]), self.expr(e.operand, env, cond))
        if isinstance(e, ast.BinOp) and type(e.op) in OPS:
            return ap(fn(OPS[type(e.op)]), self.expr(e.left, env, cond), self.expr(e.right, env, cond))
        if isinstance(e, ast.Compare) and len(e.ops) == 1 and type(e.ops[0]) in OPS:
            op, r = e.ops[0], e.comparators[0]
            if isinstance(op, (ast.Is, ast.IsNot)) and isinstance(r, ast.Constant) and r.value is None:
                return ap(fn('is None' if isinstance(op, ast.Is) else 'is not None'), self.expr(e.left, env, cond))
            return ap(fn(OPS[type(op)]), self.expr(e.left, env, cond), self.expr(r, env, cond))
        if isinstance(e, ast.Subscript):
            k = e.slice
            if isinstance(k, ast.Constant) and isinstance(k.value, (str, int)) and not isinstance(k.value, bool):
                return ('item', self.expr(e.value, env, cond), str(k.value))
            return ap(fn('getitem'), self.expr(e.value, env, cond), self.expr(k, env, cond))
        if isinstance(e, ast.Call):
            return self.call(e, env, cond)
        if isinstance(e, (ast.GeneratorExp, ast.ListComp, ast.DictComp, ast.SetComp, ast.Lambda, ast.JoinedStr)):
            return self.opaque(e, env, cond)
        raise Untranslatable('expression ' + ast.unparse(e)[:80])

    def opaque(self, e, env, cond):
        """an expression whose inside is not read: an unknown function (named by its normalised source text) of the
        values it reads; it must not call anything declared nor change anything in place"""
        bound = set()
        for n in ast.walk(e):
            if isinstance(n, ast.comprehension):
                bound |= {m.id for m in ast.walk(n.target) if isinstance(m, ast.Name)}
            if isinstance(n, ast.Lambda):
                bound |= {a.arg for a in n.args.args + n.args.kwonlyargs}
            if isinstance(n, ast.Call):
                name = ast.unparse(n.func)
                if name in self.spec.targets or name in self.spec.inline:
                    raise Untranslatable('a declared call inside ' + ast.unparse(e)[:60])
                if isinstance(n.func, ast.Attribute) and n.func.attr not in READ_METHODS | {'choice'} \
                        and not (isinstance(n.func.value, ast.Name) and n.func.value.id in ('np', 'os', 'itertools', 'functools')):
                    raise Untranslatable('a method call inside ' + ast.unparse(e)[:60])
            if isinstance(n, (ast.NamedExpr, ast.Await, ast.Yield, ast.YieldFrom)):
                raise Untranslatable('binding inside an expression')
        args, seen = [], set()
        for n in ast.walk(e):
            if isinstance(n, ast.Attribute) and isinstance(n.value, ast.Name) and n.value.id == self.spec.self_name:
                key = 'self.' + n.attr
                if key not in seen:
                    seen.add(key); args.append(env.st.get(n.attr, stored(n.attr)))
            elif isinstance(n, ast.Name) and isinstance(n.ctx, ast.Load) and n.id not in bound and n.id in env.vars and n.id not in seen:
                seen.add(n.id); args.append(env.vars[n.id])
        return ap(fn('expr<' + ast.unparse(e) + '>'), *args)

    def arguments(self, c, env, cond, where):
        """(pos, kws, splat) of a call; positionals renamed to the callee's parameters when its def is known"""
        if any(isinstance(a, ast.Starred) for a in c.args): raise Untranslatable('starred positional argument')
        pos = [self.expr(a, env, cond) for a in c.args]
        kws, splat = [], []
        for k in c.keywords:
            if k.arg is None: splat.append(self.expr(k.value, env, cond))
            else: kws.append((k.arg, self.expr(k.value, env, cond)))
        splat, extra = self.expand_splats(splat)
        kws = kws + extra
        f = self.callee_def(where)
        if f is not None:
            names, _, vararg, _ = self.params_of(f, skip_self=isinstance(self.find(self.trees[where[0]], where[1][:1]), ast.ClassDef))
            n = min(len(pos), len(names))
            if len(pos) > len(names) and vararg is None: raise Untranslatable('too many positional arguments')
            kws = list(zip(names[:n], pos[:n])) + kws
            pos = pos[n:]
        if len({k for k, _ in kws}) != len(kws): raise Untranslatable('an argument given twice')
        return pos, kws, splat

    def expand_splats(self, splat):
        """`**dict(base, a=x)` / `**{'a': x}` hand over `a=x` (and `**base`); a splat that is neither that nor a plain
        pass-through (a parameter, a stored attribute, a merge / copy of such) is not understood"""
        def simple(t):
            if t[0] in ('param', 'stored'): return True
            if t[0] == 'merge': return simple(t[1]) and simple(t[2])
            if t[0] == 'ap' and t[1] == fn('dict'): return simple(t[2])
            return False
        out, kws = [], []
        def go(t):
            if simple(t):
                out.append(t); return
            args, cur = [], t
            while cur[0] == 'ap':
                args.append(cur[2]); cur = cur[1]
            args.reverse()
            if cur == fn('dict') and args:
                pos = [a for a in args if a[0] != 'kw']
                if len(pos) <= 1 and (not pos or args[0] is pos[0]):
                    for b in pos: go(b)
                    kws.extend((a[1], a[2]) for a in args if a[0] == 'kw')
                    return
            raise Untranslatable('keyword arguments splatted from something not understood')
        for t in splat: go(t)
        return out, kws

    def call(self, c, env, cond):
        name = ast.unparse(c.func)
        if name in self.spec.inline:
            return self.inline(c, env, cond, self.spec.inline[name])
        if name in self.spec.targets:
            where = self.spec.targets[name]
            pos, kws, splat = self.arguments(c, env, cond, where)
            if isinstance(c.func, ast.Name): callee = fn(name)
            else: callee = self.expr(c.func, env, cond)
            self.calls.append((callee, pos, kws, splat, list(cond)))
            return ('ret', len(self.calls) - 1)
        if any(isinstance(a, ast.Starred) for a in c.args) or any(k.arg is None for k in c.keywords):
            raise Untranslatable('splat in an undeclared call ' + ast.unparse(c)[:60])
        args = [self.expr(a, env, cond) for a in c.args] + [kw(k.arg, self.expr(k.value, env, cond)) for k in c.keywords]
        if isinstance(c.func, ast.Attribute):
            if c.func.attr in READ_METHODS and not (isinstance(c.func.value, ast.Name) and c.func.value.id == self.spec.self_name):
                return ap(('attr', self.expr(c.func.value, env, cond), c.func.attr), *args)
            if name in PURE_FUNCS: return ap(fn(name), *args)
            raise Untranslatable('method call ' + ast.unparse(c)[:60])
        if isinstance(c.func, ast.Name):
            if c.func.id in env.vars: raise Untranslatable('call through a local name ' + c.func.id)
            if c.func.id in PURE_FUNCS or self.known_function(c.func.id):
                if c.func.id in ('tuple', 'list') and len(args) == 1 and args[0][0] == 'merge':
                    args = [('attr', args[0], 'keys')]          # iterating a dict iterates its keys
                return ap(fn(c.func.id), *args)
            raise Untranslatable('call of an unknown function ' + c.func.id)
        raise Untranslatable('call ' + ast.unparse(c)[:60])

    def known_function(self, name):
        """a module-level function (or alias of one) of the parsers' module: pure by inspection of what they are"""
        t = self.trees.get('prepare')
        if t is None: return False
        for n in t.body:
            if isinstance(n, ast.FunctionDef) and n.name == name: return True
            if isinstance(n, ast.Assign) and any(isinstance(x, ast.Name) and x.id == name for x in n.targets): return True
        return False

    def inline(self, c, env, cond, where):
        if self.depth > 3: raise Untranslatable('inlining too deep')
        f = self.callee_def(where)
        if f is None: raise Untranslatable('inlined method not found')
        pos, kws, splat = self.arguments(c, env, cond, where)
        if pos or splat: raise Untranslatable('arguments of an inlined call')
        names, kwonly, vararg, kwarg = self.params_of(f, skip_self=True)
        if vararg or kwarg: raise Untranslatable('inlined method with *args / **kwargs')
        given = dict(kws)
        defaults = dict(zip(names[len(names) - len(f.args.defaults):], f.args.defaults))
        defaults.update({a: d for a, d in zip(kwonly, f.args.kw_defaults) if d is not None})
        inner = Env(); inner.st, inner.pw = env.st, env.pw
        arg_nodes = {}
        sig = names + kwonly
        for i, a in enumerate(c.args): arg_nodes[sig[i]] = a
        for k in c.keywords: arg_nodes[k.arg] = k.value
        for p in sig:
            if p in given:
                inner.vars[p] = given[p]; inner.alias[p] = self.aliases(arg_nodes[p], env) if p in arg_nodes else set()
            elif p in defaults:
                inner.vars[p] = self.expr(defaults[p], Env(), cond); inner.alias[p] = set()
            else:
                raise Untranslatable('missing argument ' + p)
        if set(given) - set(sig): raise Untranslatable('unknown argument of an inlined call')
        body = [s for s in f.body if not (isinstance(s, ast.Expr) and isinstance(s.value, ast.Constant))]
        if not body or not isinstance(body[-1], ast.Return) or any(isinstance(n, ast.Return) for s in body[:-1] for n in ast.walk(s)):
            raise Untranslatable('an inlined method must end in its only return')
        self.depth += 1
        try:
            out = self.block(body[:-1], inner, cond, top=False)
        finally:
            self.depth -= 1
        if not isinstance(out, tuple) or out[0] != 'env': raise Untranslatable('an inlined method that may not reach its return')
        inner = out[1]
        env.st, env.pw = inner.st, inner.pw
        return self.expr(body[-1].value, inner, cond) if body[-1].value is not None else lit('None')

    # -------------------------------------------------------------------------------------------- statements
    def write_root(self, env, root, new):
        if root[0] == 'stored': env.st[root[1]] = new
        else: env.pw[root[1]] = new

    def root_now(self, env, root):
        if root[0] == 'stored': return env.st.get(root[1], stored(root[1]))
        return env.pw.get(root[1], param(root[1]))

    def mutate(self, env, name, change):
        """`name` (a local) is changed in place: change(old term) -> new term, applied to it and to what it may be"""
        env.vars[name] = change(env.vars[name])
        for root in sorted(env.alias.get(name, ())):
            self.write_root(env, root, change(self.root_now(env, root)))
        # other locals that are the same object
        for other, roots in env.alias.items():
            if other != name and roots & env.alias.get(name, set()):
                env.vars[other] = change(env.vars[other])

    def join(self, c, a, b):
        out = Env()
        for k in set(a.vars) | set(b.vars):
            if k in a.vars and k in b.vars:
                out.vars[k] = ite(c, a.vars[k], b.vars[k])
            # a local bound on one side only is not usable afterwards
        for k in set(a.alias) | set(b.alias):
            out.alias[k] = set(a.alias.get(k, ())) | set(b.alias.get(k, ()))
        for k in set(a.st) | set(b.st):
            out.st[k] = ite(c, a.st.get(k, stored(k)), b.st.get(k, stored(k)))
        for k in set(a.pw) | set(b.pw):
            out.pw[k] = ite(c, a.pw.get(k, param(k)), b.pw.get(k, param(k)))
        return out

    def finish(self, env, cond, value):
        writes = [(stored(a), t) for a, t in env.st.items() if t != stored(a)] + \
                 [(param(n), t) for n, t in env.pw.items() if t != param(n)]
        self.paths.append((list(cond), value, writes))

    def block(self, stmts, env, cond, top=True):
        """-> ('env', env, cond) when the end is reached, 'raise' / 'return' when every path left before"""
        cond = list(cond)
        for st in stmts:
            if isinstance(st, ast.Expr) and isinstance(st.value, ast.Constant): continue
            if isinstance(st, (ast.Import, ast.ImportFrom, ast.Pass)): continue
            if isinstance(st, ast.Raise): return 'raise'
            if isinstance(st, ast.Return):
                if not top: raise Untranslatable('return inside an inlined method')
                self.finish(env, cond, self.expr(st.value, env, cond) if st.value is not None else lit('None'))
                return 'return'
            if isinstance(st, ast.If):
                c = self.expr(st.test, env, cond)
                ra = self.block(st.body, env.copy(), cond + [(c, True)], top)
                rb = self.block(st.orelse, env.copy(), cond + [(c, False)], top)
                enda, endb = isinstance(ra, tuple), isinstance(rb, tuple)
                if not enda and not endb:
                    return 'return' if 'return' in (ra, rb) else 'raise'
                if enda and endb:
                    if ra[2] != cond + [(c, True)] or rb[2] != cond + [(c, False)]:
                        raise Untranslatable('paths that ended inside both branches of a conditional')
                    env = self.join(c, ra[1], rb[1]); continue
                keep, left = (ra, rb) if enda else (rb, ra)
                env = keep[1]
                # a branch that only raises guards the rest without being part of the flow; one that returns splits it
                cond = keep[2] if left == 'return' else cond + keep[2][len(cond) + 1:]
                continue
            if isinstance(st, ast.Assign) and len(st.targets) == 1:
                self.assign(st.targets[0], st.value, env, cond); continue
            if isinstance(st, ast.Expr) and isinstance(st.value, ast.Call):
                c = st.value
                name = ast.unparse(c.func)
                if name in self.spec.targets or name in self.spec.inline:
                    self.call(c, env, cond); continue
                if isinstance(c.func, ast.Attribute) and c.func.attr == 'update' and isinstance(c.func.value, ast.Name) \
                        and c.func.value.id in env.vars and len(c.args) == 1 and not c.keywords and not isinstance(c.args[0], ast.Starred):
                    new = self.expr(c.args[0], env, cond)
                    self.mutate(env, c.func.value.id, lambda old: merge(old, new)); continue
                if isinstance(c.func, ast.Attribute) and c.func.attr == 'update' and isinstance(c.func.value, ast.Attribute) \
                        and isinstance(c.func.value.value, ast.Name) and c.func.value.value.id == self.spec.self_name \
                        and len(c.args) == 1 and not c.keywords and not isinstance(c.args[0], ast.Starred):
                    a = c.func.value.attr
                    env.st[a] = merge(env.st.get(a, stored(a)), self.expr(c.args[0], env, cond)); continue
                raise Untranslatable('call statement ' + ast.unparse(c)[:80])
            raise Untranslatable('statement ' + type(st).__name__ + ': ' + ast.unparse(st)[:80])
        return ('env', env, cond)

    def assign(self, tgt, val, env, cond):
        if isinstance(tgt, ast.Name):
            al = self.aliases(val, env)
            env.vars[tgt.id] = self.expr(val, env, cond)
            env.alias[tgt.id] = al
            return
        if isinstance(tgt, ast.Attribute) and isinstance(tgt.value, ast.Name) and tgt.value.id == self.spec.self_name:
            env.st[tgt.attr] = self.expr(val, env, cond)
            return
        if isinstance(tgt, ast.Tuple) and all(isinstance(x, ast.Name) for x in tgt.elts):
            t = self.expr(val, env, cond)
            parts, cur = [], t
            while cur[0] == 'ap':
                parts.append(cur[2]); cur = cur[1]
            parts.reverse()
            if cur == fn('tuple') and len(parts) == len(tgt.elts):
                vals = parts
            else:
                vals = [('item', t, str(i)) for i in range(len(tgt.elts))]
            for x, v in zip(tgt.elts, vals):
                env.vars[x.id] = v; env.alias[x.id] = set()
            return
        if isinstance(tgt, ast.Subscript) and isinstance(tgt.value, ast.Name) and tgt.value.id in env.vars:
            k, v = self.expr(tgt.slice, env, cond), self.expr(val, env, cond)
            self.mutate(env, tgt.value.id, lambda old: ap(fn('setitem'), old, k, v))
            return
        raise Untranslatable('assignment ' + ast.unparse(tgt)[:60])

    # -------------------------------------------------------------------------------------------- entry
    def run(self):
        spec = self.spec
        f = self.find(self.trees[spec.file], spec.path)
        env = Env()
        chain = [f]
        if spec.closure:
            outer = self.find(self.trees[spec.file], spec.path[:-1])
            for s in outer.body:
                ok = (isinstance(s, ast.Expr) and isinstance(s.value, ast.Constant)) or s is f \
                    or (isinstance(s, ast.If) and all(isinstance(b, ast.Raise) for b in s.body) and not s.orelse) \
                    or (isinstance(s, ast.Return) and isinstance(s.value, ast.Name) and s.value.id == f.name)
                if not ok: raise Untranslatable('the enclosing function does more than define the closure: ' + ast.unparse(s)[:60])
            chain = [outer, f]
        for i, g in enumerate(chain):
            a = g.args
            ps = [x.arg for x in a.posonlyargs + a.args + a.kwonlyargs] + ([a.vararg.arg] if a.vararg else []) + ([a.kwarg.arg] if a.kwarg else [])
            for p in ps:
                if p == spec.self_name: continue
                env.vars[p] = param(p); env.alias[p] = {('param', p)}
        out = self.block(f.body, env, [])
        if isinstance(out, tuple):
            self.finish(out[1], out[2], lit('None'))
        if not self.paths: raise Untranslatable('no path reaches the end')
        calls = ',\n    '.join(
            '{ callee := %s, pos := [%s], kws := [%s], splat := [%s], cond := %s }' % (
                lean(c), ', '.join(lean(p) for p in pos), ', '.join(f'({lean_str(k)}, {lean(v)})' for k, v in kws),
                ', '.join(lean(s) for s in splat), lean_cond(cond))
            for c, pos, kws, splat, cond in self.calls)
        paths = ',\n    '.join(
            '{ cond := %s, ret := %s, writes := [%s] }' % (lean_cond(cond), lean(v), ', '.join(f'({lean(r)}, {lean(t)})' for r, t in ws))
            for cond, v, ws in self.paths)
        return '{\n  calls := [\n    %s],\n  paths := [\n    %s] }' % (calls, paths)


def translate_flow(spec, trees, find):
    return FlowTr(spec, trees, find).run()
