"""Translate list-manipulating Python (loops, appends, tuple concatenation, zip / dict(zip) / sorted / enumerate,
stateful `dict.pop` comprehensions, the `while xs: *xs, last = xs` loop) to Lean 4 terms.

`pyfn2lean` handles integer/boolean straight-line bodies; this module handles the *data-structure* sub-language of
`combo_runner_core`, `_unflatten` and the `_run_linear_*` helpers (xyzpy/gen/combo_runner.py).  Structural types:

    V value token   S argument name (String)   B bool   N index (Nat)   R a result of the swept function (β)
    A an opaque setting (α)   Fut a future (φ)   Nest nested tuple of results (Core.Nest β)   None  the constant None
    ('L', T) tuple / list / generator / set   ('P', T, U) a 2-tuple used as a pair   ('D', K, T) dict (association list)
    ('F', T, U) an opaque function parameter

Meaning of the mapped built-ins: `Gen.Py` in lean/XyzModel/Gen/DefaultCore.lean (trusted).  Statements:

    x = e ; rest                    let x := ⟦e⟧; ⟦rest⟧
    a, b = zip(*e) ; rest           if ⟦e⟧.isEmpty then .error .valueError else let (a, b) := ⟦e⟧.unzip; ⟦rest⟧
    xs.append(e) / d[k] = e / d.update(e)      let xs := xs ++ [⟦e⟧] / Py.dictSet / Py.dictUpdate
    for t in e: body ; rest         let (s…) := ⟦e⟧.foldl (fun (s…) t => ⟦body⟧; (s…)) (s…); ⟦rest⟧     s… = the variables body mutates
    while xs: *xs, last = xs; body  let (s…) := Py.whilePopLast xs (s…) (fun xs last (s…) => ⟦body⟧; (s…))
    if c: A else: B ; rest          if ⟦c⟧ then ⟦A; rest⟧ else ⟦B; rest⟧      (a test already decided on this path is not asked again)
    (… d.pop(k, dflt) … for v in e) a fold threading d:  pops happen one after the other, a popped key is gone
    raise E(..) / return e          .error .e / .ok ⟦e⟧
    x[0] of a list, d[k], d.pop(k)  match … with | none => .error .indexError / .keyError | some v => …

Loop bodies must be error-free (anything that can raise inside a loop is refused).  A statement the spec declares
irrelevant (`skip`) is dropped only if it cannot touch a translated variable (no store to it, no mutating method on
it, not handed to an unknown call).  Anything else raises `Untranslatable` and the anchor falls back.
"""
import ast
from pyexpr2lean import Untranslatable, lean_str

V, S, B, R, N, A, NEST, FUT, NONE = 'V', 'S', 'B', 'R', 'N', 'A', 'Nest', 'Fut', 'None'
def L(t): return ('L', t)
def P(a, b): return ('P', a, b)
def D(k, v): return ('D', k, v)
def F(a, b): return ('F', a, b)

ERRS = {'ValueError': '.valueError', 'TypeError': '.typeError', 'KeyError': '.keyError', 'IndexError': '.indexError'}
MUTATORS = {'append', 'add', 'update', 'pop', 'clear', 'extend', 'insert', 'remove', 'sort', 'reverse', 'setdefault',
            'popitem', 'discard', 'difference_update', 'intersection_update'}
PURE_FUNCS = {'str', 'len', 'int', 'repr', 'isinstance', 'bool', 'print', 'zip', 'enumerate', 'tuple', 'list', 'sorted', 'set',
              'dict', 'range', 'min', 'max', 'frozenset'}
LEAN_KEYWORDS = {'end', 'from', 'at', 'do', 'then', 'else', 'fun', 'let', 'in', 'open', 'def', 'Type', 'res', 'last', 'first',
                 'show', 'have', 'by', 'with', 'match', 'where', 'instance', 'class', 'structure', 'meta'}


def lean_ty(t):
    if t == V: return 'V'
    if t == S: return 'String'
    if t == B: return 'Bool'
    if t == R: return 'β'
    if t == N: return 'Nat'
    if t == A: return 'α'
    if t == FUT: return 'φ'
    if t == NEST: return 'Core.Nest β'
    if isinstance(t, tuple) and t[0] == 'L' and t[1] is not None: return f'List {paren(lean_ty(t[1]))}'
    if isinstance(t, tuple) and t[0] == 'P': return f'{paren(lean_ty(t[1]))} × {paren(lean_ty(t[2]))}'
    if isinstance(t, tuple) and t[0] == 'D': return f'List ({paren(lean_ty(t[1]))} × {paren(lean_ty(t[2]))})'
    raise Untranslatable('no Lean type for ' + repr(t))


def paren(s):
    return s if s.replace('.', '').isalnum() else f'({s})'


def is_list(t): return isinstance(t, tuple) and t[0] == 'L'
def is_dict(t): return isinstance(t, tuple) and t[0] == 'D'
def is_pair(t): return isinstance(t, tuple) and t[0] == 'P'


def lean_name(key, taken=()):
    name = key.strip('_') or 'v'
    name = ''.join(w if i == 0 else w.capitalize() for i, w in enumerate(name.split('_')))
    if name in LEAN_KEYWORDS:
        name += "'"
    return name


class Spec:
    """file, path   where the function is (key of extract.FILES, [outer, inner, …])
    env          python name or expression text -> (lean term, type): parameters, opaque tests, opaque functions
    types        python local name -> type it is to have (needed where an empty literal starts a list)
    result       python names whose final values are the result tuple (after an optional returned value)
    returns      type of a returned value (None: the function's `return`s are not translated) ; ret_wrap {type: ctor}
    calls        {function text: handler(call, tr, env) -> (term, type)}   declared calls in expressions
    stmts        [(pred(st), handler(st, tr, env) -> [(python name, term, type)])]  declared effect statements
    skip         pred(st): statements declared irrelevant (still checked not to touch translated variables)
    withs        names of context managers that are transparent (`with progbar(...) as pbar:`)
    start, stop  predicates selecting the translated slice of the body: [first start .. first stop after it]
    consts       {'pyNone': term, 'leR': term, 'leV': term}
    """

    def __init__(self, file, path, env, types=None, result=(), returns=None, ret_wrap=None, calls=None, stmts=None,
                 skip=None, withs=(), start=None, stop=None, consts=None):
        self.file, self.path, self.env = file, path, dict(env)
        self.types = dict(types or {})
        self.result, self.returns, self.ret_wrap = list(result), returns, dict(ret_wrap or {})
        self.calls, self.stmts, self.skip = dict(calls or {}), list(stmts or []), skip
        self.withs, self.start, self.stop = tuple(withs), start, stop
        self.consts = dict(consts or {})


class LoopTr:
    MAX_NODES = 3000

    def __init__(self, spec):
        self.spec = spec
        self.fresh = 0
        self.nodes = 0
        self.binders = None          # list collecting binders of the statement being translated
        self.scope = 0               # > 0 inside a lambda / comprehension / conditional: no binders there
        self.pure = 0                # > 0 inside a loop body: nothing that can raise
        self.ignorable = set()       # names bound by transparent `with`s
        self.assigned = set()
        self.versions = {}           # python name -> how often it was (re)bound on the way here

    # ------------------------------------------------------------------ types
    def unify(self, t, want, what=''):
        """the more specific of two compatible types"""
        if want is None: return t
        if t == want: return t
        if is_list(t) and t[1] is None and (is_list(want) or is_dict(want)): return want
        if is_list(want) and want[1] is None and is_list(t): return t
        if is_list(t) and is_list(want):
            return L(self.unify(t[1], want[1], what))
        raise Untranslatable(f'type mismatch {t} vs {want} {what}')

    def coerce(self, term, t, want, what=''):
        if want is None or t == want: return term, t
        if is_list(t) and t[1] is None and (is_list(want) or is_dict(want)):
            return f'([] : {lean_ty(want)})', want
        if t == R and want == NEST: return f'(Core.Nest.leaf {term})', NEST
        if is_list(t) and t[1] == NEST and want == NEST: return f'(Core.Nest.node {term})', NEST
        if t == NONE and want == NEST and 'pyNone' in self.spec.consts:
            return f'(Core.Nest.leaf {self.spec.consts["pyNone"]})', NEST
        if is_dict(t) and is_dict(want) and t[1] == want[1] and t[2] == R and want[2] == NEST:
            return f'(Py.dictMapVal Core.Nest.leaf {term})', want
        if is_list(t) and is_list(want):
            return term, L(self.unify(t[1], want[1], what))
        raise Untranslatable(f'cannot use a {t} as a {want} {what}')

    def le_for(self, t):
        if t == N: return 'Py.leNat'
        if t == R and 'leR' in self.spec.consts: return self.spec.consts['leR']
        if t == V and 'leV' in self.spec.consts: return self.spec.consts['leV']
        raise Untranslatable(f'no ordering on {t}')

    def new(self, stem):
        self.fresh += 1
        return f'{stem}{self.fresh}'

    def bind(self, kind, *payload):
        if self.scope or self.binders is None:
            raise Untranslatable('a construct that can raise or mutate inside a nested expression')
        if kind in ('opt', 'exc') and self.pure:
            raise Untranslatable('a construct that can raise inside a loop body')
        self.binders.append((kind,) + payload)

    # ------------------------------------------------------------------ expressions
    def lookup(self, e, env):
        key = ast.unparse(e)
        hit = env.get(key)
        if hit is not None and hit[1] != 'ast':
            return hit
        return None

    def expr(self, e, env, want=None):
        t, ty = self._expr(e, env, want)
        return self.coerce(t, ty, want, 'in ' + ast.unparse(e)[:60])

    def truthy(self, e, env):
        hit = self.lookup(e, env)
        if hit is not None and hit[1] == B:
            return hit[0]
        if isinstance(e, ast.UnaryOp) and isinstance(e.op, ast.Not):
            return f'(!{self.truthy(e.operand, env)})'
        if isinstance(e, ast.BoolOp):
            self.scope += 1
            try:
                parts = [self.truthy(v, env) for v in e.values]
            finally:
                self.scope -= 1
            return '(' + (' && ' if isinstance(e.op, ast.And) else ' || ').join(parts) + ')'
        t, ty = self.expr(e, env)
        if ty == B: return t
        if is_list(ty) or is_dict(ty): return f'(!{t}.isEmpty)'
        if ty == N: return f'({t} != 0)'
        raise Untranslatable(f'truth value of {ty}: ' + ast.unparse(e))

    def _expr(self, e, env, want):
        hit = self.lookup(e, env)
        if hit is not None:
            return hit
        if isinstance(e, ast.Name):
            raise Untranslatable('unknown name ' + e.id)
        if isinstance(e, ast.Constant):
            if e.value is None: return 'none', NONE
            if isinstance(e.value, bool): return ('true' if e.value else 'false'), B
            if isinstance(e.value, int) and e.value >= 0: return f'({e.value} : Nat)', N
            if isinstance(e.value, str): return lean_str(e.value), S
            raise Untranslatable('constant ' + repr(e.value))
        if isinstance(e, (ast.Tuple, ast.List)):
            if any(isinstance(x, ast.Starred) for x in e.elts):
                raise Untranslatable('starred element')
            if not e.elts:
                return '[]', L(None)
            if is_pair(want) and len(e.elts) == 2:
                a, at = self.expr(e.elts[0], env, want[1]); b, bt = self.expr(e.elts[1], env, want[2])
                return f'({a}, {b})', P(at, bt)
            ew = want[1] if is_list(want) else None
            parts = [self.expr(x, env, ew) for x in e.elts]
            ty = parts[0][1]
            if all(t == ty for _, t in parts):
                return '[' + ', '.join(p for p, _ in parts) + ']', L(ty)
            if len(parts) == 2:
                return f'({parts[0][0]}, {parts[1][0]})', P(parts[0][1], parts[1][1])
            raise Untranslatable('heterogeneous tuple ' + ast.unparse(e))
        if isinstance(e, ast.BinOp) and isinstance(e.op, ast.Add):
            a, at = self.expr(e.left, env); b, bt = self.expr(e.right, env)
            if is_list(at) and is_list(bt):
                ty = self.unify(at, bt, 'in ' + ast.unparse(e))
                if ty[1] is None: return '[]', ty
                a, _ = self.coerce(a, at, ty); b, _ = self.coerce(b, bt, ty)
                return f'({a} ++ {b})', ty
            raise Untranslatable('+ on ' + str((at, bt)))
        if isinstance(e, ast.UnaryOp) and isinstance(e.op, ast.Not):
            return self.truthy(e, env), B
        if isinstance(e, ast.BoolOp):
            return self.truthy(e, env), B
        if isinstance(e, ast.IfExp):
            c = self.truthy(e.test, env)
            self.scope += 1
            try:
                a, at = self.expr(e.body, env, want); b, bt = self.expr(e.orelse, env, want)
            finally:
                self.scope -= 1
            ty = self.unify(at, bt)
            a, _ = self.coerce(a, at, ty); b, _ = self.coerce(b, bt, ty)
            return f'(if {c} then {a} else {b})', ty
        if isinstance(e, ast.Compare) and len(e.ops) == 1:
            return self.compare(e, env), B
        if isinstance(e, ast.Subscript):
            return self.subscript(e, env)
        if isinstance(e, (ast.GeneratorExp, ast.ListComp)):
            return self.comprehension(e, env, want)
        if isinstance(e, ast.Call):
            return self.call(e, env, want)
        raise Untranslatable('expression ' + ast.unparse(e)[:80])

    def compare(self, e, env):
        op, l, r = e.ops[0], e.left, e.comparators[0]
        if isinstance(op, (ast.Is, ast.IsNot)):
            raise Untranslatable('identity test ' + ast.unparse(e))
        if isinstance(op, (ast.In, ast.NotIn)):
            a, at = self.expr(l, env); b, bt = self.expr(r, env)
            if is_list(bt) and bt[1] == at:
                t = f'({b}.contains {a})'
            elif is_dict(bt) and bt[1] == at:
                t = f'(({b}.map Prod.fst).contains {a})'
            else:
                raise Untranslatable('membership ' + ast.unparse(e))
            return t if isinstance(op, ast.In) else f'(!{t})'
        a, at = self.expr(l, env); b, bt = self.expr(r, env)
        ty = self.unify(at, bt, 'in ' + ast.unparse(e))
        if isinstance(op, ast.Eq): return f'({a} == {b})'
        if isinstance(op, ast.NotEq): return f'({a} != {b})'
        if ty != N: raise Untranslatable('ordering on ' + str(ty))
        sym = {ast.Lt: '<', ast.LtE: '≤', ast.Gt: '>', ast.GtE: '≥'}[type(op)]
        return f'(decide ({a} {sym} {b}))'

    def const_index(self, e):
        i = e.slice
        if isinstance(i, ast.Constant) and isinstance(i.value, int) and not isinstance(i.value, bool): return i.value
        if isinstance(i, ast.UnaryOp) and isinstance(i.op, ast.USub) and isinstance(i.operand, ast.Constant) \
                and isinstance(i.operand.value, int): return -i.operand.value
        return None

    def subscript(self, e, env):
        a, at = self.expr(e.value, env)
        sl = e.slice
        if isinstance(sl, ast.Slice) and sl.lower is None and sl.upper is None and is_list(at) \
                and isinstance(sl.step, ast.UnaryOp) and isinstance(sl.step.op, ast.USub) \
                and isinstance(sl.step.operand, ast.Constant) and sl.step.operand.value == 1:
            return f'({a}.reverse)', at            # x[::-1]
        i = self.const_index(e)
        if is_pair(at):
            if i in (0, -2): return f'{a}.1', at[1]
            if i in (1, -1): return f'{a}.2', at[2]
            raise Untranslatable('index of a pair ' + ast.unparse(e))
        if is_list(at) and at[1] is not None and i is not None:
            v = self.new('x')
            look = f'{a}[{i}]?' if i >= 0 else (f'{a}.getLast?' if i == -1 else f'{a}.reverse[{-i - 1}]?')
            self.bind('opt', look, v, '.indexError')
            return v, at[1]
        if is_dict(at):
            k, _ = self.expr(e.slice, env, at[1])
            v = self.new('x')
            self.bind('opt', f'Py.dictGet {a} {k}', v, '.keyError')
            return v, at[2]
        raise Untranslatable('subscript ' + ast.unparse(e))

    def pattern(self, tgt, elem_ty, env):
        """binder pattern and environment for a loop / comprehension target"""
        env2 = dict(env)
        if isinstance(tgt, ast.Name):
            nm = lean_name(tgt.id)
            env2[tgt.id] = (nm, elem_ty)
            return nm, env2
        if isinstance(tgt, ast.Tuple) and len(tgt.elts) == 2 and is_pair(elem_ty) and all(isinstance(x, ast.Name) for x in tgt.elts):
            names = []
            for x, t in zip(tgt.elts, elem_ty[1:]):
                nm = '_' if x.id == '_' else lean_name(x.id)
                names.append(nm)
                if x.id != '_': env2[x.id] = (nm, t)
            return f'({names[0]}, {names[1]})', env2
        raise Untranslatable('loop target ' + ast.unparse(tgt))

    def pops_in(self, e, env):
        """calls `d.pop(...)` on a dict variable inside e"""
        out = []
        for n in ast.walk(e):
            if isinstance(n, ast.Call) and isinstance(n.func, ast.Attribute) and n.func.attr in MUTATORS \
                    and isinstance(n.func.value, ast.Name) and n.func.value.id in env:
                out.append(n)
        return out

    def comprehension(self, e, env, want):
        if len(e.generators) != 1 or e.generators[0].is_async:
            raise Untranslatable('nested comprehension ' + ast.unparse(e)[:60])
        g = e.generators[0]
        it, ity = self.expr(g.iter, env)
        if not is_list(ity) or ity[1] is None:
            raise Untranslatable('comprehension over ' + str(ity))
        pat, env2 = self.pattern(g.target, ity[1], env)
        ew = want[1] if is_list(want) else None
        muts = self.pops_in(e.elt, env)
        if muts:
            return self.stateful_comprehension(e, g, it, pat, env, env2, ew, muts)
        self.scope += 1
        try:
            if g.ifs:
                conds = ' && '.join(self.truthy(c, env2) for c in g.ifs)
                it = f'({it}.filter (fun {pat} => {conds}))'
            body, bt = self.expr(e.elt, env2, ew)
        finally:
            self.scope -= 1
        return f'({it}.map (fun {pat} => {body}))', L(bt)

    def stateful_comprehension(self, e, g, it, pat, env, env2, ew, muts):
        """(… d.pop(k, dflt) … for v in it): a fold threading the dict"""
        if len(muts) != 1 or g.ifs:
            raise Untranslatable('more than one mutation in a comprehension element')
        c = muts[0]
        if c.func.attr != 'pop' or len(c.args) != 2 or c.keywords:
            raise Untranslatable('only d.pop(key, default) is understood inside a comprehension: ' + ast.unparse(c))
        dname = c.func.value.id
        dterm, dty = env[dname]
        if not is_dict(dty): raise Untranslatable('pop on a non-dict')
        acc, o = self.new('acc'), self.new('o')
        self.scope += 1
        try:
            inner = dict(env2); inner[dname] = (f'{acc}.1', dty)
            k, _ = self.expr(c.args[0], inner, dty[1])
            dv, _ = self.expr(c.args[1], inner, dty[2])
            inner[ast.unparse(c)] = (f'({o}.getD {dv})', dty[2])
            # the key and the default are evaluated before the pop, the rest of the element after it; they must not
            # themselves depend on the dict
            for sub in (c.args[0], c.args[1]):
                if any(isinstance(n, ast.Name) and n.id == dname for n in ast.walk(sub)):
                    raise Untranslatable('pop arguments read the dict')
            rest_reads = [n for n in ast.walk(e.elt) if isinstance(n, ast.Name) and n.id == dname and n is not c.func.value]
            if rest_reads: raise Untranslatable('the element reads the dict besides the pop')
            body, bt = self.expr(e.elt, inner, ew)
        finally:
            self.scope -= 1
        nd, items = self.new(lean_name(dname)), self.new('items')
        fold = (f'({it}.foldl (fun ({acc} : ({lean_ty(dty)}) × List {paren(lean_ty(bt))}) {pat} => '
                f'let {o} := Py.dictGet {acc}.1 {k}; ((Py.dictErase {acc}.1 {k}), {acc}.2 ++ [{body}])) ({dterm}, []))')
        self.bind('letpair', nd, items, fold, dname, dty)
        return items, L(bt)

    def call(self, e, env, want):
        fn = ast.unparse(e.func)
        if fn in self.spec.calls:
            return self.spec.calls[fn](e, self, env)
        fhit = env.get(fn)
        if fhit is not None and isinstance(fhit[1], tuple) and fhit[1][0] == 'F':
            _, pt, rt = fhit[1]
            if len(e.args) == 1 and not e.keywords and not isinstance(e.args[0], ast.Starred):
                a, _ = self.expr(e.args[0], env, pt)
            elif not e.args and len(e.keywords) == 1 and e.keywords[0].arg is None:
                a, _ = self.expr(e.keywords[0].value, env, pt)         # f(**kws)
            else:
                raise Untranslatable('call shape ' + ast.unparse(e)[:60])
            return f'({fhit[0]} {a})', rt
        args, kws = e.args, e.keywords
        plain = not kws and not any(isinstance(a, ast.Starred) for a in args)
        if fn in ('tuple', 'list') and plain and len(args) == 1:
            t, ty = self.expr(args[0], env, want if is_list(want) else None)
            if is_list(ty): return t, ty
            raise Untranslatable(f'{fn}() of {ty}')
        if fn in ('tuple', 'list') and plain and not args:
            return '[]', L(None)
        if fn == 'zip' and plain and len(args) == 2:
            a, at = self.expr(args[0], env); b, bt = self.expr(args[1], env)
            if is_list(at) and is_list(bt) and at[1] is not None and bt[1] is not None:
                return f'(List.zip {a} {b})', L(P(at[1], bt[1]))
            raise Untranslatable('zip of ' + str((at, bt)))
        if fn == 'dict' and plain and len(args) == 1:
            a, at = self.expr(args[0], env)
            if is_list(at) and is_pair(at[1]):
                return f'(Py.dictOfList {a})', D(at[1][1], at[1][2])
            raise Untranslatable('dict() of ' + str(at))
        if fn == 'enumerate' and plain and len(args) == 1:
            a, at = self.expr(args[0], env)
            if is_list(at) and at[1] is not None: return f'(Py.enumerate {a})', L(P(N, at[1]))
            raise Untranslatable('enumerate of ' + str(at))
        if fn == 'reversed' and plain and len(args) == 1:
            a, at = self.expr(args[0], env)
            if is_list(at): return f'({a}.reverse)', at
            raise Untranslatable('reversed of ' + str(at))
        if fn == 'len' and plain and len(args) == 1:
            a, at = self.expr(args[0], env)
            if is_list(at) or is_dict(at): return f'{a}.length', N
            raise Untranslatable('len of ' + str(at))
        if fn in ('itertools.product', 'product') and not kws and len(args) == 1 and isinstance(args[0], ast.Starred):
            a, at = self.expr(args[0].value, env)
            if is_list(at) and is_list(at[1]) and at[1][1] is not None:
                return f'(Core.product {a})', at
            raise Untranslatable('product(*x) of ' + str(at))
        if fn == 'sorted' and len(args) == 1 and not isinstance(args[0], ast.Starred) and all(k.arg == 'key' for k in kws) and len(kws) <= 1:
            a, at = self.expr(args[0], env)
            if not is_list(at) or at[1] is None: raise Untranslatable('sorted of ' + str(at))
            if kws:
                lam = kws[0].value
                if not (isinstance(lam, ast.Lambda) and len(lam.args.args) == 1 and not lam.args.defaults and not lam.args.vararg
                        and not lam.args.kwarg and not lam.args.kwonlyargs):
                    raise Untranslatable('sort key ' + ast.unparse(lam))
                p = lam.args.args[0].arg
                nm = lean_name(p) + "'"
                env2 = dict(env); env2[p] = (nm, at[1])
                self.scope += 1
                try:
                    kt, kty = self.expr(lam.body, env2)
                finally:
                    self.scope -= 1
                return f'(Py.sortedOn {self.le_for(kty)} (fun {nm} => {kt}) {a})', at
            return f'(Py.sortedOn {self.le_for(at[1])} id {a})', at
        if isinstance(e.func, ast.Attribute) and e.func.attr == 'isdisjoint' and plain and len(args) == 1:
            recv = e.func.value
            if isinstance(recv, ast.Call) and ast.unparse(recv.func) in ('set', 'frozenset') and len(recv.args) == 1 and not recv.keywords:
                recv = recv.args[0]
            a, at = self.expr(recv, env); b, bt = self.expr(args[0], env)
            ty = self.unify(at, bt, 'in ' + ast.unparse(e))
            if is_list(ty):
                if ty[1] is None: return 'true', B
                return f'(Py.isDisjoint {a} {b})', B
            raise Untranslatable('isdisjoint of ' + str((at, bt)))
        if isinstance(e.func, ast.Attribute) and e.func.attr == 'pop' and plain and len(args) == 1 \
                and isinstance(e.func.value, ast.Name) and e.func.value.id in env and is_dict(env[e.func.value.id][1]):
            dname = e.func.value.id
            dterm, dty = env[dname]
            k, _ = self.expr(args[0], env, dty[1])
            v = self.new('x')
            self.bind('opt', f'Py.dictGet {dterm} {k}', v, '.keyError')
            self.bind('setenv', dname, f'(Py.dictErase {dterm} {k})', dty)
            return v, dty[2]
        if isinstance(e.func, ast.Attribute) and e.func.attr in ('values', 'keys') and not args and not kws:
            a, at = self.expr(e.func.value, env)
            if is_dict(at):
                return (f'({a}.map Prod.snd)', L(at[2])) if e.func.attr == 'values' else (f'({a}.map Prod.fst)', L(at[1]))
        raise Untranslatable('call ' + ast.unparse(e)[:80])

    # ------------------------------------------------------------------ statements
    def mutated(self, stmts):
        """names a statement list may rebind or mutate in place"""
        out = set()
        for st in stmts:
            for n in ast.walk(st):
                if isinstance(n, ast.Name) and isinstance(n.ctx, (ast.Store, ast.Del)):
                    out.add(n.id)
                if isinstance(n, ast.Call) and isinstance(n.func, ast.Attribute) and n.func.attr in MUTATORS:
                    base = n.func.value
                    while isinstance(base, (ast.Subscript, ast.Attribute)): base = base.value
                    if isinstance(base, ast.Name): out.add(base.id)
                if isinstance(n, (ast.Subscript, ast.Attribute)) and isinstance(n.ctx, (ast.Store, ast.Del)):
                    base = n.value
                    while isinstance(base, (ast.Subscript, ast.Attribute)): base = base.value
                    if isinstance(base, ast.Name): out.add(base.id)
                if isinstance(n, ast.Call) and not (isinstance(n.func, ast.Name) and n.func.id in PURE_FUNCS):
                    # a translated variable handed to a call we do not know could be changed by it
                    for a in list(n.args) + [k.value for k in n.keywords]:
                        a = a.value if isinstance(a, ast.Starred) else a
                        if isinstance(a, ast.Name): out.add('?' + a.id)
        return out

    def safe_to_skip(self, st, env):
        m = self.mutated([st])
        for name in m:
            if name.startswith('?'):
                hit = env.get(name[1:])
                if hit is not None and (is_list(hit[1]) or is_dict(hit[1])):
                    return False
            elif name in env:
                return False
        return True

    def skippable(self, st, env):
        if isinstance(st, ast.Pass) or (isinstance(st, ast.Expr) and isinstance(st.value, ast.Constant)):
            return True
        if isinstance(st, ast.Expr) and isinstance(st.value, ast.Call) and isinstance(st.value.func, ast.Attribute) \
                and isinstance(st.value.func.value, ast.Name) and st.value.func.value.id in self.ignorable:
            return self.safe_to_skip(st, env)
        if isinstance(st, ast.If) and not st.orelse and all(self.skippable(b, env) for b in st.body) \
                and not any(isinstance(n, ast.Call) for n in ast.walk(st.test)):
            return True
        if self.spec.skip and self.spec.skip(st):
            if not self.safe_to_skip(st, env):
                raise Untranslatable('a statement declared irrelevant touches a translated variable: ' + ast.unparse(st)[:80])
            return True
        return False

    def let(self, env, key, term, ty):
        env2 = dict(env)
        if key in env and env[key][1] != 'ast':
            term, ty = self.coerce(term, ty, env[key][1], f'(assignment to {key})') if not (is_list(env[key][1]) and env[key][1][1] is None) else (term, ty)
        elif key in self.spec.types:
            term, ty = self.coerce(term, ty, self.spec.types[key], f'(assignment to {key})')
        if not key.isidentifier():
            raise Untranslatable('assignment to ' + key)
        if is_list(ty) and ty[1] is None:
            raise Untranslatable(f'the element type of {key} is not known')
        if ty == NONE:
            raise Untranslatable('None assigned to ' + key)
        name = lean_name(key)
        env2[key] = (name, ty)
        self.assigned.add(key)
        self.versions[key] = self.versions.get(key, 0) + 1
        # facts decided about tests that mention this name are no longer valid
        for k in [k for k in env2 if k.startswith('$known:')]:
            if any(isinstance(n, ast.Name) and n.id == key for n in ast.walk(ast.parse(k[7:], mode='eval'))):
                del env2[k]
        try:
            ann = f' : {lean_ty(ty)}'
        except Untranslatable:
            ann = ''
        return env2, f'let {name}{ann} := {term}'

    def emit(self, binders, lines, ind, rest_fn, env2):
        """wrap: binders, then the statement's own lets, then the rest"""
        out, closing, cur = [], 0, ind
        for b in binders:
            if b[0] == 'opt':
                _, look, v, err = b
                out.append(f'{cur}(match {look} with')
                out.append(f'{cur}| none => .error {err}')
                out.append(f'{cur}| some {v} =>')
                cur += '  '; closing += 1
            elif b[0] == 'exc':
                _, term, v = b
                out.append(f'{cur}(match {term} with')
                out.append(f'{cur}| .error e => .error e')
                out.append(f'{cur}| .ok {v} =>')
                cur += '  '; closing += 1
            elif b[0] == 'letpair':
                _, nd, items, fold, dname, dty = b
                out.append(f'{cur}let ({nd}, {items}) := {fold}')
            elif b[0] == 'setenv':
                _, dname, term, dty = b
                out.append(f'{cur}let {lean_name(dname)} : {lean_ty(dty)} := {term}')
            elif b[0] == 'guard':
                _, cond, err = b
                out.append(f'{cur}if {cond} then .error {err} else')
        for ln in lines:
            out.append(cur + ln)
        body = rest_fn(env2, cur)
        return '\n'.join(out) + ('\n' if out else '') + body + ')' * closing

    def apply_binder_env(self, env, binders):
        """a stateful comprehension leaves the dict in its new state"""
        env2 = dict(env)
        for b in binders:
            if b[0] == 'letpair':
                env2[b[4]] = (b[1], b[5])
            if b[0] == 'setenv':
                env2[b[1]] = (lean_name(b[1]), b[3])
        return env2

    def stmt(self, build, env, ind, rest_fn):
        """build(env) -> (lines, env2): translate with binder collection and continue with rest_fn(env2, ind)"""
        saved = self.binders
        self.binders = []
        try:
            lines, env2 = build(env)
            binders = self.binders
        finally:
            self.binders = saved
        return self.emit(binders, lines, ind, rest_fn, env2)

    def block(self, stmts, env, ind, done):
        self.nodes += 1
        if self.nodes > self.MAX_NODES:
            raise Untranslatable('too large after branch duplication')
        if not stmts:
            return ind + done(env, None)
        s, rest = stmts[0], list(stmts[1:])
        cont = lambda e2, i2: self.block(rest, e2, i2, done)
        if self.skippable(s, env):
            return self.block(rest, env, ind, done)
        for pred, handler in self.spec.stmts:
            if pred(s):
                def build(env1, s=s, handler=handler):
                    e2, lines = env1, []
                    for key, term, ty in handler(s, self, env1):
                        e2, ln = self.let(e2, key, term, ty)
                        lines.append(ln)
                    return lines, e2
                return self.stmt(build, env, ind, cont)
        if isinstance(s, ast.Raise):
            if self.pure: raise Untranslatable('raise inside a loop body')
            exc = s.exc.func if isinstance(s.exc, ast.Call) else s.exc
            return ind + '.error ' + ERRS.get(ast.unparse(exc) if exc is not None else '?', '.other')
        if isinstance(s, ast.Return):
            if self.pure: raise Untranslatable('return inside a loop body')
            if self.spec.returns is None or s.value is None:
                raise Untranslatable('unexpected return')
            saved = self.binders; self.binders = []
            try:
                t, ty = self.expr(s.value, env, self.spec.returns if not self.spec.ret_wrap else None)
                binders = self.binders
            finally:
                self.binders = saved
            env_r = self.apply_binder_env(env, binders)
            return self.emit(binders, [], ind, lambda e2, i2: i2 + done(e2, (t, ty)), env_r)
        if isinstance(s, ast.If):
            return self.if_(s, rest, env, ind, done)
        if isinstance(s, ast.For):
            return self.for_(s, rest, env, ind, done)
        if isinstance(s, ast.While):
            return self.while_(s, rest, env, ind, done)
        if isinstance(s, ast.With):
            if len(s.items) == 1 and isinstance(s.items[0].context_expr, ast.Call) \
                    and ast.unparse(s.items[0].context_expr.func) in self.spec.withs:
                v = s.items[0].optional_vars
                if v is not None:
                    if not isinstance(v, ast.Name) or v.id in env: raise Untranslatable('with … as ' + ast.unparse(v))
                    self.ignorable.add(v.id)
                if self.mutated([ast.Expr(s.items[0].context_expr)]) & set(env):
                    raise Untranslatable('the context manager touches a translated variable')
                # a transparent context manager: its body runs, its exit neither swallows nor changes anything
                return self.block(list(s.body) + rest, env, ind, done)
            raise Untranslatable('with ' + ast.unparse(s.items[0].context_expr)[:60])
        if isinstance(s, ast.Assign) and len(s.targets) == 1:
            return self.assign(s, env, ind, cont)
        if isinstance(s, ast.AugAssign) and isinstance(s.op, ast.Add) and isinstance(s.target, ast.Name):
            def build(env1):
                t, ty = self.expr(ast.BinOp(ast.Name(s.target.id, ast.Load()), ast.Add(), s.value), env1)
                e2, ln = self.let(self.apply_binder_env(env1, self.binders), s.target.id, t, ty)
                return [ln], e2
            return self.stmt(build, env, ind, cont)
        if isinstance(s, ast.Expr) and isinstance(s.value, ast.Call):
            c = s.value
            if isinstance(c.func, ast.Attribute) and isinstance(c.func.value, ast.Name) and c.func.value.id in env \
                    and not c.keywords and len(c.args) == 1 and not isinstance(c.args[0], ast.Starred):
                key, (term, ty) = c.func.value.id, env[c.func.value.id]
                if c.func.attr == 'append' and is_list(ty):
                    def build(env1):
                        t, et = self.expr(c.args[0], env1, ty[1])
                        cur = self.apply_binder_env(env1, self.binders)
                        e2, ln = self.let(cur, key, f'({cur[key][0]} ++ [{t}])', L(et))
                        return [ln], e2
                    return self.stmt(build, env, ind, cont)
                if c.func.attr == 'update' and is_dict(ty):
                    def build(env1):
                        t, et = self.expr(c.args[0], env1, ty)
                        cur = self.apply_binder_env(env1, self.binders)
                        e2, ln = self.let(cur, key, f'(Py.dictUpdate {cur[key][0]} {t})', ty)
                        return [ln], e2
                    return self.stmt(build, env, ind, cont)
            raise Untranslatable('call statement ' + ast.unparse(c)[:80])
        raise Untranslatable('statement ' + type(s).__name__ + ': ' + ast.unparse(s)[:80])

    def assign(self, s, env, ind, cont):
        tgt, val = s.targets[0], s.value
        if isinstance(tgt, ast.Name):
            def build(env1):
                want = self.spec.types.get(tgt.id) or (env1[tgt.id][1] if tgt.id in env1 and env1[tgt.id][1] != 'ast' else None)
                if is_list(want) and want[1] is None: want = None
                t, ty = self.expr(val, env1, want)
                e2, ln = self.let(self.apply_binder_env(env1, self.binders), tgt.id, t, ty)
                return [ln], e2
            try:
                return self.stmt(build, env, ind, cont)
            except Untranslatable:
                # a local bound to something outside the sub-language (a dict of keyword arguments): remember the
                # syntax, declared calls look through it; it must be a literal of plain names / constants
                if isinstance(val, ast.Dict) and all(isinstance(k, ast.Constant) for k in val.keys) \
                        and all(isinstance(v, (ast.Name, ast.Constant)) for v in val.values) and tgt.id not in env:
                    e2 = dict(env)
                    e2[tgt.id] = (val, 'ast')
                    e2['$snap:' + tgt.id] = ({v.id: self.versions.get(v.id, 0) for v in val.values if isinstance(v, ast.Name)}, 'snap')
                    return cont(e2, ind)
                raise
        if isinstance(tgt, ast.Subscript) and isinstance(tgt.value, ast.Name) and tgt.value.id in env and is_dict(env[tgt.value.id][1]):
            key = tgt.value.id
            dty = env[key][1]
            def build(env1):
                v, _ = self.expr(val, env1, dty[2])                 # the right-hand side is evaluated first
                cur = self.apply_binder_env(env1, self.binders)
                k, _ = self.expr(tgt.slice, cur, dty[1])
                e2, ln = self.let(cur, key, f'(Py.dictSet {cur[key][0]} {k} {v})', dty)
                return [ln], e2
            return self.stmt(build, env, ind, cont)
        if isinstance(tgt, ast.Tuple) and len(tgt.elts) == 2 and all(isinstance(x, ast.Name) for x in tgt.elts):
            names = [x.id for x in tgt.elts]
            if isinstance(val, ast.Call) and ast.unparse(val.func) == 'zip' and len(val.args) == 1 and not val.keywords \
                    and isinstance(val.args[0], ast.Starred):
                # a, b = zip(*pairs): unzip; with no pairs Python has nothing to unpack -> ValueError
                def build(env1):
                    t, ty = self.expr(val.args[0].value, env1)
                    if not (is_list(ty) and is_pair(ty[1])): raise Untranslatable('zip(*x) of ' + str(ty))
                    self.bind('opt', f'(if {t}.isEmpty then none else some (List.unzip {t}))', self.new('u'), '.valueError')
                    u = self.binders[-1][2]
                    e2, lines = env1, []
                    for i, (nm, et) in enumerate(zip(names, ty[1][1:])):
                        if nm == '_': continue
                        e2, ln = self.let(e2, nm, f'{u}.{i + 1}', L(et))
                        lines.append(ln)
                    return lines, e2
                return self.stmt(build, env, ind, cont)
            if isinstance(val, ast.Tuple) and len(val.elts) == 2:
                def build(env1):
                    parts = [self.expr(x, env1, self.spec.types.get(nm)) for x, nm in zip(val.elts, names)]
                    e2, lines = env1, []
                    tmps = []
                    for (t, ty) in parts:
                        tmps.append(self.new('tmp')); lines.append(f'let {tmps[-1]} := {t}')
                    for nm, tmp, (_, ty) in zip(names, tmps, parts):
                        e2, ln = self.let(e2, nm, tmp, ty)
                        lines.append(ln)
                    return lines, e2
                return self.stmt(build, env, ind, cont)
            def build(env1):
                t, ty = self.expr(val, env1)
                if not is_pair(ty): raise Untranslatable('unpacking a ' + str(ty))
                e2, lines = env1, []
                for i, nm in enumerate(names):
                    if nm == '_': continue
                    e2, ln = self.let(e2, nm, f'{t}.{i + 1}', ty[i + 1])
                    lines.append(ln)
                return lines, e2
            return self.stmt(build, env, ind, cont)
        raise Untranslatable('assignment ' + ast.unparse(s)[:80])

    def decided(self, test, env):
        """True / False when the tests already taken on this path decide `test`, else None"""
        key = '$known:' + ast.unparse(test)
        if key in env: return env[key][0]
        if isinstance(test, ast.UnaryOp) and isinstance(test.op, ast.Not):
            d = self.decided(test.operand, env)
            return None if d is None else (not d)
        if isinstance(test, ast.BoolOp):
            ds = [self.decided(v, env) for v in test.values]
            if isinstance(test.op, ast.And):
                if any(d is False for d in ds): return False
                if all(d is True for d in ds): return True
            else:
                if any(d is True for d in ds): return True
                if all(d is False for d in ds): return False
        return None

    def if_(self, s, rest, env, ind, done):
        key = '$known:' + ast.unparse(s.test)
        d = self.decided(s.test, env)
        if d is not None:
            return self.block((list(s.body) if d else list(s.orelse)) + rest, env, ind, done)
        saved = self.binders; self.binders = []
        try:
            c = self.truthy(s.test, env)
            binders = self.binders
        finally:
            self.binders = saved
        if binders: raise Untranslatable('a test that can raise: ' + ast.unparse(s.test))
        ea, eb = dict(env), dict(env)
        ea[key] = (True, 'known'); eb[key] = (False, 'known')
        a = self.block(list(s.body) + rest, ea, ind + '  ', done)
        b = self.block(list(s.orelse) + rest, eb, ind + '  ', done)
        return f'{ind}if {c} then\n{a}\n{ind}else\n{b}'

    def state_of(self, body, env, also=()):
        m = self.mutated(body)
        return [k for k in env if not k.startswith('$') and env[k][1] not in ('ast', 'known', 'snap')
                and isinstance(env[k][0], str) and k.isidentifier() and (k in m or k in also)]

    def tuple_of(self, names):
        return names[0] if len(names) == 1 else '(' + ', '.join(names) + ')'

    def loop_body(self, body, env, state, ind):
        """the body as a pure term ending in the state tuple"""
        self.pure += 1
        try:
            def fin(e2, ret):
                if ret is not None: raise Untranslatable('return inside a loop')
                for k in state:
                    if e2[k][1] != env[k][1]:
                        raise Untranslatable(f'{k} changes type in a loop')
                return self.tuple_of([e2[k][0] for k in state])
            return self.block(list(body), env, ind, fin)
        finally:
            self.pure -= 1

    def for_(self, s, rest, env, ind, done):
        if s.orelse: raise Untranslatable('for … else')
        if any(isinstance(n, (ast.Break, ast.Continue)) for n in ast.walk(s)): raise Untranslatable('break / continue')
        saved = self.binders; self.binders = []
        try:
            it, ity = self.expr(s.iter, env)
            binders = self.binders
        finally:
            self.binders = saved
        if binders: raise Untranslatable('loop over an expression that can raise')
        if not is_list(ity) or ity[1] is None: raise Untranslatable('loop over ' + str(ity))
        state = self.state_of(s.body, env)
        tnames = {n.id for n in ast.walk(s.target) if isinstance(n, ast.Name)}
        if tnames & set(state): raise Untranslatable('loop target is also mutated')
        if not state:
            # nothing translated changes: the loop is irrelevant if skippable, otherwise unknown
            if self.spec.skip and self.spec.skip(s) and self.safe_to_skip(s, env):
                return self.block(rest, env, ind, done)
            raise Untranslatable('a loop without effect on translated variables: ' + ast.unparse(s)[:60])
        pat, env_b = self.pattern(s.target, ity[1], env)
        stup = self.tuple_of([env[k][0] for k in state])
        sty = ' × '.join(paren(lean_ty(env[k][1])) for k in state)
        body = self.loop_body(s.body, env_b, state, ind + '    ')
        env2 = dict(env)
        for k in state:
            self.assigned.add(k); self.versions[k] = self.versions.get(k, 0) + 1
        for k in [k for k in env2 if k.startswith('$known:')]:
            if any(isinstance(n, ast.Name) and n.id in state for n in ast.walk(ast.parse(k[7:], mode='eval'))): del env2[k]
        head = f'{ind}let {stup} := ({it}.foldl (fun ({self.tuple_of([env[k][0] for k in state])} : {sty}) {pat} =>\n{body}) {stup})'
        return head + '\n' + self.block(rest, env2, ind, done)

    def while_(self, s, rest, env, ind, done):
        """while xs: *xs, last = xs; body      /      while xs: first, *xs = xs; body"""
        if s.orelse or not isinstance(s.test, ast.Name) or not s.body: raise Untranslatable('while shape')
        if any(isinstance(n, (ast.Break, ast.Continue)) for n in ast.walk(s)): raise Untranslatable('break / continue')
        xs = s.test.id
        if xs not in env or not is_list(env[xs][1]) or env[xs][1][1] is None: raise Untranslatable('while over ' + xs)
        h = s.body[0]
        if not (isinstance(h, ast.Assign) and len(h.targets) == 1 and isinstance(h.targets[0], ast.Tuple) and len(h.targets[0].elts) == 2
                and isinstance(h.value, ast.Name) and h.value.id == xs):
            raise Untranslatable('the loop does not start by unpacking its list')
        a, b = h.targets[0].elts
        if isinstance(a, ast.Starred) and isinstance(a.value, ast.Name) and a.value.id == xs and isinstance(b, ast.Name):
            comb, elem = 'Py.whilePopLast', b.id
        elif isinstance(b, ast.Starred) and isinstance(b.value, ast.Name) and b.value.id == xs and isinstance(a, ast.Name):
            comb, elem = 'Py.whilePopFirst', a.id
        else:
            raise Untranslatable('unpacking shape ' + ast.unparse(h))
        body = s.body[1:]
        if xs in self.mutated(body) or elem in self.mutated(body): raise Untranslatable('the loop body changes its own list')
        state = self.state_of(body, env)
        if not state or xs in state or elem in env: raise Untranslatable('while loop state')
        xname, ename = env[xs][0], lean_name(elem)
        env_b = dict(env)
        env_b[elem] = (ename, env[xs][1][1])
        stup = self.tuple_of([env[k][0] for k in state])
        sty = ' × '.join(paren(lean_ty(env[k][1])) for k in state)
        btxt = self.loop_body(body, env_b, state, ind + '    ')
        env2 = dict(env)
        env2[xs] = (f'([] : {lean_ty(env[xs][1])})', env[xs][1])       # the loop ends when the list is empty
        for k in state:
            self.assigned.add(k); self.versions[k] = self.versions.get(k, 0) + 1
        head = (f'{ind}let {stup} := ({comb} {xname} {stup} (fun {xname} {ename} ({stup} : {sty}) =>\n{btxt}))')
        return head + '\n' + self.block(rest, env2, ind, done)


def body_slice(f, spec):
    body = list(f.body)
    if spec.start is not None:
        for i, st in enumerate(body):
            if spec.start(st):
                body = body[i:]; break
        else:
            raise Untranslatable('start of the translated part not found')
    if spec.stop is not None:
        for i, st in enumerate(body):
            if spec.stop(st):
                body = body[:i + 1]; break
        else:
            raise Untranslatable('end of the translated part not found')
    return body


def translate_loop_fn(spec, trees, find):
    f = find(trees[spec.file], spec.path)
    tr = LoopTr(spec)
    env = dict(spec.env)
    sliced = spec.start is not None or spec.stop is not None

    def done(env2, ret):
        parts = []
        if ret is not None:
            t, ty = ret
            if spec.ret_wrap:
                if ty not in spec.ret_wrap: raise Untranslatable('returned ' + str(ty))
                t = f'({spec.ret_wrap[ty]} {t})'
            parts.append(t)
        elif spec.returns is not None:
            raise Untranslatable('a path returns nothing although a value is declared')
        for k in spec.result:
            if k not in env2 or env2[k][1] in ('ast', 'known', 'snap'): raise Untranslatable(f'{k} is not defined at the end')
            parts.append(env2[k][0])
        return '.ok (' + ', '.join(parts) + ')' if parts else '.ok ()'
    return '\n' + tr.block(body_slice(f, spec), env, '  ', done)
