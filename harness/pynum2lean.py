"""Translate the numerical methods of xyzpy/utils.py (RunningStatistics, RunningCovariance, estimate_from_repeats,
format_number_with_error) to Lean 4 — whole bodies, statement by statement (used by harness/anchors_numfn.py).

Same idea as pyfn2lean (continuation style: `x = e; rest ↦ let x := ⟦e⟧; ⟦rest⟧`, `if` = join when both branches only
assign, else fork), with what the numerical code needs and pyfn2lean has not:

* **two number types**: Python ints (`Int`) and "real" numbers, which are translated to an *abstract type* `K` with the
  operations `+ - * /`, `<`, `=` and numerals (core classes only: `Add K … NatCast K`, `LT K`, `DecidableLT K`,
  `DecidableEq K`), plus three explicit parameters for what is not algebra: `abs`, `sqrt` (`v ** 0.5`) and `inf`
  (`np.inf`).  The proofs instantiate `K` with `ℚ` (exact arithmetic, as the hand-written models) or with any ordered
  field that has square roots (`ℝ`).
* **loops**: `for x in xs` / `for x, y in zip(xs, ys)` over a list-typed name is a left fold over the state the body
  assigns; `for i in itertools.count()` with `break` is `Gen.forCount body fuel 0 state` (fuel-bounded; `body`
  returns the new state and whether it broke).
* **objects**: attributes of `self` / of a local `rs = RunningStatistics()` are state variables; calls of sibling
  methods and property reads are calls of the generated definitions of those methods (`self.var ↦ rsVar … count mean M2`).
* **the sample source** `fn(*fn_args, **fn_kwargs)`: the n-th call returns `f n`; a counter of calls is part of the state.
* **decimal formatting of floats** (format_number_with_error): floats are an opaque type `F`; `f"{v:.Ne}".split("e")`,
  `int(<exponent text>)`, `<mantissa text>.replace(".", "")`, `a < abs(b / n)`, `v / 10**a / 10**b` are *named abstract
  operations* (parameters `sciSplit intOf dropDot ltAbsDiv scale`), and the returned f-string is a list of `Gen.Piece`s.

Anything outside this sub-language raises `Untranslatable` (the anchor falls back to its committed definition).
"""
import ast
from fractions import Fraction
from pyexpr2lean import Untranslatable, lean_str

LEAN_TY = {'int': 'Int', 'k': 'K', 'bool': 'Bool', 'nat': 'Nat', 'klist': 'List K', 'flt': 'F', 'mant': 'M',
           'ms': 'MS', 'es': 'ES', 'pieces': 'List (Gen.Piece F M)'}
CMP = {ast.Lt: '<', ast.LtE: '≤', ast.Gt: '>', ast.GtE: '≥', ast.Eq: '=', ast.NotEq: '≠'}
BIN = {ast.Add: '+', ast.Sub: '-', ast.Mult: '*'}
RESERVED = {'end', 'from', 'at', 'do', 'then', 'else', 'fun', 'let', 'in', 'open', 'def', 'Type', 'res', 'abs', 'sqrt',
            'inf', 'fuel', 'f', 'st', 'p', 'K', 'F', 'M', 'if', 'have', 'show', 'match', 'with', 'where', 'instance'}


def lean_name(py):
    name = py.strip('_') or 'v'
    name = ''.join(w if i == 0 else w.capitalize() for i, w in enumerate(name.split('_')))
    if name in RESERVED:
        name += "'"
    return name


def is_num_const(e):
    return isinstance(e, ast.Constant) and isinstance(e.value, (int, float)) and not isinstance(e.value, bool)


def klit(v):
    fr = Fraction(repr(v)) if isinstance(v, float) else Fraction(v)
    if fr < 0:
        raise Untranslatable('negative literal in K context')
    if fr.denominator == 1:
        return f'(({fr.numerator} : Nat) : K)'
    return f'((({fr.numerator} : Nat) : K) / (({fr.denominator} : Nat) : K))'


class Ex:
    """expression translator; env: python text -> (lean term, type)"""

    def __init__(self, env, fn):
        self.env, self.fn = env, fn

    def to_k(self, e):
        """translate e as a K-valued term (number literals are cast)"""
        if is_num_const(e):
            return klit(e.value)
        t, ty = self.expr(e)
        if ty != 'k':
            raise Untranslatable(f'wanted a real number, got {ty}: ' + ast.unparse(e))
        return t

    def pair(self, a, b):
        """two operands of an arithmetic / comparison node, with a common numeric type"""
        if is_num_const(a) and is_num_const(b):
            if isinstance(a.value, int) and isinstance(b.value, int):
                return self.expr(a)[0], self.expr(b)[0], 'int'
            return klit(a.value), klit(b.value), 'k'
        if is_num_const(a):
            r, rt = self.expr(b)
            if rt == 'k': return klit(a.value), r, 'k'
            l, lt = self.expr(a)
        elif is_num_const(b):
            l, lt = self.expr(a)
            if lt == 'k': return l, klit(b.value), 'k'
            r, rt = self.expr(b)
        else:
            l, lt = self.expr(a); r, rt = self.expr(b)
        if lt != rt:
            raise Untranslatable(f'mixed types {lt} / {rt}')
        return l, r, lt

    def expr(self, e):
        key = ast.unparse(e)
        if key in self.env:
            hit = self.env[key]
            if hit[1] in ('count', 'obj'):
                raise Untranslatable('object used as a value: ' + key)
            return hit
        sp = self.special(e)
        if sp is not None:
            return sp
        if isinstance(e, ast.Constant):
            if isinstance(e.value, bool):
                return ('true' if e.value else 'false'), 'bool'
            if isinstance(e.value, int):
                return f'({e.value} : Int)', 'int'
            if isinstance(e.value, float):
                return klit(e.value), 'k'
            raise Untranslatable('constant ' + key)
        if isinstance(e, ast.Attribute) or isinstance(e, ast.Name):
            call = self.fn.prop_read(e, self.env)
            if call is not None:
                return call
            raise Untranslatable('unknown name ' + key)
        if isinstance(e, ast.BinOp):
            if isinstance(e.op, ast.Pow):
                if isinstance(e.right, ast.Constant) and e.right.value == 0.5 and isinstance(e.right.value, float):
                    return f'(sqrt {self.to_k(e.left)})', 'k'
                raise Untranslatable('power ' + key)
            if isinstance(e.op, ast.Div):
                return f'({self.to_k(e.left)} / {self.to_k(e.right)})', 'k'
            if type(e.op) in BIN:
                l, r, ty = self.pair(e.left, e.right)
                if ty not in ('int', 'k'):
                    raise Untranslatable('arithmetic on ' + ty)
                return f'({l} {BIN[type(e.op)]} {r})', ty
            raise Untranslatable('operator in ' + key)
        if isinstance(e, ast.UnaryOp):
            if isinstance(e.op, ast.Not):
                return f'(!{self.boolean(e.operand)})', 'bool'
            if isinstance(e.op, ast.UAdd):
                t, ty = self.expr(e.operand)
                if ty not in ('int', 'k'): raise Untranslatable('unary + on ' + ty)
                return t, ty
            if isinstance(e.op, ast.USub):
                if isinstance(e.operand, ast.Constant) and isinstance(e.operand.value, int) and not isinstance(e.operand.value, bool):
                    return f'(-{e.operand.value} : Int)', 'int'
                t, ty = self.expr(e.operand)
                if ty != 'int': raise Untranslatable('unary - on ' + ty)
                return f'(-{t})', 'int'
            raise Untranslatable(key)
        if isinstance(e, ast.BoolOp):
            op = ' && ' if isinstance(e.op, ast.And) else ' || '
            return '(' + op.join(self.boolean(v) for v in e.values) + ')', 'bool'
        if isinstance(e, ast.Compare):
            parts, left = [], e.left
            for o, right in zip(e.ops, e.comparators):
                if isinstance(o, (ast.In, ast.NotIn)):
                    if not isinstance(right, (ast.Tuple, ast.List, ast.Set)):
                        raise Untranslatable('in non-literal')
                    alts = []
                    for el in right.elts:
                        l, r, ty = self.pair(left, el)
                        if ty not in ('int', 'k'): raise Untranslatable('membership on ' + ty)
                        alts.append(f'decide ({l} = {r})')
                    t = '(' + ' || '.join(alts) + ')' if alts else 'false'
                    parts.append(t if isinstance(o, ast.In) else f'(!{t})')
                elif type(o) in CMP:
                    l, r, ty = self.pair(left, right)
                    if ty == 'bool' and isinstance(o, (ast.Eq, ast.NotEq)):
                        parts.append(f'({l} == {r})' if isinstance(o, ast.Eq) else f'({l} != {r})')
                    elif ty in ('int', 'k', 'nat'):
                        if ty == 'k' and isinstance(o, (ast.LtE, ast.GtE)):
                            # only `<` and `=` are assumed of K:  a ≤ b  ≡  not (b < a)
                            a, b = (l, r) if isinstance(o, ast.LtE) else (r, l)
                            parts.append(f'(!decide ({b} < {a}))')
                        elif ty == 'k' and isinstance(o, ast.Gt):
                            parts.append(f'decide ({r} < {l})')
                        else:
                            parts.append(f'decide ({l} {CMP[type(o)]} {r})')
                    else:
                        raise Untranslatable('comparison on ' + ty)
                else:
                    raise Untranslatable('comparison ' + key)
                left = right
            return ('(' + ' && '.join(parts) + ')' if len(parts) > 1 else parts[0]), 'bool'
        if isinstance(e, ast.IfExp):
            c = self.boolean(e.test)
            a, b, ty = self.pair(e.body, e.orelse)
            return f'(if {c} then {a} else {b})', ty
        if isinstance(e, ast.Tuple):
            parts = [self.expr(x) for x in e.elts]
            return '(' + ', '.join(p for p, _ in parts) + ')', ('tuple',) + tuple(t for _, t in parts)
        if isinstance(e, ast.List) and not e.elts:
            return '[]', 'klist'
        if isinstance(e, ast.Call):
            fn = ast.unparse(e.func)
            if e.keywords:
                raise Untranslatable('keyword arguments: ' + key)
            if fn == 'abs' and len(e.args) == 1:
                t, ty = self.expr(e.args[0])
                if ty == 'k': return f'(abs {t})', 'k'
                if ty == 'int': return f'((Int.natAbs {t} : Nat) : Int)', 'int'
                raise Untranslatable('abs of ' + ty)
            if fn in ('min', 'max') and len(e.args) == 2:
                l, r, ty = self.pair(e.args[0], e.args[1])
                if ty != 'int': raise Untranslatable(fn + ' on ' + ty)     # K has no order-lattice operations
                return f'({fn} {l} {r})', 'int'
            call = self.fn.method_value(e, self)
            if call is not None:
                return call
            raise Untranslatable('call ' + key)
        raise Untranslatable(type(e).__name__ + ': ' + key[:80])

    def special(self, e):
        return None

    def boolean(self, e):
        t, ty = self.expr(e)
        if ty != 'bool':
            raise Untranslatable(f'truth value of {ty}: ' + ast.unparse(e))
        return t


LITS = {'(': '.lparen', ')': '.rparen', 'e': '.e'}


class FmtEx(Ex):
    """+ decimal formatting of opaque floats (see the module docstring)"""

    def sci_split(self, e):
        if not (isinstance(e, ast.Call) and isinstance(e.func, ast.Attribute) and e.func.attr == 'split'
                and len(e.args) == 1 and not e.keywords and isinstance(e.args[0], ast.Constant) and e.args[0].value == 'e'
                and isinstance(e.func.value, ast.JoinedStr) and len(e.func.value.values) == 1):
            return None
        fv = e.func.value.values[0]
        if not (isinstance(fv, ast.FormattedValue) and fv.conversion == -1 and isinstance(fv.format_spec, ast.JoinedStr)
                and len(fv.format_spec.values) == 1 and isinstance(fv.format_spec.values[0], ast.Constant)):
            return None
        spec = fv.format_spec.values[0].value
        if spec == 'e':
            p = 6
        elif len(spec) >= 3 and spec[0] == '.' and spec[-1] == 'e' and spec[1:-1].isdigit():
            p = int(spec[1:-1])
        else:
            return None
        t, ty = self.expr(fv.value)
        if ty != 'flt':
            raise Untranslatable('scientific format of ' + ty)
        return f'(sciSplit {t} {p})', ('tuple', 'ms', 'es')

    def pow10(self, e):
        if isinstance(e, ast.BinOp) and isinstance(e.op, ast.Pow) and isinstance(e.left, ast.Constant) and e.left.value == 10 \
                and isinstance(e.left.value, int):
            t, ty = self.expr(e.right)
            if ty == 'int':
                return t
        return None

    def special(self, e):
        s = self.sci_split(e)
        if s is not None:
            return s
        if isinstance(e, ast.Subscript) and isinstance(e.slice, ast.Constant) and e.slice.value in (0, 1):
            s = self.sci_split(e.value)
            if s is not None:
                return (f'{s[0]}.2', 'es') if e.slice.value == 1 else (f'{s[0]}.1', 'ms')
        if isinstance(e, ast.Call) and isinstance(e.func, ast.Name) and e.func.id == 'int' and len(e.args) == 1 and not e.keywords:
            t, ty = self.expr(e.args[0])
            if ty == 'es': return f'(intOf {t})', 'int'
            if ty == 'int': return t, 'int'
            raise Untranslatable('int() of ' + str(ty))
        if isinstance(e, ast.Call) and isinstance(e.func, ast.Attribute) and e.func.attr == 'replace' and len(e.args) == 2 \
                and not e.keywords and all(isinstance(a, ast.Constant) for a in e.args) \
                and [a.value for a in e.args] == ['.', '']:
            t, ty = self.expr(e.func.value)
            if ty == 'ms': return f'(dropDot {t})', 'mant'
            raise Untranslatable('replace on ' + str(ty))
        if isinstance(e, ast.Compare) and len(e.ops) == 1 and isinstance(e.ops[0], (ast.Lt, ast.Gt)):
            a, b = (e.left, e.comparators[0]) if isinstance(e.ops[0], ast.Lt) else (e.comparators[0], e.left)
            # a < abs(b / n)
            if isinstance(b, ast.Call) and ast.unparse(b.func) == 'abs' and len(b.args) == 1 and isinstance(b.args[0], ast.BinOp) \
                    and isinstance(b.args[0].op, ast.Div) and isinstance(b.args[0].right, ast.Constant) \
                    and isinstance(b.args[0].right.value, int) and not isinstance(b.args[0].right.value, bool):
                ta, tya = self.expr(a)
                tb, tyb = self.expr(b.args[0].left)
                if tya == 'flt' and tyb == 'flt':
                    return f'(ltAbsDiv {ta} {tb} ({b.args[0].right.value} : Int))', 'bool'
        if isinstance(e, ast.BinOp) and isinstance(e.op, ast.Div):
            outer = self.pow10(e.right)
            if outer is not None:
                if isinstance(e.left, ast.BinOp) and isinstance(e.left.op, ast.Div):
                    inner = self.pow10(e.left.right)
                    if inner is not None:
                        t, ty = self.expr(e.left.left)
                        if ty == 'flt':
                            return f'(scale {t} {inner} {outer})', 'flt'
                t, ty = self.expr(e.left)
                if ty == 'flt':
                    return f'(scale {t} {outer} (0 : Int))', 'flt'
            raise Untranslatable('float division ' + ast.unparse(e))
        if isinstance(e, ast.Constant) and isinstance(e.value, str):
            return self.pieces([e]), 'pieces'
        if isinstance(e, ast.JoinedStr):
            return self.pieces(e.values), 'pieces'
        return None

    def pieces(self, values):
        groups, cur = [], []

        def flush():
            if cur:
                groups.append('[' + ', '.join(cur) + ']')
                cur.clear()
        for v in values:
            if isinstance(v, ast.Constant) and isinstance(v.value, str):
                if v.value == '':
                    continue
                cur.append('.lit ' + (LITS[v.value] if v.value in LITS else f'(.other {lean_str(v.value)})'))
                continue
            if not (isinstance(v, ast.FormattedValue) and v.conversion == -1):
                raise Untranslatable('f-string part')
            t, ty = self.expr(v.value)
            spec = v.format_spec
            if ty == 'pieces' and spec is None:
                flush(); groups.append(t)
            elif ty == 'mant' and spec is None:
                cur.append(f'.str {t}')
            elif ty == 'int' and isinstance(spec, ast.JoinedStr) and len(spec.values) == 1 \
                    and isinstance(spec.values[0], ast.Constant) and spec.values[0].value == '+03d':
                cur.append(f'.intP03 {t}')
            elif ty == 'flt' and isinstance(spec, ast.JoinedStr):
                sv = spec.values
                if len(sv) == 3 and isinstance(sv[0], ast.Constant) and sv[0].value == '.' \
                        and isinstance(sv[1], ast.FormattedValue) and sv[1].conversion == -1 and sv[1].format_spec is None \
                        and isinstance(sv[2], ast.Constant) and sv[2].value == 'f':
                    d, dty = self.expr(sv[1].value)
                    if dty != 'int': raise Untranslatable('digit count of type ' + str(dty))
                    cur.append(f'.fixed {t} {d}')
                elif len(sv) == 1 and isinstance(sv[0], ast.Constant) and sv[0].value[:1] == '.' and sv[0].value[-1:] == 'f' \
                        and sv[0].value[1:-1].isdigit():
                    cur.append(f'.fixed {t} ({int(sv[0].value[1:-1])} : Int)')
                else:
                    raise Untranslatable('float format spec')
            else:
                raise Untranslatable(f'f-string value of type {ty}')
        flush()
        if not groups:
            return '([] : List (Gen.Piece F M))'
        return '(' + ' ++ '.join(groups) + ')'


class Method:
    """a translated sibling method: how it is called"""

    def __init__(self, lean, prefix, state, args=(), ret=None, updates=None):
        self.lean, self.prefix = lean, prefix            # generated name; leading arguments (e.g. 'abs sqrt inf')
        self.state = list(state)                         # attribute names handed over, in order
        self.args, self.ret = list(args), ret            # types of the explicit arguments; type of the value (None = statement)
        self.updates = updates                           # attribute names the call rebinds (statement methods)


class Fn:
    """statement translator for one function

    env        python text -> (lean name, type): parameters, attributes
    objects    {python name: class key}: names that denote an object whose attributes `name.attr` are state in env
    methods    {class key: {method name: Method}}
    stream     {python function name: lean stream name}: calls return the next element of the stream ('$calls' counts)
    skip       predicate on statements to ignore
    ret        fn(self, env, value_node | None) -> lean term for `return`
    ex         expression translator class
    """
    MAX_NODES = 600

    def __init__(self, env, objects=None, methods=None, stream=None, skip=None, ret=None, ex=Ex, classes=None):
        self.env0 = dict(env)
        self.objects, self.methods = dict(objects or {}), methods or {}
        self.stream, self.skip, self.ret_fn, self.ex = stream or {}, skip, ret, ex
        self.classes = classes or {}          # {python class name: (class key, [(attr, lean name, type)], init lean term)}
        self.nodes = 0
        self.loop = None                      # (state keys) while inside a forCount body

    # ---------------------------------------------------------------- objects
    def obj_of(self, node):
        """(python prefix, class key) if node is a known object"""
        key = ast.unparse(node)
        if key in self.objects:
            return key, self.objects[key]
        return None

    def state_terms(self, prefix, m, env):
        out = []
        for a in m.state:
            k = f'{prefix}.{a}'
            if k not in env: raise Untranslatable('state ' + k)
            out.append(env[k][0])
        return out

    def prop_read(self, e, env):
        if isinstance(e, ast.Attribute):
            o = self.obj_of(e.value)
            if o is not None:
                m = self.methods.get(o[1], {}).get(e.attr)
                if m is not None and m.ret is not None and not m.args and getattr(m, 'is_prop', True):
                    args = ' '.join(([m.prefix] if m.prefix else []) + self.state_terms(o[0], m, env))
                    return f'({m.lean} {args})', m.ret
        return None

    def method_value(self, call, ex):
        if isinstance(call.func, ast.Attribute):
            o = self.obj_of(call.func.value)
            if o is not None:
                m = self.methods.get(o[1], {}).get(call.func.attr)
                if m is not None and m.ret is not None and len(call.args) == len(m.args):
                    args = ([m.prefix] if m.prefix else []) + self.state_terms(o[0], m, ex.env)
                    for a, ty in zip(call.args, m.args):
                        if ty == 'k':
                            args.append(ex.to_k(a))
                        else:
                            t, aty = ex.expr(a)
                            if aty != ty: raise Untranslatable('argument type')
                            args.append(t)
                    return f'({m.lean} {" ".join(args)})', m.ret
        return None

    # ---------------------------------------------------------------- helpers
    def bind(self, env, key, term, ty):
        env2 = dict(env)
        if key in env and env[key][1] not in ('count', 'obj'):
            name, dty = env[key]
            declared = key in self.env0 or '.' in key
            if declared and dty != ty:
                raise Untranslatable(f'assignment changes the type of {key}: {dty} := {ty}')
            name = name.split(' ')[0].strip('()')
            if not name.replace("'", '').replace('_', '').isalnum():
                name = lean_name(key.split('.')[-1])
        else:
            if not key.isidentifier():
                raise Untranslatable('assignment to undeclared ' + key)
            name = lean_name(key)
        env2[key] = (name, ty)
        lty = LEAN_TY.get(ty) if isinstance(ty, str) else None
        ann = f' : {lty}' if lty else ''
        return env2, f'let {name}{ann} := {term}'

    def value(self, env, key, node):
        """translate the right-hand side for an assignment to `key`"""
        ex = self.ex(env, self)
        if key in env and env[key][1] == 'k':
            return ex.to_k(node), 'k'
        return ex.expr(node)

    def assigned(self, stmts):
        """python keys (re)bound somewhere in stmts, incl. through declared method calls / appends / stream calls"""
        out = []

        def add(k):
            if k not in out: out.append(k)
        for st in stmts:
            for n in ast.walk(st):
                if isinstance(n, ast.Assign):
                    for t in n.targets:
                        for x in (t.elts if isinstance(t, ast.Tuple) else [t]): add(ast.unparse(x))
                elif isinstance(n, ast.AugAssign):
                    add(ast.unparse(n.target))
                elif isinstance(n, ast.Call) and isinstance(n.func, ast.Attribute):
                    o = self.obj_of(n.func.value)
                    if o is not None:
                        m = self.methods.get(o[1], {}).get(n.func.attr)
                        if m is not None and m.updates:
                            for a in m.updates: add(f'{o[0]}.{a}')
                    if n.func.attr == 'append':
                        add(ast.unparse(n.func.value))
                elif isinstance(n, ast.Call) and ast.unparse(n.func) in self.stream:
                    add('$calls')
        return out

    # ---------------------------------------------------------------- statements
    def block(self, stmts, env, ind, end):
        self.nodes += 1
        if self.nodes > self.MAX_NODES:
            raise Untranslatable('function too large after branch duplication')
        if not stmts:
            return ind + end(env)
        s, rest = stmts[0], stmts[1:]
        if self.skip and self.skip(s):
            return self.block(rest, env, ind, end)
        if isinstance(s, ast.Pass) or (isinstance(s, ast.Expr) and isinstance(s.value, ast.Constant)):
            return self.block(rest, env, ind, end)
        if isinstance(s, ast.Return):
            if self.ret_fn is None:
                raise Untranslatable('return')
            return ind + self.ret_fn(self, env, s.value)
        if isinstance(s, ast.Break):
            if self.loop is None:
                raise Untranslatable('break outside the counted loop')
            return ind + self.loop_tuple(env, 'true')
        if isinstance(s, ast.Assign) and len(s.targets) == 1:
            tgt = s.targets[0]
            if isinstance(tgt, ast.Tuple):
                keys = [ast.unparse(t) for t in tgt.elts]
                ex = self.ex(env, self)
                if isinstance(s.value, ast.Tuple) and len(s.value.elts) == len(keys):
                    vals = [self.value(env, k, v) for k, v in zip(keys, s.value.elts)]
                    term, tys = '(' + ', '.join(t for t, _ in vals) + ')', [ty for _, ty in vals]
                else:
                    term, ty = ex.expr(s.value)
                    if not (isinstance(ty, tuple) and ty[0] == 'tuple' and len(ty) == len(keys) + 1):
                        raise Untranslatable('tuple assignment from ' + ast.unparse(s.value))
                    tys = list(ty[1:])
                e2, names = env, []
                for k, ty in zip(keys, tys):
                    e2, ln = self.bind(e2, k, '?', ty)
                    names.append(e2[k][0])
                return f'{ind}let ({", ".join(names)}) := {term}\n' + self.block(rest, e2, ind, end)
            key = ast.unparse(tgt)
            # objects and counters
            v = s.value
            if isinstance(v, ast.Call) and not v.args and not v.keywords:
                fnm = ast.unparse(v.func)
                if fnm == 'itertools.count' and isinstance(tgt, ast.Name):
                    e2 = dict(env); e2[key] = ('', 'count')
                    return self.block(rest, e2, ind, end)
                if fnm in self.classes and isinstance(tgt, ast.Name):
                    ckey, attrs, init = self.classes[fnm]
                    e2 = dict(env)
                    self.objects[key] = ckey
                    names = []
                    for a, nm, ty in attrs:
                        e2[f'{key}.{a}'] = (nm, ty); names.append(nm)
                    return f'{ind}let ({", ".join(names)}) := {init}\n' + self.block(rest, e2, ind, end)
            if isinstance(v, ast.Call) and ast.unparse(v.func) in self.stream:
                f = self.stream[ast.unparse(v.func)]
                c = env['$calls'][0]
                e2, ln = self.bind(env, key, f'{f} {c}', 'k')
                e3, ln2 = self.bind(e2, '$calls', f'{c} + 1', 'nat')
                return f'{ind}{ln}\n{ind}{ln2}\n' + self.block(rest, e3, ind, end)
            t, ty = self.value(env, key, v)
            e2, ln = self.bind(env, key, t, ty)
            return f'{ind}{ln}\n' + self.block(rest, e2, ind, end)
        if isinstance(s, ast.AugAssign):
            key = ast.unparse(s.target)
            t, ty = self.ex(env, self).expr(ast.BinOp(s.target, s.op, s.value))
            e2, ln = self.bind(env, key, t, ty)
            return f'{ind}{ln}\n' + self.block(rest, e2, ind, end)
        if isinstance(s, ast.Expr) and isinstance(s.value, ast.Call):
            c = s.value
            if isinstance(c.func, ast.Attribute):
                o = self.obj_of(c.func.value)
                if o is not None:
                    m = self.methods.get(o[1], {}).get(c.func.attr)
                    if m is not None and m.ret is None and m.updates and len(c.args) == len(m.args) and not c.keywords:
                        ex = self.ex(env, self)
                        args = ([m.prefix] if m.prefix else []) + self.state_terms(o[0], m, env)
                        for a, ty in zip(c.args, m.args):
                            if ty == 'k':
                                args.append(ex.to_k(a))
                            else:
                                t, aty = ex.expr(a)
                                if aty != ty: raise Untranslatable('argument type')
                                args.append(t)
                        e2, names = env, []
                        for a in m.updates:
                            k = f'{o[0]}.{a}'
                            e2, _ = self.bind(e2, k, '?', env[k][1])
                            names.append(e2[k][0])
                        pat = names[0] if len(names) == 1 else '(' + ', '.join(names) + ')'
                        return f'{ind}let {pat} := {m.lean} {" ".join(args)}\n' + self.block(rest, e2, ind, end)
                if c.func.attr == 'append' and len(c.args) == 1 and not c.keywords:
                    key = ast.unparse(c.func.value)
                    if key in env and env[key][1] == 'klist':
                        t = self.ex(env, self).to_k(c.args[0])
                        e2, ln = self.bind(env, key, f'({env[key][0]} ++ [{t}])', 'klist')
                        return f'{ind}{ln}\n' + self.block(rest, e2, ind, end)
            raise Untranslatable('call statement ' + ast.unparse(c)[:80])
        if isinstance(s, ast.If):
            j = self.join_if(s, rest, env, ind, end)
            if j is not None:
                return j
            c = self.ex(env, self).boolean(s.test)
            a = self.block(list(s.body) + rest, env, ind + '  ', end)
            b = self.block(list(s.orelse) + rest, env, ind + '  ', end)
            return f'{ind}if {c} then\n{a}\n{ind}else\n{b}'
        if isinstance(s, ast.Try):
            # try: body / except KeyboardInterrupt: pass / finally: <ignored statements>   ≡ body   (interrupts are not modelled)
            ok = not s.orelse and all(self.skip and self.skip(x) for x in s.finalbody)
            for h in s.handlers:
                if not (h.type is not None and ast.unparse(h.type) == 'KeyboardInterrupt'
                        and all(isinstance(x, ast.Pass) for x in h.body)):
                    ok = False
            if not ok:
                raise Untranslatable('try statement')
            return self.block(list(s.body) + rest, env, ind, end)
        if isinstance(s, ast.For) and not s.orelse:
            return self.for_loop(s, rest, env, ind, end)
        raise Untranslatable('statement ' + type(s).__name__ + ': ' + ast.unparse(s)[:80])

    def plain(self, block):
        for st in block:
            if isinstance(st, ast.Pass) or (isinstance(st, ast.Expr) and isinstance(st.value, ast.Constant)):
                continue
            if self.skip and self.skip(st):
                continue
            if isinstance(st, ast.Assign) and len(st.targets) == 1 and not isinstance(st.targets[0], ast.Tuple):
                if isinstance(st.value, ast.Call) and (ast.unparse(st.value.func) in self.stream
                                                       or ast.unparse(st.value.func) in self.classes
                                                       or ast.unparse(st.value.func) == 'itertools.count'):
                    return False
                continue
            if isinstance(st, ast.AugAssign):
                continue
            if isinstance(st, ast.Expr) and isinstance(st.value, ast.Call) and isinstance(st.value.func, ast.Attribute) \
                    and st.value.func.attr == 'append':
                continue
            return False
        return True

    def join_if(self, s, rest, env, ind, end):
        """`if` whose branches only assign names that exist before it:  let (x, y) := if c then (…; (x, y)) else (x, y)"""
        if not (self.plain(s.body) and self.plain(s.orelse)):
            return None
        keys = self.assigned(list(s.body) + list(s.orelse))
        if not keys or any(k not in env for k in keys):
            return None
        try:
            c = self.ex(env, self).boolean(s.test)
            outs = []
            for blk in (s.body, s.orelse):
                saved = self.loop
                res = {}

                def fin(e2, res=res):
                    res['env'] = e2
                    names = [e2[k][0] for k in keys]
                    return names[0] if len(names) == 1 else '(' + ', '.join(names) + ')'
                txt = self.block(list(blk), env, ind + '    ', fin)
                e2 = res['env']
                if any(e2[k][1] != env[k][1] for k in keys):
                    return None
                outs.append((txt, e2))
        except Untranslatable:
            return None
        e3 = dict(env)
        names = []
        for k in keys:
            e3, _ = self.bind(e3, k, '?', env[k][1])
            names.append(e3[k][0])
        # the names bound inside the branches must be the names bound after the join
        for _, e2 in outs:
            if [e2[k][0] for k in keys] != names:
                return None
        pat = names[0] if len(names) == 1 else '(' + ', '.join(names) + ')'
        return (f'{ind}let {pat} := if {c} then\n{outs[0][0]}\n{ind}  else\n{outs[1][0]}\n' + self.block(rest, e3, ind, end))

    # ---------------------------------------------------------------- loops
    def tuple_ty(self, tys):
        return ' × '.join(LEAN_TY[t] for t in tys)

    def proj(self, i, n, v='st'):
        if n == 1: return v
        return v + '.2' * i + ('.1' if i < n - 1 else '')

    def loop_tuple(self, env, flag):
        names = [env[k][0] for k in self.loop]
        t = names[0] if len(names) == 1 else '(' + ', '.join(names) + ')'
        return f'({t}, {flag})'

    def for_loop(self, s, rest, env, ind, end):
        it = s.iter
        keys = [k for k in self.assigned(s.body) if k in env and env[k][1] not in ('count', 'obj')]
        if not keys:
            raise Untranslatable('loop without state')
        tys = [env[k][1] for k in keys]
        if any(t not in LEAN_TY for t in tys):
            raise Untranslatable('loop state type')
        names = [env[k][0] for k in keys]
        tup = names[0] if len(names) == 1 else '(' + ', '.join(names) + ')'
        i2 = ind + '    '
        unpack = ''.join(f'{i2}let {n} : {LEAN_TY[t]} := {self.proj(j, len(keys))}\n' for j, (n, t) in enumerate(zip(names, tys)))

        def fin(e2):
            ns = [e2[k][0] for k in keys]
            return ns[0] if len(ns) == 1 else '(' + ', '.join(ns) + ')'
        # for i in <itertools.count()>
        if isinstance(it, ast.Name) and it.id in env and env[it.id][1] == 'count' and isinstance(s.target, ast.Name):
            if self.loop is not None or 'fuel' not in [v[0] for v in env.values()]:
                raise Untranslatable('counted loop')
            iv = lean_name(s.target.id)
            e_in = dict(env); e_in[s.target.id] = (iv, 'int')
            self.loop = keys
            try:
                body = self.block(list(s.body), e_in, i2, lambda e2: self.loop_tuple(e2, 'false'))
            finally:
                self.loop = None
            return (f'{ind}let {tup} := Gen.forCount (fun ({iv} : Int) (st : {self.tuple_ty(tys)}) =>\n{unpack}{body}) fuel (0 : Int) {tup}\n'
                    + self.block(rest, env, ind, end))
        if self.loop is not None:
            raise Untranslatable('nested loop')
        # for x in xs  /  for x, y in zip(xs, ys)
        e_in = dict(env)
        if isinstance(it, ast.Name) and it.id in env and env[it.id][1] == 'klist' and isinstance(s.target, ast.Name):
            xv = lean_name(s.target.id)
            e_in[s.target.id] = (xv, 'k')
            src, elt, bind = env[it.id][0], 'K', f'{i2}let {xv} : K := p\n'
        elif isinstance(it, ast.Call) and ast.unparse(it.func) == 'zip' and len(it.args) == 2 and not it.keywords \
                and all(isinstance(a, ast.Name) and a.id in env and env[a.id][1] == 'klist' for a in it.args) \
                and isinstance(s.target, ast.Tuple) and len(s.target.elts) == 2 and all(isinstance(t, ast.Name) for t in s.target.elts):
            xv, yv = (lean_name(t.id) for t in s.target.elts)
            e_in[s.target.elts[0].id] = (xv, 'k'); e_in[s.target.elts[1].id] = (yv, 'k')
            src = f'({env[it.args[0].id][0]}.zip {env[it.args[1].id][0]})'
            elt, bind = 'K × K', f'{i2}let {xv} : K := p.1\n{i2}let {yv} : K := p.2\n'
        else:
            raise Untranslatable('loop over ' + ast.unparse(it))
        if any(isinstance(n, (ast.Break, ast.Continue, ast.Return)) for st in s.body for n in ast.walk(st)):
            raise Untranslatable('break / continue / return in a fold')
        body = self.block(list(s.body), e_in, i2, fin)
        return (f'{ind}let {tup} := {src}.foldl (fun (st : {self.tuple_ty(tys)}) (p : {elt}) =>\n{unpack}{bind}{body}) {tup}\n'
                + self.block(rest, env, ind, end))


def translate_body(fn, body, end, ind='  '):
    return '\n' + fn.block(list(body), dict(fn.env0), ind, end)
