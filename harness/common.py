"""Helpers shared by the property modules."""
import os, sys, random, tempfile, shutil, itertools, json, math, contextlib, io

_SCRATCH = None


_SCRATCH_LOCK = __import__('threading').Lock()
_SCRATCH_ALL = []


def scratch_root():
    """per-process scratch directory outside /repo and /verif, removed at exit"""
    global _SCRATCH
    with _SCRATCH_LOCK:
        if _SCRATCH is None or not os.path.isdir(_SCRATCH):
            _SCRATCH = tempfile.mkdtemp(prefix='xyzv-')
            _SCRATCH_ALL.append(_SCRATCH)
            import atexit
            atexit.register(lambda d=_SCRATCH: shutil.rmtree(d, ignore_errors=True))
        return _SCRATCH


def cleanup_scratch():
    """remove this process's scratch directory now (the entry script leaves through os._exit, which skips atexit)"""
    global _SCRATCH
    with _SCRATCH_LOCK:
        for d in _SCRATCH_ALL:
            shutil.rmtree(d, ignore_errors=True)
        del _SCRATCH_ALL[:]
        _SCRATCH = None


def fresh_dir(prefix='c'):
    """An empty scratch directory.  Path names are REUSED (the lowest free `<prefix>-<k>`): consecutive cases of a check
    then run under the same path and crop name, so anything the library keeps per path or name across calls within
    one process (a cache that is never invalidated) meets a different crop the next time."""
    root = scratch_root()
    for k in range(10000):
        d = os.path.join(root, f'{prefix}-{k}')
        try:
            os.mkdir(d)
            return d
        except FileExistsError:
            continue
    return tempfile.mkdtemp(prefix=prefix, dir=root)


def rm(path):
    shutil.rmtree(path, ignore_errors=True)


def perm(seed, n):
    """the permutation random.shuffle produces for (seed, n): position j of the shuffled list holds original index perm[j]"""
    st = random.getstate()
    try:
        random.seed(int(seed))
        l = list(range(n))
        random.shuffle(l)
    finally:
        random.setstate(st)
    return l


def factor_shape(n, rng, maxdims=3):
    """a grid shape (tuple of ints ≥ 1) with product n"""
    shape = []
    m = n
    while m > 1 and len(shape) < maxdims - 1:
        divs = [d for d in range(2, m + 1) if m % d == 0]
        d = rng.choice(divs)
        if d == m: break
        shape.append(d); m //= d
    shape.append(m)
    rng.shuffle(shape)
    return tuple(shape)


ARG_NAMES = ['b', 'alpha', 'd', 'cc', 'e']      # deliberately not in sorted order; some longer than one character (a name taken for a sequence of letters must show)


def make_values(rng, k, kind=None):
    """k distinct argument values of one kind, in random (unsorted) order"""
    kind = kind or rng.choice(['int', 'float', 'str'])
    if kind == 'mixed':
        # ints, non-integral floats and strings in one list (no two equal under ==)
        pool = ([i for i in range(-5, 40)] + [x / 4 for x in range(-19, 160) if x % 4] +
                ['p', 'q', 'r', 's', 'tt', 'u', 'vv', 'w'])
        vals = rng.sample(pool, k)
    elif kind == 'numix':
        # ints and non-integral floats in one list: they compare fine with each other (a sorted union is well defined)
        vals = rng.sample([i for i in range(-5, 40)] + [x / 4 for x in range(-19, 160) if x % 4], k)
        if k >= 2 and all(isinstance(v, int) for v in vals): vals[0] = vals[0] + 0.5
        if k >= 2 and all(isinstance(v, float) for v in vals): vals[0] = int(vals[0] // 1) - 50
    elif kind == 'int':
        vals = rng.sample(range(-5, 40 + 2 * k), k)
    elif kind == 'float':
        vals = [x / 4 for x in rng.sample(range(-20, 80 + 2 * k), k)]
    else:
        pool = ['p', 'q', 'r', 's', 'tt', 'u', 'vv', 'w', 'x', 'y', 'zz', 'A', 'B'] + ['n%d' % i for i in range(k)]
        vals = rng.sample(pool, k)
    return vals


@contextlib.contextmanager
def quiet():
    """swallow prints of the library (grow prints progress)"""
    old, olde = sys.stdout, sys.stderr
    sys.stdout = io.StringIO(); sys.stderr = io.StringIO()
    try:
        yield
    finally:
        sys.stdout, sys.stderr = old, olde


def kwkey(kw):
    """hashable canonical key of a kwargs dict"""
    return tuple(sorted((k, repr(v)) for k, v in kw.items()))


def canon(x):
    """JSON-able canonical form of a (nested) python/numpy value: floats by repr, NaN -> 'nan', None -> None"""
    import numpy as np
    if x is None: return None
    if isinstance(x, (bool, np.bool_)): return bool(x)
    if isinstance(x, (int, np.integer)): return int(x)
    if isinstance(x, (float, np.floating)):
        if math.isnan(x): return 'nan'
        if x == int(x) and abs(x) < 2 ** 53: return int(x)
        return repr(float(x))
    if isinstance(x, str): return x
    if isinstance(x, (tuple, list)): return [canon(v) for v in x]
    if isinstance(x, np.ndarray):
        return canon(x.tolist())
    if isinstance(x, dict): return {str(k): canon(v) for k, v in sorted(x.items(), key=lambda kv: str(kv[0]))}
    return repr(x)
