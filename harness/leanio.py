"""Lean side of a check: regenerate Extracted.lean, build, audit axioms, drive the model."""
import os, re, json, subprocess, fcntl, time, shutil
import extract

HERE = os.path.dirname(os.path.abspath(__file__))
VERIF = os.path.dirname(HERE)
LEAN = os.path.join(VERIF, 'lean')
ALLOWED_AXIOMS = {'propext', 'Classical.choice', 'Quot.sound'}
FORBIDDEN = re.compile(r'\b(sorry|admit|native_decide|bv_decide|implemented_by|unsafe)\b|^\s*axiom\s|maxHeartbeats\s+0\b')


class Lock:
    """Exclusive while Extracted.lean is regenerated and the Lean targets are built, then *shared* until the process
    exits: checks of the same tree run in parallel, a check of another tree (which would regenerate Extracted.lean and
    rebuild the driver) waits until the running ones are done."""
    _held = None

    def __enter__(self):
        if Lock._held is None:
            Lock._held = open(os.path.join(LEAN, '.buildlock'), 'w')
        fcntl.flock(Lock._held, fcntl.LOCK_EX)
        return self

    def __exit__(self, *a):
        fcntl.flock(Lock._held, fcntl.LOCK_SH)      # keep a shared lock for the rest of this run


def lake(args, timeout=1500):
    p = subprocess.run(['lake'] + args, cwd=LEAN, capture_output=True, text=True, timeout=timeout)
    return p.returncode, p.stdout + p.stderr


def build(targets):
    """returns (ok, log)"""
    rc, out = lake(['build'] + list(targets))
    return rc == 0, out


def extract_and_build(prop_modules):
    """Regenerate Gen/Extracted.lean from the repository, falling back per anchor if it does not elaborate,
    then build the model, the driver and the property's proof modules.
    returns dict(extraction=..., model_ok, proofs_ok, log, failing=[(file, line, msg)])"""
    with Lock():
        text, status = extract.generate()
        extract.write(text)
        ok, log = build(['XyzModel.Gen.Extracted'])
        if not ok:
            bad = set()
            lines = text.split('\n')
            for m in re.finditer(r'Extracted\.lean:(\d+):\d+', log):
                ln = int(m.group(1)) - 1
                while 0 <= ln < len(lines):          # function-level anchors span several lines: nearest `def` above
                    mm = re.match(r'def (\w+)', lines[ln])
                    if mm:
                        bad.add(mm.group(1)); break
                    ln -= 1
            if not bad:
                bad = {n for n, _, _ in extract.ANCHORS}
            text, status = extract.generate(force_fallback=bad)
            extract.write(text)
            ok, log = build(['XyzModel.Gen.Extracted'])
            if not ok:
                text, status = extract.generate(force_fallback={n for n, _, _ in extract.ANCHORS})
                extract.write(text)
        model_ok, mlog = build(['XyzModel', 'xyzdrv'])
        proofs_ok, plog = build(list(prop_modules)) if model_ok else (False, mlog)
        failing = []
        for m in re.finditer(r'error: (\S+\.lean):(\d+):(\d+): (.*)', plog if model_ok else mlog):
            failing.append((m.group(1), int(m.group(2)), m.group(4)[:200]))
        return dict(extraction=status, model_ok=model_ok, proofs_ok=proofs_ok, log=(mlog + plog)[-6000:], failing=failing)


def decl_at(path, line):
    """name of the theorem/def whose body contains `line` in a Lean source file"""
    try:
        src = open(os.path.join(LEAN, path)).read().split('\n')
    except OSError:
        return None
    name = None
    for i, l in enumerate(src[:line], 1):
        m = re.match(r'\s*(?:private\s+|protected\s+)?(?:theorem|lemma|def|example|instance)\s+([\w\.\']+)?', l)
        if m: name = m.group(1) or f'example@{i}'
    return name


def source_audit():
    """grep the Lean sources (outside comments) for forbidden constructs"""
    hits = []
    for root, _, files in os.walk(LEAN):
        if '.lake' in root: continue
        for fn in files:
            if not fn.endswith('.lean'): continue
            p = os.path.join(root, fn)
            src = open(p).read()
            src = re.sub(r'/-.*?-/', lambda m: '\n' * m.group(0).count('\n'), src, flags=re.S)
            for i, l in enumerate(src.split('\n'), 1):
                l = l.split('--')[0]
                if FORBIDDEN.search(l):
                    hits.append(f'{os.path.relpath(p, LEAN)}:{i}: {l.strip()[:100]}')
    return hits


def axiom_audit(prop, modules, theorems):
    """#print axioms for every registered theorem; returns {name: {'ok': bool, 'axioms': [...]}}"""
    d = os.path.join(LEAN, '.audit')
    os.makedirs(d, exist_ok=True)
    f = os.path.join(d, f'Audit{prop}_{os.getpid()}.lean')
    with open(f, 'w') as fh:
        for m in modules: fh.write(f'import {m}\n')
        for t in theorems: fh.write(f'#print axioms {t}\n')
    try:
        p = subprocess.run(['lake', 'env', 'lean', f], cwd=LEAN, capture_output=True, text=True, timeout=900)
    finally:
        try: os.remove(f)
        except OSError: pass
    out = p.stdout + p.stderr
    res = {}
    for t in theorems:
        m = re.search(r"'" + re.escape(t) + r"' depends on axioms: \[([^\]]*)\]", out, flags=re.S)
        if m:
            ax = [a.strip() for a in m.group(1).replace('\n', ' ').split(',') if a.strip()]
            res[t] = {'ok': set(ax) <= ALLOWED_AXIOMS, 'axioms': ax}
        elif re.search(r"'" + re.escape(t) + r"' does not depend on any axioms", out):
            res[t] = {'ok': True, 'axioms': []}
        else:
            res[t] = {'ok': False, 'axioms': None, 'why': 'not found / did not build'}
    return res


def leanchecker(modules, timeout=1800):
    """independent re-check of the compiled .olean files of the given modules (thorough tier)"""
    try:
        p = subprocess.run(['lake', 'env', 'leanchecker'] + list(modules), cwd=LEAN, capture_output=True, text=True, timeout=timeout)
    except subprocess.TimeoutExpired:
        return None, 'timeout'
    return p.returncode == 0, (p.stdout + p.stderr)[-500:]


def drive(requests, timeout=1200):
    """send JSON requests (one per line) to the model driver, return list of replies (parsed)"""
    exe = os.path.join(LEAN, '.lake', 'build', 'bin', 'xyzdrv')
    inp = '\n'.join(json.dumps(r, separators=(',', ':')) for r in requests) + '\n'
    if os.path.exists(exe):
        cmd = [exe]
    else:
        cmd = ['lake', 'env', 'lean', '--run', 'Driver.lean']
    p = subprocess.run(cmd, cwd=LEAN, input=inp, capture_output=True, text=True, timeout=timeout)
    lines = [l for l in p.stdout.split('\n') if l.strip()]
    if len(lines) != len(requests):
        raise RuntimeError(f'driver returned {len(lines)} lines for {len(requests)} requests; stderr: {p.stderr[-500:]}')
    return [json.loads(l) for l in lines]
