"""infiniplot's ORDER-AND-INDEX logic (C18), translated from the source on every run (xyzpy/plot/infiniplot.py).

1. `Infiniplotter.init_mapped_dim` -> STATE skeleton `Gen.infInitMapped` over `Gen.MapOps S`
   (lean/XyzModel/Gen/DefaultInfini.lean): in which order the working dataset is fused / ordered (`sel`) / stripped of
   its all-NaN coordinates (`dropna`) and when the domain, the size and the style values of the property are recorded.
   The local `dim` is followed symbolically (`.raw` = the attribute as given, `.fused` = `", ".join(dim)`); an `if` is
   translated by continuing the rest of the body in both branches.  Statements that only touch labels / tick labels are
   declared irrelevant (they may read, never write, the tracked attributes).
2. the loop of `Infiniplotter.plot_lines` -> `Gen.infIter` (which product is iterated, in which order), `Gen.infRanges`
   (`self.ranges`) and `Gen.infLineIdx`: a symbolic evaluation of the loop body that follows `loc`, every index read from
   it (`loc[self.row]`, `loc[dim]` …) and records, in order, which index selects the axes (`self.axs[i, j]`), which index
   is used into `self.values[prop]` / `self.domains[prop]` / the colour sequence, and what `self.ds.isel` receives.
   `for prop in (<literal names>)` is unrolled.  An `if` on `self.<attr> is (not) None` becomes a conditional; any other
   `if` must not change a followed variable and both branches must use the same indices, or the anchor falls back.
3. the histogram re-binning call -> `Gen.infHistCall`: what is handed to `np.histogram` (data, bins, density) and which
   component of its result is kept.

4. the `self.init_mapped_dim(<prop>, …)` statements of `__init__` -> `Gen.infInitCalls`: the order in which the
   properties are initialised and the kind of default style values each gets.

Anything not understood raises NotFound / Untranslatable and the anchor falls back to `Gen.Default.<name>`.
"""
import ast
from pyexpr2lean import Untranslatable, lean_str

FILES = {'infiniplot': 'xyzpy/plot/infiniplot.py'}


class NotFound(ValueError):
    pass


def _u(e): return ast.unparse(e)


def _find(node, path):
    for name in path:
        for n in ast.walk(node):
            if isinstance(n, (ast.FunctionDef, ast.ClassDef)) and n.name == name and n is not node:
                node = n
                break
        else:
            raise NotFound('/'.join(path))
    return node


def _is_doc(s): return isinstance(s, ast.Expr) and isinstance(s.value, ast.Constant)


# ===================================================================================== 1. init_mapped_dim
_TRACKED_ATTRS = ('self.ds', 'self.mapped', 'self.domains', 'self.sizes', 'self.values', 'self.base_style')
_TRACKED_LOCALS = {'dim', 'new_dim', 'order', 'custom_values', 'default_values', 'name'}
_PURE_CALLS = {'_make_bold', 'dict', 'zip', 'isinstance', 'getattr', 'len', 'list', 'tuple', 'str'}


class _Map:
    def __init__(self, f):
        a = f.args
        names = [x.arg for x in a.args]
        if names != ['self', 'name', 'custom_values', 'default_values'] or a.vararg or a.kwarg or a.kwonlyargs:
            raise Untranslatable('init_mapped_dim: signature ' + repr(names))

    # ---------------------------------------------------------------- tests
    def test(self, e, env):
        if isinstance(e, ast.BoolOp):
            t = _u(e)
            if t == 'self.is_heatmap and name in _HEATMAP_INVALID_KWARGS': return 'o.heatInvalid'
            op = ' && ' if isinstance(e.op, ast.And) else ' || '
            return '(' + op.join(self.test(v, env) for v in e.values) + ')'
        if isinstance(e, ast.UnaryOp) and isinstance(e.op, ast.Not):
            return f'(!{self.test(e.operand, env)})'
        t = _u(e)
        d = env.get('dim')
        table = {
            'isinstance(dim, tuple)': ('o.isFused', 'raw'),
            'dim is not None': (f'(!(o.dimIsNone .{d}))', None),
            'dim is None': (f'(o.dimIsNone .{d})', None),
            'dim not in self.ds.dims': (f'(!(o.hasDim st .{d}))', None),
            'dim in self.ds.dims': (f'(o.hasDim st .{d})', None),
            'new_dim in self.ds.dims': ('(o.hasDim st .fused)', 'new'),
            'new_dim not in self.ds.dims': ('(!(o.hasDim st .fused))', 'new'),
            'all((x in self.ds.dims for x in dim))': ('(o.hasParts st)', 'raw'),
            'order is not None': ('o.orderGiven', 'order'),
            'order is None': ('(!o.orderGiven)', 'order'),
            'custom_values is None': ('(!o.customGiven)', None),
            'custom_values is not None': ('o.customGiven', None),
            'default_values is not None': ('o.defaultGiven', None),
            'default_values is None': ('(!o.defaultGiven)', None),
            'callable(default_values)': ('o.defaultCallable', None),
        }
        if t not in table: raise Untranslatable('test not understood: ' + t[:70])
        term, need = table[t]
        if d is None: raise Untranslatable('`dim` is not bound yet')
        if need == 'raw' and d != 'raw': raise Untranslatable(t + ' after `dim` was renamed')
        if need == 'new' and not env.get('new'): raise Untranslatable('new_dim is not ", ".join(dim)')
        if need == 'order' and not env.get('order'): raise Untranslatable('order is not the <name>_order attribute')
        return term

    # ---------------------------------------------------------------- statements
    def irrelevant(self, s):
        """may be dropped: writes only labels / tick labels / untracked locals, calls only pure helpers"""
        if isinstance(s, ast.If):
            return self._pure(s.test) and all(self.irrelevant(b) for b in s.body + s.orelse)
        if isinstance(s, ast.Pass) or _is_doc(s): return True
        if not isinstance(s, ast.Assign): return False
        for t in s.targets:
            if isinstance(t, ast.Name):
                if t.id in _TRACKED_LOCALS: return False
            elif isinstance(t, ast.Subscript) and _u(t.value) in ('self.labels', 'self.ticklabels'):
                if not self._pure(t.slice): return False
            else:
                return False
        return self._pure(s.value)

    def _pure(self, e):
        for n in ast.walk(e):
            if isinstance(n, ast.Call):
                if not (isinstance(n.func, ast.Name) and n.func.id in _PURE_CALLS): return False
            elif isinstance(n, (ast.Lambda, ast.NamedExpr, ast.Await, ast.Yield, ast.YieldFrom)):
                return False
        return True

    def step(self, s, env):
        """one recognised statement -> (lean line or None, new env); None if not recognised"""
        t = _u(s)
        d = env.get('dim')
        if t == 'dim = getattr(self, name)' and d is None:
            return '', dict(env, dim='raw')
        if t == 'dim = tuple(dim)' and d == 'raw':
            return '', env
        if t == "new_dim = ', '.join(dim)" and d == 'raw':
            return '', dict(env, new=True)
        if t == 'dim = new_dim' and env.get('new'):
            return '', dict(env, dim='fused')
        if t == "order = getattr(self, f'{name}_order')":
            return '', dict(env, order=True)
        if t in ("dim_label = getattr(self, f'{name}_label')", "dim_ticklabels = getattr(self, f'{name}_ticklabels')"):
            return '', env
        if d is None: return None
        ops = {
            'self.ds = self.ds.stack({new_dim: dim})': ('o.stack st', 'stack'),
            'self.ds = self.ds.sel({dim: list(order)})': (f'o.sel st .{d}', 'order'),
            'self.ds = self.ds.sel({dim: order})': (f'o.sel st .{d}', 'order'),
            'self.mapped.add(dim)': (f'o.markMapped st .{d}', None),
            "self.ds = self.ds.dropna(dim, how='all')": (f'o.dropna st .{d}', None),
            'self.domains[name] = self.ds[dim].values': (f'o.recordDomain st .{d}', None),
            'self.sizes[name] = len(self.domains[name])': ('o.sizeFromDomain st', None),
            'self.sizes[name] = 1': ('o.sizeOne st', None),
            'default_values = default_values(self.sizes[name])': ('o.evalDefaults st', None),
            'self.values[name] = tuple((x for x, _ in zip(default_values, range(self.sizes[name]))))': ('o.valuesDefault st', None),
            'self.values[name] = custom_values': ('o.valuesCustom st', None),
            'self.base_style[name] = dim': (f'o.setConstant st .{d}', None),
            'setattr(self, name, None)': ('o.setAttr st none', None),
            'setattr(self, name, dim)': (f'o.setAttr st (some .{d})', None),
        }
        if t not in ops: return None
        term, need = ops[t]
        if need == 'stack' and not (env.get('new') and d == 'raw'): raise Untranslatable('stack of something else')
        if need == 'order' and not env.get('order'): raise Untranslatable('sel by something that is not the order')
        return f'let st := {term}', env

    def closed(self, stmts, env, ind):
        """a nested block that only changes the state (no return / raise / renaming of `dim`) as a term of type S"""
        lines = []
        for s in stmts:
            if _is_doc(s) or isinstance(s, ast.Pass) or (not isinstance(s, ast.If) and self.irrelevant(s)): continue
            if isinstance(s, ast.If):
                if self.irrelevant(s): continue
                try: c = self.test(s.test, env)
                except Untranslatable: return None
                a, b = self.closed(s.body, env, ind + '    '), self.closed(s.orelse, env, ind + '    ')
                if a is None or b is None: return None
                lines.append(f'{ind}let st := if {c} then\n{a}\n{ind}  else\n{b}')
                continue
            if isinstance(s, (ast.Return, ast.Raise)): return None
            r = self.step(s, env)
            if r is None or r[1] != env or not r[0]: return None
            lines.append(ind + r[0])
        return '\n'.join(lines + [f'{ind}st'])

    def block(self, stmts, env, ind):
        if not stmts:
            return f'{ind}.ok st'
        s, rest = stmts[0], list(stmts[1:])
        if _is_doc(s) or isinstance(s, ast.Pass):
            return self.block(rest, env, ind)
        if isinstance(s, ast.Return):
            if s.value is not None: raise Untranslatable('init_mapped_dim returns a value')
            return f'{ind}.ok st'
        if isinstance(s, ast.Raise):
            cls = _u(s.exc.func) if isinstance(s.exc, ast.Call) else _u(s.exc) if s.exc else ''
            if cls != 'ValueError': raise Untranslatable('raise ' + cls)
            return f'{ind}.error .valueError'
        if _u(s) == 'if isinstance(dim, list):\n    dim = tuple(dim)' and env.get('dim') == 'raw':
            return self.block(rest, env, ind)               # a list is a tuple (normalisation of the argument)
        r = self.step(s, env) if not isinstance(s, ast.If) else None
        if r is not None:
            line, env2 = r
            return (f'{ind}{line}\n' if line else '') + self.block(rest, env2, ind)
        if self.irrelevant(s):
            return self.block(rest, env, ind)
        if isinstance(s, ast.If):
            c = self.test(s.test, env)
            ja, jb = self.closed(s.body, env, ind + '    '), self.closed(s.orelse, env, ind + '    ')
            if ja is not None and jb is not None:           # both branches only act on the state: a join
                return (f'{ind}let st := if {c} then\n{ja}\n{ind}  else\n{jb}\n') + self.block(rest, env, ind)
            a = self.block(list(s.body) + rest, env, ind + '  ')
            b = self.block(list(s.orelse) + rest, env, ind + '  ')
            return f'{ind}if {c} then\n{a}\n{ind}else\n{b}'
        raise Untranslatable('statement not understood: ' + _u(s)[:80])


def a_infInitMapped(T):
    f = _find(T['infiniplot'], ['Infiniplotter', 'init_mapped_dim'])
    return '\n' + _Map(f).block(list(f.body), {}, '  ')


# ===================================================================================== 2. plot_lines
_ATTRS = ('row', 'col', 'hue', 'color', 'marker', 'markersize', 'markeredgecolor', 'linewidth', 'linestyle')


class _Lines:
    """symbolic evaluation of the body of `for iloc in itertools.product(...)`"""

    def __init__(self, loopvar):
        self.iloc = loopvar
        self.events = {'vals': [], 'doms': []}          # lean list terms, in order
        self.ax = None
        self.isel = None

    # values: ('loc', term) | ('idx', term) | ('dim', term : Option String) | ('str', python str)
    def dimref(self, e, env):
        """`self.<attr>` or a local bound to `getattr(self, prop)` -> Lean term : Option String"""
        if isinstance(e, ast.Attribute) and _u(e.value) == 'self' and e.attr in _ATTRS:
            return f'(attr {lean_str(e.attr)})'
        if isinstance(e, ast.Name) and env.get(e.id, ('', ''))[0] == 'dim':
            return env[e.id][1]
        return None

    def _idx0(self, e, env):
        """an expression denoting an index -> Lean term : Nat, or None"""
        if isinstance(e, ast.Constant) and isinstance(e.value, int) and not isinstance(e.value, bool) and e.value >= 0:
            return str(e.value)
        if isinstance(e, ast.Name) and env.get(e.id, ('', ''))[0] == 'idx':
            return env[e.id][1]
        if isinstance(e, ast.Subscript) and isinstance(e.value, ast.Name) and env.get(e.value.id, ('', ''))[0] == 'loc':
            d = self.dimref(e.slice, env)
            if d is None: raise Untranslatable('loc[' + _u(e.slice)[:40] + ']')
            return f'(locGet {env[e.value.id][1]} {d})'
        if isinstance(e, ast.IfExp):
            c = self.cond(e.test, env)
            a, b = self.idx(e.body, env), self.idx(e.orelse, env)
            if c is None or a is None or b is None: return None
            return f'(if {c} then {a} else {b})'
        return None

    def cond(self, e, env):
        """a recognised test -> Lean Bool term, else None"""
        if isinstance(e, ast.Compare) and len(e.ops) == 1 and isinstance(e.comparators[0], ast.Constant) \
                and e.comparators[0].value is None and isinstance(e.ops[0], (ast.Is, ast.IsNot, ast.Eq, ast.NotEq)):
            d = self.dimref(e.left, env)
            if d is None: return None
            return f'{d}.isSome' if isinstance(e.ops[0], (ast.IsNot, ast.NotEq)) else f'{d}.isNone'
        if isinstance(e, ast.UnaryOp) and isinstance(e.op, ast.Not):
            c = self.cond(e.operand, env)
            return None if c is None else f'(!{c})'
        if isinstance(e, ast.BoolOp):
            cs = [self.cond(v, env) for v in e.values]
            if any(c is None for c in cs): return None
            return '(' + (' && ' if isinstance(e.op, ast.And) else ' || ').join(cs) + ')'
        return None

    def key(self, e, env):
        if isinstance(e, ast.Constant) and isinstance(e.value, str): return e.value
        if isinstance(e, ast.Name) and env.get(e.id, ('', ''))[0] == 'str': return env[e.id][1]
        return None

    def scan(self, e, env, path):
        """record the table look-ups inside an expression, in evaluation order (approximated by source order)"""
        found = []
        for n in ast.walk(e):
            if not isinstance(n, ast.Subscript): continue
            v = n.value
            tbl = k = None
            if isinstance(v, ast.Subscript) and _u(v.value) in ('self.values', 'self.domains'):
                tbl = 'vals' if _u(v.value) == 'self.values' else 'doms'
                k = self.key(v.slice, env)
                if k is None: raise Untranslatable('table key not understood: ' + _u(n)[:60])
            elif _u(v) == 'self.cmap_or_colors':
                tbl, k = 'vals', 'color'
            elif _u(v) == 'self.axs':
                if not (isinstance(n.slice, ast.Tuple) and len(n.slice.elts) == 2):
                    raise Untranslatable('self.axs[...] is not indexed by a pair')
                i, j = (self.idx(x, env) for x in n.slice.elts)
                if i is None or j is None or path or self.ax is not None:
                    raise Untranslatable('axes choice not understood: ' + _u(n)[:60])
                self.ax = (i, j)
                continue
            if tbl is None: continue
            i = self.idx(n.slice, env)
            if i is None: raise Untranslatable('table index not understood: ' + _u(n)[:60])
            found.append((n.lineno, n.col_offset, tbl, f'({lean_str(k)}, {i})'))
        for n in ast.walk(e):
            if isinstance(n, ast.Call) and _u(n.func) == 'self.ds.isel':
                if len(n.args) != 1 or n.keywords or not isinstance(n.args[0], ast.Name) \
                        or env.get(n.args[0].id, ('', ''))[0] != 'loc' or path or self.isel is not None:
                    raise Untranslatable('self.ds.isel(...) not understood')
                self.isel = env[n.args[0].id][1]
        for _, _, tbl, term in sorted(found):
            c = ' && '.join(path)
            self.events[tbl].append(f'(if {c} then [{term}] else [])' if path else f'[{term}]')

    def followed(self, env):
        return {k for k, v in env.items() if v[0] in ('loc', 'idx', 'dim', 'str')}

    def assigned(self, stmts):
        out = set()
        for s in stmts:
            for n in ast.walk(s):
                if isinstance(n, ast.Name) and isinstance(n.ctx, (ast.Store, ast.Del)): out.add(n.id)
        return out

    def run(self, stmts, env, path):
        for s in stmts:
            env = self.stmt(s, env, path)
        return env

    def stmt(self, s, env, path):
        if isinstance(s, ast.Assign) and len(s.targets) == 1 and isinstance(s.targets[0], ast.Name):
            name, v = s.targets[0].id, s.value
            if _u(v) == f'dict(zip(self.remaining_dims, {self.iloc}))':
                return dict(env, **{name: ('loc', f'(remDims.zip {self.iloc})')})
            if isinstance(v, ast.Call) and _u(v.func) == 'getattr' and len(v.args) == 2 and _u(v.args[0]) == 'self':
                k = self.key(v.args[1], env)
                if k in _ATTRS:
                    return dict(env, **{name: ('dim', f'(attr {lean_str(k)})')})
            i = self.idx(v, env)
            if i is not None:
                return dict(env, **{name: ('idx', i)})
            self.scan(v, env, path)
            e2 = dict(env); e2.pop(name, None)
            if name == self.iloc: raise Untranslatable('the loop variable is re-assigned')
            return e2
        if isinstance(s, ast.If):
            c = self.cond(s.test, env)
            self.scan(s.test, env, path)
            if c is not None:
                ea = self.run(s.body, dict(env), path + [c])
                eb = self.run(s.orelse, dict(env), path + [f'(!{c})'])
                out = {}
                for k in set(ea) | set(eb):
                    a, b = ea.get(k), eb.get(k)
                    if a == b: out[k] = a
                    elif a and b and a[0] == b[0] == 'idx': out[k] = ('idx', f'(if {c} then {a[1]} else {b[1]})')
                    elif a and not b and a[0] == 'idx': out[k] = ('idx?', c, a[1])     # only defined on that path
                    elif b and not a and b[0] == 'idx': out[k] = ('idx?', f'(!{c})', b[1])
                    # otherwise: unknown afterwards
                # an index only defined under the condition may be used under the same condition again
                return out
            # an `if` that is not about a mapped attribute: must not touch what is followed, both branches the same
            subs = []
            for br in (s.body, s.orelse):
                sub = _Lines(self.iloc)
                sub.ax, sub.isel = self.ax, self.isel
                if self.assigned(br) & (self.followed(env) | {self.iloc}):
                    raise Untranslatable('a followed variable is assigned under a condition that is not understood: ' + _u(s.test)[:50])
                sub.run(br, dict(env), path)
                if sub.ax != self.ax or sub.isel != self.isel:
                    raise Untranslatable('axes / isel under a condition that is not understood: ' + _u(s.test)[:50])
                subs.append(sub)
            norm = lambda ev: (sorted(set(ev['vals'])), sorted(set(ev['doms'])))
            if norm(subs[0].events) != norm(subs[1].events) and s.orelse:
                raise Untranslatable('branches of `if ' + _u(s.test)[:40] + '` use different indices')
            if not s.orelse and (subs[0].events['vals'] or subs[0].events['doms']):
                raise Untranslatable('indices used under a condition that is not understood: ' + _u(s.test)[:50])
            for k in ('vals', 'doms'):
                seen = []
                for t in subs[0].events[k]:
                    if t not in seen: seen.append(t)
                self.events[k] += seen
            return env
        if isinstance(s, ast.For) and not s.orelse and isinstance(s.target, ast.Name) \
                and isinstance(s.iter, (ast.Tuple, ast.List)) and all(isinstance(x, ast.Constant) and isinstance(x.value, str) for x in s.iter.elts):
            for x in s.iter.elts:                                         # unrolled
                env = self.run(s.body, dict(env, **{s.target.id: ('str', x.value)}), path)
            env = dict(env); env.pop(s.target.id, None)
            return env
        if isinstance(s, (ast.For, ast.While, ast.With, ast.Try)):
            inner = [b for b in ast.iter_child_nodes(s) if isinstance(b, ast.stmt)]
            if self.assigned([s]) & (self.followed(env) | {self.iloc}):
                raise Untranslatable('a followed variable is assigned inside a nested block')
            sub = _Lines(self.iloc); sub.ax, sub.isel = self.ax, self.isel
            for b in inner: sub.stmt(b, dict(env), path + ['<nested>'])
            if sub.events['vals'] or sub.events['doms']:
                raise Untranslatable('indices used inside a nested block')
            return env
        if isinstance(s, (ast.Continue, ast.Pass, ast.Break)):
            return env
        # any other simple statement: look-ups are recorded; stores to followed names are refused
        hit = self.assigned([s]) & (self.followed(env) | {self.iloc})
        if hit: raise Untranslatable('a followed variable is assigned in a way that is not understood: ' + ', '.join(sorted(hit)))
        for n in ast.walk(s):
            if isinstance(n, ast.Call) and isinstance(n.func, ast.Attribute) and isinstance(n.func.value, ast.Name) \
                    and env.get(n.func.value.id, ('', ''))[0] == 'loc' and n.func.attr in ('update', 'pop', 'clear', 'setdefault', 'popitem'):
                raise Untranslatable('loc is mutated')
        self.scan(s, env, path)
        return env

    def idx(self, e, env):                                                  # noqa: F811  (adds the 'idx?' case)
        if isinstance(e, ast.Name) and env.get(e.id, ('', ''))[0] == 'idx?':
            return env[e.id][2]            # Lean is total: outside its condition the value is never looked at
        return _Lines._idx0(self, e, env)


def _the_loop(T):
    f = _find(T['infiniplot'], ['Infiniplotter', 'plot_lines'])
    loops = [s for s in f.body if isinstance(s, ast.For) and any(_u(n) == 'itertools.product' for n in ast.walk(s.iter))]
    if len(loops) != 1: raise NotFound(f'plot_lines: {len(loops)} product loops')
    lp = loops[0]
    if not isinstance(lp.target, ast.Name) or lp.orelse: raise Untranslatable('loop target')
    return f, lp


def a_infIter(T):
    _, lp = _the_loop(T)
    t = _u(lp.iter)
    if t == 'itertools.product(*self.ranges)': return 'pyProduct ranges'
    if t in ('itertools.product(*reversed(self.ranges))', 'itertools.product(*self.ranges[::-1])'):
        return 'pyProduct ranges.reverse'
    raise Untranslatable('iteration not understood: ' + t[:80])


def a_infRanges(T):
    f = _find(T['infiniplot'], ['Infiniplotter', '__init__'])
    a = [s for s in ast.walk(f) if isinstance(s, ast.Assign) and any(_u(t) == 'self.ranges' for t in s.targets)]
    if len(a) != 1: raise NotFound(f'self.ranges: {len(a)} assignments')
    t = _u(a[0].value)
    if t in ('list(map(range, self.remaining_sizes))', '[range(sz) for sz in self.remaining_sizes]'):
        return 'sizes.map List.range'
    if t in ('list(map(range, reversed(self.remaining_sizes)))', 'list(map(range, self.remaining_sizes[::-1]))'):
        return 'sizes.reverse.map List.range'
    raise Untranslatable('self.ranges = ' + t[:80])


def a_infLineIdx(T):
    _, lp = _the_loop(T)
    iloc = lp.target.id
    ev = _Lines(iloc)
    ev.run(lp.body, {}, [])
    if ev.ax is None: raise Untranslatable('no axes choice found')
    if ev.isel is None: raise Untranslatable('no self.ds.isel(loc) found')
    cat = lambda l: ('(' + ' ++ '.join(l) + ')') if l else '[]'
    if iloc != 'iloc':
        pre = f'let {iloc} := iloc\n  '
    else:
        pre = ''
    return (f'\n  {pre}{{ i := {ev.ax[0]},\n    j := {ev.ax[1]},\n    vals := {cat(ev.events["vals"])},\n'
            f'    doms := {cat(ev.events["doms"])},\n    isel := {ev.isel} }}')


# ===================================================================================== 3. histogram call
def a_infHistCall(T):
    f = _find(T['infiniplot'], ['Infiniplotter', '__init__'])
    calls = [n for n in ast.walk(f) if isinstance(n, ast.Call) and _u(n.func) in ('np.histogram', 'numpy.histogram')]
    if len(calls) != 1: raise NotFound(f'np.histogram: {len(calls)} calls')
    c = calls[0]
    lam = [n for n in ast.walk(f) if isinstance(n, ast.Lambda) and any(m is c for m in ast.walk(n))]
    if len(lam) != 1: raise Untranslatable('np.histogram is not called inside one lambda')
    lam = lam[0]
    if len(lam.args.args) != 1: raise Untranslatable('the lambda takes several arguments')
    x = lam.args.args[0].arg
    body = lam.body
    if not (isinstance(body, ast.Subscript) and body.value is c and isinstance(body.slice, ast.Constant)
            and body.slice.value in (0, 1)):
        raise Untranslatable('what is kept of np.histogram(...): ' + _u(body)[:80])
    kept = '.counts' if body.slice.value == 0 else '.edges'
    kw = {k.arg: k.value for k in c.keywords}
    args = list(c.args)
    data = args[0] if args else kw.get('a')
    bins = args[1] if len(args) > 1 else kw.get('bins')
    dens = kw.get('density')
    if data is None or bins is None or len(args) > 2 or set(kw) - {'a', 'bins', 'density'}:
        raise Untranslatable('np.histogram arguments: ' + _u(c)[:80])
    dt = _u(data)
    if dt == x: d = '.all'
    elif dt in (f'{x}[~np.isnan({x})]', f'{x}[np.isfinite({x})]', f'{x}[np.logical_not(np.isnan({x}))]'): d = '.nonNan'
    else: raise Untranslatable('histogrammed data: ' + dt[:60])
    if _u(bins) != 'self.bins': raise Untranslatable('bins: ' + _u(bins)[:60])
    if dens is None: dn = '.const false'
    elif _u(dens) == 'self.bins_density': dn = '.flag'
    elif _u(dens) == 'not self.bins_density': dn = '.notFlag'
    elif isinstance(dens, ast.Constant) and isinstance(dens.value, bool): dn = f'.const {"true" if dens.value else "false"}'
    else: raise Untranslatable('density: ' + _u(dens)[:60])
    return f'{{ data := {d}, density := {dn}, kept := {kept} }}'


# ===================================================================================== 4. the calls in __init__
def a_infInitCalls(T):
    """the `self.init_mapped_dim("<prop>", …)` statements of `__init__`, in order, with the kind of default style values:
    `itertools.cycle(<TABLE>)`, `lambda N: np.linspace(a, b, N)` with integral constants, none, or something else"""
    f = _find(T['infiniplot'], ['Infiniplotter', '__init__'])
    allcalls = [n for n in ast.walk(f) if isinstance(n, ast.Call) and _u(n.func) == 'self.init_mapped_dim']
    top = [s.value for s in f.body if isinstance(s, ast.Expr) and isinstance(s.value, ast.Call)
           and _u(s.value.func) == 'self.init_mapped_dim']
    if not top or len(top) != len(allcalls):
        raise Untranslatable('init_mapped_dim is called conditionally / in a loop')
    out = []
    for c in top:
        if len(c.args) != 1 or not (isinstance(c.args[0], ast.Constant) and isinstance(c.args[0].value, str)):
            raise Untranslatable('init_mapped_dim call: ' + _u(c)[:60])
        kw = {k.arg: k.value for k in c.keywords}
        if set(kw) - {'custom_values', 'default_values'}: raise Untranslatable('init_mapped_dim keywords')
        d = kw.get('default_values')
        if d is None or (isinstance(d, ast.Constant) and d.value is None):
            k = '.none'
        elif isinstance(d, ast.Call) and _u(d.func) == 'itertools.cycle' and len(d.args) == 1 and isinstance(d.args[0], ast.Name):
            k = f'.cycle {lean_str(d.args[0].id)}'
        elif isinstance(d, ast.Lambda) and len(d.args.args) == 1 and isinstance(d.body, ast.Call) \
                and _u(d.body.func) in ('np.linspace', 'numpy.linspace') and len(d.body.args) == 3 and not d.body.keywords \
                and _u(d.body.args[2]) == d.args.args[0].arg \
                and all(isinstance(x, ast.Constant) and isinstance(x.value, (int, float)) and not isinstance(x.value, bool)
                        and float(x.value) == int(x.value) and x.value >= 0 for x in d.body.args[:2]):
            k = f'.linspace {int(d.body.args[0].value)} {int(d.body.args[1].value)}'
        else:
            k = '.other'
        out.append(f'({lean_str(c.args[0].value)}, {k})')
    return '[' + ', '.join(out) + ']'


ANCHORS = [
    ('infInitMapped', '{S : Type} (o : MapOps S) (st : S) : Except PyErr S', a_infInitMapped),
    ('infIter', '(ranges : List (List Nat)) : List (List Nat)', a_infIter),
    ('infRanges', '(sizes : List Nat) : List (List Nat)', a_infRanges),
    ('infLineIdx', '(remDims : List String) (attr : String → Option String) (iloc : List Nat) : LineIdx', a_infLineIdx),
    ('infHistCall', ': HistCall', a_infHistCall),
    ('infInitCalls', ': List (String × StyleDefault)', a_infInitCalls),
]
