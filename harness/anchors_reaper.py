"""The Reaper (xyzpy/gen/cropping.py, class `Reaper`) translated to Lean on every run, as functions over abstract
directory operations.

    environment (parameters of the generated definitions)
      hasDefault      `default_result is not _NO_DEFAULT`
      defaultResult   the value of `default_result` (the placeholder, or the sentinel)
      wait            the `wait` argument
      batchsize       `crop.batchsize` (not read by the current source; declared so that a body that sizes the stand-in by
                      it is translated rather than refused)
      isFile i        `os.path.isfile(<location>/results/RSLT_NM.format(i))`
      readResult i    `read_from_disk(<location>/results/RSLT_NM.format(i))`: raises, or returns None / a sequence
      readBatch i     `read_from_disk(<location>/batches/BTCH_NM.format(i))`: raises, or returns a sequence
      existsAt t i    `os.path.exists(<result file i>)` as answered at the t-th poll of a waiting loop;  fuel = how many
                      polls the observation lasts

    generated definitions
      reaperFiles       the generator `files`: the numbers of the result files, in the order they are loaded
      reaperLoad        the inner `_load`
      reaperWaitToLoad  the inner `wait_to_load` (`while not exists: sleep` = `Gen.pollUntil`)
      reaperLoadFn      the function mapped over `files` (`wait_to_load if wait else _load`), after checking that
                        `self.results` is `itertools.chain.from_iterable(map(<that>, files))`
      reaperCall        `__call__` = `next(self.results)` on the chain's state (`Gen.chainNext`)
      reaperExit        `__exit__`: the left-over check on `tuple(self.results)` (`Gen.chainTuple`)
      reapCombosReaper  the arguments `Crop.reap_combos` constructs its Reaper with, and what drives it

A result path is represented by the number in its name: the parameter of `_load` / `wait_to_load` is that number,
`int(re.findall(RSLT_NM.format(r"(\\d+)"), x)[0])` is the number again (trusted: the name is `RSLT_NM.format(number)`).
`Gen.chainNext`, `Gen.chainTuple`, `Gen.pyRange`, `Gen.pollUntil` (Gen/DefaultReaper.lean) state what Python's
`itertools.chain.from_iterable(map(..))`, `tuple(iterator)`, `range` and a sleep-polling loop do (trusted).

Anything outside the sub-language raises Untranslatable / NotFound: the anchor falls back to `Gen.Default.<name>`.
"""
import ast, copy
from extract import find, one, NotFound
from pyexpr2lean import Untranslatable
from pyfn2lean import Spec, FnTr, Tr2, is_none, translate_fn, ERRS

FILES = {'cropping': 'xyzpy/gen/cropping.py'}

ENV_ARGS = 'hasDefault wait defaultResult batchsize isFile readResult readBatch'
ENV_SIG = ('{β γ : Type} (hasDefault wait : Bool) (defaultResult : β) (batchsize : Int) (isFile : Int → Bool) '
           '(readResult : Int → Except PyErr (Option (List β))) (readBatch : Int → Except PyErr (List γ))')
WAIT_ARGS = ENV_ARGS + ' fuel existsAt'
WAIT_SIG = ENV_SIG + ' (fuel : Nat) (existsAt : Nat → Int → Bool)'
RES = 'Except PyErr (List β)'

_NUMBER_BACK = ast.unparse(ast.parse('int(re.findall(RSLT_NM.format(r"(\\d+)"), x)[0])').body[0].value)


def _init(T):
    return find(T['cropping'], ['Reaper', '__init__'])


def _param(f):
    a = f.args
    if len(a.args) != 1 or a.vararg or a.kwarg or a.kwonlyargs or a.defaults:
        raise Untranslatable(f.name + ': one positional parameter expected')
    return a.args[0].arg


def _location(e):
    return ast.unparse(e) in ('crop.location', 'self.crop.location')


def _file_number(path, kind):
    """E if `path` is os.path.join(<crop>.location, kind, NAME.format(E)) else None"""
    nm = {'results': 'RSLT_NM.format', 'batches': 'BTCH_NM.format'}[kind]
    if not (isinstance(path, ast.Call) and ast.unparse(path.func) == 'os.path.join' and len(path.args) == 3 and not path.keywords):
        return None
    a, b, c = path.args
    if not (_location(a) and isinstance(b, ast.Constant) and b.value == kind):
        return None
    if not (isinstance(c, ast.Call) and ast.unparse(c.func) == nm and len(c.args) == 1 and not c.keywords):
        return None
    return c.args[0]


class RTr2(Tr2):
    """+ one-element tuple repetition `(v,) * n`"""

    def expr(self, e):
        hit = self.lookup(e)
        if hit is None and isinstance(e, ast.BinOp) and isinstance(e.op, ast.Mult):
            for tup, n in ((e.left, e.right), (e.right, e.left)):
                if isinstance(tup, ast.Tuple) and len(tup.elts) == 1:
                    v, vt = self.expr(tup.elts[0])
                    k, kt = self.expr(n)
                    if vt != 'val' or kt != 'num':
                        raise Untranslatable('tuple repetition of types ' + str((vt, kt)))
                    return f'(List.replicate ({k}).toNat {v})', 'list'      # a negative count gives the empty tuple
        return super().expr(e)

    def truthy(self, e):
        t, ty = self.expr(e)
        if ty == 'olist':                       # None and the empty sequence are both falsy
            return f'(match {t} with | none => false | some l => !l.isEmpty)'
        return super().truthy(e)


class RTr(FnTr):
    """pyfn2lean + calls that read a file or call a sibling closure (monadic bind), optional sequences (`olist`),
    short-circuit None guards, the sleep-polling loop"""

    def __init__(self, spec, trees, find_, param, siblings=None, poll=None):
        super().__init__(spec, trees, find_)
        self.param, self.siblings, self.poll = param, siblings or {}, poll

    def tr(self, env):
        return RTr2(env, self.spec.num)

    # ------------------------------------------------------------ typing
    def assign(self, env, key, term, ty):
        if key in env and env[key][1] == 'olist':
            if ty == 'list':
                term, ty = f'(some {term} : Option (List β))', 'olist'
            elif ty == 'none':
                term, ty = '(none : Option (List β))', 'olist'
            elif ty != 'olist':
                raise Untranslatable(f'assignment changes the type of {key}: olist := {ty}')
            env2 = dict(env)
            env2[key] = (env[key][0], 'olist')
            return env2, f'let {env[key][0]} := {term}'
        if ty in ('list', 'olist', 'val') and key not in env:
            env2, ln = super().assign(env, key, term, 'num')       # picks the Lean name; the annotation is dropped below
            name = env2[key][0]
            env2[key] = (name, ty)
            return env2, f'let {name} := {term}'
        return super().assign(env, key, term, ty)

    # ------------------------------------------------------------ monadic calls
    def monadic(self, c, env):
        """(lean term of type Except PyErr _, type of the value) if `c` is a call that can raise on its own"""
        if not isinstance(c, ast.Call): return None
        fn = ast.unparse(c.func)
        if fn == 'read_from_disk':
            if len(c.args) != 1 or c.keywords: raise Untranslatable('read_from_disk arity')
            path = self.tr(env).resolve(c.args[0])
            if isinstance(path, ast.Name) and path.id == self.param:
                return f'readResult {env[self.param][0]}', 'olist'
            for kind, op, ty in (('batches', 'readBatch', 'blist'), ('results', 'readResult', 'olist')):
                num = _file_number(path, kind)
                if num is not None:
                    t, nty = self.tr(env).expr(num)
                    if nty != 'num': raise Untranslatable('file number type')
                    return f'{op} {t}', ty
            raise Untranslatable('read_from_disk of ' + ast.unparse(path)[:80])
        if fn in self.siblings:
            if len(c.args) != 1 or c.keywords: raise Untranslatable(fn + ' arity')
            t, ty = self.tr(env).expr(c.args[0])
            if ty != 'num': raise Untranslatable(fn + ' argument is not a result path')
            return f'{self.siblings[fn]} {t}', 'list'
        return None

    def hoist(self, value, env, ind, k):
        """bind every monadic call inside `value` (evaluation order: left to right, innermost first — ast.walk order is
        refused unless there is exactly one), then k(value', env', ind')"""
        calls = [n for n in ast.walk(value) if self.monadic(n, env) is not None]
        if not calls:
            return k(value, env, ind)
        if len(calls) > 1:
            raise Untranslatable('several effect calls in one expression')
        c = calls[0]
        term, ty = self.monadic(c, env)
        self.fresh += 1
        tmp = f'tmp{self.fresh}'
        key = f'tmp__{self.fresh}'
        value2 = copy.deepcopy(value)
        # replace the call node by a name
        target = ast.unparse(c)

        class Rep(ast.NodeTransformer):
            def visit_Call(self_, n):
                if ast.unparse(n) == target: return ast.Name(id=key, ctx=ast.Load())
                return self_.generic_visit(n)
        value2 = Rep().visit(value2)
        env2 = dict(env)
        env2[key] = (tmp, 'list' if ty == 'blist' else ty)
        body = k(value2, env2, ind + '  ')
        return f'{ind}(match {term} with\n{ind}| .error e => .error e\n{ind}| .ok {tmp} =>\n{body})'

    # ------------------------------------------------------------ optional sequences
    def olist_uses(self, e, env, truth=False):
        used = []

        def walk(n, truth):
            # truth: the node's truth value is all that is taken (None is simply false there)
            if isinstance(n, ast.Compare) and len(n.ops) == 1 and isinstance(n.ops[0], (ast.Is, ast.IsNot, ast.Eq, ast.NotEq)) \
                    and (is_none(n.left) or is_none(n.comparators[0])):
                return
            if isinstance(n, ast.Name) and isinstance(n.ctx, ast.Load) and n.id in env and env[n.id][1] == 'olist':
                if not truth and n.id not in used: used.append(n.id)
                return
            if truth and isinstance(n, ast.BoolOp):
                for c in n.values: walk(c, True)
                return
            if truth and isinstance(n, ast.UnaryOp) and isinstance(n.op, ast.Not):
                walk(n.operand, True)
                return
            for c in ast.iter_child_nodes(n): walk(c, False)
        walk(e, truth)
        return used

    def unwrap_olists(self, e, env, ind, k, truth=False):
        """using None as a sequence is Python's TypeError"""
        used = self.olist_uses(e, env, truth)
        env2, out, cur = dict(env), [], ind
        for u in used:
            self.fresh += 1
            v = f'{env[u][0].strip(chr(39))}_v{self.fresh}'
            out.append(f'{cur}(match {env[u][0]} with\n{cur}| none => .error .typeError\n{cur}| some {v} =>')
            env2[u] = (v, 'list')
            cur += '  '
        body = k(env2, cur)
        return ('\n'.join(out) + '\n' if out else '') + body + ')' * len(used)

    @staticmethod
    def _none_test(e):
        return isinstance(e, ast.Compare) and len(e.ops) == 1 and isinstance(e.ops[0], (ast.Is, ast.IsNot, ast.Eq, ast.NotEq)) \
            and (is_none(e.left) or is_none(e.comparators[0]))

    # ------------------------------------------------------------ statements
    def block(self, stmts, env, ind):
        if not stmts:
            return super().block(stmts, env, ind)
        s, rest = stmts[0], stmts[1:]
        if isinstance(s, ast.Expr) and isinstance(s.value, ast.Constant):
            return self.block(rest, env, ind)
        if isinstance(s, ast.If) and isinstance(s.test, ast.BoolOp) and self._none_test(s.test.values[0]):
            # short-circuit guard: `if A or B: S else: T` = `if A: S else: (if B: S else: T)`; dually for `and`
            vs = s.test.values
            more = vs[1] if len(vs) == 2 else ast.BoolOp(op=s.test.op, values=vs[1:])
            if isinstance(s.test.op, ast.Or):
                inner = ast.If(test=more, body=s.body, orelse=s.orelse)
                s2 = ast.If(test=vs[0], body=s.body, orelse=[inner])
            else:
                inner = ast.If(test=more, body=s.body, orelse=s.orelse)
                s2 = ast.If(test=vs[0], body=[inner], orelse=s.orelse)
            return self.block([s2] + rest, env, ind)
        if isinstance(s, ast.If) and any(isinstance(n, ast.Name) and n.id in env and env[n.id][1] == 'olist' for n in ast.walk(s.test)):
            def k(env2, ind2):
                c = self.tr(env2).truthy(s.test)
                a = self.block(list(s.body) + rest, env, ind2 + '  ')
                b = self.block(list(s.orelse) + rest, env, ind2 + '  ')
                return f'{ind2}if {c} then\n{a}\n{ind2}else\n{b}'
            return self.unwrap_olists(s.test, env, ind, k, truth=True)
        if isinstance(s, ast.While):
            if self.poll is None or s.orelse:
                raise Untranslatable('loop')
            for b in s.body:
                if isinstance(b, ast.Pass): continue
                if isinstance(b, ast.Expr) and isinstance(b.value, ast.Call) and ast.unparse(b.value.func) == 'time.sleep': continue
                raise Untranslatable('loop body is not a plain sleep: ' + ast.unparse(b)[:60])
            envt = dict(env); envt.update(self.poll)
            if any(self.monadic(n, env) is not None for n in ast.walk(s.test)):
                raise Untranslatable('effect call in a loop test')
            c = self.tr(envt).truthy(s.test)
            body = self.block(rest, env, ind + '  ')
            return (f'{ind}(match pollUntil fuel (fun t => !{c}) with\n{ind}| none => stillWaiting\n'
                    f'{ind}| some _ =>\n{body})')
        if isinstance(s, ast.Return) and s.value is not None and not is_none(s.value):
            m = self.monadic(s.value, env)
            if m is not None and m[1] == 'list' and self.spec.returns == 'list':
                return f'{ind}{m[0]}'                                   # tail call of a sibling closure

            def k(value, env1, ind1):
                def k2(env2, ind2):
                    t, ty = self.tr(env2).expr(value)
                    if ty != self.spec.returns:
                        raise Untranslatable(f'returned {ty}, declared {self.spec.returns}')
                    return f'{ind2}.ok {t}'
                return self.unwrap_olists(value, env1, ind1, k2)
            return self.hoist(s.value, env, ind, k)
        if isinstance(s, ast.Assign) and len(s.targets) == 1 and isinstance(s.targets[0], ast.Name) \
                and any(self.monadic(n, env) is not None for n in ast.walk(s.value)):
            key = s.targets[0].id

            def k(value, env1, ind1):
                def k2(env2, ind2):
                    t, ty = self.tr(env2).expr(value)
                    e3, ln = self.assign(env1, key, t, ty)
                    # temporaries stay visible (they are immutable)
                    return f'{ind2}{ln}\n' + self.block(rest, e3, ind2)
                if isinstance(value, ast.Name):
                    return k2(env1, ind1)                   # handed on unchanged (None included)
                return self.unwrap_olists(value, env1, ind1, k2)
            return self.hoist(s.value, env, ind, k)
        if isinstance(s, ast.Expr) and any(self.monadic(n, env) is not None for n in ast.walk(s.value)):
            raise Untranslatable('effect call as a statement')
        if isinstance(s, (ast.Assign, ast.AugAssign, ast.Expr)) and self.olist_uses(s, env):
            # an optional sequence handed on unchanged (`y = res`) is fine; anything else is refused
            if not (isinstance(s, ast.Assign) and isinstance(s.value, ast.Name)):
                raise Untranslatable('optional sequence used in ' + ast.unparse(s)[:60])
        return super().block(stmts, env, ind)


def _load_env(p):
    return {
        p: ('x', 'num'),
        'default_result is not _NO_DEFAULT': ('hasDefault', 'bool'),
        'default_result is _NO_DEFAULT': ('(!hasDefault)', 'bool'),
        'default_result': ('defaultResult', 'val'),
        'wait': ('wait', 'bool'),
        f'os.path.isfile({p})': ('(isFile x)', 'bool'),
        'crop.batchsize': ('batchsize', 'num'), 'self.crop.batchsize': ('batchsize', 'num'),
        _NUMBER_BACK.replace('x)[0])', p + ')[0])'): ('x', 'num'),
        'res': ("res'", 'olist'),
    }


def _no_nested_defs(f):
    for n in ast.walk(f):
        if n is not f and isinstance(n, (ast.FunctionDef, ast.Lambda, ast.ClassDef, ast.AsyncFunctionDef)):
            raise Untranslatable('nested definition in ' + f.name)
        if isinstance(n, (ast.Global, ast.Nonlocal, ast.Yield, ast.YieldFrom, ast.Await)):
            raise Untranslatable(type(n).__name__ + ' in ' + f.name)


def a_reaperLoad(T):
    f = find(_init(T), ['_load'])
    _no_nested_defs(f)
    p = _param(f)
    spec = Spec('cropping', ['Reaper', '__init__', '_load'], _load_env(p), returns='list')
    tr = RTr(spec, T, find, p)
    return '\n' + tr.block(list(f.body), dict(spec.env), '  ')


def a_reaperWaitToLoad(T):
    f = find(_init(T), ['wait_to_load'])
    _no_nested_defs(f)
    p = _param(f)
    env = _load_env(p)
    spec = Spec('cropping', ['Reaper', '__init__', 'wait_to_load'], env, returns='list')
    tr = RTr(spec, T, find, p, siblings={'_load': f'reaperLoad {ENV_ARGS}'},
             poll={f'os.path.exists({p})': ('(existsAt t x)', 'bool')})
    return '\n' + tr.block(list(f.body), dict(spec.env), '  ')


# ---------------------------------------------------------------- the generator of file names
def _files_gen(T):
    """(name the generator is bound to, the comprehension node)"""
    f = _init(T)
    c = [s for s in f.body if isinstance(s, ast.Assign) and len(s.targets) == 1 and isinstance(s.targets[0], ast.Name)
         and isinstance(s.value, (ast.GeneratorExp, ast.ListComp))]
    s = one(c, 'generator of result file names')
    return s.targets[0].id, s.value


def a_reaperFiles(T):
    _, g = _files_gen(T)
    if len(g.generators) != 1: raise Untranslatable('nested comprehension')
    comp = g.generators[0]
    if comp.ifs or comp.is_async or not isinstance(comp.target, ast.Name): raise Untranslatable('filtered comprehension')
    i = comp.target.id
    num = _file_number(g.elt, 'results')
    if num is None: raise Untranslatable('element is not <location>/results/RSLT_NM.format(e): ' + ast.unparse(g.elt)[:80])
    it = comp.iter
    if not (isinstance(it, ast.Call) and ast.unparse(it.func) == 'range' and not it.keywords and len(it.args) in (1, 2)):
        raise Untranslatable('iterable is not range(a) / range(a, b)')
    env = {'num_batches': ('numBatches', 'num')}
    tr = Tr2(env, 'Int')
    bounds = []
    for a in it.args:
        t, ty = tr.expr(a)
        if ty != 'num': raise Untranslatable('range bound type')
        bounds.append(t)
    if len(bounds) == 1: bounds = ['(0 : Int)'] + bounds
    env2 = dict(env); env2[i] = ('i', 'num')
    e, ety = Tr2(env2, 'Int').expr(num)
    if ety != 'num': raise Untranslatable('file number type')
    return f'((pyRange {bounds[0]} {bounds[1]}).map (fun i => {e}))'


# ---------------------------------------------------------------- what is chained
def a_reaperLoadFn(T):
    f = _init(T)
    files, _ = _files_gen(T)
    c = [s for s in f.body if isinstance(s, ast.Assign) and [ast.unparse(t) for t in s.targets] == ['self.results']]
    v = one(c, 'self.results = ...').value
    if not (isinstance(v, ast.Call) and ast.unparse(v.func) in ('itertools.chain.from_iterable', 'chain.from_iterable')
            and len(v.args) == 1 and not v.keywords):
        raise Untranslatable('self.results is not chain.from_iterable(...)')
    m = v.args[0]
    if not (isinstance(m, ast.Call) and ast.unparse(m.func) == 'map' and len(m.args) == 2 and not m.keywords
            and isinstance(m.args[1], ast.Name) and m.args[1].id == files):
        raise Untranslatable('not map(<loader>, files)')
    # nothing else may touch the generator or self.results in __init__
    for s in f.body:
        if s in c: continue
        for n in ast.walk(s):
            if isinstance(n, ast.Name) and n.id == files and isinstance(n.ctx, ast.Load):
                raise Untranslatable('the generator of file names is used elsewhere')
            if isinstance(n, ast.Attribute) and ast.unparse(n) == 'self.results':
                raise Untranslatable('self.results is touched elsewhere')
    names = {'_load': f'(reaperLoad {ENV_ARGS} x)', 'wait_to_load': f'(reaperWaitToLoad {WAIT_ARGS} x)'}
    for nm in names:
        find(f, [nm])          # both closures must exist under these names

    def loader(e):
        if isinstance(e, ast.Name) and e.id in names: return names[e.id]
        if isinstance(e, ast.IfExp):
            c_ = Tr2({'wait': ('wait', 'bool')}, 'Int').truthy(e.test)
            return f'(if {c_} then {loader(e.body)} else {loader(e.orelse)})'
        raise Untranslatable('loader ' + ast.unparse(e)[:60])
    return loader(m.args[0])


def _body(f):
    return [s for s in f.body if not (isinstance(s, ast.Expr) and isinstance(s.value, ast.Constant)) and not isinstance(s, ast.Pass)]


def a_reaperCall(T):
    f = find(T['cropping'], ['Reaper', '__call__'])
    b = _body(f)
    if len(b) == 1 and isinstance(b[0], ast.Return) and b[0].value is not None and ast.unparse(b[0].value) == 'next(self.results)':
        return 'chainNext load buf files'
    raise Untranslatable('__call__ is not `return next(self.results)`')


def a_reaperExit(T):
    spec = Spec('cropping', ['Reaper', '__exit__'], {'tuple(self.results)': ('rest', 'list'), 'list(self.results)': ('rest', 'list')})
    f = find(T['cropping'], ['Reaper', '__exit__'])
    # the iterator may be drained once
    n = sum(1 for x in ast.walk(f) if isinstance(x, ast.Attribute) and ast.unparse(x) == 'self.results')
    if n > 1: raise Untranslatable('self.results read more than once in __exit__')
    for x in ast.walk(f):
        if isinstance(x, ast.Return) and x.value is not None and not is_none(x.value):
            raise Untranslatable('__exit__ returns a value (could swallow the exception)')
    return translate_fn(spec, T, find)


# ---------------------------------------------------------------- Crop.reap_combos: how the Reaper is made and driven
def a_reapCombosReaper(T):
    """(num_batches, wait, has a default) as handed to `Reaper(...)` by reap_combos, given that the stand-in comes from
    calc_clean_up_default_res(self, clean_up, allow_incomplete) and the Reaper object is what the runner calls"""
    f = find(T['cropping'], ['Crop', 'reap_combos'])
    w = one([n for n in f.body if isinstance(n, ast.With)], 'with statement')
    if len(w.items) != 1: raise Untranslatable('with items')
    ce, var = w.items[0].context_expr, w.items[0].optional_vars
    if not (isinstance(ce, ast.Call) and ast.unparse(ce.func) == 'Reaper' and isinstance(var, ast.Name)):
        raise Untranslatable('with Reaper(...) as name')
    kw = {k.arg: k.value for k in ce.keywords}
    pos = ['crop', 'num_batches', 'wait', 'default_result']
    for j, a in enumerate(ce.args): kw[pos[j]] = a
    if None in kw or ast.unparse(kw.get('crop', ast.Name(id='?'))) != 'self': raise Untranslatable('Reaper arguments')
    # statements before the with: the stand-in and the settings
    calc = one([s for s in f.body if isinstance(s, ast.Assign) and isinstance(s.value, ast.Call)
                and ast.unparse(s.value.func) == 'calc_clean_up_default_res'], 'calc_clean_up_default_res')
    if [ast.unparse(a) for a in calc.value.args] != ['self', 'clean_up', 'allow_incomplete'] or calc.value.keywords:
        raise Untranslatable('calc_clean_up_default_res arguments')
    tg = calc.targets[0]
    if not (isinstance(tg, ast.Tuple) and len(tg.elts) == 2 and all(isinstance(t, ast.Name) for t in tg.elts)):
        raise Untranslatable('calc_clean_up_default_res targets')
    dname = tg.elts[1].id
    info = one([s for s in f.body if isinstance(s, ast.Assign) and ast.unparse(s.value) == 'self.load_info()'
                and isinstance(s.targets[0], ast.Name)], 'settings = self.load_info()')
    sname = info.targets[0].id
    # none of these names is rebound
    for nm in (dname, sname, 'wait'):
        stores = [n for n in ast.walk(f) if isinstance(n, ast.Name) and n.id == nm and isinstance(n.ctx, ast.Store)]
        if len(stores) > (0 if nm == 'wait' else 1): raise Untranslatable(nm + ' is rebound')
    env = {f"{sname}['num_batches']": ('infoNb', 'num'), 'wait': ('wait', 'bool'), 'allow_incomplete': ('allowIncomplete', 'bool'),
           dname: ('defaultResult', 'bool'), '_NO_DEFAULT': ('false', 'bool')}
    tr = Tr2(env, 'Int')
    nb, nbt = tr.expr(kw['num_batches']) if 'num_batches' in kw else (None, None)
    if nbt != 'num': raise Untranslatable('num_batches argument')
    wt = tr.truthy(kw['wait']) if 'wait' in kw else 'false'
    if 'default_result' in kw:
        d, dt = tr.expr(kw['default_result'])
        if dt != 'bool': raise Untranslatable('default_result argument')
    else:
        d = 'false'
    # the runner is driven by the Reaper object, once, inside the with
    calls = [n for n in ast.walk(w) if isinstance(n, ast.Call) and ast.unparse(n.func) == 'combo_runner_core']
    c = one(calls, 'combo_runner_core call')
    ckw = {k.arg: ast.unparse(k.value) for k in c.keywords}
    if c.args or ckw.get('fn') != var.id: raise Untranslatable('the runner is not driven by the Reaper')
    if ckw.get('combos') != f"{sname}['combos']" or ckw.get('cases') != f"{sname}['cases']":
        raise Untranslatable('the runner is not given the stored combos / cases')
    if ckw.get('shuffle') not in (f"{sname}.get('shuffle', False)", f"{sname}['shuffle']"):
        raise Untranslatable('the runner is not given the stored shuffle')
    if any(k in ckw for k in ('executor', 'parallel', 'num_workers')):
        raise Untranslatable('the Reaper must be called sequentially')
    return ('\n  (match calcCleanUp cleanUp allowIncomplete with\n  | .error e => .error e\n'
            f'  | .ok (_, defaultResult) => .ok ({nb}, {wt}, {d}))')


ANCHORS = [
    ('reaperFiles', '(numBatches : Int) : List Int', a_reaperFiles),
    ('reaperLoad', f'{ENV_SIG} (x : Int) : {RES}', a_reaperLoad),
    ('reaperWaitToLoad', f'{WAIT_SIG} (x : Int) : {RES}', a_reaperWaitToLoad),
    ('reaperLoadFn', f'{WAIT_SIG} (x : Int) : {RES}', a_reaperLoadFn),
    ('reaperCall', '{β : Type} (load : Int → Except PyErr (List β)) (buf : List β) (files : List Int) : '
     'Except PyErr β × (List β × List Int)', a_reaperCall),
    ('reaperExit', '{β : Type} (rest : List β) : Except PyErr Unit', a_reaperExit),
    ('reapCombosReaper', '(wait : Bool) (cleanUp : Option Bool) (allowIncomplete : Bool) (infoNb : Int) : '
     'Except PyErr (Int × Bool × Bool)', a_reapCombosReaper),
]
