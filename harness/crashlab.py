"""Kill-at-every-step laboratory (C10): runs phases of fs_child.py under the LD_PRELOAD shim."""
import os, sys, json, subprocess, tempfile, shutil
import common

HERE = os.path.dirname(os.path.abspath(__file__))
VERIF = os.path.dirname(HERE)
SHIM = os.path.join(VERIF, 'shim', 'fsshim.so')


def ensure_shim():
    if not os.path.exists(SHIM) or os.path.getmtime(SHIM) < os.path.getmtime(SHIM[:-2] + 'c'):
        subprocess.run(['cc', '-shared', '-fPIC', '-O1', '-o', SHIM, SHIM[:-2] + 'c', '-ldl'], check=True)


def child(root, phase, sc, crash_at=None, log=None, timeout=120):
    env = dict(os.environ)
    env['PYTHONPATH'] = os.pathsep.join([os.environ.get('XYZ_REPO', '/repo'), HERE])
    if log or crash_at:
        env.update(XV_ROOT=root, LD_PRELOAD=SHIM)
        if log: env['XV_LOG'] = log
        if crash_at: env['XV_CRASH_AT'] = str(crash_at)
    p = subprocess.run(['/venv/bin/python', os.path.join(HERE, 'fs_child.py'), root, phase, json.dumps(sc)],
                       env=env, capture_output=True, text=True, timeout=timeout)
    res = None
    for l in p.stdout.splitlines():
        if l.startswith('RESULT '): res = json.loads(l[7:])
    return p.returncode, res, p.stderr[-400:]


def read_log(log, root):
    ev = []
    if not os.path.exists(log): return ev
    for l in open(log):
        parts = l.rstrip('\n').split(' ')
        if len(parts) < 6: continue
        opno, pid, op, a, b, n = parts[0], parts[1], parts[2], parts[3], parts[4], parts[5]
        rel = lambda p: os.path.relpath(p, root) if p not in ('-', '', 'trunc') and p.startswith('/') else p
        ev.append({'i': int(opno), 'pid': int(pid), 'op': op, 'p': rel(a), 'q': rel(b) if op == 'rename' else b, 'n': int(n)})
    return ev


def listing(root):
    out = {}
    for d, _, fs in os.walk(root):
        for f in fs:
            p = os.path.join(d, f)
            out[os.path.relpath(p, root)] = os.path.getsize(p)
    return out


def expected(sc):
    vals = list(range(1, sc['n'] + 1))
    new = [v * 1.0 + 0.5 for v in vals]
    return vals, new
