"""Child process of the crash / protocol scenarios (C10): performs one phase on the real library and prints one
line `RESULT <json>`.  usage: fs_child.py <root> <phase> <scenario-json>"""
import sys, os, json, io, contextlib, warnings
warnings.filterwarnings('ignore')


def main():
    root, phase, sc = sys.argv[1], sys.argv[2], json.loads(sys.argv[3])
    import numpy as np
    import xyzpy as xyz
    from xyzpy.gen import cropping
    import fs_fn
    vals = list(range(1, sc['n'] + 1))
    kind = sc['kind']
    ext = {'joblib': '.dmp', 'h5netcdf': '.h5', 'pickle': '.pkl', 'csv': '.csv'}.get(sc.get('engine'), '')
    data = os.path.join(root, 'data' + ext)

    def farmer():
        r = xyz.Runner(fs_fn.f, var_names=['x'], fn_args=['a'])
        if kind == 'runner': return r
        if kind == 'harvester': return xyz.Harvester(r, data_name=data, engine=sc['engine'])
        if kind == 'sampler': return xyz.Sampler(r, data_name=data, engine=sc['engine'], default_combos={'a': vals})
        return None

    def mkcrop(fm, **kw):
        if fm is None: return xyz.Crop(fn=fs_fn.f, name='t', parent_dir=root, batchsize=sc['bs'], **kw)
        return cropping.Crop(farmer=fm, name='t', parent_dir=root, batchsize=sc['bs'], **kw)

    def sow(crop):
        if kind == 'sampler': crop.sow_cases(['a'], [(v,) for v in vals], verbosity=0)
        else: crop.sow_combos({'a': vals}, shuffle=sc.get('shuffle') or False, verbosity=0)

    def canon(r):
        import pandas as pd, xarray as xr
        if isinstance(r, xr.Dataset): return {'a': [float(v) for v in r['a'].values], 'x': [None if np.isnan(v) else float(v) for v in r['x'].values]}
        if isinstance(r, pd.DataFrame): return {'rows': sorted([float(a), float(x)] for a, x in zip(r['a'], r['x']))}
        return {'raw': [float(v) for v in r]}

    def store():
        if kind == 'harvester' and os.path.exists(data):
            return canon(xyz.load_ds(data, engine=sc['engine']))
        if kind == 'sampler' and os.path.exists(data):
            return canon(xyz.load_df(data, engine=sc['engine']))
        return None
    out = {}
    sink = io.StringIO()
    with contextlib.redirect_stdout(sink), contextlib.redirect_stderr(sink):
        if phase == 'setup':
            fm = farmer()
            if kind == 'harvester': fm.harvest_combos({'a': [101, 102]}, verbosity=0)
            if kind == 'sampler':
                df = fm.runner.run_cases([(101,), (102,)], fn_args=['a'], to_df=True, verbosity=0); fm.add_df(df)
        elif phase == 'run':
            crop = mkcrop(farmer())
            sow(crop)
            crop.grow_missing(verbosity=0)
            out['res'] = canon(crop.reap())
        elif phase == 'reap':
            crop = xyz.Crop(name='t', parent_dir=root)
            out['res'] = canon(crop.reap(clean_up=False))
        elif phase == 'recover':
            fm = farmer()
            crop = mkcrop(fm)
            loc = crop.location
            nb = -(-sc['n'] // sc['bs'])
            need_sow = (not crop.is_prepared()
                        or not os.path.isdir(os.path.join(loc, 'results')) or not os.path.isdir(os.path.join(loc, 'batches'))
                        or not os.path.isfile(os.path.join(loc, cropping.FNCT_NM))
                        or any(not os.path.isfile(os.path.join(loc, 'batches', cropping.BTCH_NM.format(i))) for i in range(1, nb + 1)))
            out['resown'] = need_sow
            if need_sow: sow(crop)
            crop.check_bad()
            crop.grow_missing(verbosity=0)
            out['res'] = canon(crop.reap())
        out['store'] = store()
    print('RESULT ' + json.dumps(out))


if __name__ == '__main__':
    try:
        main()
    except Exception as e:
        print('RESULT ' + json.dumps({'err': type(e).__name__, 'msg': str(e)[:200]}))
        sys.exit(1)
