"""Function-level extraction: whole bodies of library functions translated to Lean on every run (pyfn2lean).

The generated definitions live in `Gen` next to the expression anchors (same fallback rule: a body that cannot be
located or translated is emitted as `Gen.Default.<name>` and reported).  `XyzProofs/Props/FnRefine.lean` proves that
the hand-written models (`Batch.chooseBatch`, `Batch.step`/`finish`, …) compute exactly what these generated
functions compute, so the property theorems are theorems about the translated source."""
import ast
from extract import find, one, NotFound
from pyexpr2lean import Untranslatable
from pyfn2lean import Spec, translate_fn

FILES = {'cropping': 'xyzpy/gen/cropping.py', 'manage': 'xyzpy/manage.py'}


def num(n): return (n, 'num')
def boo(n): return (n, 'bool')
def onum(n): return (n, 'onum')
def obool(n): return (n, 'obool')


def _skip_prints(s):
    if isinstance(s, ast.Expr) and isinstance(s.value, ast.Call) and ast.unparse(s.value.func) in ('print', 'warnings.warn'):
        return True
    return False


# ---------------------------------------------------------------- Crop.choose_batch_settings
def a_chooseBatchSettings(T):
    spec = Spec('cropping', ['Crop', 'choose_batch_settings'], {
        'combos': boo('combosTruthy'),
        'prod((len(x) for _, x in combos))': num('combosProd'),
        'cases': boo('casesTruthy'),
        'len(cases)': num('casesLen'),
        'self.batchsize': onum('batchsize'),
        'self.num_batches': onum('numBatches'),
        'self._batch_remainder': onum('remainder'),
        # the modelled domain: both settings, when given, are Python ints
        'isinstance(self.batchsize, int)': boo('true'),
        'isinstance(self.num_batches, int)': boo('true'),
    }, result=['self.batchsize', 'self.num_batches', 'self._batch_remainder'])
    return translate_fn(spec, T, find)


# ---------------------------------------------------------------- Sower
def _write_batch(call, tr, env):
    """write_to_disk(self._batch_cases, join(location, 'batches', BTCH_NM.format(self._batch_counter)))
    ↦ files := files ++ [(batch number, cases)]"""
    if len(call.args) != 2 or call.keywords:
        raise Untranslatable('write_to_disk arity')
    obj, oty = tr.expr(call.args[0])
    if oty != 'list':
        raise Untranslatable('write_to_disk of a non-list in the Sower')
    path = call.args[1]
    fm = [n for n in ast.walk(path) if isinstance(n, ast.Call) and ast.unparse(n.func) == 'BTCH_NM.format' and len(n.args) == 1]
    if len(fm) != 1 or not (isinstance(path, ast.Call) and ast.unparse(path.func) == 'os.path.join'):
        raise Untranslatable('batch file name shape')
    parts = [ast.unparse(a) for a in path.args]
    if parts[:2] != ['self.crop.location', "'batches'"] or len(parts) != 3 or path.args[2] is not fm[0]:
        raise Untranslatable('batch file is not <location>/batches/BTCH_NM.format(i): ' + ast.unparse(path))
    idx, ity = tr.expr(fm[0].args[0])
    if ity != 'num':
        raise Untranslatable('batch number type')
    return [('$files', f'(files ++ [({idx}, {obj})])', 'files')]


_SOWER_ENV = {
    'self._batch_cases': ('batchCases', 'list'),
    'self._counter': num('counter'),
    'self._batch_counter': num('batchCounter'),
    'self.crop.batchsize': num('batchsize'),
    'self.crop._batch_remainder': num('remainder'),
    'kwargs': ('kwargs', 'tok'),
    '$files': ('files', 'files'),
}
_SOWER_RESULT = ['self._batch_cases', 'self._counter', 'self._batch_counter', '$files']


def a_sowerCall(T):
    spec = Spec('cropping', ['Sower', '__call__'], _SOWER_ENV, result=_SOWER_RESULT,
                inline={'self.save_batch': ('cropping', ['Sower', 'save_batch'])},
                effects={'write_to_disk': _write_batch})
    return translate_fn(spec, T, find)


def a_sowerExit(T):
    spec = Spec('cropping', ['Sower', '__exit__'], _SOWER_ENV, result=_SOWER_RESULT,
                inline={'self.save_batch': ('cropping', ['Sower', 'save_batch'])},
                effects={'write_to_disk': _write_batch})
    return translate_fn(spec, T, find)


def a_sowerInit(T):
    """the three counters the Sower starts from"""
    f = find(T['cropping'], ['Sower', '__init__'])
    spec = Spec('cropping', ['Sower', '__init__'], {'self.crop': ('()', 'tok'), 'crop': ('()', 'tok'),
                                                    'self._batch_cases': ('batchCases', 'list'),
                                                    'self._counter': num('counter'), 'self._batch_counter': num('batchCounter')},
                result=['self._batch_cases', 'self._counter', 'self._batch_counter'],
                skip=lambda s: isinstance(s, ast.Assign) and ast.unparse(s.targets[0]) == 'self.crop')
    return translate_fn(spec, T, find)


# ---------------------------------------------------------------- reap options
def a_calcCleanUp(T):
    """calc_clean_up_default_res: (clean_up, whether a default result is used)"""
    spec = Spec('cropping', ['calc_clean_up_default_res'], {
        'clean_up': obool('cleanUp'),
        'allow_incomplete': boo('allowIncomplete'),
        'crop.all_nan_result': boo('true'),        # "a default result is used"
        '_NO_DEFAULT': boo('false'),               # "no default result"
        'clean_up, default_result': None,
    }, returns=('tuple', 'obool', 'bool'))
    spec.env.pop('clean_up, default_result')
    return translate_fn(spec, T, find)


def a_checkReady(T):
    """check_ready_to_reap: raises XYZError unless allow_incomplete or wait or the crop is ready"""
    spec = Spec('cropping', ['check_ready_to_reap'], {
        'allow_incomplete': boo('allowIncomplete'), 'wait': boo('wait'),
        'crop.is_ready_to_reap()': boo('isReady'),
    })
    return translate_fn(spec, T, find)


def a_reaperUseDefault(T):
    """Reaper._load: when is the stand-in used instead of reading the result file?"""
    f = find(T['cropping'], ['Reaper', '__init__'])
    ld = find(f, ['_load'])
    from extract import assigns
    from pyexpr2lean import translate
    v = one(assigns(ld, 'use_default'), 'use_default')
    return translate(v, {'default_result is not _NO_DEFAULT': boo('hasDefault'), 'wait': boo('wait'),
                         'os.path.isfile(x)': boo('isFile')}, 'bool')


# ---------------------------------------------------------------- manage.auto_add_extension
def a_autoAddExt(T):
    """auto_add_extension: the name is extended iff no known extension occurs in it"""
    spec = Spec('manage', ['auto_add_extension'], {
        'any((ext in file_name for ext in _engine_extensions.values()))': boo('anyExtIn'),
        'file_name': ('fileName', 'str'),
        '_engine_extensions[engine]': ('engineExt', 'str'),
    }, returns='str')
    return translate_fn(spec, T, find)


# ---------------------------------------------------------------- sow_combos / sow_cases: attribute updates, runner shuffle
def _is_doc(st):
    return isinstance(st, ast.Expr) and isinstance(st.value, ast.Constant)


def _head_end(st):
    """the head of sow_combos / sow_cases = the leading `if <arg> is not None: self.<attr> = <arg>` statements"""
    return not (_is_doc(st) or isinstance(st, ast.If))


_SOW_ENV = {
    'batchsize': onum('batchsizeArg'), 'num_batches': onum('numBatchesArg'), 'shuffle': onum('shuffleArg'),
    'self.batchsize': onum('batchsize'), 'self.num_batches': onum('numBatches'), 'self.shuffle': onum('shuffle'),
}
_SOW_RESULT = ['self.batchsize', 'self.num_batches', 'self.shuffle']


def a_sowCombosHead(T):
    return translate_fn(Spec('cropping', ['Crop', 'sow_combos'], _SOW_ENV, result=_SOW_RESULT, until=_head_end), T, find)


def a_sowCasesHead(T):
    env = {k: v for k, v in _SOW_ENV.items() if k != 'shuffle'}
    return translate_fn(Spec('cropping', ['Crop', 'sow_cases'], env, result=_SOW_RESULT, until=_head_end), T, find)


def _runner_shuffle(T, meth, callee, env):
    """the `shuffle=` argument handed to the runner that drives the Sower (as an optional number)"""
    from pyfn2lean import Tr2
    f = find(T['cropping'], ['Crop', meth])
    withs = [n for n in ast.walk(f) if isinstance(n, ast.With) and 'Sower(' in ast.unparse(n.items[0].context_expr)]
    w = one(withs, 'with Sower(...)')
    calls = [n for n in ast.walk(w) if isinstance(n, ast.Call) and ast.unparse(n.func) == callee]
    c = one(calls, callee + ' call under the Sower')
    kws = [k.value for k in c.keywords if k.arg == 'shuffle']
    if not kws:
        return '(some 0 : Option Int)'          # the runner's own default: no shuffle
    t, ty = Tr2(env, 'Int').expr(one(kws, 'shuffle='))
    if ty == 'onum': return t
    if ty == 'num': return f'(some {t} : Option Int)'
    if ty == 'bool': return f'(some (if {t} then 1 else 0) : Option Int)'
    raise Untranslatable('runner shuffle of type ' + str(ty))


def a_sowCombosRunnerShuffle(T):
    return _runner_shuffle(T, 'sow_combos', 'combo_runner_core', {'shuffle': onum('shuffleArg'), 'self.shuffle': onum('selfShuffle')})


def a_sowCasesRunnerShuffle(T):
    return _runner_shuffle(T, 'sow_cases', 'case_runner', {'self.shuffle': onum('selfShuffle')})


def a_sowCombosShuffleDefault(T):
    """the default of sow_combos' `shuffle` parameter (what a call that leaves it out means)"""
    f = find(T['cropping'], ['Crop', 'sow_combos'])
    a = f.args
    names = [x.arg for x in a.args]
    if 'shuffle' in names:
        i = names.index('shuffle') - (len(names) - len(a.defaults))
        if i < 0: raise NotFound('shuffle has no default')
        d = a.defaults[i]
    else:
        kn = [x.arg for x in a.kwonlyargs]
        if 'shuffle' not in kn: raise NotFound('no shuffle parameter')
        d = a.kw_defaults[kn.index('shuffle')]
        if d is None: raise NotFound('shuffle has no default')
    if isinstance(d, ast.Constant):
        if d.value is None: return '(none : Option Int)'
        if isinstance(d.value, bool): return f'(some {int(d.value)} : Option Int)'
        if isinstance(d.value, int) and d.value >= 0: return f'(some {d.value} : Option Int)'
    raise Untranslatable('default of shuffle: ' + ast.unparse(d))


PYERR = 'Except PyErr'
ANCHORS = [
    ('chooseBatchSettings',
     '(combosTruthy : Bool) (combosProd : Int) (casesTruthy : Bool) (casesLen : Int) (batchsize numBatches remainder : Option Int) : '
     f'{PYERR} (Option Int × Option Int × Option Int)', a_chooseBatchSettings),
    ('sowerInit', '{α : Type} : ' f'{PYERR} (List α × Int × Int)', a_sowerInit),
    ('sowerCall', '{α : Type} (batchsize remainder : Int) (batchCases : List α) (counter batchCounter : Int) '
     '(files : List (Int × List α)) (kwargs : α) : ' f'{PYERR} (List α × Int × Int × List (Int × List α))', a_sowerCall),
    ('sowerExit', '{α : Type} (batchCases : List α) (counter batchCounter : Int) (files : List (Int × List α)) : '
     f'{PYERR} (List α × Int × Int × List (Int × List α))', a_sowerExit),
    ('sowCombosHead', '(batchsizeArg numBatchesArg shuffleArg batchsize numBatches shuffle : Option Int) : '
     f'{PYERR} (Option Int × Option Int × Option Int)', a_sowCombosHead),
    ('sowCasesHead', '(batchsizeArg numBatchesArg batchsize numBatches shuffle : Option Int) : '
     f'{PYERR} (Option Int × Option Int × Option Int)', a_sowCasesHead),
    ('sowCombosRunnerShuffle', '(shuffleArg selfShuffle : Option Int) : Option Int', a_sowCombosRunnerShuffle),
    ('sowCombosShuffleDefault', ': Option Int', a_sowCombosShuffleDefault),
    ('sowCasesRunnerShuffle', '(selfShuffle : Option Int) : Option Int', a_sowCasesRunnerShuffle),
    ('calcCleanUp', '(cleanUp : Option Bool) (allowIncomplete : Bool) : ' f'{PYERR} (Option Bool × Bool)', a_calcCleanUp),
    ('checkReady', '(allowIncomplete wait isReady : Bool) : ' f'{PYERR} Unit', a_checkReady),
    ('reaperUseDefault', '(hasDefault wait isFile : Bool) : Bool', a_reaperUseDefault),
    ('autoAddExt', '(anyExtIn : Bool) (fileName engineExt : String) : ' f'{PYERR} String', a_autoAddExt),
]
