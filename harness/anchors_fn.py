"""Function-level extraction: whole bodies of library functions translated to Lean on every run (pyfn2lean).

The generated definitions live in `Gen` next to the expression anchors (same fallback rule: a body that cannot be
located or translated is emitted as `Gen.Default.<name>` and reported).  `XyzProofs/Props/FnRefine.lean` proves that
the hand-written models (`Batch.chooseBatch`, `Batch.step`/`finish`, …) compute exactly what these generated
functions compute, so the property theorems are theorems about the translated source."""
import ast
from extract import find, one, NotFound
from pyexpr2lean import Untranslatable
from pyfn2lean import Spec, translate_fn

FILES = {'cropping': 'xyzpy/gen/cropping.py', 'manage': 'xyzpy/manage.py'}


def num(n): return (n, 'num')
def boo(n): return (n, 'bool')
def onum(n): return (n, 'onum')
def obool(n): return (n, 'obool')


def _skip_prints(s):
    if isinstance(s, ast.Expr) and isinstance(s.value, ast.Call) and ast.unparse(s.value.func) in ('print', 'warnings.warn'):
        return True
    return False


# ---------------------------------------------------------------- Crop.choose_batch_settings
def a_chooseBatchSettings(T):
    spec = Spec('cropping', ['Crop', 'choose_batch_settings'], {
        'combos': boo('combosTruthy'),
        'prod((len(x) for _, x in combos))': num('combosProd'),
        'cases': boo('casesTruthy'),
        'len(cases)': num('casesLen'),
        'self.batchsize': onum('batchsize'),
        'self.num_batches': onum('numBatches'),
        'self._batch_remainder': onum('remainder'),
    }, result=['self.batchsize', 'self.num_batches', 'self._batch_remainder'])
    return translate_fn(spec, T, find)


# ---------------------------------------------------------------- Sower
def _write_batch(call, tr, env):
    """write_to_disk(self._batch_cases, join(location, 'batches', BTCH_NM.format(self._batch_counter)))
    ↦ files := files ++ [(batch number, cases)]"""
    if len(call.args) != 2 or call.keywords:
        raise Untranslatable('write_to_disk arity')
    obj, oty = tr.expr(call.args[0])
    if oty != 'list':
        raise Untranslatable('write_to_disk of a non-list in the Sower')
    path = tr.resolve(call.args[1])
    fm = [n for n in ast.walk(path) if isinstance(n, ast.Call) and ast.unparse(n.func) == 'BTCH_NM.format' and len(n.args) == 1]
    if len(fm) != 1 or not (isinstance(path, ast.Call) and ast.unparse(path.func) == 'os.path.join'):
        raise Untranslatable('batch file name shape')
    parts = [ast.unparse(a) for a in path.args]
    if parts[:2] != ['self.crop.location', "'batches'"] or len(parts) != 3 or path.args[2] is not fm[0]:
        raise Untranslatable('batch file is not <location>/batches/BTCH_NM.format(i): ' + ast.unparse(path))
    idx, ity = tr.expr(fm[0].args[0])
    if ity != 'num':
        raise Untranslatable('batch number type')
    return [('$files', f'(files ++ [({idx}, {obj})])', 'files')]


_SOWER_ENV = {
    'self._batch_cases': ('batchCases', 'list'),
    'self._counter': num('counter'),
    'self._batch_counter': num('batchCounter'),
    'self.crop.batchsize': num('batchsize'),
    'self.crop._batch_remainder': num('remainder'),
    'kwargs': ('kwargs', 'tok'),
    '$files': ('files', 'files'),
}
_SOWER_RESULT = ['self._batch_cases', 'self._counter', 'self._batch_counter', '$files']


def a_sowerCall(T):
    spec = Spec('cropping', ['Sower', '__call__'], _SOWER_ENV, result=_SOWER_RESULT,
                inline={'self.save_batch': ('cropping', ['Sower', 'save_batch'])},
                effects={'write_to_disk': _write_batch})
    return translate_fn(spec, T, find)


def a_sowerExit(T):
    spec = Spec('cropping', ['Sower', '__exit__'], _SOWER_ENV, result=_SOWER_RESULT,
                inline={'self.save_batch': ('cropping', ['Sower', 'save_batch'])},
                effects={'write_to_disk': _write_batch})
    return translate_fn(spec, T, find)


def a_sowerInit(T):
    """the three counters the Sower starts from"""
    f = find(T['cropping'], ['Sower', '__init__'])
    spec = Spec('cropping', ['Sower', '__init__'], {'self.crop': ('()', 'tok'), 'crop': ('()', 'tok'),
                                                    'self._batch_cases': ('batchCases', 'list'),
                                                    'self._counter': num('counter'), 'self._batch_counter': num('batchCounter')},
                result=['self._batch_cases', 'self._counter', 'self._batch_counter'],
                skip=lambda s: isinstance(s, ast.Assign) and ast.unparse(s.targets[0]) == 'self.crop')
    return translate_fn(spec, T, find)


# ---------------------------------------------------------------- reap options
def a_calcCleanUp(T):
    """calc_clean_up_default_res: (clean_up, whether a default result is used)"""
    spec = Spec('cropping', ['calc_clean_up_default_res'], {
        'clean_up': obool('cleanUp'),
        'allow_incomplete': boo('allowIncomplete'),
        'crop.all_nan_result': boo('true'),        # "a default result is used"
        '_NO_DEFAULT': boo('false'),               # "no default result"
        'clean_up, default_result': None,
    }, returns=('tuple', 'obool', 'bool'))
    spec.env.pop('clean_up, default_result')
    return translate_fn(spec, T, find)


def a_checkReady(T):
    """check_ready_to_reap: raises XYZError unless allow_incomplete or wait or the crop is ready"""
    spec = Spec('cropping', ['check_ready_to_reap'], {
        'allow_incomplete': boo('allowIncomplete'), 'wait': boo('wait'),
        'crop.is_ready_to_reap()': boo('isReady'),
    })
    return translate_fn(spec, T, find)


def a_reaperUseDefault(T):
    """Reaper._load: when is the stand-in used instead of reading the result file?"""
    f = find(T['cropping'], ['Reaper', '__init__'])
    ld = find(f, ['_load'])
    from extract import assigns
    from pyexpr2lean import translate
    v = one(assigns(ld, 'use_default'), 'use_default')
    return translate(v, {'default_result is not _NO_DEFAULT': boo('hasDefault'), 'wait': boo('wait'),
                         'os.path.isfile(x)': boo('isFile')}, 'bool')


# ---------------------------------------------------------------- manage.auto_add_extension
def a_autoAddExt(T):
    """auto_add_extension: the name is extended iff no known extension occurs in it"""
    spec = Spec('manage', ['auto_add_extension'], {
        'any((ext in file_name for ext in _engine_extensions.values()))': boo('anyExtIn'),
        'file_name': ('fileName', 'str'),
        '_engine_extensions[engine]': ('engineExt', 'str'),
    }, returns='str')
    return translate_fn(spec, T, find)


# ---------------------------------------------------------------- sow_combos / sow_cases: attribute updates, runner shuffle
def _is_doc(st):
    return isinstance(st, ast.Expr) and isinstance(st.value, ast.Constant)


def _head_end(st):
    """the head of sow_combos / sow_cases = the statements before the arguments are parsed (`combos = parse_combos(…)`
    resp. `fn_args = parse_fn_args(…)`); whatever stands there must be in the translated sub-language"""
    return isinstance(st, ast.Assign) and isinstance(st.value, ast.Call) and \
        ast.unparse(st.value.func) in ('parse_combos', 'parse_fn_args', 'parse_cases')


_SOW_ENV = {
    'batchsize': onum('batchsizeArg'), 'num_batches': onum('numBatchesArg'), 'shuffle': onum('shuffleArg'),
    'self.batchsize': onum('batchsize'), 'self.num_batches': onum('numBatches'), 'self.shuffle': onum('shuffle'),
}
_SOW_RESULT = ['self.batchsize', 'self.num_batches', 'self.shuffle']


def a_sowCombosHead(T):
    return translate_fn(Spec('cropping', ['Crop', 'sow_combos'], _SOW_ENV, result=_SOW_RESULT, until=_head_end), T, find)


def a_sowCasesHead(T):
    env = {k: v for k, v in _SOW_ENV.items() if k != 'shuffle'}
    return translate_fn(Spec('cropping', ['Crop', 'sow_cases'], env, result=_SOW_RESULT, until=_head_end), T, find)


def _runner_shuffle(T, meth, callee, env):
    """the `shuffle=` argument handed to the runner that drives the Sower (as an optional number)"""
    from pyfn2lean import Tr2
    f = find(T['cropping'], ['Crop', meth])
    withs = [n for n in ast.walk(f) if isinstance(n, ast.With) and 'Sower(' in ast.unparse(n.items[0].context_expr)]
    w = one(withs, 'with Sower(...)')
    calls = [n for n in ast.walk(w) if isinstance(n, ast.Call) and ast.unparse(n.func) == callee]
    c = one(calls, callee + ' call under the Sower')
    kws = [k.value for k in c.keywords if k.arg == 'shuffle']
    if not kws:
        return '(some 0 : Option Int)'          # the runner's own default: no shuffle
    t, ty = Tr2(env, 'Int').expr(one(kws, 'shuffle='))
    if ty == 'onum': return t
    if ty == 'num': return f'(some {t} : Option Int)'
    if ty == 'bool': return f'(some (if {t} then 1 else 0) : Option Int)'
    raise Untranslatable('runner shuffle of type ' + str(ty))


def a_sowCombosRunnerShuffle(T):
    return _runner_shuffle(T, 'sow_combos', 'combo_runner_core', {'shuffle': onum('shuffleArg'), 'self.shuffle': onum('selfShuffle')})


def a_sowCasesRunnerShuffle(T):
    return _runner_shuffle(T, 'sow_cases', 'case_runner', {'self.shuffle': onum('selfShuffle')})


def a_sowCombosShuffleDefault(T):
    """the default of sow_combos' `shuffle` parameter (what a call that leaves it out means)"""
    f = find(T['cropping'], ['Crop', 'sow_combos'])
    a = f.args
    names = [x.arg for x in a.args]
    if 'shuffle' in names:
        i = names.index('shuffle') - (len(names) - len(a.defaults))
        if i < 0: raise NotFound('shuffle has no default')
        d = a.defaults[i]
    else:
        kn = [x.arg for x in a.kwonlyargs]
        if 'shuffle' not in kn: raise NotFound('no shuffle parameter')
        d = a.kw_defaults[kn.index('shuffle')]
        if d is None: raise NotFound('shuffle has no default')
    if isinstance(d, ast.Constant):
        if d.value is None: return '(none : Option Int)'
        if isinstance(d.value, bool): return f'(some {int(d.value)} : Option Int)'
        if isinstance(d.value, int) and d.value >= 0: return f'(some {d.value} : Option Int)'
    raise Untranslatable('default of shuffle: ' + ast.unparse(d))


# ---------------------------------------------------------------- effect skeletons of the reap methods
from pysk2lean import SkSpec, translate_sk

_REAP_ENV = {'wait': boo('wait'), 'clean_up': obool('cleanUp'), 'allow_incomplete': boo('allowIncomplete'),
             'to_df': boo('toDf'), 'sync': boo('sync'), 'parse': boo('parse'),
             'harvester is None': boo('false'), 'sampler is None': boo('false')}


def _call_named(st, name):
    """the Call node if `st` is `name(...)` as a statement or the right-hand side of an assignment"""
    v = st.value if isinstance(st, (ast.Expr, ast.Assign)) else None
    if isinstance(v, ast.Call) and ast.unparse(v.func) == name: return v
    return None


def _targets(st):
    if isinstance(st, ast.Assign) and len(st.targets) == 1:
        t = st.targets[0]
        return [ast.unparse(x) for x in t.elts] if isinstance(t, ast.Tuple) else [ast.unparse(t)]
    return []


def _opt_bool(tr, e):
    """an expression handed on as an optional bool (`clean_up=...`)"""
    if isinstance(e, ast.Constant) and e.value is None: return '(none : Option Bool)'
    t, ty = tr.expr(e)
    if ty == 'obool': return t
    if ty == 'bool': return f'(some {t} : Option Bool)'
    raise Untranslatable('optional bool expected: ' + ast.unparse(e))


def _plain_bool(tr, e):
    t, ty = tr.expr(e)
    if ty != 'bool': raise Untranslatable('bool expected: ' + ast.unparse(e))
    return t


def _kw(call, name, default=None):
    for k in call.keywords:
        if k.arg == name: return k.value
    if default is not None: return default
    raise Untranslatable(f'keyword {name} not passed in ' + ast.unparse(call)[:60])


def _h_check_ready(st, tr, env):
    c = _call_named(st, 'check_ready_to_reap')
    if [ast.unparse(a) for a in c.args] != ['self', 'allow_incomplete', 'wait'] or c.keywords:
        raise Untranslatable('check_ready_to_reap arguments')
    return [('eff', '.checkReady', None)]


def _h_calc(st, tr, env):
    c = _call_named(st, 'calc_clean_up_default_res')
    if len(c.args) != 3 or c.keywords or ast.unparse(c.args[0]) != 'self' or _targets(st) != ['clean_up', 'default_result']:
        raise Untranslatable('calc_clean_up_default_res call shape')
    cu, ai = _opt_bool(tr, c.args[1]), _plain_bool(tr, c.args[2])
    # the stand-in result is read off a finished batch exactly when one is asked for: that read can fail
    return [('pure', f'calcCleanUp {cu} {ai}', [('clean_up', 'cleanUp', 'obool'), ('default_result', 'defaultResult', 'bool')]),
            ('eff', '.allNan', 'defaultResult')]


def _h_load_info(st, tr, env):
    return [('eff', '.loadInfo', None)] + [('let', t, '()', 'tok') for t in _targets(st) if t.isidentifier()]


def _has_load_info(st):
    return isinstance(st, ast.Assign) and any(isinstance(n, ast.Call) and ast.unparse(n.func) == 'self.load_info' for n in ast.walk(st.value))


def _h_gather(st, tr, env):
    c = st.value
    if ast.unparse(_kw(c, 'fn')) != 'reap_fn': raise Untranslatable('the runner is not driven by the Reaper')
    effs = [('eff', '.gather', None)]
    if ast.unparse(c.func) == 'combo_runner_to_ds': effs.append(('eff', '.label', None))
    return effs + [('let', t, '()', 'tok') for t in _targets(st)]


def _is_gather(st):
    return isinstance(st, ast.Assign) and isinstance(st.value, ast.Call) and ast.unparse(st.value.func) in ('combo_runner_core', 'combo_runner_to_ds')


def _is_label_prep(st):
    """`if parse: constants = parse_constants(constants); attrs = parse_attrs(attrs)`: prepares labels, no effect"""
    return isinstance(st, ast.If) and ast.unparse(st.test) == 'parse' and not st.orelse and \
        all(isinstance(b, ast.Assign) and _targets(b)[0] in ('constants', 'attrs') for b in st.body)


def _is_set_last(st):
    if isinstance(st, ast.Assign) and any('._last_' in t for t in _targets(st)): return True
    return isinstance(st, ast.If) and st.body and st.orelse and all(
        isinstance(b, ast.Assign) and any('._last_' in t for t in _targets(b)) for b in list(st.body) + list(st.orelse))


def _h_inner(target_sk, params):
    """a call of another reap method on the same crop: run its skeleton with the arguments as passed"""
    def h(st, tr, env):
        c = st.value
        args = []
        for name, kind, dflt in params:
            e = _kw(c, name, dflt)
            args.append(_opt_bool(tr, e) if kind == 'obool' else _plain_bool(tr, e))
        return [('call', f'{target_sk} fails ' + ' '.join(args) + f' {env["$trace"][0]}')] + \
               [('let', t, '()', 'tok') for t in _targets(st)]
    return h


_F, _N = ast.Constant(False), ast.Constant(None)
_REAPER = (lambda ce: isinstance(ce, ast.Call) and ast.unparse(ce.func) == 'Reaper',
           lambda s, tr, env: [], lambda s, tr, env: [('eff', '.reaperExit', None)])
_COMMON = [
    (lambda st: _call_named(st, 'check_ready_to_reap') is not None, _h_check_ready),
    (lambda st: _call_named(st, 'calc_clean_up_default_res') is not None, _h_calc),
    (_has_load_info, _h_load_info),
    (_is_gather, _h_gather),
    (_is_label_prep, lambda st, tr, env: []),
    (_is_set_last, lambda st, tr, env: [('eff', '.setLast', None)]),
    (lambda st: _call_named(st, 'self.delete_all') is not None, lambda st, tr, env: [('eff', '.deleteAll', None)]),
    (lambda st: isinstance(st, ast.Expr) and isinstance(st.value, ast.Call) and ast.unparse(st.value.func).endswith(('.add_ds', '.add_df')),
     lambda st, tr, env: [('eff', '.sync', None)]),
    (lambda st: isinstance(st, ast.Assign) and _call_named(st, 'self.reap_combos_to_ds') is not None,
     _h_inner('reapCombosToDsSk', [('wait', 'bool', _F), ('clean_up', 'obool', _N), ('allow_incomplete', 'bool', _F),
                                   ('to_df', 'bool', _F), ('parse', 'bool', ast.Constant(True))])),
    (lambda st: isinstance(st, ast.Assign) and _call_named(st, 'self.reap_runner') is not None,
     _h_inner('reapRunnerSk', [('wait', 'bool', _F), ('clean_up', 'obool', _N), ('allow_incomplete', 'bool', _F), ('to_df', 'bool', _F)])),
]


def _sk(meth):
    def a(T):
        return translate_sk(SkSpec('cropping', ['Crop', meth], _REAP_ENV, handlers=_COMMON, withs=[_REAPER]), T, find)
    return a


_SK = '(fails : Eff → Bool)'
_SKR = '(trace : List Eff) : List Eff × Option PyErr'
PYERR = 'Except PyErr'
ANCHORS = [
    ('chooseBatchSettings',
     '(combosTruthy : Bool) (combosProd : Int) (casesTruthy : Bool) (casesLen : Int) (batchsize numBatches remainder : Option Int) : '
     f'{PYERR} (Option Int × Option Int × Option Int)', a_chooseBatchSettings),
    ('sowerInit', '{α : Type} : ' f'{PYERR} (List α × Int × Int)', a_sowerInit),
    ('sowerCall', '{α : Type} (batchsize remainder : Int) (batchCases : List α) (counter batchCounter : Int) '
     '(files : List (Int × List α)) (kwargs : α) : ' f'{PYERR} (List α × Int × Int × List (Int × List α))', a_sowerCall),
    ('sowerExit', '{α : Type} (batchCases : List α) (counter batchCounter : Int) (files : List (Int × List α)) : '
     f'{PYERR} (List α × Int × Int × List (Int × List α))', a_sowerExit),
    ('sowCombosHead', '(batchsizeArg numBatchesArg shuffleArg batchsize numBatches shuffle : Option Int) : '
     f'{PYERR} (Option Int × Option Int × Option Int)', a_sowCombosHead),
    ('sowCasesHead', '(batchsizeArg numBatchesArg batchsize numBatches shuffle : Option Int) : '
     f'{PYERR} (Option Int × Option Int × Option Int)', a_sowCasesHead),
    ('sowCombosRunnerShuffle', '(shuffleArg selfShuffle : Option Int) : Option Int', a_sowCombosRunnerShuffle),
    ('sowCombosShuffleDefault', ': Option Int', a_sowCombosShuffleDefault),
    ('sowCasesRunnerShuffle', '(selfShuffle : Option Int) : Option Int', a_sowCasesRunnerShuffle),
    ('calcCleanUp', '(cleanUp : Option Bool) (allowIncomplete : Bool) : ' f'{PYERR} (Option Bool × Bool)', a_calcCleanUp),
    ('checkReady', '(allowIncomplete wait isReady : Bool) : ' f'{PYERR} Unit', a_checkReady),
    ('reaperUseDefault', '(hasDefault wait isFile : Bool) : Bool', a_reaperUseDefault),
    ('reapCombosSk', f'{_SK} (wait : Bool) (cleanUp : Option Bool) (allowIncomplete : Bool) {_SKR}', _sk('reap_combos')),
    ('reapCombosToDsSk', f'{_SK} (wait : Bool) (cleanUp : Option Bool) (allowIncomplete toDf parse : Bool) {_SKR}', _sk('reap_combos_to_ds')),
    ('reapRunnerSk', f'{_SK} (wait : Bool) (cleanUp : Option Bool) (allowIncomplete toDf : Bool) {_SKR}', _sk('reap_runner')),
    ('reapHarvestSk', f'{_SK} (wait sync : Bool) (cleanUp : Option Bool) (allowIncomplete : Bool) {_SKR}', _sk('reap_harvest')),
    ('reapSamplesSk', f'{_SK} (wait sync : Bool) (cleanUp : Option Bool) (allowIncomplete : Bool) {_SKR}', _sk('reap_samples')),
    ('autoAddExt', '(anyExtIn : Bool) (fileName engineExt : String) : ' f'{PYERR} String', a_autoAddExt),
]
