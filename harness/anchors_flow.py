"""Argument flow of the labelled entry points, translated on every run (pyflow2lean):

    flowRunnerInit   Runner.__init__           which argument is parsed by which parser into which stored description
    flowRunCombos    Runner.run_combos         stored descriptions / per-run constants -> combo_runner_to_ds
    flowRunCases     Runner.run_cases          … -> case_runner_to_ds; what parse_cases zips tuple cases with
    flowLabel        label(...)(fn)            the decorator's arguments -> Runner(...) (-> Harvester / Sampler)
    flowHarvestCombos / flowHarvestCases       Harvester.harvest_* -> runner.run_* -> add_ds
    flowGenCases     Sampler.gen_cases_fnargs  the keys handed out and the dict the values are drawn from
    flowSampleCombos Sampler.sample_combos     (gen_cases_fnargs inlined) -> runner.run_cases(fn_args=…, to_df=True) -> add_df
    flowComboToDs    combo_runner_to_ds        parse block, -> combo_runner_core, -> results_to_df | results_to_ds
    flowCaseToDs     case_runner_to_ds         parse block, -> combo_runner_to_ds

and of the DataFrame labelling (pyloop2lean, subclassed for loops that can raise and rows changed in place):

    dfRows           results_to_df             the loop pairing row i of the settings with result i
    coreRunInfo      combo_runner_core         the slice from the shuffle bookkeeping to `info["settings"] = …`:
                                               results put back in order AND the settings reported in that same order
    casesZip         parse_cases               `tuple(dict(zip(fn_args, c)) for c in cases)`
    dictifyKeeps     dictify                   does the normaliser of constants / attrs / … hand back a dict as it is

`XyzProofs/Refine/Forwarding.lean` proves the table / precedence / no-lingering theorems on these definitions.
"""
import ast
from extract import find, one, NotFound
from pyexpr2lean import Untranslatable
from pyflow2lean import FlowSpec, translate_flow
import pyloop2lean as pl
from pyloop2lean import Spec, LoopTr, V, S, B, R, N, A, L, P, D, F, is_dict, is_list, is_pair, lean_ty, paren, lean_name
import anchors_core as ac

FILES = {'farming': 'xyzpy/gen/farming.py', 'combo_runner': 'xyzpy/gen/combo_runner.py', 'prepare': 'xyzpy/gen/prepare.py',
         'case_runner': 'xyzpy/gen/case_runner.py'}

T_CRDS = ('combo_runner', ['combo_runner_to_ds'])
T_CSDS = ('case_runner', ['case_runner_to_ds'])


def _flow(spec):
    return lambda T: translate_flow(spec, T, find)


RUNNER_CALLS = {'combo_runner_to_ds': T_CRDS, 'case_runner_to_ds': T_CSDS}
a_flowRunnerInit = _flow(FlowSpec('farming', ['Runner', '__init__'], {}))
a_flowRunCombos = _flow(FlowSpec('farming', ['Runner', 'run_combos'], RUNNER_CALLS))
a_flowRunCases = _flow(FlowSpec('farming', ['Runner', 'run_cases'], RUNNER_CALLS))
a_flowLabel = _flow(FlowSpec('farming', ['label', 'wrapper'], {
    'Runner': ('farming', ['Runner']), 'Harvester': ('farming', ['Harvester']), 'Sampler': ('farming', ['Sampler'])},
    self_name=None, closure=True))
HARVEST_CALLS = {'self.runner.run_combos': ('farming', ['Runner', 'run_combos']),
                 'self.runner.run_cases': ('farming', ['Runner', 'run_cases']),
                 'self.add_ds': ('farming', ['Harvester', 'add_ds']), 'self.add_df': ('farming', ['Sampler', 'add_df']),
                 # a farmer that went round its runner and called the labelling functions itself would show up as such
                 'combo_runner_to_ds': T_CRDS, 'case_runner_to_ds': T_CSDS}
a_flowHarvestCombos = _flow(FlowSpec('farming', ['Harvester', 'harvest_combos'], HARVEST_CALLS))
a_flowHarvestCases = _flow(FlowSpec('farming', ['Harvester', 'harvest_cases'], HARVEST_CALLS))
a_flowGenCases = _flow(FlowSpec('farming', ['Sampler', 'gen_cases_fnargs'], {}))
a_flowSampleCombos = _flow(FlowSpec('farming', ['Sampler', 'sample_combos'], HARVEST_CALLS,
                                    inline={'self.gen_cases_fnargs': ('farming', ['Sampler', 'gen_cases_fnargs'])}))
a_flowComboToDs = _flow(FlowSpec('combo_runner', ['combo_runner_to_ds'], {
    'combo_runner_core': ('combo_runner', ['combo_runner_core']), 'results_to_df': ('combo_runner', ['results_to_df']),
    'results_to_ds': ('combo_runner', ['results_to_ds'])}, self_name=None))
a_flowCaseToDs = _flow(FlowSpec('case_runner', ['case_runner_to_ds'], {'combo_runner_to_ds': T_CRDS}, self_name=None))


# ------------------------------------------------------------------------------------------------ dictify
def a_dictifyKeeps(T):
    """`dictify(x)` (= parse_constants / parse_attrs / parse_resources / parse_var_coords): true iff a dict is handed back
    as the same object (first test `isinstance(x, dict)` -> `return x`), which is what makes a stored description and
    the parsed form of it one object"""
    t = T['prepare']
    for name in ('parse_constants', 'parse_attrs', 'parse_resources', 'parse_var_coords'):
        hit = [n for n in t.body if isinstance(n, ast.Assign) and any(isinstance(x, ast.Name) and x.id == name for x in n.targets)]
        if len(hit) != 1 or not (isinstance(hit[0].value, ast.Name) and hit[0].value.id == 'dictify'):
            raise NotFound(name + ' is not dictify')
    f = find(t, ['dictify'])
    body = [s for s in f.body if not (isinstance(s, ast.Expr) and isinstance(s.value, ast.Constant))]
    if [a.arg for a in f.args.args] != ['x'] or not body or not isinstance(body[0], ast.If):
        raise NotFound('dictify shape')
    i = body[0]
    if ast.unparse(i.test) != 'isinstance(x, dict)' or len(i.body) != 1 or not isinstance(i.body[0], ast.Return):
        raise NotFound('dictify: first test')
    r = i.body[0].value
    if isinstance(r, ast.Name) and r.id == 'x': return 'true'
    if isinstance(r, ast.Call) and ast.unparse(r) in ('dict(x)', 'x.copy()', 'dict(**x)'): return 'false'
    raise NotFound('dictify: what a dict becomes')


# ------------------------------------------------------------------------------------------------ loops that can raise
class RowTr(LoopTr):
    """pyloop2lean plus: (1) a loop whose body can raise (or whose target is rebound / changed in place) becomes a
    `List.foldlM` in `Except PyErr`, the loop variable a local of the body; (2) iterating a dict iterates its keys;
    (3) `d.pop(k, None)` as a statement; (4) a result of the swept function used as one cell (`asCell`) or unpacked into
    its outputs (`outputs`)"""

    def coerce(self, term, t, want, what=''):
        if t == R and want == V: return f'(asCell {term})', V
        if t == R and want == L(V): return f'(outputs {term})', L(V)
        return super().coerce(term, t, want, what)

    def for_(self, s, rest, env, ind, done):
        if s.orelse: raise Untranslatable('for … else')
        if any(isinstance(n, (ast.Break, ast.Continue, ast.Return)) for n in ast.walk(s)): raise Untranslatable('break / continue / return in a loop')
        saved = self.binders; self.binders = []
        try:
            it, ity = self.expr(s.iter, env)
            binders = self.binders
        finally:
            self.binders = saved
        if binders: raise Untranslatable('loop over an expression that can raise')
        if is_dict(ity): it, ity = f'({it}.map Prod.fst)', L(ity[1])
        if not is_list(ity) or ity[1] is None: raise Untranslatable('loop over ' + str(ity))
        tnames = {n.id for n in ast.walk(s.target) if isinstance(n, ast.Name)}
        if tnames & {k for k in env if not k.startswith('$')}: raise Untranslatable('loop target shadows a translated variable')
        state = [k for k in self.state_of(s.body, env) if k not in tnames]
        if not state:
            if self.spec.skip and self.spec.skip(s) and self.safe_to_skip(s, env):
                return self.block(rest, env, ind, done)
            raise Untranslatable('a loop without effect on translated variables: ' + ast.unparse(s)[:60])
        pat, env_b = self.pattern(s.target, ity[1], env)
        stup = self.tuple_of([env[k][0] for k in state])
        sty = ' × '.join(paren(lean_ty(env[k][1])) for k in state)

        def fin(e2, ret):
            if ret is not None: raise Untranslatable('return inside a loop')
            for k in state:
                if e2[k][1] != env[k][1]: raise Untranslatable(f'{k} changes type in a loop')
            return '.ok ' + self.tuple_of([e2[k][0] for k in state])
        saved_pure, self.pure = self.pure, 0
        try:
            body = self.block(list(s.body), env_b, ind + '    ', fin)
        finally:
            self.pure = saved_pure
        if self.pure: raise Untranslatable('a loop that can raise inside an error-free loop')
        env2 = dict(env)
        for k in state:
            self.assigned.add(k); self.versions[k] = self.versions.get(k, 0) + 1
        for k in [k for k in env2 if k.startswith('$known:')]:
            if any(isinstance(n, ast.Name) and n.id in state for n in ast.walk(ast.parse(k[7:], mode='eval'))): del env2[k]
        head = (f'{ind}(match ({it}.foldlM (m := Except PyErr) (fun ({stup} : {sty}) {pat} =>\n{body}) {stup}) with\n'
                f'{ind}| .error e => .error e\n{ind}| .ok {stup} =>')
        return head + '\n' + self.block(rest, env2, ind + '  ', done) + ')'

    def block(self, stmts, env, ind, done):
        if stmts:
            s = stmts[0]
            # d.pop(k, None): the key is removed if present, nothing is raised
            if isinstance(s, ast.Expr) and isinstance(s.value, ast.Call) and isinstance(s.value.func, ast.Attribute) \
                    and s.value.func.attr == 'pop' and isinstance(s.value.func.value, ast.Name) and s.value.func.value.id in env \
                    and is_dict(env[s.value.func.value.id][1]) and len(s.value.args) == 2 and not s.value.keywords \
                    and isinstance(s.value.args[1], ast.Constant) and s.value.args[1].value is None:
                key = s.value.func.value.id
                dty = env[key][1]
                rest = list(stmts[1:])

                def build(env1):
                    k, _ = self.expr(s.value.args[0], env1, dty[1])
                    e2, ln = self.let(env1, key, f'(Py.dictErase {env1[key][0]} {k})', dty)
                    return [ln], e2
                return self.stmt(build, env, ind, lambda e2, i2: self.block(rest, e2, i2, done))
        return super().block(stmts, env, ind, done)


def translate_rows(spec, trees):
    f = find(trees[spec.file], spec.path)
    tr = RowTr(spec)
    env = dict(spec.env)

    def done(env2, ret):
        parts = []
        if ret is not None:
            parts.append(ret[0])
        elif spec.returns is not None:
            raise Untranslatable('a path returns nothing although a value is declared')
        for k in spec.result:
            if k not in env2 or env2[k][1] in ('ast', 'known', 'snap'): raise Untranslatable(f'{k} is not defined at the end')
            parts.append(env2[k][0])
        return '.ok (' + ', '.join(parts) + ')' if parts else '.ok ()'
    return '\n' + tr.block(pl.body_slice(f, spec), env, '  ', done)


def _h_dataframe(call, tr, env):
    """pd.DataFrame(data): the table whose rows are the dicts of `data` (pandas is not modelled: the rows ARE the table)"""
    if len(call.args) != 1 or call.keywords: raise Untranslatable('pd.DataFrame arguments')
    return tr.expr(call.args[0], env, L(D(S, V)))


def _h_zip(call, tr, env):
    if len(call.args) != 2 or call.keywords or any(isinstance(a, ast.Starred) for a in call.args): raise Untranslatable('zip shape')
    a, at = tr.expr(call.args[0], env); b, bt = tr.expr(call.args[1], env)
    if bt == R: b, bt = tr.coerce(b, bt, L(V))
    if is_list(at) and is_list(bt) and at[1] is not None and bt[1] is not None:
        return f'(List.zip {a} {b})', L(P(at[1], bt[1]))
    raise Untranslatable('zip of ' + str((at, bt)))


def a_dfRows(T):
    f = find(T['combo_runner'], ['results_to_df'])
    params = [a.arg for a in f.args.args]
    if sorted(params) != sorted(['results_linear', 'settings', 'attrs', 'resources', 'var_names']) or f.args.vararg or f.args.kwarg \
            or f.args.kwonlyargs or f.args.defaults:
        raise NotFound('results_to_df parameters ' + str(params))
    spec = Spec('combo_runner', ['results_to_df'], {
        'results_linear': ('resultsLinear', L(R)), 'settings': ('settings', L(D(S, V))), 'attrs': ('attrs', D(S, V)),
        'resources': ('resources', D(S, V)), 'var_names': ('varNames', L(S))},
        types={'data': L(D(S, V))}, returns=L(D(S, V)),
        skip=lambda st: ac._is_doc(st) or isinstance(st, (ast.Import, ast.ImportFrom)),
        calls={'pd.DataFrame': _h_dataframe, 'zip': _h_zip})
    return translate_rows(spec, T)


# ------------------------------------------------------------------------------------------------ run + info["settings"]
def _info_if(st):
    return isinstance(st, ast.If) and ast.unparse(st.test) == 'info is not None'


def _is_info_settings(st):
    return isinstance(st, ast.Assign) and len(st.targets) == 1 and ast.unparse(st.targets[0]) in ("info['settings']", 'info["settings"]')


def _h_info_settings(st, tr, env):
    t, ty = tr.expr(st.value, env, L(A))
    return [('info_settings', t, L(A))]


def _ri_skip(st):
    if ac._run_skip(st): return True
    # between the run and the labelling information: the case coordinates, the closure; inside it: the other keys of info
    if isinstance(st, ast.FunctionDef): return True
    if isinstance(st, ast.Assign) and len(st.targets) == 1 and ast.unparse(st.targets[0]).startswith('info[') and not _is_info_settings(st):
        return True
    if isinstance(st, ast.Assign) and all(isinstance(t, ast.Name) and t.id in ('combos_cases', 'all_combo_values') for t in st.targets):
        return True
    if isinstance(st, ast.For) and all(n.id in ('arg', 'case_coords', 'case_args', 'sorted', 'list', 'TypeError')
                                       for n in ast.walk(st) if isinstance(n, ast.Name)):
        return True
    return False


class RunInfoTr(LoopTr):
    def if_(self, s, rest, env, ind, done):
        # as LoopTr.if_, with the rebinding counters local to each path (the continuation is translated once per branch)
        key = '$known:' + ast.unparse(s.test)
        d = self.decided(s.test, env)
        if d is not None:
            return self.block((list(s.body) if d else list(s.orelse)) + rest, env, ind, done)
        saved = self.binders; self.binders = []
        try:
            c = self.truthy(s.test, env)
            binders = self.binders
        finally:
            self.binders = saved
        if binders: raise Untranslatable('a test that can raise: ' + ast.unparse(s.test))
        ea, eb = dict(env), dict(env)
        ea[key] = (True, 'known'); eb[key] = (False, 'known')
        v0 = dict(self.versions)
        a = self.block(list(s.body) + rest, ea, ind + '  ', done)
        self.versions = dict(v0)
        b = self.block(list(s.orelse) + rest, eb, ind + '  ', done)
        self.versions = dict(v0)
        return f'{ind}if {c} then\n{a}\n{ind}else\n{b}'

    def skippable(self, st, env):
        if isinstance(st, (ast.FunctionDef, ast.For)) and _ri_skip(st):
            if not self.safe_to_skip(st, env): raise Untranslatable('a skipped statement touches a translated variable')
            return True
        return super().skippable(st, env)


def a_coreRunInfo(T):
    spec = Spec('combo_runner', ac.FN, {
        'shuffle': ('shuffle', B), 'flat': ('flat', B), 'settings': ('settings', L(A)),
        'executor is not None': ('execGiven', B), 'parallel or num_workers': ('poolAsked', B),
        'info is not None': ('infoGiven', B), 'info_settings': ('([] : List α)', L(A)),
    }, types={'results_linear': L(R)}, result=['results_linear', 'info_settings'], start=ac._run_start, stop=_info_if,
        skip=_ri_skip, stmts=[(ac._is_shuffle, ac._h_shuffle), (_is_info_settings, _h_info_settings)], consts={'leR': 'leR'},
        calls={'_run_linear_sequential': ac._run_call('runSeq', 0), '_run_linear_executor': ac._run_call('runExec', 1)})
    f = find(T['combo_runner'], ac.FN)
    tr = RunInfoTr(spec)

    def done(env2, ret):
        if ret is not None: raise Untranslatable('return inside the slice')
        return '.ok (' + ', '.join(env2[k][0] for k in spec.result) + ')'
    return '\n' + tr.block(pl.body_slice(f, spec), dict(spec.env), '  ', done)


# ------------------------------------------------------------------------------------------------ parse_cases: the zip
def a_casesZip(T):
    f = find(T['prepare'], ['parse_cases'])
    last = [s for s in f.body if isinstance(s, ast.Assign) and ast.unparse(s.targets[0]) == 'cases' and 'zip' in ast.unparse(s.value)]
    a = one(last, 'cases = tuple(dict(zip(fn_args, c)) ...)')
    if f.body[-1] is not a and not (isinstance(f.body[-1], ast.Return) and ast.unparse(f.body[-1].value) == 'cases' and f.body[-2] is a):
        raise NotFound('the zip is not the last thing parse_cases does')
    tr = LoopTr(Spec('prepare', ['parse_cases'], {}))
    tr.binders = []
    t, ty = tr.expr(a.value, {'fn_args': ('fnArgs', L(S)), 'cases': ('cases', L(L(V)))}, L(D(S, V)))
    if tr.binders: raise Untranslatable('the zip can raise')
    return t


_VB = '{V : Type} [BEq V]'
ANCHORS = [
    ('flowRunnerInit', ': Flow', a_flowRunnerInit),
    ('flowRunCombos', ': Flow', a_flowRunCombos),
    ('flowRunCases', ': Flow', a_flowRunCases),
    ('flowLabel', ': Flow', a_flowLabel),
    ('flowHarvestCombos', ': Flow', a_flowHarvestCombos),
    ('flowHarvestCases', ': Flow', a_flowHarvestCases),
    ('flowGenCases', ': Flow', a_flowGenCases),
    ('flowSampleCombos', ': Flow', a_flowSampleCombos),
    ('flowComboToDs', ': Flow', a_flowComboToDs),
    ('flowCaseToDs', ': Flow', a_flowCaseToDs),
    ('dictifyKeeps', ': Bool', a_dictifyKeeps),
    ('dfRows', '{V β : Type} (asCell : β → V) (outputs : β → List V) (resultsLinear : List β) '
     '(settings : List (List (String × V))) (attrs resources : List (String × V)) (varNames : List String) : '
     'Except PyErr (List (List (String × V)))', a_dfRows),
    ('coreRunInfo', '{α β : Type} (leR : β → β → Bool) (σ : List Nat) (shuffle flat execGiven poolAsked infoGiven : Bool) '
     '(runSeq runExec : List α → List β) (settings : List α) : Except PyErr (List β × List α)', a_coreRunInfo),
    ('casesZip', '{V : Type} (fnArgs : List String) (cases : List (List V)) : List (List (String × V))', a_casesZip),
]
