"""State skeletons: translate a method body to a Lean function over an ABSTRACT STATE and ABSTRACT OPERATIONS
(DESIGN.md §3, "state skeletons").

An effect skeleton (pysk2lean) records *which* effects a body attempts, in order.  A state skeleton also says what they
do: the generated function has the shape

    f (o : <Ops> S …) <options…> (st : S) : S × Option E

where `S` is any state type and `o` a record of operations on it (`o.loadDs st name engine`, `o.setMem st d`, …).  The
body is translated statement by statement with pyfn2lean's sub-language; declared statements become steps:

    ('op', term)                      term : S × Option E — a state change that may raise; continue on the new state
    ('val', term, [(key, name, ty)])  term : Except E V   — a value that may raise; bind it
    ('let', key, term, ty)            bind a name (no effect)
    ('set', term)                     term : S            — a state change that cannot raise

`try: A finally: B` is `stFinally ⟦A⟧ (fun st => ⟦B⟧)` (B runs on the state A reached whether or not A raised; A's
exception is re-raised unless B raises itself).  The state reached is returned *also when the body raises*, so
"an error leaves the file as it was" is a statement about the translated control flow.

The hand-written model is then an *instance*: `XyzProofs/Refine/*.lean` give the operations their meaning on the model's
store and prove that the model's step is exactly the translated function at that instance.
"""
import ast
from pyexpr2lean import Untranslatable
from pyfn2lean import is_none, Tr2
from pysk2lean import SkSpec, SkTr


class StSpec(SkSpec):
    def __init__(self, file, path, env, ops='o', **kw):
        super().__init__(file, path, env, **kw)
        self.env['$trace'] = ('st', 'state')
        self.ops = ops


class StTr(SkTr):
    def st(self, env):
        return env['$trace'][0]

    def ok(self, env, ret=None):
        return f'({self.st(env)}, none)'

    def err(self, env, code):
        return f'({self.st(env)}, some ({self.spec.ops}.raised {code}))'

    def steps(self, steps, rest_fn, env, ind):
        if not steps:
            return rest_fn(env, ind)
        s, more = steps[0], steps[1:]
        kind = s[0]
        st = self.st(env)
        if kind == 'op':
            body = self.steps(more, rest_fn, env, ind + '  ')
            return f'{ind}(stBind ({s[1]}) fun {st} =>\n{body})'
        if kind == 'set':
            return f'{ind}let {st} := {s[1]}\n' + self.steps(more, rest_fn, env, ind)
        if kind == 'val':
            _, term, binds = s
            e2 = dict(env)
            names = []
            for key, name, ty in binds:
                e2[key] = (name, ty); names.append(name)
            pat = names[0] if len(names) == 1 else '(' + ', '.join(names) + ')'
            body = self.steps(more, rest_fn, e2, ind + '  ')
            return (f'{ind}(match {term} with\n'
                    f'{ind}| .error e => ({st}, some e)\n'
                    f'{ind}| .ok {pat} =>\n{body})')
        if kind == 'alias':
            _, key, node = s
            e2 = dict(env); e2[key] = (node, 'ast')
            return self.steps(more, rest_fn, e2, ind)
        return super().steps(steps, rest_fn, env, ind)

    def closed(self, stmts, env, ind):
        """a nested block as a closed term S × Option E (falls off with the state it reached)"""
        return self.block_then(list(stmts), lambda e, i: i + self.ok(e), env, ind)

    def block(self, stmts, env, ind):
        if stmts and any(pred(stmts[0]) for pred, _ in self.spec.handlers):
            return super().block(stmts, env, ind)
        if stmts and isinstance(stmts[0], ast.Try):
            s, rest = stmts[0], stmts[1:]
            if s.handlers or s.orelse or not s.finalbody:
                raise Untranslatable('try with except/else')
            if any(isinstance(n, ast.Return) for b in s.body + s.finalbody for n in ast.walk(b)):
                raise Untranslatable('return inside try/finally')
            st = self.st(env)
            a = self.closed(s.body, env, ind + '    ')
            b = self.closed(s.finalbody, env, ind + '    ')
            post = getattr(self.spec, 'after_try', None)
            post = post(s, self.tr(env), env) if post else []
            tail = self.steps(post, lambda e, i: self.block(rest, e, i), env, ind + '  ')
            return (f'{ind}(stBind (stFinally (\n{a})\n{ind}  (fun {st} =>\n{b})) fun {st} =>\n{tail})')
        if stmts and isinstance(stmts[0], ast.If) and self.state_only(stmts[0]):
            # an `if` whose branches only act on the state is a join: the rest of the body is not duplicated
            s, rest = stmts[0], stmts[1:]
            if not self.option_uses(s.test, env, 'truth'):
                st = self.st(env)
                c = self.tr(env).truthy(s.test)
                a = self.closed(s.body, env, ind + '    ')
                b = self.closed(s.orelse, env, ind + '    ')
                tail = self.block(rest, env, ind + '  ')
                return f'{ind}(stBind (if {c} then\n{a}\n{ind}  else\n{b}) fun {st} =>\n{tail})'
        return super().block(stmts, env, ind)

    def state_only(self, s):
        """do both branches consist of call statements / assignments to the in-memory attribute only (recursively)?"""
        mem = getattr(self.spec, 'mem_attr', None)

        def ok(block):
            for b in block:
                if isinstance(b, ast.Pass): continue
                if isinstance(b, ast.Expr) and isinstance(b.value, ast.Call): continue
                if isinstance(b, ast.Assign) and len(b.targets) == 1 and mem and ast.unparse(b.targets[0]) == mem: continue
                if isinstance(b, ast.If) and ok(b.body) and ok(b.orelse): continue
                return False
            return True
        return ok(s.body) and ok(s.orelse)


def translate_st(spec, trees, find):
    f = find(trees[spec.file], spec.path)
    tr = StTr(spec, trees, find)
    return '\n' + tr.block(list(f.body), dict(spec.env), '  ')
