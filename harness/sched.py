"""Controlled scheduling of the REAL grow / reap(wait=True) / progress queries (C11).

The names `open`, `os`, `glob`, `time` in xyzpy.gen.cropping's namespace are replaced by proxies that report every
file-system step to a scheduler and block until released; growers, reaper and poller run as threads of this process.
Exploration is stateless: a run is steered by a list of decisions (which waiting actor to release at each choice point);
steps that touch no shared result file are released eagerly (they commute with everything)."""
import os, io, sys, threading, tempfile, shutil, builtins, glob as _glob, time as _time, pickle, random, re
import common


class Scheduler:
    def __init__(self, decisions, rng=None):
        self.decisions = list(decisions)
        self.rng = rng
        self.cv = threading.Condition()
        self.waiting = {}          # actor -> (label, conflicting)
        self.alive = set()
        self.turn = None
        self.trace = []            # dicts: actor, op, p, q, n, obs
        self.choices = []          # (options, chosen index)
        self.local = threading.local()
        self.stale = {}            # actor -> True if its last poll found nothing and no writer moved since
        self.steps = 0
        self.users = {}            # path -> set of actors that performed a write-side step on it

    def actor(self): return getattr(self.local, 'name', None)

    def register(self, name):
        with self.cv: self.alive.add(name)

    def finish(self, name):
        with self.cv:
            self.alive.discard(name); self.cv.notify_all()

    def private_to(self, path, name):
        """is `path` (a temporary) so far only written by actor `name`?"""
        with self.cv:
            return self.users.get(path, set()) <= {name}

    def step(self, ev, conflicting=True):
        """called by an actor thread right before performing the step described by `ev`"""
        name = self.actor()
        if name is None: return ev
        ev = dict(ev, actor=name)
        with self.cv:
            if ev['op'] in ('create', 'write', 'close', 'rename', 'unlink'):
                self.users.setdefault(ev['p'], set()).add(name)
            self.waiting[name] = (ev, conflicting)
            self.cv.notify_all()
            while self.turn != name:
                self.cv.wait()
            self.turn = None
            del self.waiting[name]
            self.trace.append(ev)
            self.cv.notify_all()
        return ev

    def run(self, max_steps=600):
        while True:
            with self.cv:
                while self.alive and set(self.waiting) != self.alive:
                    if not self.cv.wait(timeout=10): raise RuntimeError('scheduler stalled: ' + repr((self.alive, list(self.waiting))))
                if not self.alive: return
                eager = sorted(a for a, (ev, c) in self.waiting.items() if not c)
                if eager:
                    choice = eager[0]
                else:
                    opts = sorted(a for a in self.waiting if not self.stale.get(a))
                    if not opts: opts = sorted(self.waiting)
                    if len(opts) == 1: choice = opts[0]
                    else:
                        if self.decisions: idx = min(self.decisions.pop(0), len(opts) - 1)
                        elif self.rng is not None: idx = self.rng.randrange(len(opts))
                        else: idx = 0
                        self.choices.append((len(opts), idx))
                        choice = opts[idx]
                ev = self.waiting[choice][0]
                # a writer step makes every poller worth running again
                if ev['op'] in ('create', 'write', 'close', 'rename', 'unlink'): self.stale = {}
                self.turn = choice
                self.cv.notify_all()
                while self.turn is not None:
                    self.cv.wait(timeout=10)
                self.steps += 1
                if self.steps > max_steps: raise RuntimeError('too many steps')

    def mark_stale(self, name): self.stale[name] = True


class StepFile:
    def __init__(self, f, sched, rel, mode, conflicting):
        self.f, self.sched, self.rel, self.mode, self.conf = f, sched, rel, mode, conflicting

    def write(self, b):
        h = max(1, len(b) // 2)
        # writes to / the close of a temporary only this actor has touched commute with every other process's steps
        private = os.path.basename(self.rel).startswith('.tmp-') and self.sched.private_to(self.rel, self.sched.actor())
        for part in (b[:h], b[h:]):
            if not part: continue
            self.sched.step({'op': 'write', 'p': self.rel, 'n': len(part)}, self.conf and not private)
            self.f.write(part); self.f.flush()
        return len(b)

    def read(self, *a): return self.f.read(*a)
    def readline(self, *a): return self.f.readline(*a)
    def readinto(self, b): return self.f.readinto(b)
    def __enter__(self): return self

    def _conf_close(self):
        private = os.path.basename(self.rel).startswith('.tmp-') and self.sched.private_to(self.rel, self.sched.actor())
        return self.conf and not private

    def __exit__(self, *a):
        if 'w' in self.mode: self.sched.step({'op': 'close', 'p': self.rel}, self._conf_close())
        self.f.close()

    def close(self):
        if 'w' in self.mode and not self.f.closed: self.sched.step({'op': 'close', 'p': self.rel}, self._conf_close())
        self.f.close()

    def __getattr__(self, k): return getattr(self.f, k)


def install(sched, root, cropping):
    def rel(p): return os.path.relpath(str(p), root)
    def shared(p): return '/results' in str(p).replace(os.sep, '/')

    def p_open(name, mode='r', *a, **k):
        r = rel(name)
        if 'w' in mode or 'a' in mode or '+' in mode:
            sched.step({'op': 'create', 'p': r}, shared(name))
            return StepFile(builtins.open(name, mode, *a, **k), sched, r, mode, shared(name))
        ev = sched.step({'op': 'openr', 'p': r}, shared(name))
        try:
            f = builtins.open(name, mode, *a, **k)
        except OSError:
            ev['obs'] = False; raise
        ev['obs'] = os.path.getsize(name)
        return StepFile(f, sched, r, mode, shared(name))

    class PathProxy:
        def __getattr__(self, k): return getattr(os.path, k)

        def exists(self, p):
            ev = sched.step({'op': 'exists', 'p': rel(p)}, shared(p))
            ev['obs'] = os.path.exists(p)
            if not ev['obs']: sched.mark_stale(sched.actor())
            return ev['obs']

        def isfile(self, p):
            ev = sched.step({'op': 'isfile', 'p': rel(p)}, shared(p))
            ev['obs'] = os.path.isfile(p); return ev['obs']

    class OsProxy:
        path = PathProxy()
        def __getattr__(self, k): return getattr(os, k)

        def replace(self, a, b):
            sched.step({'op': 'rename', 'p': rel(a), 'q': rel(b)}, shared(b)); return os.replace(a, b)
        rename = replace

        def remove(self, a):
            sched.step({'op': 'unlink', 'p': rel(a)}, shared(a)); return os.remove(a)
        unlink = remove

        def listdir(self, p='.'):
            ev = sched.step({'op': 'listdir', 'p': rel(p)}, shared(str(p) + '/'))
            out = os.listdir(p)
            ev['obs'] = sorted(out); return out

        # every other way of enumerating a directory is the same step as listdir (the names present are what is observed)
        def scandir(self, p='.'):
            ev = sched.step({'op': 'listdir', 'p': rel(p)}, shared(str(p) + '/'))
            out = list(os.scandir(p))
            ev['obs'] = sorted(e.name for e in out)

            class _It(list):
                def __enter__(s2): return s2
                def __exit__(s2, *a): return False
                def close(s2): pass
            return _It(out)

        def walk(self, top, *a, **k):
            ev = sched.step({'op': 'listdir', 'p': rel(top)}, shared(str(top) + '/'))
            out = list(os.walk(top, *a, **k))
            ev['obs'] = sorted(n for _, ds, fs in out[:1] for n in ds + fs)
            return iter(out)

    class GlobProxy:
        def __getattr__(self, k): return getattr(_glob, k)

        def iglob(self, pat, *a, **k):
            return iter(self.glob(pat, *a, **k))

        def glob(self, pat, *a, **k):
            ev = sched.step({'op': 'list', 'p': rel(pat)}, shared(pat))
            out = _glob.glob(pat, *a, **k)
            ev['obs'] = sorted(rel(x) for x in out); return out

    class TimeProxy:
        def __getattr__(self, k): return getattr(_time, k)
        def sleep(self, t): return None

    saved = {k: cropping.__dict__.get(k, KeyError) for k in ('open', 'os', 'glob', 'time')}
    cropping.open = p_open; cropping.os = OsProxy(); cropping.glob = GlobProxy(); cropping.time = TimeProxy()
    return saved


def uninstall(saved, cropping):
    for k, v in saved.items():
        if v is KeyError: cropping.__dict__.pop(k, None)
        else: setattr(cropping, k, v)


def f(a):
    return a * 1.0 + 0.5


def one_run(cfg, decisions=(), rng=None):
    """cfg: {'nb': batches, 'growers': [batch ids], 'polls': n}; returns dict(outcome, trace, choices)"""
    import xyzpy as xyz
    from xyzpy.gen import cropping
    tmp = tempfile.mkdtemp(prefix='xvs', dir=common.scratch_root())
    try:
        with common.quiet():
            crop = xyz.Crop(fn=f, name='p', parent_dir=tmp, batchsize=1)
            crop.sow_combos({'a': list(range(cfg['nb']))}, verbosity=0)
        expected = [a * 1.0 + 0.5 for a in range(cfg['nb'])]
        sched = Scheduler(decisions, rng)
        saved = install(sched, os.path.join(tmp, '.xyz-p'), cropping)
        out = {}

        def actor(name, fn):
            def body():
                sched.local.name = name
                try:
                    out[name] = ('ok', fn())
                except BaseException as e:
                    out[name] = ('err', type(e).__name__ + ': ' + str(e)[:80])
                finally:
                    sched.finish(name)
            sched.register(name)
            t = threading.Thread(target=body, daemon=True); t.start(); return t

        def poller():
            c = xyz.Crop(name='p', parent_dir=tmp)
            return [[c.num_results, bool(c.is_ready_to_reap())] for _ in range(cfg.get('polls', 1))]
        ts = []
        try:
            old_stdout, old_stderr = sys.stdout, sys.stderr; sys.stdout = io.StringIO(); sys.stderr = io.StringIO()
            for gi, b in enumerate(cfg['growers']):
                ts.append(actor('G%d' % (gi + 1), lambda b=b: cropping.grow(b, crop=crop, fn=f, verbosity=0)))
            ts.append(actor('R', lambda: [float(x) for x in xyz.Crop(name='p', parent_dir=tmp).reap(wait=True, clean_up=False)]))
            if cfg.get('polls'): ts.append(actor('P', poller))
            err = None
            try:
                sched.run()
            except RuntimeError as e:
                err = str(e)
        finally:
            sys.stdout, sys.stderr = old_stdout, old_stderr
            uninstall(saved, cropping)
            for t in ts: t.join(timeout=2)
        return {'out': out, 'trace': sched.trace, 'choices': sched.choices, 'expected': expected, 'sched_err': err}
    finally:
        shutil.rmtree(tmp, ignore_errors=True)


def explore(cfg, max_runs):
    """stateless depth-first exploration of the decision tree"""
    stack, runs = [[]], []
    while stack and len(runs) < max_runs:
        prefix = stack.pop()
        r = one_run(cfg, prefix)
        r['decisions'] = [c for _, c in r['choices']]
        runs.append(r)
        ch = r['choices']
        for depth in range(len(ch) - 1, len(prefix) - 1, -1):
            n, chosen = ch[depth]
            for alt in range(n):
                if alt != chosen:
                    stack.append([c for _, c in ch[:depth]] + [alt])
    return runs, not stack
