import XyzProofs.Lemmas.Batch
import XyzProofs.Props.C07
