import XyzProofs.Lemmas.Batch
import XyzProofs.Lemmas.Core
import XyzProofs.Props.C01
import XyzProofs.Props.C02
import XyzProofs.Props.C07
