import XyzProofs.Lemmas.Batch
import XyzProofs.Lemmas.Core
import XyzProofs.Lemmas.Crop
import XyzProofs.Props.C01
import XyzProofs.Props.C02
import XyzProofs.Props.C04
import XyzProofs.Props.C07
