import XyzModel.Gen.Default
import XyzModel.Gen.Extracted
import XyzModel.Batch
import XyzModel.Drv
