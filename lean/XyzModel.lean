import XyzModel.Gen.Default
import XyzModel.Gen.Extracted
import XyzModel.Batch
import XyzModel.Nest
import XyzModel.Core
import XyzModel.Value
import XyzModel.Crop
import XyzModel.Drv
