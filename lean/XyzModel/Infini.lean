import XyzModel.PlotPrep
/-!
# infiniplot (xyzpy/plot/infiniplot.py) — C18

Same conventions as `PlotPrep`: cells are opaque tokens, coordinates are cells of a variable named like the dimension,
labels are strings.  The transformations infiniplot applies to its working copy of the dataset (`stack` of fused
dimensions, `sel` of an explicit order, `dropna(dim, how="all")`) only re-index dimensions, so the working copy is
represented by a list of *mapped dimensions* (`MDim`): a name, the original dimensions it is made of and the list of
surviving entries, each entry being one index per original dimension.  The dataset given is never rebuilt: every drawn
value is read from it through an index assignment.

Aggregation (`median`, `mean`, ... with `skipna`) is not computed: an aggregated value is the token `agg cells` listing
the cells it reduces (assumption: it is NaN iff all of them are NaN).  Histogram counts are exact: bin edges and values
are rationals (every float is one).
-/
namespace Infini
open PlotPrep (Cell DS Env prod applyMask)

/-- order in which `Infiniplotter.__init__` initialises the mapped properties -/
def PROPS : List String :=
  ["hue", "color", "marker", "markersize", "markeredgecolor", "linestyle", "linewidth", "col", "row"]

/-- separator of the coordinate labels of a fused entry -/
def SEP : String := "\u001f"

structure Mapping where
  dims : List String
  /-- explicit order / sub-selection, as entry labels -/
  order : Option (List String) := none
deriving Repr

inductive Agg where
  | none | all | dims (l : List String)
deriving Repr

structure Request where
  x : String
  y : Option String := none
  z : Option String := none
  err : Option String := none
  maps : List (String × Mapping) := []
  aggregate : Agg := .none
  join : Bool := false
  density : Bool := true
  /-- histogram bin edges (exact values of the floats) -/
  edges : List Rat := []
  /-- exact value of every finite cell token of the histogrammed variable -/
  values : List (Nat × Rat) := []
deriving Repr

inductive Mode where
  | lines | hist | heat
deriving Repr, DecidableEq

def Request.mode (r : Request) : Mode :=
  if r.z.isSome then .heat else if r.y.isNone then .hist else .lines

/-- the variable whose cells are drawn -/
def Request.var (r : Request) : String :=
  match r.mode with
  | .heat => r.z.getD ""
  | .hist => r.x
  | .lines => r.y.getD ""

/-- the dimensions that are not iterated over -/
def Request.core (r : Request) : List String :=
  match r.mode with
  | .heat => [r.x, r.y.getD ""]
  | .hist => []
  | .lines => [r.x]

structure MDim where
  name : String
  src : List String
  entries : List (List Nat)
deriving Repr

def MDim.env (md : MDim) (k : Nat) : Env := md.src.zip (md.entries.getD k [])

/-- the working state of the plotter: `ds` is the dataset it was given -/
structure State where
  ds : DS
  var : String
  core : List String
  mdims : List MDim
  /-- property → name of the mapped dimension -/
  propDim : List (String × String) := []
deriving Repr

def notNan (c : Cell) : Bool := c != .nan

/-- index assignment of one choice of entry per mapped dimension -/
def envOfChoice (mds : List MDim) (choice : List Nat) : Env :=
  (List.zipWith (fun md k => md.env k) mds choice).flatten

def choicesOf (mds : List MDim) : List (List Nat) := prod (mds.map (·.entries.length))

def coreEnvs (ds : DS) (core : List String) : List Env := (prod (core.map ds.size)).map fun p => core.zip p

def entryLabel (ds : DS) (src : List String) (e : List Nat) : String :=
  SEP.intercalate (List.zipWith (fun d k => (ds.labels d).getD k "") src e)

/-- `dropna(dim, how="all")`: does entry `e` of `md` hold any non-NaN cell, given the current entries of the others? -/
def hasData (st : State) (md : MDim) (e : List Nat) : Bool :=
  let others := st.mdims.filter (·.name != md.name)
  (choicesOf others).any fun ch =>
    (coreEnvs st.ds st.core).any fun ce =>
      notNan (st.ds.cell st.var (md.src.zip e ++ envOfChoice others ch ++ ce))

def State.md? (st : State) (n : String) : Option MDim := st.mdims.find? (·.name == n)

def State.setEntries (st : State) (n : String) (f : List (List Nat) → List (List Nat)) : State :=
  { st with mdims := st.mdims.map fun md => if md.name == n then { md with entries := f md.entries } else md }

/-- `ds.stack({new: dims})`: the fused dimension enumerates the product of the entries, last dimension fastest -/
def fuse (st : State) (dims : List String) : State :=
  let parts := dims.filterMap st.md?
  let name := ", ".intercalate dims
  let combos := (prod (parts.map (·.entries.length))).map fun ch =>
    (List.zipWith (fun (md : MDim) k => md.entries.getD k []) parts ch).flatten
  { st with mdims := st.mdims.filter (fun md => !dims.contains md.name) ++
      [{ name := name, src := (parts.map (·.src)).flatten, entries := combos }] }

/-- `ds.sel({dim: order})` -/
def applyOrder (ds : DS) (md : MDim) (order : List String) : List (List Nat) :=
  order.filterMap fun lab => md.entries.find? fun e => entryLabel ds md.src e == lab

/-- `init_mapped_dim` for a property mapped to (fused) dimensions -/
def initMappedDim (st : State) (prop : String) (m : Mapping) : State :=
  let st1 := if m.dims.length > 1 then fuse st m.dims else st
  let name := ", ".intercalate m.dims
  let st2 := match m.order, st1.md? name with
    | some o, some md => st1.setEntries name fun _ => applyOrder st1.ds md o
    | _, _ => st1
  let st3 := match st2.md? name with
    | some md => st2.setEntries name fun es => es.filter (hasData st2 md)
    | none => st2
  { st3 with propDim := st3.propDim ++ [(prop, name)] }

def lookupMap (maps : List (String × Mapping)) (p : String) : Option Mapping := (maps.find? (·.1 == p)).map (·.2)

/-- "if only one of hue / color is specified allow it to be either" -/
def normMaps (maps : List (String × Mapping)) : List (String × Mapping) :=
  match lookupMap maps "hue", lookupMap maps "color" with
  | some h, none => (maps.filter (·.1 != "hue")) ++ [("color", h)]
  | _, _ => maps

def initAll (st : State) (maps : List (String × Mapping)) : State :=
  PROPS.foldl (fun st p => match lookupMap maps p with
    | some m => initMappedDim st p m
    | none => st) st

def initState (ds : DS) (r : Request) : State :=
  let core := r.core
  { ds := ds, var := r.var, core := core,
    mdims := ((ds.varDims r.var).filter fun d => !core.contains d).map fun d =>
      { name := d, src := [d], entries := (List.range (ds.size d)).map fun k => [k] } }

/-- the state after all mapped dimensions are initialised, split into iterated and aggregated dimensions -/
structure Final where
  st : State
  req : Request
  remaining : List MDim
  aggd : List MDim
deriving Repr

def State.mappedNames (st : State) : List String := st.propDim.map (·.2)

def finalOf (ds : DS) (r : Request) : Final :=
  let st := initAll (initState ds r) (normMaps r.maps)
  let unmapped := st.mdims.filter fun md => !st.mappedNames.contains md.name
  let aggNames : List String := match r.mode, r.aggregate with
    | .hist, _ => unmapped.map (·.name)
    | .heat, a => if unmapped.isEmpty then (match a with | .dims l => l | _ => []) else unmapped.map (·.name)
    | .lines, .all => unmapped.map (·.name)
    | .lines, .dims l => l
    | .lines, .none => []
  { st := st, req := r, remaining := st.mdims.filter (fun md => !aggNames.contains md.name),
    aggd := st.mdims.filter (fun md => aggNames.contains md.name) }

/-- position of a mapped dimension among the iterated ones -/
def posOf (n : String) : List MDim → Option Nat
  | [] => none
  | md :: rest => if md.name == n then some 0 else (posOf n rest).map (· + 1)

def Final.propPos (f : Final) (prop : String) : Option Nat :=
  match (f.st.propDim.find? (·.1 == prop)).map (·.2) with
  | some n => posOf n f.remaining
  | none => none

def Final.propSize (f : Final) (prop : String) : Nat :=
  match f.propPos prop with
  | some p => ((f.remaining.map (·.entries.length)).getD p 0)
  | none => 1

def Final.propIdx (f : Final) (prop : String) (choice : List Nat) : Option Nat :=
  (f.propPos prop).map fun p => choice.getD p 0

def Final.nrows (f : Final) : Nat := f.propSize "row"
def Final.ncols (f : Final) : Nat := f.propSize "col"

inductive YVal where
  | cell (c : Cell)
  | agg (cs : List Cell)
  | count (n : Nat)
  | dens (r : Rat)
  | undefined
deriving Repr, DecidableEq

def YVal.notNull : YVal → Bool
  | .cell c => notNan c
  | .agg cs => cs.any notNan
  | .count _ => true
  | .dens _ => true
  | .undefined => false

/-- `np.linspace(a, b, n)[i]` -/
def linspace (a b : Rat) (n i : Nat) : Rat := if n ≤ 1 then a else a + (b - a) * (i : Rat) / ((n - 1 : Nat) : Rat)

structure Style where
  /-- position along the colour map / in the colour sequence, and the length of that sequence -/
  color : Option Nat := none
  ncolor : Nat := 1
  hue : Option Nat := none
  /-- index into the default marker / line-style cycles -/
  marker : Option Nat := none
  linestyle : Option Nat := none
  markersize : Option Rat := none
  linewidth : Option Rat := none
deriving Repr, DecidableEq

def markerOf (i : Nat) : Nat := i % Gen.markersDefault.length
def linestyleOf (i : Nat) : Nat := i % Gen.linestylesDefault.length

def Final.style (f : Final) (choice : List Nat) : Style :=
  { color := f.propIdx "color" choice, ncolor := f.propSize "color", hue := f.propIdx "hue" choice,
    marker := (f.propIdx "marker" choice).map markerOf,
    linestyle := (f.propIdx "linestyle" choice).map linestyleOf,
    markersize := (f.propIdx "markersize" choice).map (linspace 3 9 (f.propSize "markersize")),
    linewidth := (f.propIdx "linewidth" choice).map (linspace 1 3 (f.propSize "linewidth")) }

/-- the value drawn at `extra` (the x index, or the (x, y) indices) of the slice `choice` -/
def Final.valueAt (f : Final) (choice : List Nat) (extra : Env) : YVal :=
  let env := envOfChoice f.remaining choice
  if f.aggd.isEmpty then .cell (f.st.ds.cell f.st.var (extra ++ env))
  else .agg ((choicesOf f.aggd).map fun ch => f.st.ds.cell f.st.var (extra ++ env ++ envOfChoice f.aggd ch))

structure Line where
  i : Nat
  j : Nat
  loc : List Nat
  x : List Cell
  /-- histogram mode: bin centres -/
  xc : List Rat
  y : List YVal
  style : Style
deriving Repr

/-- all y values of a slice in line mode -/
def Final.sliceY (f : Final) (choice : List Nat) : List YVal :=
  (List.range (f.st.ds.size f.req.x)).map fun k => f.valueAt choice [(f.req.x, k)]

def Final.sliceX (f : Final) : List Cell :=
  (List.range (f.st.ds.size f.req.x)).map fun k => f.st.ds.cell f.req.x [(f.req.x, k)]

def Final.mask (f : Final) (choice : List Nat) : List Bool :=
  List.zipWith (fun y x => Gen.infMaskBothNotNull y.notNull (notNan x)) (f.sliceY choice) f.sliceX

/-- one iteration of the loop of `plot_lines` -/
def Final.lineOf (f : Final) (choice : List Nat) : Option Line :=
  let mask := f.mask choice
  if mask.any id then
    some { i := (f.propIdx "row" choice).getD 0, j := (f.propIdx "col" choice).getD 0, loc := choice,
           x := if f.req.join then applyMask mask f.sliceX else f.sliceX, xc := [],
           y := if f.req.join then applyMask mask (f.sliceY choice) else f.sliceY choice,
           style := f.style choice }
  else none

def Final.choices (f : Final) : List (List Nat) := choicesOf f.remaining

def Final.lines (f : Final) : List Line := f.choices.filterMap f.lineOf

/-! ### histogram mode -/

/-- consecutive bins `[lo, hi)`, the last one closed on the right (`np.histogram`) -/
def bins : List Rat → List (Rat × Rat × Bool)
  | a :: b :: rest => (a, b, rest.isEmpty) :: bins (b :: rest)
  | _ => []

def inBin (b : Rat × Rat × Bool) (v : Rat) : Bool := b.1 ≤ v && (v < b.2.1 || (b.2.2 && v == b.2.1))

def counts (edges : List Rat) (vals : List Rat) : List Nat := (bins edges).map fun b => (vals.filter (inBin b)).length

def widths (edges : List Rat) : List Rat := (bins edges).map fun b => b.2.1 - b.1

def centres (edges : List Rat) : List Rat := (bins edges).map fun b => (b.1 + b.2.1) / 2

/-- the finite values of the cells binned for a slice (all aggregated = unmapped dimensions are stacked) -/
def Final.histVals (f : Final) (choice : List Nat) : List Rat :=
  let env := envOfChoice f.remaining choice
  ((choicesOf f.aggd).map fun ch => f.st.ds.cell f.st.var (env ++ envOfChoice f.aggd ch)).filterMap fun c =>
    match c with
    | .fin id => (f.req.values.find? (·.1 == id)).map (·.2)
    | _ => none

def histY (density : Bool) (edges : List Rat) (vals : List Rat) : List YVal :=
  let cs := counts edges vals
  if density then
    let tot : Nat := cs.sum
    if tot == 0 then cs.map fun _ => .undefined
    else List.zipWith (fun (c : Nat) (w : Rat) => YVal.dens ((c : Rat) / ((tot : Rat) * w))) cs (widths edges)
  else cs.map .count

def Final.histLineOf (f : Final) (choice : List Nat) : Option Line :=
  let ys := histY f.req.density f.req.edges (f.histVals choice)
  if ys.any YVal.notNull then
    some { i := (f.propIdx "row" choice).getD 0, j := (f.propIdx "col" choice).getD 0, loc := choice,
           x := [], xc := centres f.req.edges, y := ys, style := f.style choice }
  else none

def Final.histLines (f : Final) : List Line := f.choices.filterMap f.histLineOf

/-! ### heat-map mode -/

structure Mesh where
  i : Nat
  j : Nat
  loc : List Nat
  cells : List (List YVal)
deriving Repr

def Final.meshOf (f : Final) (choice : List Nat) : Mesh :=
  let yd := f.req.y.getD ""
  { i := (f.propIdx "row" choice).getD 0, j := (f.propIdx "col" choice).getD 0, loc := choice,
    cells := (List.range (f.st.ds.size yd)).map fun jj => (List.range (f.st.ds.size f.req.x)).map fun ii =>
      f.valueAt choice [(f.req.x, ii), (yd, jj)] }

def Final.meshes (f : Final) : List Mesh := f.choices.map f.meshOf

structure Output where
  nrows : Nat
  ncols : Nat
  lines : List Line
  meshes : List Mesh
deriving Repr

def run (ds : DS) (r : Request) : Except String Output :=
  if (ds.var? r.var).isNone then .error "no-such-variable" else
  let f := finalOf ds r
  .ok { nrows := f.nrows, ncols := f.ncols,
        lines := match r.mode with
          | .lines => f.lines
          | .hist => f.histLines
          | .heat => []
        meshes := if r.mode == .heat then f.meshes else [] }

end Infini
