import XyzModel.Gen.Extracted
/-!
# `parse_var_names` / `parse_var_dims` (xyzpy/gen/prepare.py): the accepted spellings of an output description

Python values are modelled two levels deep, which is what the parser looks at: an `Atom` is a `str` or a tuple of
`str`; an element of a list/tuple spelling is a `str` or a tuple of atoms (so `('a', 't')` is one value, whether it is
meant as the dimensions `(a, t)` of one output or as the pair *output `a` ↦ dimension `t`* — the parser decides, and
the model decides the same way).
-/
namespace VarDims

inductive Atom where
  | s (x : String)
  | t (l : List String)
deriving Repr, DecidableEq

inductive Elem where
  | s (x : String)
  | t (l : List Atom)
deriving Repr

/-- the spellings of `var_dims` -/
inductive Spelling where
  | none                                   -- `None`
  | str (d : String)                       -- `'t'`
  | list (elems : List Elem)               -- list / tuple
  | dict (items : List (Atom × Atom))      -- dict (keys unique by construction), in insertion order
deriving Repr

inductive Err where
  | value                                  -- ValueError
deriving Repr, DecidableEq

/-- normal form: output name ↦ its dimensions, in `var_names` order -/
abbrev Mapping := List (String × List Atom)

/-- `{k: () for k in var_names}`: first occurrence of each name, empty dimensions -/
def dedup : List String → List String
  | [] => []
  | x :: xs => x :: (dedup xs).filter (· != x)

/-- `v = (v,) if isinstance(v, str) else tuple(v)` for a value given as an atom -/
def dimsOfAtom : Atom → List Atom
  | .s d => [.s d]
  | .t l => l.map .s

/-- the same for an element of a list spelling -/
def dimsOfElem : Elem → List Atom
  | .s d => [.s d]
  | .t l => l

/-- `new_var_dims[k] = v` (the key is known to be present) -/
def assign (m : Mapping) (k : String) (v : List Atom) : Mapping :=
  m.map fun p => if p.1 == k then (p.1, v) else p

/-- one pass of the update loop for the key `k` (a name, or a tuple of names sharing the dimensions) -/
def applyKey (names : List String) (m : Mapping) (k : Atom) (v : List Atom) : Except Err Mapping :=
  match k with
  | .s x => if names.contains x then .ok (assign m x v) else .error .value
  | .t subs => subs.foldl (fun acc sub =>
      match acc with
      | .error e => .error e
      | .ok m => if names.contains sub then .ok (assign m sub v) else .error .value) (.ok m)

/-- the update loop over `var_dims.items()` -/
def applyItems (names : List String) (m : Mapping) (items : List (Atom × List Atom)) : Except Err Mapping :=
  items.foldl (fun acc kv =>
    match acc with
    | .error e => .error e
    | .ok m => applyKey names m kv.1 kv.2) (.ok m)

/-- `dict(pairs)`: a repeated key keeps its first position and takes the last value -/
def dictOf (pairs : List (Atom × List Atom)) : List (Atom × List Atom) :=
  pairs.foldl (fun acc kv =>
    if acc.any (·.1 == kv.1) then acc.map (fun p => if p.1 == kv.1 then (p.1, kv.2) else p) else acc ++ [kv]) []

/-- does a list/tuple spelling stand in one-to-one correspondence with `var_names`?
`any(isinstance(x, str) or (len(x) == 0) or (x[0] not in var_names) for x in var_dims)` -/
def elemIsStr : Elem → Bool
  | .s _ => true
  | .t _ => false

def elemIsEmpty : Elem → Bool
  | .s x => x.isEmpty
  | .t l => l.isEmpty

/-- `x[0] in var_names` (a tuple is never equal to a name; for a string `x[0]` is its first character) -/
def elemFirstInNames (names : List String) : Elem → Bool
  | .s x => names.contains (String.singleton (x.toList.headD ' '))
  | .t (.s k :: _) => names.contains k
  | .t _ => false

/-- the element test and its quantifier are read off the source (`Gen.varDimsElemCorr`, `Gen.varDimsQuantAny`) -/
def isCorrespondence (names : List String) (elems : List Elem) : Bool :=
  let p := fun e => Gen.varDimsElemCorr (elemIsStr e) (elemIsEmpty e) (elemFirstInNames names e)
  if Gen.varDimsQuantAny then elems.any p else elems.all p

/-- an element read as a (key, value) pair by `dict(var_dims)`; anything but a 2-sequence is a ValueError -/
def asPair : Elem → Except Err (Atom × List Atom)
  | .t [k, v] => .ok (k, dimsOfAtom v)
  | _ => .error .value

def asPairs : List Elem → Except Err (List (Atom × List Atom))
  | [] => .ok []
  | e :: es =>
    match asPair e, asPairs es with
    | .ok p, .ok ps => .ok (p :: ps)
    | _, _ => .error .value

/-- `parse_var_dims(var_dims, var_names)`; `names = none` is `var_names=None` (automatic Dataset output) -/
def parse (names : Option (List String)) (sp : Spelling) : Except Err Mapping :=
  match names with
  | none =>
    match sp with
    | .none => .ok []
    | _ => .error .value
  | some names =>
    let m0 : Mapping := (dedup names).map fun k => (k, [])
    match sp with
    | .none => .ok m0
    | .str d =>
      if d.isEmpty then .ok m0
      else if Gen.varDimsStrRefused names.length then .error .value
      else applyItems names m0 [(.s (names.headD ""), [.s d])]
    | .list elems =>
      if elems.isEmpty then .ok m0
      else if isCorrespondence names elems then
        if elems.length != names.length then .error .value
        else applyItems names m0 (dictOf ((names.zip elems).map fun p => (.s p.1, dimsOfElem p.2)))
      else
        match asPairs elems with
        | .error e => .error e
        | .ok pairs => applyItems names m0 (dictOf pairs)
    | .dict items =>
      if items.isEmpty then .ok m0
      else applyItems names m0 (items.map fun p => (p.1, dimsOfAtom p.2))

/-- `parse_var_names` -/
inductive NamesSpelling where
  | none
  | str (x : String)
  | seq (l : List String)

def parseNames : NamesSpelling → List (Option String)
  | .none => [Option.none]
  | .str x => [some x]
  | .seq l => l.map some

end VarDims
