import Lean.Data.Json
import XyzModel.Batch
import XyzModel.Core
import XyzModel.Value
import XyzModel.Crop
import XyzModel.ToDs
import XyzModel.Sampler
import XyzModel.CropFS
import XyzModel.DrvNum
import XyzModel.DrvScript
import XyzModel.DrvData
import XyzModel.DrvPlot
import XyzModel.VarDims
import XyzModel.ParseCases
/-! JSON-lines driver over the executable models (DESIGN.md Appendix B). One request per line, one reply per line. -/
open Lean

namespace Drv

def optNat (j : Json) (k : String) : Option Nat := (j.getObjValAs? Nat k).toOption
def getNat (j : Json) (k : String) (d : Nat := 0) : Nat := (optNat j k).getD d
def getInt (j : Json) (k : String) (d : Int := 0) : Int := ((j.getObjValAs? Int k).toOption).getD d
def getBool (j : Json) (k : String) (d : Bool := false) : Bool := ((j.getObjValAs? Bool k).toOption).getD d
def getStr (j : Json) (k : String) (d : String := "") : String := ((j.getObjValAs? String k).toOption).getD d
def natList (j : Json) (k : String) : List Nat := ((j.getObjValAs? (List Nat) k).toOption).getD []
def getArr (j : Json) (k : String) : List Json := (((j.getObjValAs? (Array Json) k).toOption).getD #[]).toList
def getObj (j : Json) (k : String) : Json := (j.getObjVal? k).toOption.getD Json.null
def err (s : String) : Json := Json.mkObj [("err", Json.str s)]

/-- op "batch": choose_batch_settings + Sower on the stream `perm` (or 0..n-1) -/
def opBatch (j : Json) : Json :=
  let n := getNat j "n"
  let stream := match (j.getObjValAs? (List Nat) "stream").toOption with
    | some l => l
    | none => List.range n
  match Batch.chooseBatch n (optNat j "bs") (optNat j "nb") (optNat j "rem") with
  | .error e => err (match e with | .value => "value" | .type => "type")
  | .ok c =>
    let first := Batch.sow c stream
    -- optional re-sow of `n2` settings into the sown crop: the batch files afterwards, `-1` = left from the first sow
    let resow : List (String × Json) := match optNat j "n2" with
      | none => []
      | some n2 =>
        match Batch.chooseBatch n2 (some c.batchsize) (some c.numBatches) (some c.remainder) with
        | .error _ => [("resow", err "value")]
        | .ok c2 =>
          let second := Batch.sow c2 (List.range n2)
          let stale := (first.drop second.length).map (fun b => b.map (fun _ => (-1 : Int)))
          [("resow", Json.mkObj [("files", toJson (second.map (fun b => b.map (fun (x : Nat) => Int.ofNat x)) ++ stale))])]
    Json.mkObj ([("batchsize", toJson c.batchsize), ("num_batches", toJson c.numBatches),
                ("remainder", toJson c.remainder), ("batches", toJson first)] ++ resow)

/-! ### symbolic results -/

inductive Sym where
  | r (loc : List Nat)              -- the value the function returned at `loc`
  | c (loc : List Nat) (j : Nat)    -- its `j`-th component
  | m (v : Value.Val)               -- an all-missing placeholder of this kind
deriving Repr

def leafOfStr : String → Value.Leaf
  | "num" => .num | "nan" => .nan | "none" => .none | "bool" => .bool | "str" => .str | _ => .num
def strOfLeaf : Value.Leaf → String
  | .num => "num" | .nan => "nan" | .none => "none" | .bool => "bool" | .str => "str"

def shapeLeafOf (j : Json) : List Nat × Value.Leaf :=
  match j with
  | .arr #[sh, lf] => ((fromJson? sh : Except String (List Nat)).toOption.getD [], leafOfStr (lf.getStr?.toOption.getD ""))
  | _ => ([], .num)

def valOfJson (j : Json) : Value.Val :=
  match j.getObjVal? "scalar" with
  | .ok l => .scalar (leafOfStr (l.getStr?.toOption.getD ""))
  | .error _ =>
  match j.getObjVal? "arr" with
  | .ok a => let (sh, lf) := shapeLeafOf a; .arr sh lf
  | .error _ =>
  match j.getObjVal? "tuple" with
  | .ok (.arr cs) => .tuple (cs.toList.map shapeLeafOf)
  | _ =>
  match j.getObjVal? "ds" with
  | .ok (.arr vs) => .ds (vs.toList.map fun v =>
      match v with
      | .arr #[n, sh, lf] => (n.getStr?.toOption.getD "", (shapeLeafOf (.arr #[sh, lf])).1, (shapeLeafOf (.arr #[sh, lf])).2)
      | _ => ("", [], .num))
  | _ => .scalar .num

def jsonOfVal : Value.Val → Json
  | .scalar l => Json.mkObj [("scalar", strOfLeaf l)]
  | .arr sh l => Json.mkObj [("arr", Json.arr #[toJson sh, strOfLeaf l])]
  | .tuple cs => Json.mkObj [("tuple", Json.arr (cs.map fun c => Json.arr #[toJson c.1, strOfLeaf c.2]).toArray)]
  | .ds vs => Json.mkObj [("ds", Json.arr (vs.map fun v => Json.arr #[v.1, toJson v.2.1, strOfLeaf v.2.2]).toArray)]

/-- kind of component `j` of a tuple kind -/
def compKind (k : Value.Val) (j : Nat) : Value.Val :=
  match k with
  | .tuple cs => match cs[j]? with
    | some ([], l) => .scalar l
    | some (sh, l) => .arr sh l
    | none => .scalar .num
  | v => v

def symJson (kind : Value.Val) : Sym → Json
  | .r loc => Json.mkObj [("r", toJson loc)]
  | .c loc j => Json.mkObj [("c", Json.arr #[toJson loc, toJson j])]
  | .m v => Json.mkObj [("m", jsonOfVal v)]

/-- `nan_like_result` on symbolic results of kind `kind` -/
def symNanLike (kind : Value.Val) : Sym → Sym
  | .m v => .m (Value.nanLike v)
  | _ => .m (Value.nanLike kind)

partial def nestJson (kind : Value.Val) : Core.Nest Sym → Json
  | .leaf s => symJson kind s
  | .node l => Json.arr (l.map (nestJson kind)).toArray

def sweepOf (j : Json) : Core.Sweep :=
  { caseArgs := ((j.getObjValAs? (List String) "caseArgs").toOption).getD []
    caseRows := (j.getObjValAs? (List (List Nat)) "caseRows").toOption
    comboArgs := ((j.getObjValAs? (List String) "comboArgs").toOption).getD []
    comboVals := ((j.getObjValAs? (List (List Nat)) "comboVals").toOption).getD [] }

def strategyOf (j : Json) : Core.Strategy :=
  let s := getObj j "strategy"
  match (s.getObjValAs? (List Nat) "shuffled").toOption, (s.getObjValAs? (List Nat) "executor").toOption with
  | some σ, some π => .shuffledExecutor σ π
  | some σ, none => .shuffled σ
  | none, some π => .executor π
  | none, none => .seq

def coreErr : Core.Err → String
  | .overlap => "overlap" | .emptyResults => "empty"

/-- op "core": combo_runner_core on symbolic results -/
def opCore (j : Json) : Json :=
  let s := sweepOf j
  let st := strategyOf j
  let kind := valOfJson (getObj j "kind")
  let flat := getBool j "flat"
  let split := getNat j "split"
  let coords := Json.mkObj [("fn_args", toJson s.fnArgs), ("coords", toJson s.coords)]
  -- the public entry points parse the grid first: a repeated value is rejected before anything runs
  match Core.parseCombos (.pairs (s.comboArgs.zip s.comboVals)) with
  | .error _ => err "duplicate"
  | .ok _ =>
  if split == 0 then
    match Core.core (fun loc => Sym.r loc) (symNanLike kind) s st with
    | .error e => err (coreErr e)
    | .ok r => Json.mkObj [("log", toJson r.log), ("info", coords),
        ("out", if flat then Json.arr (r.flat.map (symJson kind)).toArray else nestJson kind r.nested)]
  else
    let runs := (List.range split).mapM fun jj =>
      Core.core (fun loc => Sym.c loc jj) (symNanLike (compKind kind jj)) s st
    match runs with
    | .error e => err (coreErr e)
    | .ok rs => Json.mkObj [("log", toJson ((rs.head?.map (·.log)).getD [])), ("info", coords),
        ("out", Json.arr (rs.map fun r =>
          if flat then Json.arr (r.flat.map (symJson kind)).toArray else nestJson kind r.nested).toArray)]

/-! ### labelled outputs -/

def strList (j : Json) (k : String) : List String := ((j.getObjValAs? (List String) k).toOption).getD []

def descOf (j : Json) : ToDs.Desc :=
  { varNames := strList j "varNames"
    varDims := ((j.getObjValAs? (List (List String)) "varDims").toOption).getD []
    varCoords := strList j "varCoords"
    constants := strList j "constants"
    resources := strList j "resources"
    attrs := strList j "attrs"
    autoVars := (getArr j "autoVars").map fun v =>
      (getStr v "name", strList v "dims") }

/-- kind of output `jj` when there are `k` outputs -/
def outKind (kind : Value.Val) (k jj : Nat) : Value.Val :=
  match kind with
  | .ds vars => match vars[jj]? with
    | some (_, [], l) => .scalar l
    | some (_, sh, l) => .arr sh l
    | none => .scalar .num
  | _ => if k ≤ 1 then kind else compKind kind jj

def dsJson (kind : Value.Val) (ds : ToDs.DS Sym) : Json :=
  Json.mkObj [
    ("dims", Json.arr (ds.dims.map fun d => Json.arr #[d.1, toJson d.2]).toArray),
    ("extraCoords", toJson ds.extraCoords),
    ("attrs", toJson ds.attrs),
    ("vars", Json.arr (ds.vars.map fun v =>
      Json.mkObj [("name", v.name), ("dims", toJson v.dims), ("data", nestJson kind v.data)]).toArray)]

/-- run to a labelled dataset on symbolic cells: output `jj` at `loc` is `Sym.c loc jj` -/
def toDsSym (d : ToDs.Desc) (kind : Value.Val) (s : Core.Sweep) (st : Core.Strategy) : Except Core.Err (ToDs.DS Sym) :=
  let k := d.outputs.length
  -- per-output placeholder kinds differ, so run the outputs one by one as `coreSplit` does
  match (List.range k).mapM (fun jj => Core.core (fun loc => Sym.c loc jj) (symNanLike (outKind kind k jj)) s st) with
  | .error e => .error e
  | .ok runs => .ok (ToDs.resultsToDs d s (runs.map (·.nested)))

def opToDs (j : Json) : Json :=
  let s := sweepOf j
  let st := strategyOf j
  let kind := valOfJson (getObj j "kind")
  let d := descOf (getObj j "desc")
  if getBool j "to_df" then
    match ToDs.toDf d (fun loc => (List.range (max 1 d.outputs.length)).map fun jj => Sym.c loc jj) (fun r => r) s st with
    | .error e => err (coreErr e)
    | .ok rows => Json.mkObj [("rows", Json.arr (rows.map fun r =>
        Json.mkObj [("loc", toJson r.loc), ("extra", toJson r.extra),
                    ("outputs", Json.arr (r.outputs.map (symJson kind)).toArray)]).toArray)]
  else
    match toDsSym d kind s st with
    | .error e => err (coreErr e)
    | .ok ds => dsJson kind ds

/-! ### file-system traces -/

def evOf (j : Json) : FS.Ev :=
  let pid := getNat j "pid"
  match getStr j "op" with
  | "openw" => .openw pid (getStr j "p") (getBool j "trunc")
  | "write" => .write pid (getStr j "p") (getNat j "n")
  | "close" => .close pid (getStr j "p")
  | "rename" => .rename pid (getStr j "p") (getStr j "q")
  | "unlink" => .unlink pid (getStr j "p")
  | _ => .other pid

def baseName (p : String) : String := (p.splitOn "/").getLast!

/-- final names: crop files (`xyz-…` in the crop directory) and the listed data files -/
def isFinalOf (dataFiles : List String) (p : String) : Bool :=
  (baseName p).startsWith "xyz-" || dataFiles.contains p

def opFsTrace (j : Json) : Json :=
  let evs := (getArr j "events").map evOf
  let fin := isFinalOf (strList j "data_files")
  let st := FS.replay evs
  Json.mkObj [("atomic", toJson (FS.atomicPublisher fin evs)),
              ("first_bad", match FS.firstBad fin [] evs 0 with | some i => toJson i | none => Json.null),
              ("files", Json.mkObj (st.map fun (p, f) => (p, Json.mkObj [("size", toJson f.size), ("open", toJson f.openW)])))]

/-- predicted observations of the read-side steps of a schedule, replayed on the file-system model -/
def opFsSched (j : Json) : Json :=
  let step (acc : FS.State × Array Json) (e : Json) : FS.State × Array Json :=
    let (st, out) := acc
    let p := getStr e "p"
    match getStr e "op" with
    | "create" => (FS.apply st (.openw 0 p true), out.push Json.null)
    | "write" => (FS.apply st (.write 0 p (getNat e "n")), out.push Json.null)
    | "close" => (FS.apply st (.close 0 p), out.push Json.null)
    | "rename" => (FS.apply st (.rename 0 p (getStr e "q")), out.push Json.null)
    | "unlink" => (FS.apply st (.unlink 0 p), out.push Json.null)
    | "exists" => (st, out.push (toJson (FS.lookup st p).isSome))
    | "isfile" => (st, out.push (toJson (FS.lookup st p).isSome))
    | "openr" => (st, out.push (match FS.lookup st p with
        | some f => Json.mkObj [("size", toJson f.size), ("open", toJson f.openW)]
        | none => Json.null))
    | "list" =>
      let parts := p.splitOn "*"
      let pre := parts.head!
      let suf := parts.getLast!
      let dir := (pre.splitOn "/").dropLast
      let ms := st.filter fun (q, _) => q.startsWith pre && q.endsWith suf && q.length ≥ pre.length + suf.length
        && (q.splitOn "/").dropLast == dir
      (st, out.push (toJson ((ms.map (·.1)).mergeSort (· ≤ ·))))
    | _ => (st, out.push Json.null)
  let init : FS.State := (getArr j "initial").map fun f => (getStr f "p", { size := getNat f "size", openW := false })
  let (st, out) := (getArr j "events").foldl step (init, #[])
  Json.mkObj [("obs", Json.arr out),
              ("files", Json.mkObj (st.map fun (p, f) => (p, Json.mkObj [("size", toJson f.size), ("open", toJson f.openW)])))]

/-! ### sampler histories -/

def rowsJson (kind : Value.Val) (t : Option (List (Sampler.Row Sym))) : Json :=
  match t with
  | none => Json.null
  | some rows => Json.arr (rows.map fun r =>
      Json.mkObj [("loc", toJson r.loc), ("outputs", Json.arr (r.outputs.map (symJson kind)).toArray)]).toArray

def opSampler (j : Json) : Json :=
  let kind := valOfJson (getObj j "kind")
  let k := max 1 (getNat j "outputs")
  let f : List Nat → List Sym := fun loc => (List.range k).map (Sym.c loc)
  let (_, obs) := (getArr j "ops").foldl (fun (acc : Sampler.St Sym × Array Json) op =>
    let o : Sampler.Op := match getStr op "op" with
      | "sample" => .sample (((op.getObjValAs? (List (List Nat)) "draws").toOption).getD [])
      | "switch" => .switch
      | _ => .newSampler
    -- the harness reads `full_df` after every operation, which makes the object load (and keep) the file's table
    let s' := Sampler.step f (Sampler.step f acc.1 o) .look
    (s', acc.2.push (Json.mkObj [("mem", rowsJson kind (Sampler.fullDf s')), ("disk", rowsJson kind s'.disk)])))
    (({} : Sampler.St Sym), #[])
  Json.mkObj [("obs", Json.arr obs)]

/-! ### crop histories -/

def cropErr : Crop.Err → String
  | .notReady => "notReady" | .value => "value" | .type => "type" | .missingFile => "missingFile"
  | .badFile => "badFile" | .fnRaised => "fnRaised" | .stopIteration => "stopIteration"
  | .notAllReaped => "notAllReaped" | .noResultForNan => "noResultForNan" | .overlap => "overlap"

def permsOf (j : Json) : Crop.Perms := fun seed n =>
  ((getObj j "perms").getObjValAs? (List Nat) s!"{seed}:{n}").toOption.getD (List.range n)

def lsJson (s : Crop.St (List Sym)) : Json :=
  match s.dir with
  | none => Json.null
  | some d => Json.mkObj [("b", toJson ((d.batches.map (·.1)).mergeSort (· ≤ ·))),
                          ("r", toJson ((d.results.map (·.1)).mergeSort (· ≤ ·))),
                          ("info", toJson d.info.isSome)]

def failsOf (op : Json) : List Nat → Bool :=
  let fl := ((op.getObjValAs? (List (List Nat)) "fail").toOption).getD []
  fun loc => fl.contains loc

/-- placeholder of a symbolic result when there are `k` outputs (`k = 0`: a raw crop with one opaque result) -/
def symNanLikeK (kind : Value.Val) (k : Nat) : Sym → Sym
  | .c _ j => .m (Value.nanLike (outKind kind k j))
  | .m v => .m (Value.nanLike v)
  | .r _ => .m (Value.nanLike kind)

partial def nestJsonL (kind : Value.Val) : Core.Nest (List Sym) → Json
  | .leaf [x] => symJson kind x
  | .leaf l => Json.arr (l.map (symJson kind)).toArray
  | .node l => Json.arr (l.map (nestJsonL kind)).toArray

/-- the four progress queries, in the order the harness makes them -/
def queryJson (s : Crop.St (List Sym)) : Crop.St (List Sym) × Json :=
  let (s1, p) := Crop.calcProgress s
  let (s2, ready) := Crop.isReady s1
  match Crop.missingResults s2 with
  | (s3, .error e) => (s3, Json.mkObj [("sown", toJson p.sown), ("results", toJson p.results), ("ready", toJson ready), ("missing", err (cropErr e))])
  | (s3, .ok ms) => (s3, Json.mkObj [("sown", toJson p.sown), ("results", toJson p.results), ("ready", toJson ready), ("missing", toJson ms)])

def cropOp (P : Crop.Perms) (kind : Value.Val) (k : Nat) (s : Crop.St (List Sym)) (op : Json) : Crop.St (List Sym) × Json :=
  let f : List Nat → List Sym := fun loc => if k == 0 then [Sym.r loc] else (List.range k).map (Sym.c loc)
  let nlL : List Sym → List Sym := fun r => r.map (symNanLikeK kind k)
  match getStr op "op" with
  | "new" => (Crop.opNew s (optNat op "bs") (optNat op "nb") (getNat op "shuffle"), Json.null)
  | "reload" =>
    -- `Crop(name=…, parent_dir=…)`; with `autoload=False` nothing is read from disk until the first progress query
    (if getBool op "autoload" true then Crop.opNew s none none 0 else { s with obj := {} }, Json.null)
  | "sow" =>
    let sw := sweepOf (getObj op "sweep")
    let isCases := getBool op "cases"
    -- sow_combos: "shuffle_omit" = the argument was left out; "shuffle_none" = None was given (the crop keeps its own)
    let shArg := if isCases || getBool op "shuffle_none" then none
      else if getBool op "shuffle_omit" then Gen.sowCombosShuffleDefault.map Int.toNat   -- the parameter's default, read off the source
      else some (getNat op "shuffle")
    match Crop.opSow P s sw (!isCases) shArg (optNat op "bs") (optNat op "nb") with
    | .ok s' => (s', Json.null)
    | .error e => ({ s with obj := Crop.sowAttrs s.obj (!isCases) shArg (optNat op "bs") (optNat op "nb") }, err (cropErr e))
  | "grow" =>
    match s.dir with
    | none => (s, err "missingFile")
    | some d =>
      let (d', e) := Crop.growMany f (failsOf op) d (natList op "ids")
      ({ s with dir := some d' }, match e with | none => Json.null | some e => err (cropErr e))
  | "growmissing" =>
    match Crop.missingResults s with
    | (s1, .error e) => (s1, err (cropErr e))
    | (s1, .ok ids) =>
      match s1.dir with
      | none => (s1, if ids.isEmpty then Json.null else err "missingFile")
      | some d =>
        let (d', e) := Crop.growMany f (failsOf op) d ids
        ({ s1 with dir := some d' }, match e with | none => Json.null | some e => err (cropErr e))
  | "delres" =>
    (match s.dir with
     | some d => { s with dir := some { d with results := Crop.erase d.results (getNat op "id") } }
     | none => s, Json.null)
  | "emptydir" => ((match s.dir with | none => { s with dir := some {} } | some _ => s), Json.null)   -- directory skeleton, no info file
  | "strandtmp" => (s, Json.null)      -- a killed writer's private temporary: not a crop file, changes nothing
  | "corrupt" =>
    (match s.dir with
     | some d => if (Crop.lookup d.results (getNat op "id")).isSome
                 then { s with dir := some { d with results := Crop.insert d.results (getNat op "id") .bad } } else s
     | none => s, Json.null)
  | "checkbad" =>
    match s.dir with
    | none => (s, Json.mkObj [("bad", toJson ([] : List Nat))])
    | some d =>
      match Crop.checkBad d with
      | .ok (d', bad) => ({ s with dir := some d' }, Json.mkObj [("bad", toJson (bad.mergeSort (· ≤ ·)))])
      | .error e => (s, err (cropErr e))
  | "query" => queryJson s
  | "stalequery" =>
    -- the same queries through a handle made before the crop was sown (nothing loaded yet); that handle is a copy
    -- each time, so the history's own handle is untouched
    (s, (queryJson { s with obj := { bs := none, nb := none, rem := none, shuffle := 0 } }).2)
  | "reap" =>
    let o : Crop.ReapOpts := { allowIncomplete := getBool op "allow_incomplete", wait := getBool op "wait",
                               cleanUp := (op.getObjValAs? Bool "clean_up").toOption }
    match Crop.reapRaw P nlL s o with
    | .ok (s', out) => (s', Json.mkObj [("ok", nestJsonL kind out)])
    | .error e =>
      -- a refused / failed reap may still have synced the object from disk
      let s' := if o.allowIncomplete || o.wait then s else (Crop.isReady s).1
      (s', err (cropErr e))
  | "reapf" =>
    let o : Crop.ReapOpts := { allowIncomplete := getBool op "allow_incomplete", wait := getBool op "wait",
                               cleanUp := (op.getObjValAs? Bool "clean_up").toOption }
    let fk : Crop.FarmerKind := match getStr op "kind" with
      | "runner" => .runner | "harvester" => .harvester | "sampler" => .sampler | _ => .raw
    let env : Crop.Env := { labelFails := getBool op "label_fails", deliverFails := getBool op "deliver_fails" }
    -- batches that other workers finish while the farmer is syncing its store
    let lateIds := natList op "late_ids"
    let late : Option (Crop.Dir (List Sym)) → Option (Crop.Dir (List Sym)) :=
      fun od => od.map (fun d => (Crop.growMany f (fun _ => false) d lateIds).1)
    let out := Crop.reapFarmer P nlL fk env s o late
    let s' := match out.res with
      | .error (.gather _) => if o.allowIncomplete || o.wait then s else (Crop.isReady s).1
      | _ => out.st
    (s', Json.mkObj [("res", match out.res with
        | .ok _ => Json.str "ok"
        | .error (.gather e) => Json.str (if e == .notReady then "notReady" else "fail")
        | .error .label => Json.str "fail"
        | .error .deliver => Json.str "fail"),
      ("stage", match out.res with
        | .ok _ => Json.str "none" | .error (.gather _) => Json.str "gather"
        | .error .label => Json.str "label" | .error .deliver => Json.str "deliver"),
      ("delivered", toJson out.delivered)])
  | "reapds" =>
    let o : Crop.ReapOpts := { allowIncomplete := getBool op "allow_incomplete", wait := getBool op "wait",
                               cleanUp := (op.getObjValAs? Bool "clean_up").toOption }
    let d := descOf (getObj op "desc")
    let failed (e : Crop.Err) := (if o.allowIncomplete || o.wait then s else (Crop.isReady s).1, err (cropErr e))
    if getBool op "to_df" then
      match Crop.reapToDf P (symNanLikeK kind k) d s o with
      | .error e => failed e
      | .ok (s', rows) => (s', Json.mkObj [("rows", Json.arr (rows.map fun r =>
          Json.mkObj [("loc", toJson r.loc), ("extra", toJson r.extra),
                      ("outputs", Json.arr (r.outputs.map (symJson kind)).toArray)]).toArray)])
    else
      match Crop.reapToDs P (symNanLikeK kind k) (Sym.m (.scalar .nan)) d s o with
      | .error e => failed e
      | .ok (s', ds) => (s', Json.mkObj [("ds", dsJson kind ds)])
  | o => (s, err s!"bad-op {o}")

def opCrop (j : Json) : Json :=
  let P := permsOf j
  let kind := valOfJson (getObj j "kind")
  let k := getNat j "outputs"
  -- `switch`: two live Crop objects on the one directory take turns — the current object is parked and the parked one
  -- (or, the first time, a fresh `Crop(name=…, parent_dir=…)`) is taken up again AS IT WAS LEFT; only the directory is shared
  let (_, obs) := (getArr j "ops").foldl (fun (acc : (Crop.St (List Sym) × Option Crop.Obj) × Array Json) op =>
    let (s, parked) := acc.1
    if getStr op "op" == "switch" then
      let other : Crop.Obj := match parked with
        | some o => o
        | none => (Crop.opNew s none none 0).obj
      let s' : Crop.St (List Sym) := { s with obj := other }
      ((s', some s.obj), acc.2.push (Json.mkObj [("o", Json.null), ("ls", lsJson s')]))
    else
      let (s', o) := cropOp P kind k s op
      ((s', parked), acc.2.push (Json.mkObj [("o", o), ("ls", lsJson s')])))
    ((({} : Crop.St (List Sym)), none), #[])
  Json.mkObj [("obs", Json.arr obs)]


/-! ### op `vardims`: `parse_var_dims` on an explicit spelling -/
section VarDimsOp
open VarDims

def atomOfJson (j : Json) : Atom :=
  match j with
  | .str x => .s x
  | .arr a => .t (a.toList.map fun e => match e with | .str x => x | _ => "?")
  | _ => .s "?"

def elemOfJson (j : Json) : Elem :=
  match j with
  | .str x => .s x
  | .arr a => .t (a.toList.map atomOfJson)
  | _ => .s "?"

def atomJson : Atom → Json
  | .s x => Json.str x
  | .t l => Json.arr (l.map Json.str).toArray

def opVarDims (j : Json) : Json :=
  let names : Option (List String) := (j.getObjValAs? (List String) "names").toOption
  let spj := (j.getObjVal? "sp").toOption.getD Json.null
  let sp : Spelling := match getStr spj "k" with
    | "str" => .str (getStr spj "d")
    | "list" => .list ((getArr spj "elems").map elemOfJson)
    | "dict" => .dict ((getArr spj "items").map fun it =>
        match it with
        | .arr a => (atomOfJson (a.getD 0 Json.null), atomOfJson (a.getD 1 Json.null))
        | _ => (.s "?", .s "?"))
    | _ => .none
  match parse names sp with
  | .error _ => err "ValueError"
  | .ok m => Json.mkObj [("map", Json.arr (m.map fun p =>
      Json.arr #[Json.str p.1, Json.arr (p.2.map atomJson).toArray]).toArray)]
end VarDimsOp


/-! ### op `parsecases`: `parse_cases` on an explicit spelling -/
section ParseCasesOp
open ParseCases

partial def vOfJson (j : Json) : V :=
  match j with
  | .str x => .str x
  | .arr a => .tup (a.toList.map vOfJson)
  | .num n => .num n.mantissa.toNat
  | _ => .num 0

partial def vJson : V → Json
  | .num n => toJson n
  | .str x => Json.str x
  | .tup l => Json.arr (l.map vJson).toArray

def caseOfJson (j : Json) : List (String × V) :=
  match j with
  | .arr a => a.toList.map fun kv => match kv with
    | .arr p => (match p.getD 0 Json.null with | .str k => k | _ => "?", vOfJson (p.getD 1 Json.null))
    | _ => ("?", .num 0)
  | _ => []

def opParseCases (j : Json) : Json :=
  let fa : Option (List String) := (j.getObjValAs? (List String) "fn_args").toOption
  let spj := (j.getObjVal? "sp").toOption.getD Json.null
  let sp : ParseCases.Spelling := match getStr spj "k" with
    | "onedict" => .oneDict (caseOfJson ((spj.getObjVal? "d").toOption.getD Json.null))
    | "dicts" => .dicts ((getArr spj "ds").map caseOfJson)
    | "rows" => .rows ((getArr spj "rows").map fun r => match r with
        | .arr a => .tuple (a.toList.map vOfJson)
        | x => .bare (vOfJson x))
    | _ => .none
  match ParseCases.parse fa sp with
  | .error _ => err "TypeError"
  | .ok cs => Json.mkObj [("cases", Json.arr (cs.map fun c =>
      Json.arr (c.map fun kv => Json.arr #[Json.str kv.1, vJson kv.2]).toArray).toArray)]
end ParseCasesOp

def handle (j : Json) : Json :=
  match getStr j "op" with
  | "batch" => opBatch j
  | "core" => opCore j
  | "crop" => opCrop j
  | "tods" => opToDs j
  | "sampler" => opSampler j
  | "fstrace" => opFsTrace j
  | "fssched" => opFsSched j
  | "vardims" => opVarDims j
  | "parsecases" => opParseCases j
  | "ping" => Json.mkObj [("pong", true)]
  | o =>
    match DrvNum.handleNum o j with
    | some r => r
    | none =>
    match DrvScript.handleScript o j with
    | some r => r
    | none =>
    match DrvData.handleData o j with
    | some r => r
    | none =>
    match DrvPlot.handlePlot o j with
    | some r => r
    | none => err s!"bad-op {o}"

partial def loop (h : IO.FS.Stream) (out : IO.FS.Stream) : IO Unit := do
  let line ← h.getLine
  if line.isEmpty then return
  let r := match Json.parse line with
    | .ok j => handle j
    | .error e => err s!"bad-json {e}"
  out.putStrLn r.compress
  loop h out

def main : IO Unit := do
  let out ← IO.getStdout
  loop (← IO.getStdin) out
  out.flush

end Drv
