import Lean.Data.Json
import XyzModel.Batch
/-! JSON-lines driver over the executable models (DESIGN.md Appendix B). One request per line, one reply per line. -/
open Lean

namespace Drv

def optNat (j : Json) (k : String) : Option Nat := (j.getObjValAs? Nat k).toOption
def getNat (j : Json) (k : String) (d : Nat := 0) : Nat := (optNat j k).getD d
def getInt (j : Json) (k : String) (d : Int := 0) : Int := ((j.getObjValAs? Int k).toOption).getD d
def getBool (j : Json) (k : String) (d : Bool := false) : Bool := ((j.getObjValAs? Bool k).toOption).getD d
def getStr (j : Json) (k : String) (d : String := "") : String := ((j.getObjValAs? String k).toOption).getD d
def natList (j : Json) (k : String) : List Nat := ((j.getObjValAs? (List Nat) k).toOption).getD []
def getArr (j : Json) (k : String) : List Json := (((j.getObjValAs? (Array Json) k).toOption).getD #[]).toList
def getObj (j : Json) (k : String) : Json := (j.getObjVal? k).toOption.getD Json.null
def err (s : String) : Json := Json.mkObj [("err", Json.str s)]

/-- op "batch": choose_batch_settings + Sower on the stream `perm` (or 0..n-1) -/
def opBatch (j : Json) : Json :=
  let n := getNat j "n"
  let stream := match (j.getObjValAs? (List Nat) "stream").toOption with
    | some l => l
    | none => List.range n
  match Batch.chooseBatch n (optNat j "bs") (optNat j "nb") (optNat j "rem") with
  | .error e => err (match e with | .value => "value" | .type => "type")
  | .ok c =>
    Json.mkObj [("batchsize", toJson c.batchsize), ("num_batches", toJson c.numBatches),
                ("remainder", toJson c.remainder), ("batches", toJson (Batch.sow c stream))]

def handle (j : Json) : Json :=
  match getStr j "op" with
  | "batch" => opBatch j
  | "ping" => Json.mkObj [("pong", true)]
  | o => err s!"bad-op {o}"

partial def loop (h : IO.FS.Stream) (out : IO.FS.Stream) : IO Unit := do
  let line ← h.getLine
  if line.isEmpty then return
  let r := match Json.parse line with
    | .ok j => handle j
    | .error e => err s!"bad-json {e}"
  out.putStrLn r.compress
  loop h out

def main : IO Unit := do
  let out ← IO.getStdout
  loop (← IO.getStdin) out
  out.flush

end Drv
