import XyzModel.Gen.Extracted
/-!
# `parse_cases` (xyzpy/gen/prepare.py): the accepted spellings of a list of cases

A case assigns a value to each case argument.  Values are scalars (a number — its rank — or a string); a row of the
tuple spelling is either a tuple of values or a *bare* value (allowed for a single argument).  The parser looks only at
the **first** row to decide whether the rows are bare (`Gen.casesWrapBare`, read off the source).
-/
namespace ParseCases

inductive V where
  | num (n : Nat)
  | str (s : String)
  | tup (l : List V)          -- a tuple met where a scalar was expected (kept as a value)
deriving Repr, Inhabited

inductive Row where
  | bare (v : V)              -- `3` or `'abc'`
  | tuple (l : List V)        -- `(3, 'abc')`
deriving Repr

inductive Spelling where
  | none                                         -- `None` / `()` / `[]`
  | oneDict (d : List (String × V))              -- a single dict
  | dicts (ds : List (List (String × V)))        -- a sequence of dicts
  | rows (rs : List Row)                         -- a sequence of tuples / bare values
deriving Repr

inductive Err where
  | type                                         -- TypeError
deriving Repr, DecidableEq

abbrev Case := List (String × V)

def rowIsStr : Row → Bool
  | .bare (.str _) => true
  | _ => false

/-- `isiterable`: strings and tuples are, numbers are not -/
def rowIsIterable : Row → Bool
  | .bare (.num _) => false
  | _ => true

/-- `(c,)` -/
def wrap : Row → List V
  | .bare v => [v]
  | .tuple l => [.tup l]

/-- what `zip(fn_args, c)` iterates over: a tuple's items, a string's characters; a number is not iterable -/
def items : Row → Except Err (List V)
  | .tuple l => .ok l
  | .bare (.str s) => .ok (s.toList.map fun ch => .str (String.singleton ch))
  | .bare (.tup l) => .ok l
  | .bare (.num _) => .error .type

/-- `dict(zip(fn_args, vals))`: a repeated argument name keeps its first position and takes the last value -/
def dictZip (fnArgs : List String) (vals : List V) : Case :=
  (fnArgs.zip vals).foldl (fun acc kv =>
    if acc.any (·.1 == kv.1) then acc.map (fun p => if p.1 == kv.1 then (p.1, kv.2) else p) else acc ++ [kv]) []

def mapM' {α β} (f : α → Except Err β) : List α → Except Err (List β)
  | [] => .ok []
  | x :: xs =>
    match f x, mapM' f xs with
    | .ok y, .ok ys => .ok (y :: ys)
    | _, _ => .error .type

/-- `parse_cases(cases, fn_args)`; `fnArgs = none`: no argument names given -/
def parse (fnArgs : Option (List String)) : Spelling → Except Err (List Case)
  | .none => .ok []
  | .oneDict d => if d.isEmpty then .ok [] else .ok [d]
  | .dicts ds => .ok ds
  | .rows [] => .ok []
  | .rows (r :: rs) =>
    match fnArgs with
    | none => .error .type
    | some fa =>
      if Gen.casesWrapBare (rowIsStr r) (rowIsIterable r) then
        .ok ((r :: rs).map fun c => dictZip fa (wrap c))
      else
        match mapM' items (r :: rs) with
        | .error e => .error e
        | .ok ls => .ok (ls.map (dictZip fa))

end ParseCases
