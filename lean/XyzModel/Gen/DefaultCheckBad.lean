import XyzModel.Gen.DefaultSt
/-!
Vocabulary and last-good text of the anchors of harness/anchors_checkbad.py:

* `write_to_disk` / `read_from_disk` (xyzpy/gen/cropping.py) as STATE skeletons over `Gen.FileOps` — open / dump / close /
  replace / remove on the two names `final | tmp`; `with open(...)` is `stWith` (the file is closed whether or not the body
  raised), `try … except BaseException: …; raise` is `stOnError` (run the handler on the state reached, then re-raise);
* `Crop.check_bad` as a state skeleton with a loop over the listed result files (`Gen.CbOps`, `cbLoop`);
* the dispatch of `Crop.reap` on the farmer's type (`Gen.ReapCall`: which method, which options are handed on).

The `Gen.Default` part is written by tools/update_default_checkbad.py; `Gen/Extracted.lean` holds the translation of the
*current* source.
-/
set_option linter.unusedVariables false
namespace Gen

/-! ### write_to_disk / read_from_disk -/

/-- which name a file operation of `write_to_disk(obj, fname)` is handed: `fname` itself, or the other name built from it
before the write (`<dir>/.tmp-<uuid>-<base>`; that it differs from `fname` is checked by evaluating its construction) -/
inductive WName where
  | final
  | tmp
deriving Repr, DecidableEq, Inhabited

/-- the file operations of `write_to_disk` / `read_from_disk`, on any state type.  An operation that can raise returns
the state it reached and the error. -/
structure FileOps (S E : Type) where
  openW : S → WName → S × Option E          -- `open(name, 'wb')` (creates / truncates)
  dump : S → WName → S × Option E           -- `pickle.dump(obj, file)` into the file opened under that name
  openR : S → WName → S × Option E          -- `open(name, 'rb')`
  load : S → WName → S × Option E           -- `pickle.load(file)`
  close : S → WName → S × Option E          -- leaving the `with` block
  replace : S → WName → WName → S × Option E  -- `os.replace(src, dst)` / `os.rename`
  pathExists : S → WName → Bool             -- `os.path.exists(name)`
  remove : S → WName → S × Option E         -- `os.remove(name)`

/-- `try: A except BaseException: H; raise` — if A raised, H runs on the state A reached and the exception is re-raised
(H's own exception wins if it raises) -/
def stOnError {S E : Type} (r : S × Option E) (h : S → S × Option E) : S × Option E :=
  match r with
  | (s, none) => (s, none)
  | (s, some e) =>
    match h s with
    | (s', none) => (s', some e)
    | (s', some e') => (s', some e')

/-- `try: A except BaseException: H` WITHOUT a re-raise: the exception is swallowed, the body goes on after H -/
def stCatch {S E : Type} (r : S × Option E) (h : S → S × Option E) : S × Option E :=
  match r with
  | (s, none) => (s, none)
  | (s, some _) => h s

/-- `with <open> as f: body` — if the open raised nothing else happens; otherwise the body runs and the file is closed
whether or not the body raised (the body's exception is re-raised unless closing raises itself) -/
def stWith {S E : Type} (opened : S × Option E) (body exit : S → S × Option E) : S × Option E :=
  stBind opened fun st => stFinally (body st) exit

@[simp] theorem stFinally_err {S E : Type} (s : S) (e : E) (f : S → S × Option E) :
    stFinally (s, some e) f = ((f s).1, some ((f s).2.getD e)) := by
  cases hf : f s with
  | mk s' o => cases o <;> simp [stFinally, hf]
@[simp] theorem stOnError_ok {S E : Type} (s : S) (h : S → S × Option E) : stOnError (s, none) h = (s, none) := rfl
@[simp] theorem stOnError_err {S E : Type} (s : S) (e : E) (h : S → S × Option E) :
    stOnError (s, some e) h = ((h s).1, some ((h s).2.getD e)) := by
  cases hf : h s with
  | mk s' o => cases o <;> simp [stOnError, hf]
@[simp] theorem stCatch_ok {S E : Type} (s : S) (h : S → S × Option E) : stCatch (s, none) h = (s, none) := rfl
@[simp] theorem stCatch_err {S E : Type} (s : S) (e : E) (h : S → S × Option E) : stCatch (s, some e) h = h s := rfl
theorem stBind_ret {S E : Type} (r : S × Option E) : stBind r (fun s => (s, none)) = r := by
  obtain ⟨s, e⟩ := r; cases e <;> rfl

/-! ### check_bad -/

/-- a file of the crop directory as `check_bad` names it: result / batch file number `i`, or any other path -/
inductive CbFile where
  | result (i : Nat)
  | batch (i : Nat)
  | other
deriving Repr, DecidableEq, Inhabited

/-- which glob a listing uses -/
inductive CbKind where
  | results     -- `<location>/results/xyz-result-*.jbdmp`
  | batches     -- `<location>/batches/xyz-batch-*.jbdmp`
  | other
deriving Repr, DecidableEq, Inhabited

/-- the listed file number `i` of a listing of that kind -/
def CbKind.file : CbKind → Nat → CbFile
  | .results, i => .result i
  | .batches, i => .batch i
  | .other, _ => .other

/-- the operations of `check_bad` on any state type: list the numbers of the files matching a glob (in listing order),
read a file and take the length of what it holds (raises when it cannot be read), remove a file -/
structure CbOps (S E : Type) where
  list : S → CbKind → List Nat
  readLen : S → CbFile → Except E Int
  remove : S → CbFile → S × Option E

/-- a `for` loop with an accumulator next to the state: the body runs for every item in order; the first item whose
body raises ends the loop with the state and accumulator reached -/
def cbLoop {S A E : Type} (body : Nat → S → A → (S × A) × Option E) : List Nat → S → A → (S × A) × Option E
  | [], st, acc => ((st, acc), none)
  | i :: is, st, acc =>
    match body i st acc with
    | ((st', acc'), none) => cbLoop body is st' acc'
    | r => r

/-- continue with the state an operation reached unless it raised; a call that raises reports nothing, so the translated
bodies hand over the empty accumulator `acc` for that case (whatever had been collected is dropped with the exception) -/
def cbBind {S A E : Type} (r : S × Option E) (acc : A) (k : S → (S × A) × Option E) : (S × A) × Option E :=
  match r with
  | (s, some e) => ((s, acc), some e)
  | (s, none) => k s

@[simp] theorem cbBind_ok {S A E : Type} (s : S) (acc : A) (k : S → (S × A) × Option E) :
    cbBind (E := E) (s, none) acc k = k s := rfl
@[simp] theorem cbBind_err {S A E : Type} (s : S) (e : E) (acc : A) (k : S → (S × A) × Option E) :
    cbBind (s, some e) acc k = ((s, acc), some e) := rfl

/-! ### Crop.reap -/

/-- what `self.farmer` is -/
inductive Farmer where
  | none | runner | harvester | sampler
deriving Repr, DecidableEq, Inhabited

/-- the method `Crop.reap` hands the call on to -/
inductive ReapTarget where
  | combos | runner | harvest | samples
deriving Repr, DecidableEq, Inhabited

/-- the call `Crop.reap` makes: the method and the value each of its parameters receives (a parameter the method does
not have is recorded with the neutral value `false` / `none`); `farmerPassed`: the first argument is `self.farmer` -/
structure ReapCall where
  target : ReapTarget
  farmerPassed : Bool
  wait : Bool
  sync : Bool
  overwrite : Option Bool
  cleanUp : Option Bool
  allowIncomplete : Bool
  toDf : Bool
deriving Repr, DecidableEq

end Gen

namespace Gen.Default
open Gen

def writeToDisk {S E : Type} (o : FileOps S E) (st : S) : S × Option E :=
  (stBind (stOnError (
      (stBind (stWith (o.openW st .tmp) (fun st =>
          (stBind (o.dump st .tmp) fun st =>
            (st, none)))
        (fun st => o.close st .tmp)) fun st =>
        (stBind (o.replace st .tmp .final) fun st =>
          (st, none))))
    (fun st =>
      (stBind (if (o.pathExists st .tmp) then
          (stBind (o.remove st .tmp) fun st =>
            (st, none))
        else
          (st, none)) fun st =>
        (st, none)))) fun st =>
    (st, none))

def readFromDisk {S E : Type} (o : FileOps S E) (st : S) : S × Option E :=
  (stBind (stWith (o.openR st .final) (fun st =>
      (stBind (o.load st .final) fun st =>
        (st, none)))
    (fun st => o.close st .final)) fun st =>
    (st, none))

def checkBadSk {S E : Type} (o : CbOps S E) (deleteBad : Bool) (st : S) : (S × List Nat) × Option E :=
  cbLoop (fun i st badIds =>
    (match o.readLen st (.batch i) with
    | .error e => ((st, []), some e)
    | .ok len0 =>
      let (unloadable, len1) := (match o.readLen st (.result i) with
        | .ok n => (false, n)
        | .error _ => (true, (0 : Int)))
      if (unloadable || (decide (len1 ≠ len0))) then
        if deleteBad then
          (cbBind (o.remove st (.result i)) [] fun st =>
            let badIds := badIds ++ [i]
            ((st, badIds), none))
        else
          let badIds := badIds ++ [i]
          ((st, badIds), none)
      else
        ((st, badIds), none))) (o.list st .results) st []

def reapDispatch (farmer : Farmer) (wait sync : Bool) (overwrite cleanUp : Option Bool) (allowIncomplete : Bool) : ReapCall :=
  if (farmer == .runner) then
    { target := .runner, farmerPassed := true, wait := wait, sync := false, overwrite := none, cleanUp := cleanUp, allowIncomplete := allowIncomplete, toDf := false }
  else
    if (farmer == .harvester) then
      { target := .harvest, farmerPassed := true, wait := wait, sync := sync, overwrite := overwrite, cleanUp := cleanUp, allowIncomplete := allowIncomplete, toDf := false }
    else
      if (farmer == .sampler) then
        { target := .samples, farmerPassed := true, wait := wait, sync := sync, overwrite := none, cleanUp := cleanUp, allowIncomplete := allowIncomplete, toDf := false }
      else
        { target := .combos, farmerPassed := false, wait := wait, sync := false, overwrite := none, cleanUp := cleanUp, allowIncomplete := allowIncomplete, toDf := false }

def reapDefaults : Bool × Bool × Option Bool × Option Bool × Bool := (false, true, (none : Option Bool), (none : Option Bool), false)

def deleteAllRemoves : Bool := true

def initAutoload (autoload isPrepared : Bool) : Bool := (autoload && isPrepared)

def initAutoloadDefault : Bool := true

def loadCropsAutoloads : Bool := true

end Gen.Default
