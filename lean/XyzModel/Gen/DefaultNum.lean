/-!
Last-good definitions of the numerical anchors (harness/anchors_num.py; xyzpy/utils.py).
They describe the repaired tree (after the `fix:` commits for D13 and D17).

`count` is the OLD count (before the update), passed as a rational; every body is the result of symbolically
executing the straight-line `update` method, i.e. the final value of the attribute in terms of the old state.
-/
namespace Gen.Default

-- RunningStatistics.update
def welfordCount (count : Int) : Int := count + 1
def welfordMean (count mean M2 x : Rat) : Rat := mean + (x - mean) / (count + 1)
def welfordM2 (count mean M2 x : Rat) : Rat := M2 + (x - mean) * (x - (mean + (x - mean) / (count + 1)))
-- RunningStatistics.var / .converged (`self.err < rtol * abs(self.mean) + atol`: the right-hand side)
def statVar (M2 count : Rat) : Rat := M2 / count
def convRhs (rtol mean atol : Rat) : Rat := rtol * Rat.abs mean + atol

-- RunningCovariance.update
def covCount (count : Int) : Int := count + 1
def covXmean (count xmean ymean C x y : Rat) : Rat := xmean + (x - xmean) / (count + 1)
def covYmean (count xmean ymean C x y : Rat) : Rat := ymean + (y - ymean) / (count + 1)
def covC (count xmean ymean C x y : Rat) : Rat := C + (x - xmean) * (y - (ymean + (y - ymean) / (count + 1)))
def covCovar (C count : Rat) : Rat := C / count
def covSample (C count : Rat) : Rat := C / (count - 1)

-- estimate_from_repeats: `if i > min_samples: if rs.converged(rtol, tol_scale * rtol): break`, `if i >= max_samples - 1: break`
def repCheck (i minSamples : Int) : Bool := decide (i > minSamples)
def repRtol (rtol tolScale : Rat) : Rat := rtol
def repAtol (rtol tolScale : Rat) : Rat := tolScale * rtol
def repHitMax (i maxSamples : Int) : Bool := decide (i ≥ maxSamples - 1)

-- format_number_with_error
def fmtExp (xe ee : Int) : Int := max xe (ee + 1)
def fmtHide (k : Int) (errLt : Bool) : Bool := (decide (k = 0) || decide (k = -1)) || (decide (k = 1) && errLt)
def fmtDigits (exponent : Int) : Int := max (1 - exponent) 0

end Gen.Default
