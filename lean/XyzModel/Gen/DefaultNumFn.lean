/-!
Last-good definitions of the function-level anchors of the numerical family (harness/anchors_numfn.py, translated by
harness/pynum2lean.py).  Written by tools/update_default_numfn.py; `Gen/Extracted.lean` holds the translation of the
*current* source.

Real numbers are an abstract type `K` (core classes only), with `abs`, `sqrt` (`v ** 0.5`) and `inf` (`np.inf`) as
explicit parameters; floats whose decimal formatting matters are an opaque type `F` with the formatting primitives as
parameters.
-/
namespace Gen

/-- `for i in itertools.count(): body` with `break`: `body i s` returns the new state and whether it broke.
`fuel` bounds the number of iterations (the theorems show how much fuel suffices). -/
def forCount {σ : Type} (body : Int → σ → σ × Bool) : Nat → Int → σ → σ
  | 0, _, s => s
  | fuel + 1, i, s =>
    match body i s with
    | (s', true) => s'
    | (s', false) => forCount body fuel (i + 1) s'

/-- what `estimate_from_repeats` returns: `get="stats"` (the object = its three attributes), `get="samples"`
(object and the list of samples), `get="mean"` -/
inductive EstResult (K : Type) where
  | stats (count mean M2 : K)
  | samples (count mean M2 : K) (xs : List K)
  | mean (m : K)

/-- literal text inside a translated f-string; the ones the formatter's reader knows are constructors so that no
proof has to compare strings -/
inductive Lit where
  | lparen | rparen | e
  | other (s : String)
deriving Repr, DecidableEq

/-- one part of a translated f-string -/
inductive Piece (F M : Type) where
  | lit (l : Lit)                 -- literal text
  | fixed (v : F) (d : Int)       -- f"{v:.{d}f}"
  | str (m : M)                   -- f"{m}" of a string-valued name
  | intP03 (k : Int)              -- f"{k:+03d}"

end Gen

namespace Gen.Default

def rsInit {K : Type} [Add K] [Sub K] [Mul K] [Div K] [NatCast K] [LT K] [DecidableLT K] [DecidableEq K] : K × K × K :=
  let count : K := ((0 : Nat) : K)
  let mean : K := ((0 : Nat) : K)
  let M2 : K := ((0 : Nat) : K)
  (count, mean, M2)

def rsUpdate {K : Type} [Add K] [Sub K] [Mul K] [Div K] [NatCast K] [LT K] [DecidableLT K] [DecidableEq K] (count mean M2 : K) (x : K) : K × K × K :=
  let count : K := (count + ((1 : Nat) : K))
  let delta : K := (x - mean)
  let mean : K := (mean + (delta / count))
  let delta2 : K := (x - mean)
  let M2 : K := (M2 + (delta * delta2))
  (count, mean, M2)

def rsUpdateFromIt {K : Type} [Add K] [Sub K] [Mul K] [Div K] [NatCast K] [LT K] [DecidableLT K] [DecidableEq K] (count mean M2 : K) (xs : List K) : K × K × K :=
  let (count, mean, M2) := xs.foldl (fun (st : K × K × K) (p : K) =>
      let count : K := st.1
      let mean : K := st.2.1
      let M2 : K := st.2.2
      let x : K := p
      let (count, mean, M2) := rsUpdate count mean M2 x
      (count, mean, M2)) (count, mean, M2)
  (count, mean, M2)

def rsVar {K : Type} [Add K] [Sub K] [Mul K] [Div K] [NatCast K] [LT K] [DecidableLT K] [DecidableEq K] (abs sqrt : K → K) (inf : K) (count mean M2 : K) : K :=
  if decide (count = ((0 : Nat) : K)) then
    inf
  else
    (M2 / count)

def rsStd {K : Type} [Add K] [Sub K] [Mul K] [Div K] [NatCast K] [LT K] [DecidableLT K] [DecidableEq K] (abs sqrt : K → K) (inf : K) (count mean M2 : K) : K :=
  if decide (count = ((0 : Nat) : K)) then
    inf
  else
    (sqrt (rsVar abs sqrt inf count mean M2))

def rsErr {K : Type} [Add K] [Sub K] [Mul K] [Div K] [NatCast K] [LT K] [DecidableLT K] [DecidableEq K] (abs sqrt : K → K) (inf : K) (count mean M2 : K) : K :=
  if decide (count = ((0 : Nat) : K)) then
    inf
  else
    ((rsStd abs sqrt inf count mean M2) / (sqrt count))

def rsRelErr {K : Type} [Add K] [Sub K] [Mul K] [Div K] [NatCast K] [LT K] [DecidableLT K] [DecidableEq K] (abs sqrt : K → K) (inf : K) (count mean M2 : K) : K :=
  if decide (count = ((0 : Nat) : K)) then
    inf
  else
    ((rsErr abs sqrt inf count mean M2) / (abs mean))

def rsConverged {K : Type} [Add K] [Sub K] [Mul K] [Div K] [NatCast K] [LT K] [DecidableLT K] [DecidableEq K] (abs sqrt : K → K) (inf : K) (count mean M2 : K) (rtol atol : K) : Bool :=
  decide ((rsErr abs sqrt inf count mean M2) < ((rtol * (abs mean)) + atol))

def rcInit {K : Type} [Add K] [Sub K] [Mul K] [Div K] [NatCast K] [LT K] [DecidableLT K] [DecidableEq K] : K × K × K × K :=
  let count : K := ((0 : Nat) : K)
  let xmean : K := ((0 : Nat) : K)
  let ymean : K := ((0 : Nat) : K)
  let C : K := ((0 : Nat) : K)
  (count, xmean, ymean, C)

def rcUpdate {K : Type} [Add K] [Sub K] [Mul K] [Div K] [NatCast K] [LT K] [DecidableLT K] [DecidableEq K] (count xmean ymean C : K) (x y : K) : K × K × K × K :=
  let count : K := (count + ((1 : Nat) : K))
  let dx : K := (x - xmean)
  let dy : K := (y - ymean)
  let xmean : K := (xmean + (dx / count))
  let ymean : K := (ymean + (dy / count))
  let C : K := (C + (dx * (y - ymean)))
  (count, xmean, ymean, C)

def rcUpdateFromIt {K : Type} [Add K] [Sub K] [Mul K] [Div K] [NatCast K] [LT K] [DecidableLT K] [DecidableEq K] (count xmean ymean C : K) (xs ys : List K) : K × K × K × K :=
  let (count, xmean, ymean, C) := (xs.zip ys).foldl (fun (st : K × K × K × K) (p : K × K) =>
      let count : K := st.1
      let xmean : K := st.2.1
      let ymean : K := st.2.2.1
      let C : K := st.2.2.2
      let x : K := p.1
      let y : K := p.2
      let (count, xmean, ymean, C) := rcUpdate count xmean ymean C x y
      (count, xmean, ymean, C)) (count, xmean, ymean, C)
  (count, xmean, ymean, C)

def rcCovar {K : Type} [Add K] [Sub K] [Mul K] [Div K] [NatCast K] [LT K] [DecidableLT K] [DecidableEq K] (count xmean ymean C : K) : K :=
  (C / count)

def rcSampleCovar {K : Type} [Add K] [Sub K] [Mul K] [Div K] [NatCast K] [LT K] [DecidableLT K] [DecidableEq K] (count xmean ymean C : K) : K :=
  (C / (count - ((1 : Nat) : K)))

def estimateFromRepeats {K : Type} [Add K] [Sub K] [Mul K] [Div K] [NatCast K] [LT K] [DecidableLT K] [DecidableEq K] (abs sqrt : K → K) (inf : K) (f : Nat → K) (fuel : Nat) (rtol tolScale : K) (getSamples getMean : Bool) (minSamples maxSamples : Int) : Gen.EstResult K × Nat :=
  let calls : Nat := 0
  let xs : List K := []
  let (count, mean, M2) := (rsInit (K := K))
  let xs := if getSamples then
      let xs : List K := []
      xs
    else
      xs
  let (calls, xs, count, mean, M2) := Gen.forCount (fun (i : Int) (st : Nat × List K × K × K × K) =>
      let calls : Nat := st.1
      let xs : List K := st.2.1
      let count : K := st.2.2.1
      let mean : K := st.2.2.2.1
      let M2 : K := st.2.2.2.2
      let x : K := f calls
      let calls : Nat := calls + 1
      let xs := if getSamples then
          let xs : List K := (xs ++ [x])
          xs
        else
          xs
      let (count, mean, M2) := rsUpdate count mean M2 x
      if decide (i > minSamples) then
        if (rsConverged abs sqrt inf count mean M2 rtol (tolScale * rtol)) then
          ((calls, xs, count, mean, M2), true)
        else
          if decide (i ≥ (maxSamples - (1 : Int))) then
            ((calls, xs, count, mean, M2), true)
          else
            ((calls, xs, count, mean, M2), false)
      else
        if decide (i ≥ (maxSamples - (1 : Int))) then
          ((calls, xs, count, mean, M2), true)
        else
          ((calls, xs, count, mean, M2), false)) fuel (0 : Int) (calls, xs, count, mean, M2)
  if getSamples then
    (.samples count mean M2 xs, calls)
  else
    if getMean then
      (.mean mean, calls)
    else
      (.stats count mean M2, calls)

def fmtNumberWithError {F MS ES M : Type} (sciSplit : F → Nat → MS × ES) (intOf : ES → Int) (dropDot : MS → M) (ltAbsDiv : F → F → Int → Bool) (scale : F → Int → Int → F) (x err : F) : List (Gen.Piece F M) :=
  let xExponent : Int := (max (intOf (sciSplit x 6).2) ((intOf (sciSplit err 6).2) + (1 : Int)))
  let hideExponent : Bool := ((decide (xExponent = (0 : Int)) || decide (xExponent = (-1 : Int))) || (decide (xExponent = (1 : Int)) && (ltAbsDiv err x (10 : Int))))
  if hideExponent then
    let suffix : List (Gen.Piece F M) := ([] : List (Gen.Piece F M))
    let (mantissa, exponent) := (sciSplit err 1)
    let (mantissa, exponent) := ((dropDot mantissa), (intOf exponent))
    ([.fixed x (max ((1 : Int) - exponent) (0 : Int)), .lit .lparen, .str mantissa, .lit .rparen] ++ suffix)
  else
    let head : Int := (min xExponent (308 : Int))
    let x : F := (scale x head (xExponent - head))
    let err : F := (scale err head (xExponent - head))
    let suffix : List (Gen.Piece F M) := ([.lit .e, .intP03 xExponent])
    let (mantissa, exponent) := (sciSplit err 1)
    let (mantissa, exponent) := ((dropDot mantissa), (intOf exponent))
    ([.fixed x (max ((1 : Int) - exponent) (0 : Int)), .lit .lparen, .str mantissa, .lit .rparen] ++ suffix)

end Gen.Default
