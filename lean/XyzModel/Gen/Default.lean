/-!
Last-good definitions of every extraction anchor (see harness/extract.py, DESIGN.md Appendix D).
`Gen/Extracted.lean` is regenerated from /repo's current source on every run; an anchor that can
no longer be located or translated is emitted there as `def x := Gen.Default.x` and reported as
`fallback` in the evidence.  These defaults describe the repaired tree (after the `fix:` commits).
-/
namespace Gen.Default

-- cropping.py : Crop.choose_batch_settings
def nbFromBs (n batchsize : Int) : Int := (n + batchsize - 1) / batchsize
def capNb (n numBatches : Int) : Int := min n numBatches
def bsOfNb (n numBatches : Int) : Int := n / numBatches
def remOfNb (n numBatches : Int) : Int := n % numBatches
def bothOk (n batchsize posTot : Int) : Bool := decide (n ≤ posTot) && decide (posTot < n + batchsize)

-- cropping.py : Sower.__call__
def sowerGetsExtra (batchCounter remainder : Int) : Bool := decide (batchCounter < remainder)
def sowerFlush (counter batchsize : Int) (extraBatch : Bool) : Bool :=
  decide (counter = batchsize + (if extraBatch then 1 else 0))

-- cropping.py : Crop.is_ready_to_reap
def isReady (numResults numSown : Int) : Bool := decide (numResults > 0) && decide (numResults = numSown)

-- cropping.py : calc_clean_up_default_res (clean_up is None -> not allow_incomplete)
def cleanUpDefault (cleanUpIsNone cleanUp allowIncomplete : Bool) : Bool :=
  if cleanUpIsNone then !allowIncomplete else cleanUp

-- cropping.py : reap_harvest / reap_samples pass clean_up=False down and delete only after the farmer's sync
def harvestDefersCleanup : Bool := true
def samplesDefersCleanup : Bool := true

end Gen.Default
