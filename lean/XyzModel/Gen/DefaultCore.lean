import XyzModel.Nest
import XyzModel.Gen.DefaultFn
/-!
# `combo_runner_core`, `_unflatten`, `_run_linear_*` (xyzpy/gen/combo_runner.py): translated loops

Part 1 (`Gen.Py`): the meaning the loop translator `harness/pyloop2lean.py` gives to the Python built-ins it maps
(TRUSTED: that these are what Python does on the modelled domain — tuples/lists are `List`, a `dict` is an association
list in first-insertion order in which a key occurs at most once, `itertools.product` is `Core.product`, `sorted` is a
stable merge sort, `random.shuffle` is the application of an arbitrary index list `σ`).

Part 2 (`Gen.Default`): last-good text of the anchors of `harness/anchors_core.py`; `Gen/Extracted.lean` holds the
translation of the *current* source.
-/
namespace Gen

/-- what `process_results` returns: `tuple(r)` when flat, the nested tuple otherwise -/
inductive CoreOut (β : Type) where
  | flat : List β → CoreOut β
  | nested : Core.Nest β → CoreOut β

namespace Py
variable {α γ κ ν σ : Type}

/-- `list(enumerate(l))` -/
def enumerate (l : List α) : List (Nat × α) := (List.range l.length).zip l

/-- `random.shuffle(l)`: position `j` of the shuffled list holds the element at original index `σ[j]` -/
def permute (σ : List Nat) (l : List α) : List α := σ.filterMap fun i => l[i]?

def leNat (a b : Nat) : Bool := decide (a ≤ b)

/-- `sorted(l, key=key)` for keys ordered by `le` (stable) -/
def sortedOn (le : κ → κ → Bool) (key : α → κ) (l : List α) : List α := l.mergeSort fun a b => le (key a) (key b)

/-- `d.get(k)` -/
def dictGet [BEq κ] (d : List (κ × ν)) (k : κ) : Option ν := (d.find? fun e => e.1 == k).map (·.2)

/-- `d[k] = v`: an existing key keeps its place -/
def dictSet [BEq κ] (d : List (κ × ν)) (k : κ) (v : ν) : List (κ × ν) :=
  if d.any (fun e => e.1 == k) then d.map (fun e => if e.1 == k then (e.1, v) else e) else d ++ [(k, v)]

/-- `del d[k]` (of a present key) / the removal done by `d.pop(k, ...)` -/
def dictErase [BEq κ] (d : List (κ × ν)) (k : κ) : List (κ × ν) := d.filter fun e => !(e.1 == k)

/-- `dict(l)` of a list of pairs: a repeated key keeps its first place and takes the last value -/
def dictOfList [BEq κ] (l : List (κ × ν)) : List (κ × ν) := l.foldl (fun d e => dictSet d e.1 e.2) []

/-- `d.update(e)` -/
def dictUpdate [BEq κ] (d e : List (κ × ν)) : List (κ × ν) := e.foldl (fun d x => dictSet d x.1 x.2) d

def dictMapVal (f : ν → γ) (d : List (κ × ν)) : List (κ × γ) := d.map fun e => (e.1, f e.2)

/-- `set(a).isdisjoint(b)` -/
def isDisjoint [BEq κ] (a b : List κ) : Bool := !(a.any fun x => b.contains x)

/-- `while xs: *xs, last = xs; s = body(xs, last, s)` — recursion over the reversed list -/
def whilePopLastAux (body : List α → α → σ → σ) : List α → σ → σ
  | [], s => s
  | last :: rinit, s => whilePopLastAux body rinit (body rinit.reverse last s)

def whilePopLast (xs : List α) (s : σ) (body : List α → α → σ → σ) : σ := whilePopLastAux body xs.reverse s

/-- `while xs: first, *xs = xs; s = body(xs, first, s)` -/
def whilePopFirst (xs : List α) (s : σ) (body : List α → α → σ → σ) : σ :=
  match xs with
  | [] => s
  | first :: rest => whilePopFirst rest (body rest first s) body

end Py
end Gen

namespace Gen.Default
open Gen

def coreEnum {V : Type} [BEq V] (caseArgs comboArgs : List String) (caseValues comboValues : List (List V)) (constants : List (String × V)) : Except PyErr (List String × List (List V) × List (List (String × V))) :=
  if (!(Py.isDisjoint caseArgs comboArgs)) then
    .error .valueError
  else
    let fnArgs : List String := (caseArgs ++ comboArgs)
    let locs : List (List V) := ([] : List (List V))
    let settings : List (List (String × V)) := ([] : List (List (String × V)))
    let (locs, settings) := (caseValues.foldl (fun ((locs, settings) : (List (List V)) × (List (List (String × V)))) caseParams =>
        let (locs, settings) := ((Core.product comboValues).foldl (fun ((locs, settings) : (List (List V)) × (List (List (String × V)))) comboParams =>
            let loc : List V := (caseParams ++ comboParams)
            let kws : List (String × V) := (Py.dictOfList (List.zip fnArgs loc))
            let kws : List (String × V) := (Py.dictUpdate kws constants)
            let locs : List (List V) := (locs ++ [loc])
            let settings : List (List (String × V)) := (settings ++ [kws])
            (locs, settings)) (locs, settings))
        (locs, settings)) (locs, settings))
    .ok (fnArgs, locs, settings)

def coreRunSeq {α β : Type} (f : α → β) (settings : List α) : Except PyErr (List β) :=
  let resultsLinear : List β := ([] : List β)
  let resultsLinear := (settings.foldl (fun (resultsLinear : (List β)) kws =>
      let resultsLinear : List β := (resultsLinear ++ [(f kws)])
      resultsLinear) resultsLinear)
  .ok (resultsLinear)

def coreRunExec {α β φ : Type} (submit : α → φ) (getResult : φ → β) (settings : List α) : Except PyErr (List β) :=
  let futures : List φ := (settings.map (fun kws => (submit kws)))
  let resultsLinear : List β := ([] : List β)
  let resultsLinear := ((List.zip settings futures).foldl (fun (resultsLinear : (List β)) (kws, future) =>
      let resultsLinear : List β := (resultsLinear ++ [(getResult future)])
      resultsLinear) resultsLinear)
  .ok (resultsLinear)

def coreRun {α β : Type} (leR : β → β → Bool) (σ : List Nat) (shuffle flat execGiven poolAsked : Bool) (runSeq runExec : List α → List β) (settings : List α) : Except PyErr (List α × List β) :=
  if shuffle then
    let enumSettings : List (Nat × α) := (Py.enumerate settings)
    let enumSettings : List (Nat × α) := (Py.permute σ enumSettings)
    (match (if enumSettings.isEmpty then none else some (List.unzip enumSettings)) with
    | none => .error .valueError
    | some u1 =>
      let enum : List Nat := u1.1
      let settings : List α := u1.2
      if execGiven then
        let resultsLinear : List β := (runExec settings)
        let enumResults : List (Nat × β) := (Py.sortedOn Py.leNat (fun x' => x'.1) (List.zip enum resultsLinear))
        (match (if enumResults.isEmpty then none else some (List.unzip enumResults)) with
        | none => .error .valueError
        | some u2 =>
          let resultsLinear : List β := u2.2
          .ok (settings, resultsLinear))
      else
        if poolAsked then
          let resultsLinear : List β := (runExec settings)
          let enumResults : List (Nat × β) := (Py.sortedOn Py.leNat (fun x' => x'.1) (List.zip enum resultsLinear))
          (match (if enumResults.isEmpty then none else some (List.unzip enumResults)) with
          | none => .error .valueError
          | some u3 =>
            let resultsLinear : List β := u3.2
            .ok (settings, resultsLinear))
        else
          let resultsLinear : List β := (runSeq settings)
          let enumResults : List (Nat × β) := (Py.sortedOn Py.leNat (fun x' => x'.1) (List.zip enum resultsLinear))
          (match (if enumResults.isEmpty then none else some (List.unzip enumResults)) with
          | none => .error .valueError
          | some u4 =>
            let resultsLinear : List β := u4.2
            .ok (settings, resultsLinear)))
  else
    if execGiven then
      let resultsLinear : List β := (runExec settings)
      .ok (settings, resultsLinear)
    else
      if poolAsked then
        let resultsLinear : List β := (runExec settings)
        .ok (settings, resultsLinear)
      else
        let resultsLinear : List β := (runSeq settings)
        .ok (settings, resultsLinear)

def unflatten {V β : Type} [BEq V] (store : List (List V × Core.Nest β)) (allComboValues : List (List V)) (allNan : Core.Nest β) : Except PyErr (Core.Nest β) :=
  let store := (Py.whilePopLast allComboValues store (fun allComboValues last' (store : (List ((List V) × (Core.Nest β)))) =>
      let store := ((Core.product allComboValues).foldl (fun (store : (List ((List V) × (Core.Nest β)))) p =>
          let (store3, items4) := (last'.foldl (fun (acc1 : (List ((List V) × (Core.Nest β))) × List (Core.Nest β)) v => let o2 := Py.dictGet acc1.1 (p ++ [v]); ((Py.dictErase acc1.1 (p ++ [v])), acc1.2 ++ [(o2.getD allNan)])) (store, []))
          let store : List ((List V) × (Core.Nest β)) := (Py.dictSet store3 p (Core.Nest.node items4))
          store) store)
      store))
  (match Py.dictGet store ([] : List V) with
  | none => .error .keyError
  | some x5 =>
    let store : List ((List V) × (Core.Nest β)) := (Py.dictErase store ([] : List V))
    .ok (x5))

def coreProcess {V β : Type} [BEq V] (pyNone : β) (nanLike : β → β) (flat casesGiven : Bool) (locs comboValues allComboValues : List (List V)) (r : List β) : Except PyErr (CoreOut β) :=
  if flat then
    .ok ((CoreOut.flat r))
  else
    let resultsMapped : List ((List V) × β) := (Py.dictOfList (List.zip locs r))
    if (!casesGiven) then
      (match unflatten (Py.dictMapVal Core.Nest.leaf resultsMapped) comboValues (Core.Nest.leaf pyNone) with
      | .error e => .error e
      | .ok u1 =>
        .ok ((CoreOut.nested u1)))
    else
      (match r[0]? with
      | none => .error .indexError
      | some x2 =>
        let allNan : β := (nanLike x2)
        (match unflatten (Py.dictMapVal Core.Nest.leaf resultsMapped) allComboValues (Core.Nest.leaf allNan) with
        | .error e => .error e
        | .ok u3 =>
          let results : Core.Nest β := u3
          .ok ((CoreOut.nested results))))

def coreGlue : Bool := true

end Gen.Default
