/-!
Last-good definitions of the function-level anchors (harness/anchors_fn.py, translated by harness/pyfn2lean.py).
Written by tools/update_default_fn.py from the repaired tree; `Gen/Extracted.lean` holds the translation of the
*current* source.
-/
namespace Gen

/-- the exception classes the translated bodies can raise -/
inductive PyErr where
  | valueError | typeError | xyzError | stopIteration | keyError | indexError | fileNotFound | other
deriving Repr, DecidableEq, Inhabited

/-- the effects a reap can attempt, as the skeletons record them -/
inductive Eff where
  | checkReady     -- check_ready_to_reap (raises when the crop is not ready)
  | allNan         -- reading a finished batch to build the all-missing stand-in
  | loadInfo       -- reading the crop's info file
  | gather         -- the runner driving the Reaper: result files are read
  | label          -- building the Dataset / DataFrame from the results
  | reaperExit     -- the Reaper's exit check ("Not all results reaped!")
  | setLast        -- recording the data as the farmer's last result
  | sync           -- Harvester.add_ds / Sampler.add_df: merge with the store and save
  | deleteAll      -- removing the crop directory
deriving Repr, DecidableEq, Inhabited

/-- run another skeleton, then continue on its trace unless it raised -/
def skBind (r : List Eff × Option PyErr) (k : List Eff → List Eff × Option PyErr) : List Eff × Option PyErr :=
  match r with
  | (t, some e) => (t, some e)
  | (t, none) => k t

@[simp] theorem skBind_err (t : List Eff) (e : PyErr) (k) : skBind (t, some e) k = (t, some e) := rfl
@[simp] theorem skBind_ok (t : List Eff) (k) : skBind (t, none) k = k t := rfl
theorem skBind_ite (c : Prop) [Decidable c] (a b : List Eff × Option PyErr) (k) :
    skBind (if c then a else b) k = if c then skBind a k else skBind b k := by
  split <;> rfl

end Gen

namespace Gen.Default

def chooseBatchSettings (combosTruthy : Bool) (combosProd : Int) (casesTruthy : Bool) (casesLen : Int) (batchsize numBatches remainder : Option Int) : Except PyErr (Option Int × Option Int × Option Int) :=
  let nCombos := if combosTruthy then
      let nCombos : Int := combosProd
      nCombos
    else
      let nCombos : Int := (1 : Int)
      nCombos
  let nCases := if casesTruthy then
      let nCases : Int := casesLen
      nCases
    else
      let nCases : Int := (1 : Int)
      nCases
  let n : Int := (nCases * nCombos)
  if (batchsize.isSome && numBatches.isSome) then
    (match batchsize with
    | none => .error .typeError
    | some batchsize_v1 =>
      (match numBatches with
      | none => .error .typeError
      | some numBatches_v2 =>
        let posTot : Int := (batchsize_v1 * numBatches_v2)
        if remainder.isSome then
          (match remainder with
          | none => .error .typeError
          | some remainder_v3 =>
            let posTot : Int := (posTot + remainder_v3)
            (match batchsize with
            | none => .error .typeError
            | some batchsize_v4 =>
              if (!(decide (n ≤ posTot) && decide (posTot < (n + batchsize_v4)))) then
                .error .valueError
              else
                .ok (batchsize, numBatches, remainder)))
        else
          (match batchsize with
          | none => .error .typeError
          | some batchsize_v5 =>
            if (!(decide (n ≤ posTot) && decide (posTot < (n + batchsize_v5)))) then
              .error .valueError
            else
              .ok (batchsize, numBatches, remainder))))
  else
    if numBatches.isNone then
      let batchsize := if batchsize.isNone then
          let batchsize := (some (1 : Int) : Option Int)
          batchsize
        else
          batchsize
      (match batchsize with
      | none => .error .typeError
      | some batchsize_v6 =>
        if (!true) then
          .error .typeError
        else
          (match batchsize with
          | none => .error .typeError
          | some batchsize_v7 =>
            if (decide (batchsize_v7 < (1 : Int))) then
              .error .valueError
            else
              (match batchsize with
              | none => .error .typeError
              | some batchsize_v8 =>
                let numBatches := (some ((n + batchsize_v8 - 1) / batchsize_v8) : Option Int)
                let remainder := (some (0 : Int) : Option Int)
                .ok (batchsize, numBatches, remainder))))
    else
      (match numBatches with
      | none => .error .typeError
      | some numBatches_v9 =>
        let numBatches := (some (min n numBatches_v9) : Option Int)
        (match numBatches with
        | none => .error .typeError
        | some numBatches_v10 =>
          if (!true) then
            .error .typeError
          else
            (match numBatches with
            | none => .error .typeError
            | some numBatches_v11 =>
              if (decide (numBatches_v11 < (1 : Int))) then
                .error .valueError
              else
                (match numBatches with
                | none => .error .typeError
                | some numBatches_v12 =>
                  let tmp13 := (n / numBatches_v12)
                  let tmp14 := (n % numBatches_v12)
                  let batchsize := (some tmp13 : Option Int)
                  let remainder := (some tmp14 : Option Int)
                  .ok (batchsize, numBatches, remainder)))))

def sowerInit {α : Type} : Except PyErr (List α × Int × Int) :=
  let batchCases := []
  let counter : Int := (0 : Int)
  let batchCounter : Int := (0 : Int)
  .ok (batchCases, counter, batchCounter)

def sowerCall {α : Type} (batchsize remainder : Int) (batchCases : List α) (counter batchCounter : Int) (files : List (Int × List α)) (kwargs : α) : Except PyErr (List α × Int × Int × List (Int × List α)) :=
  let batchCases := (batchCases ++ [kwargs])
  let counter : Int := (counter + (1 : Int))
  let extraBatch : Bool := (decide (batchCounter < remainder))
  if (decide (counter = (batchsize + (if extraBatch then (1 : Int) else 0)))) then
    let batchCounter : Int := (batchCounter + (1 : Int))
    let files := (files ++ [(batchCounter, batchCases)])
    let batchCases := []
    let counter : Int := (0 : Int)
    .ok (batchCases, counter, batchCounter, files)
  else
    .ok (batchCases, counter, batchCounter, files)

def sowerExit {α : Type} (batchCases : List α) (counter batchCounter : Int) (files : List (Int × List α)) : Except PyErr (List α × Int × Int × List (Int × List α)) :=
  if (!batchCases.isEmpty) then
    let batchCounter : Int := (batchCounter + (1 : Int))
    let files := (files ++ [(batchCounter, batchCases)])
    let batchCases := []
    let counter : Int := (0 : Int)
    .ok (batchCases, counter, batchCounter, files)
  else
    .ok (batchCases, counter, batchCounter, files)

def sowCombosHead (batchsizeArg numBatchesArg shuffleArg batchsize numBatches shuffle : Option Int) : Except PyErr (Option Int × Option Int × Option Int) :=
  let batchsize := if batchsizeArg.isSome then
      let batchsize : Option Int := batchsizeArg
      batchsize
    else
      batchsize
  let numBatches := if numBatchesArg.isSome then
      let numBatches : Option Int := numBatchesArg
      numBatches
    else
      numBatches
  let shuffle := if shuffleArg.isSome then
      let shuffle : Option Int := shuffleArg
      shuffle
    else
      shuffle
  .ok (batchsize, numBatches, shuffle)

def sowCasesHead (batchsizeArg numBatchesArg batchsize numBatches shuffle : Option Int) : Except PyErr (Option Int × Option Int × Option Int) :=
  let batchsize := if batchsizeArg.isSome then
      let batchsize : Option Int := batchsizeArg
      batchsize
    else
      batchsize
  let numBatches := if numBatchesArg.isSome then
      let numBatches : Option Int := numBatchesArg
      numBatches
    else
      numBatches
  .ok (batchsize, numBatches, shuffle)

def sowCombosRunnerShuffle (shuffleArg selfShuffle : Option Int) : Option Int := selfShuffle

def sowCombosShuffleDefault : Option Int := (some 0 : Option Int)

def sowCasesRunnerShuffle (selfShuffle : Option Int) : Option Int := selfShuffle

def calcCleanUp (cleanUp : Option Bool) (allowIncomplete : Bool) : Except PyErr (Option Bool × Bool) :=
  let cleanUp := if cleanUp.isNone then
      let cleanUp := (some (!allowIncomplete) : Option Bool)
      cleanUp
    else
      cleanUp
  let defaultResult := if allowIncomplete then
      let defaultResult : Bool := true
      defaultResult
    else
      let defaultResult : Bool := false
      defaultResult
  .ok ((cleanUp, defaultResult))

def checkReady (allowIncomplete wait isReady : Bool) : Except PyErr Unit :=
  if (!(allowIncomplete || wait || isReady)) then
    .error .xyzError
  else
    .ok ()

def reaperUseDefault (hasDefault wait isFile : Bool) : Bool := (hasDefault && (!wait) && (!isFile))

def reapCombosSk (fails : Eff → Bool) (wait : Bool) (cleanUp : Option Bool) (allowIncomplete : Bool) (trace : List Eff) : List Eff × Option PyErr :=
  let trace := trace ++ [.checkReady]
  if fails .checkReady then (trace, some .other) else
  (match calcCleanUp cleanUp allowIncomplete with
  | .error e => (trace, some e)
  | .ok (cleanUp, defaultResult) =>
    let trace := if defaultResult then trace ++ [.allNan] else trace
    if defaultResult && fails .allNan then (trace, some .other) else
    let trace := trace ++ [.loadInfo]
    if fails .loadInfo then (trace, some .other) else
    let settings := ()
    let trace := trace ++ [.gather]
    if fails .gather then (trace, some .other) else
    let results := ()
    let trace := trace ++ [.reaperExit]
    if fails .reaperExit then (trace, some .other) else
    if (cleanUp == some true) then
      let trace := trace ++ [.deleteAll]
      if fails .deleteAll then (trace, some .other) else
      (trace, none)
    else
      (trace, none))

def reapCombosToDsSk (fails : Eff → Bool) (wait : Bool) (cleanUp : Option Bool) (allowIncomplete toDf parse : Bool) (trace : List Eff) : List Eff × Option PyErr :=
  let trace := trace ++ [.checkReady]
  if fails .checkReady then (trace, some .other) else
  (match calcCleanUp cleanUp allowIncomplete with
  | .error e => (trace, some e)
  | .ok (cleanUp, defaultResult) =>
    let trace := if defaultResult then trace ++ [.allNan] else trace
    if defaultResult && fails .allNan then (trace, some .other) else
    let trace := trace ++ [.loadInfo]
    if fails .loadInfo then (trace, some .other) else
    let settings := ()
    let trace := trace ++ [.gather]
    if fails .gather then (trace, some .other) else
    let trace := trace ++ [.label]
    if fails .label then (trace, some .other) else
    let data := ()
    let trace := trace ++ [.reaperExit]
    if fails .reaperExit then (trace, some .other) else
    if (cleanUp == some true) then
      let trace := trace ++ [.deleteAll]
      if fails .deleteAll then (trace, some .other) else
      (trace, none)
    else
      (trace, none))

def reapRunnerSk (fails : Eff → Bool) (wait : Bool) (cleanUp : Option Bool) (allowIncomplete toDf : Bool) (trace : List Eff) : List Eff × Option PyErr :=
  let trace := trace ++ [.loadInfo]
  if fails .loadInfo then (trace, some .other) else
  let sowConstants := ()
  (skBind (reapCombosToDsSk fails wait cleanUp allowIncomplete toDf false trace) fun trace =>
    let data := ()
    let trace := trace ++ [.setLast]
    if fails .setLast then (trace, some .other) else
    (trace, none))

def reapHarvestSk (fails : Eff → Bool) (wait sync : Bool) (cleanUp : Option Bool) (allowIncomplete : Bool) (trace : List Eff) : List Eff × Option PyErr :=
  if false then
    (trace, some .valueError)
  else
    (skBind (reapRunnerSk fails wait (some false : Option Bool) allowIncomplete false trace) fun trace =>
      let ds := ()
      if sync then
        let trace := trace ++ [.sync]
        if fails .sync then (trace, some .other) else
        let cleanUp := if cleanUp.isNone then
            let cleanUp := (some (!allowIncomplete) : Option Bool)
            cleanUp
          else
            cleanUp
        if (cleanUp == some true) then
          let trace := trace ++ [.deleteAll]
          if fails .deleteAll then (trace, some .other) else
          (trace, none)
        else
          (trace, none)
      else
        let cleanUp := if cleanUp.isNone then
            let cleanUp := (some (!allowIncomplete) : Option Bool)
            cleanUp
          else
            cleanUp
        if (cleanUp == some true) then
          let trace := trace ++ [.deleteAll]
          if fails .deleteAll then (trace, some .other) else
          (trace, none)
        else
          (trace, none))

def reapSamplesSk (fails : Eff → Bool) (wait sync : Bool) (cleanUp : Option Bool) (allowIncomplete : Bool) (trace : List Eff) : List Eff × Option PyErr :=
  if false then
    (trace, some .valueError)
  else
    (skBind (reapRunnerSk fails wait (some false : Option Bool) allowIncomplete true trace) fun trace =>
      let df := ()
      let trace := trace ++ [.setLast]
      if fails .setLast then (trace, some .other) else
      if sync then
        let trace := trace ++ [.sync]
        if fails .sync then (trace, some .other) else
        let cleanUp := if cleanUp.isNone then
            let cleanUp := (some (!allowIncomplete) : Option Bool)
            cleanUp
          else
            cleanUp
        if (cleanUp == some true) then
          let trace := trace ++ [.deleteAll]
          if fails .deleteAll then (trace, some .other) else
          (trace, none)
        else
          (trace, none)
      else
        let cleanUp := if cleanUp.isNone then
            let cleanUp := (some (!allowIncomplete) : Option Bool)
            cleanUp
          else
            cleanUp
        if (cleanUp == some true) then
          let trace := trace ++ [.deleteAll]
          if fails .deleteAll then (trace, some .other) else
          (trace, none)
        else
          (trace, none))

def autoAddExt (anyExtIn : Bool) (fileName engineExt : String) : Except PyErr String :=
  if (!anyExtIn) then
    let extension : String := engineExt
    let fileName : String := (fileName ++ extension)
    .ok (fileName)
  else
    .ok (fileName)

end Gen.Default
