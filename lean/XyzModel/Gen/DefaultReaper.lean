import XyzModel.Gen.DefaultFn
/-!
The Reaper translated from the source (harness/anchors_reaper.py): what Python's built-ins do (trusted, `namespace Gen`)
and the last-good translated definitions (`namespace Gen.Default`, written by tools/update_default_reaper.py;
`Gen/Extracted.lean` holds the translation of the *current* source).
-/
namespace Gen

/-- `range(a, b)` -/
def pyRange (a b : Int) : List Int := (List.range (b - a).toNat).map (fun (k : Nat) => a + (k : Int))

/-- `next(it)` for `it = itertools.chain.from_iterable(map(load, files))` in the state (`buf` = what is left of the
inner sequence being walked, `files` = the items `map` has not been asked for yet): the value or the exception, and the
state afterwards.  When `load f` raises, the exception passes through `map` and CPython's `chain` drops its source: the
chain is exhausted from then on (`tuple(it) == ()`; checked on the interpreter in use). -/
def chainNext {β : Type} (load : Int → Except PyErr (List β)) :
    List β → List Int → Except PyErr β × (List β × List Int)
  | x :: buf, files => (.ok x, (buf, files))
  | [], [] => (.error .stopIteration, ([], []))
  | [], f :: files =>
    match load f with
    | .error e => (.error e, ([], []))
    | .ok rs => chainNext load rs files

/-- everything the remaining files contribute, loaded in order; the first exception ends it -/
def chainRest {β : Type} (load : Int → Except PyErr (List β)) : List Int → Except PyErr (List β)
  | [] => .ok []
  | f :: files =>
    match load f with
    | .error e => .error e
    | .ok rs =>
      match chainRest load files with
      | .error e => .error e
      | .ok more => .ok (rs ++ more)

/-- `tuple(it)` for the chain in state `(buf, files)` -/
def chainTuple {β : Type} (load : Int → Except PyErr (List β)) (buf : List β) (files : List Int) : Except PyErr (List β) :=
  match chainRest load files with
  | .error e => .error e
  | .ok more => .ok (buf ++ more)

/-- `while not p(): time.sleep(..)`: the number of the first poll (of `fuel`) at which `p` holds, `none` if the loop is
still sleeping when the observation ends -/
def pollUntil (fuel : Nat) (p : Nat → Bool) : Option Nat := (List.range fuel).find? p

/-- the observation ended inside a polling loop (not an exception of the library: the call has not returned) -/
def stillWaiting {α : Type} : Except PyErr α := .error .other

end Gen

namespace Gen.Default

def reaperFiles (numBatches : Int) : List Int := ((pyRange (0 : Int) numBatches).map (fun i => (i + (1 : Int))))

def reaperLoad {β γ : Type} (hasDefault wait : Bool) (defaultResult : β) (batchsize : Int) (isFile : Int → Bool) (readResult : Int → Except PyErr (Option (List β))) (readBatch : Int → Except PyErr (List γ)) (x : Int) : Except PyErr (List β) :=
  let useDefault : Bool := (hasDefault && (!wait) && (!(isFile x)))
  if useDefault then
    let i : Int := x
    (match readBatch i with
    | .error e => .error e
    | .ok tmp1 =>
      let size : Int := (tmp1.length : Int)
      let res' := (some (List.replicate (size).toNat defaultResult) : Option (List β))
      if res'.isNone then
        .error .valueError
      else
        (match res' with
        | none => .error .typeError
        | some res_v2 =>
          if (decide ((res_v2.length : Int) = (0 : Int))) then
            .error .valueError
          else
            (match res' with
            | none => .error .typeError
            | some res_v3 =>
              .ok res_v3)))
  else
    (match readResult x with
    | .error e => .error e
    | .ok tmp4 =>
      let res' := tmp4
      if res'.isNone then
        .error .valueError
      else
        (match res' with
        | none => .error .typeError
        | some res_v5 =>
          if (decide ((res_v5.length : Int) = (0 : Int))) then
            .error .valueError
          else
            (match res' with
            | none => .error .typeError
            | some res_v6 =>
              .ok res_v6)))

def reaperWaitToLoad {β γ : Type} (hasDefault wait : Bool) (defaultResult : β) (batchsize : Int) (isFile : Int → Bool) (readResult : Int → Except PyErr (Option (List β))) (readBatch : Int → Except PyErr (List γ)) (fuel : Nat) (existsAt : Nat → Int → Bool) (x : Int) : Except PyErr (List β) :=
  (match pollUntil fuel (fun t => !(!(existsAt t x))) with
  | none => stillWaiting
  | some _ =>
    if (isFile x) then
      reaperLoad hasDefault wait defaultResult batchsize isFile readResult readBatch x
    else
      .error .valueError)

def reaperLoadFn {β γ : Type} (hasDefault wait : Bool) (defaultResult : β) (batchsize : Int) (isFile : Int → Bool) (readResult : Int → Except PyErr (Option (List β))) (readBatch : Int → Except PyErr (List γ)) (fuel : Nat) (existsAt : Nat → Int → Bool) (x : Int) : Except PyErr (List β) := (if wait then (reaperWaitToLoad hasDefault wait defaultResult batchsize isFile readResult readBatch fuel existsAt x) else (reaperLoad hasDefault wait defaultResult batchsize isFile readResult readBatch x))

def reaperCall {β : Type} (load : Int → Except PyErr (List β)) (buf : List β) (files : List Int) : Except PyErr β × (List β × List Int) := chainNext load buf files

def reaperExit {β : Type} (rest : List β) : Except PyErr Unit :=
  if (!rest.isEmpty) then
    .error .xyzError
  else
    .ok ()

def reapCombosReaper (wait : Bool) (cleanUp : Option Bool) (allowIncomplete : Bool) (infoNb : Int) : Except PyErr (Int × Bool × Bool) :=
  (match calcCleanUp cleanUp allowIncomplete with
  | .error e => .error e
  | .ok (_, defaultResult) => .ok (infoNb, wait, defaultResult))

end Gen.Default
