/-!
Last-good definitions of the input-parser anchors (harness/anchors_parse.py; used by VarDims.lean / ParseCases.lean).
-/
namespace Gen.Default

-- gen/prepare.py : parse_var_dims — `isinstance(x, str) or (len(x) == 0) or (x[0] not in var_names)`
def varDimsElemCorr (isStr isEmpty firstInNames : Bool) : Bool := (isStr || isEmpty || (!firstInNames))

-- gen/prepare.py : parse_var_dims — the element test is quantified with `any`
def varDimsQuantAny : Bool := true

-- gen/prepare.py : parse_var_dims — `if len(var_names) != 1: raise ValueError` for a single string
def varDimsStrRefused (n : Int) : Bool := (decide (n ≠ (1 : Int)))

-- gen/prepare.py : parse_cases — `isinstance(cases[0], str) or not isiterable(cases[0])`
def casesWrapBare (firstIsStr firstIsIterable : Bool) : Bool := (firstIsStr || (!firstIsIterable))

end Gen.Default
