/-!
Last-good definitions of the plotting anchors (harness/anchors_plot.py; used by PlotPrep.lean / Infini.lean).
-/
namespace Gen.Default

-- plot/core.py : Plotter.prepare_xy_vals_lineplot.gen_xy — `not_null = isfinite(x); not_null &= isfinite(y)`
def maskIsBothFinite (xFinite yFinite : Bool) : Bool := xFinite && yFinite

-- plot/core.py : Plotter.prepare_xy_vals_lineplot.gen_xy — the keys `k` of the prepared arrays `data[k]` whose finiteness
-- enters `not_null`
def maskArrays : List String := ["x", "y"]

-- plot/core.py : Plotter.calc_color_norm — `if self.vmin is None: self.vmin = self._zmin` (same for vmax): is the limit
-- passed by the caller replaced by the data limit?  (isNone: it is None; isZero: it is a number equal to 0)
def vminDefaulted (isNone isZero : Bool) : Bool := isNone
def vmaxDefaulted (isNone isZero : Bool) : Bool := isNone

-- plot/core.py : Plotter.calc_use_legend_or_colorbar.auto_legend — `1 < len(self._z_vals) <= 10`
def autoLegend (n : Int) : Bool := decide (1 < n) && decide (n ≤ 10)

-- plot/infiniplot.py : default style cycles (source text of each entry)
def markersDefault : List String :=
  ["'o'", "'X'", "'v'", "'s'", "'P'", "'D'", "'^'", "'h'", "'*'", "'p'", "'<'", "'d'", "'8'", "'>'", "'H'"]
def linestylesDefault : List String :=
  ["'solid'", "(0.0, (3, 1))", "(0.5, (1, 1))", "(1.0, (3, 1, 1, 1))", "(1.5, (3, 1, 3, 1, 1, 1))", "(2.0, (3, 1, 1, 1, 1, 1))"]

-- plot/infiniplot.py : Infiniplotter.plot_lines — `mask = y.notnull(); mask &= x.notnull()` (x a data variable)
def infMaskBothNotNull (yNotNull xNotNull : Bool) : Bool := yNotNull && xNotNull

end Gen.Default
