import XyzModel.Gen.DefaultFn
/-!
infiniplot's order-and-index logic (harness/anchors_infini.py; xyzpy/plot/infiniplot.py) — C18.

Vocabulary of the translated definitions and their last-good text (`Gen.Default.*`):

* `MapOps S`: the operations `Infiniplotter.init_mapped_dim` applies to the plotter (any state type `S`); the
  translated body `Gen.infInitMapped` says in which order and under which conditions.
* `LineIdx`, `locGet`, `pyProduct`: what one iteration of the loop of `plot_lines` reads from `loc`.
* `HistCall`: what the histogram re-binning hands to `np.histogram` and keeps of its result.
-/
namespace Gen

/-- which value the local `dim` holds: the attribute as given, or the name `", ".join(dim)` of the fused dimension -/
inductive DimRef where
  | raw | fused
deriving Repr, DecidableEq

structure MapOps (S : Type) where
  isFused : Bool                      -- `isinstance(dim, tuple)` (a list is made a tuple first)
  dimIsNone : DimRef → Bool           -- `dim is None`
  hasDim : S → DimRef → Bool          -- `dim in self.ds.dims`
  hasParts : S → Bool                 -- `all(x in self.ds.dims for x in dim)`
  orderGiven : Bool                   -- `order is not None`
  heatInvalid : Bool                  -- `self.is_heatmap and name in _HEATMAP_INVALID_KWARGS`
  customGiven : Bool                  -- `custom_values is not None`
  defaultGiven : Bool                 -- `default_values is not None`
  defaultCallable : Bool              -- `callable(default_values)`
  stack : S → S                       -- `self.ds = self.ds.stack({new_dim: dim})`
  sel : S → DimRef → S                -- `self.ds = self.ds.sel({dim: list(order)})`
  markMapped : S → DimRef → S         -- `self.mapped.add(dim)`
  dropna : S → DimRef → S             -- `self.ds = self.ds.dropna(dim, how="all")`
  recordDomain : S → DimRef → S       -- `self.domains[name] = self.ds[dim].values`
  sizeFromDomain : S → S              -- `self.sizes[name] = len(self.domains[name])`
  sizeOne : S → S                     -- `self.sizes[name] = 1`
  evalDefaults : S → S                -- `default_values = default_values(self.sizes[name])`
  valuesDefault : S → S               -- `self.values[name] = ` the first `self.sizes[name]` default values
  valuesCustom : S → S                -- `self.values[name] = custom_values`
  setConstant : S → DimRef → S        -- `self.base_style[name] = dim`
  setAttr : S → Option DimRef → S     -- `setattr(self, name, …)`

/-- what one iteration of the loop of `plot_lines` reads from `loc` -/
structure LineIdx where
  /-- `ax = self.axs[i, j]` -/
  i : Nat
  j : Nat
  /-- (property, index) of every look-up in `self.values[property]` / the colour sequence, in source order -/
  vals : List (String × Nat)
  /-- (property, index) of every look-up in `self.domains[property]` -/
  doms : List (String × Nat)
  /-- the argument of `self.ds.isel` -/
  isel : List (String × Nat)
deriving Repr, DecidableEq

/-- `loc[d]` for `loc = dict(zip(names, indices))`, `d` an attribute that may be None (total: 0 when absent) -/
def locGet (loc : List (String × Nat)) (d : Option String) : Nat :=
  match d with
  | some n => ((loc.find? (·.1 == n)).map (·.2)).getD 0
  | none => 0

/-- `itertools.product(*ranges)`: the last range varies fastest -/
def pyProduct {α : Type} : List (List α) → List (List α)
  | [] => [[]]
  | r :: rest => r.flatMap fun i => (pyProduct rest).map (i :: ·)

inductive HistData where
  | all | nonNan
deriving Repr, DecidableEq

inductive HistDensity where
  | flag | notFlag | const (b : Bool)
deriving Repr, DecidableEq

inductive HistKept where
  | counts | edges
deriving Repr, DecidableEq

/-- `np.histogram(<data>, bins=self.bins, density=<density>)[<kept>]` applied to the stacked unmapped dimensions -/
structure HistCall where
  data : HistData
  density : HistDensity
  kept : HistKept
deriving Repr, DecidableEq

/-- the default style values handed to `init_mapped_dim`: none, `itertools.cycle(<table>)`,
`lambda N: np.linspace(a, b, N)`, or anything else (colour maps, generated colours) -/
inductive StyleDefault where
  | none | cycle (table : String) | linspace (a b : Nat) | other
deriving Repr, DecidableEq

end Gen

-- ==== last-good text (tools/update_default_infini.py) ====
namespace Gen.Default
open Gen

def infInitMapped {S : Type} (o : MapOps S) (st : S) : Except PyErr S := 
  if o.isFused then
    if (o.hasDim st .fused) then
      if ((!(o.dimIsNone .fused)) && (!(o.hasDim st .fused))) then
        let st := o.setConstant st .fused
        let st := o.sizeOne st
        let st := o.setAttr st none
        .ok st
      else
        if (!(o.dimIsNone .fused)) then
          if o.heatInvalid then
            .error .valueError
          else
            let st := if o.orderGiven then
                let st := o.sel st .fused
                st
              else
                st
            let st := o.markMapped st .fused
            let st := o.dropna st .fused
            let st := o.recordDomain st .fused
            let st := o.sizeFromDomain st
            let st := if (!o.customGiven) then
                let st := if o.defaultGiven then
                    let st := if o.defaultCallable then
                        let st := o.evalDefaults st
                        st
                      else
                        st
                    let st := o.valuesDefault st
                    st
                  else
                    st
                st
              else
                let st := o.valuesCustom st
                st
            let st := o.setAttr st (some .fused)
            .ok st
        else
          let st := o.sizeOne st
          let st := o.setAttr st (some .fused)
          .ok st
    else
      if (o.hasParts st) then
        let st := o.stack st
        if ((!(o.dimIsNone .fused)) && (!(o.hasDim st .fused))) then
          let st := o.setConstant st .fused
          let st := o.sizeOne st
          let st := o.setAttr st none
          .ok st
        else
          if (!(o.dimIsNone .fused)) then
            if o.heatInvalid then
              .error .valueError
            else
              let st := if o.orderGiven then
                  let st := o.sel st .fused
                  st
                else
                  st
              let st := o.markMapped st .fused
              let st := o.dropna st .fused
              let st := o.recordDomain st .fused
              let st := o.sizeFromDomain st
              let st := if (!o.customGiven) then
                  let st := if o.defaultGiven then
                      let st := if o.defaultCallable then
                          let st := o.evalDefaults st
                          st
                        else
                          st
                      let st := o.valuesDefault st
                      st
                    else
                      st
                  st
                else
                  let st := o.valuesCustom st
                  st
              let st := o.setAttr st (some .fused)
              .ok st
          else
            let st := o.sizeOne st
            let st := o.setAttr st (some .fused)
            .ok st
      else
        if ((!(o.dimIsNone .raw)) && (!(o.hasDim st .raw))) then
          let st := o.setConstant st .raw
          let st := o.sizeOne st
          let st := o.setAttr st none
          .ok st
        else
          if (!(o.dimIsNone .raw)) then
            if o.heatInvalid then
              .error .valueError
            else
              let st := if o.orderGiven then
                  let st := o.sel st .raw
                  st
                else
                  st
              let st := o.markMapped st .raw
              let st := o.dropna st .raw
              let st := o.recordDomain st .raw
              let st := o.sizeFromDomain st
              let st := if (!o.customGiven) then
                  let st := if o.defaultGiven then
                      let st := if o.defaultCallable then
                          let st := o.evalDefaults st
                          st
                        else
                          st
                      let st := o.valuesDefault st
                      st
                    else
                      st
                  st
                else
                  let st := o.valuesCustom st
                  st
              let st := o.setAttr st (some .raw)
              .ok st
          else
            let st := o.sizeOne st
            let st := o.setAttr st (some .raw)
            .ok st
  else
    if ((!(o.dimIsNone .raw)) && (!(o.hasDim st .raw))) then
      let st := o.setConstant st .raw
      let st := o.sizeOne st
      let st := o.setAttr st none
      .ok st
    else
      if (!(o.dimIsNone .raw)) then
        if o.heatInvalid then
          .error .valueError
        else
          let st := if o.orderGiven then
              let st := o.sel st .raw
              st
            else
              st
          let st := o.markMapped st .raw
          let st := o.dropna st .raw
          let st := o.recordDomain st .raw
          let st := o.sizeFromDomain st
          let st := if (!o.customGiven) then
              let st := if o.defaultGiven then
                  let st := if o.defaultCallable then
                      let st := o.evalDefaults st
                      st
                    else
                      st
                  let st := o.valuesDefault st
                  st
                else
                  st
              st
            else
              let st := o.valuesCustom st
              st
          let st := o.setAttr st (some .raw)
          .ok st
      else
        let st := o.sizeOne st
        let st := o.setAttr st (some .raw)
        .ok st

def infIter (ranges : List (List Nat)) : List (List Nat) := pyProduct ranges

def infRanges (sizes : List Nat) : List (List Nat) := sizes.map List.range

def infLineIdx (remDims : List String) (attr : String → Option String) (iloc : List Nat) : LineIdx := 
  { i := (if (attr "row").isSome then (locGet (remDims.zip iloc) (attr "row")) else 0),
    j := (if (attr "col").isSome then (locGet (remDims.zip iloc) (attr "col")) else 0),
    vals := ((if (attr "color").isSome && (attr "hue").isSome then [("hue", (locGet (remDims.zip iloc) (attr "hue")))] else []) ++ (if (attr "color").isSome then [("color", (locGet (remDims.zip iloc) (attr "color")))] else []) ++ (if (attr "marker").isSome then [("marker", (locGet (remDims.zip iloc) (attr "marker")))] else []) ++ (if (attr "markersize").isSome then [("markersize", (locGet (remDims.zip iloc) (attr "markersize")))] else []) ++ (if (attr "markeredgecolor").isSome then [("markeredgecolor", (locGet (remDims.zip iloc) (attr "markeredgecolor")))] else []) ++ (if (attr "linewidth").isSome then [("linewidth", (locGet (remDims.zip iloc) (attr "linewidth")))] else []) ++ (if (attr "linestyle").isSome then [("linestyle", (locGet (remDims.zip iloc) (attr "linestyle")))] else [])),
    doms := ((if (attr "color").isSome && (attr "hue").isSome then [("hue", (locGet (remDims.zip iloc) (attr "hue")))] else []) ++ (if (attr "color").isSome then [("color", (locGet (remDims.zip iloc) (attr "color")))] else []) ++ (if (attr "marker").isSome then [("marker", (locGet (remDims.zip iloc) (attr "marker")))] else []) ++ (if (attr "markersize").isSome then [("markersize", (locGet (remDims.zip iloc) (attr "markersize")))] else []) ++ (if (attr "markeredgecolor").isSome then [("markeredgecolor", (locGet (remDims.zip iloc) (attr "markeredgecolor")))] else []) ++ (if (attr "linewidth").isSome then [("linewidth", (locGet (remDims.zip iloc) (attr "linewidth")))] else []) ++ (if (attr "linestyle").isSome then [("linestyle", (locGet (remDims.zip iloc) (attr "linestyle")))] else [])),
    isel := (remDims.zip iloc) }

def infHistCall : HistCall := { data := .all, density := .flag, kept := .counts }

def infInitCalls : List (String × StyleDefault) := [("hue", .other), ("color", .other), ("marker", .cycle "_MARKERS_DEFAULT"), ("markersize", .linspace 3 9), ("markeredgecolor", .other), ("linestyle", .cycle "_LINESTYLES_DEFAULT"), ("linewidth", .linspace 1 3), ("col", .none), ("row", .none)]

end Gen.Default
