import XyzModel.Gen.DefaultSt
/-!
Save / load / merge (harness/anchors_storeio.py): vocabulary of the translated `save_merge_ds`, `Harvester.delete_ds /
full_ds / expand_dims / drop_sel / harvest_combos / harvest_cases` (state skeletons over `StoreOps` + `StoreExt`) and of
the translated bodies of `save_ds`, `load_ds`, `save_df`, `load_df` (functions over abstract writers / readers), and
the last-good text of the generated functions (`Gen.Default.*`).
-/
namespace Gen

/-- operations of the storage code beyond `StoreOps` -/
structure StoreExt (S D G E : Type) where
  engineLit : String → G                       -- the engine named by a string literal (`'h5netcdf'`)
  emptyData : D                                -- `xr.Dataset()`
  noneAttr : E                                 -- AttributeError: a method of `None` (no full dataset)
  copyBak : S → NameRef G → S × Option E       -- `shutil.copy(name, name + '.BAK-<time>')`

/-! ### `save_ds` -/

/-- what the attribute loop of `save_ds` asks of an attribute value -/
structure AttrOps (A : Type) where
  isNone : A → Bool      -- `val is None`
  isTrue : A → Bool      -- `val is True`   (the object `True` itself)
  isFalse : A → Bool     -- `val is False`
  eqNone : A → Bool      -- `val == None`
  eqTrue : A → Bool      -- `val == True`   (also `1`, `1.0`)
  eqFalse : A → Bool     -- `val == False`  (also `0`, `0.0`)
  str : String → A       -- a string constant

/-- what `save_ds` looks at in one variable -/
structure VarEnc where
  encDtype : Option String := none      -- `v.encoding.get('dtype')`, by canonical dtype name
  dtype : String := "float64"           -- `v.dtype`
  hasScale : Bool := false              -- `'scale_factor' in v.encoding`
  hasOffset : Bool := false             -- `'add_offset' in v.encoding`
  isComplex : Bool := false             -- `np.iscomplexobj(v.values)`
deriving Repr, DecidableEq

/-- `np.dtype(x)` by canonical name (`np.dtype(None)` is float64) -/
def npDtype : Option String → String
  | none => "float64"
  | some s => s

inductive Writer where
  | joblibDump                                              -- `joblib.dump(ds, path, **kwargs)`
  | toZarr                                                  -- `ds.to_zarr(path, **kwargs)`
  | toNetcdf (engine : String) (invalidNetcdf : Option Bool)  -- `ds.to_netcdf(path, engine=engine, **kwargs)`
deriving Repr, DecidableEq

/-- the one writer call `save_ds` ends with -/
structure SaveCall (A : Type) where
  writer : Writer
  path : String
  attrs : List (String × A)       -- `ds.attrs` when the writer is called
  dropDtype : List Bool           -- per variable: was `encoding['dtype']` deleted

/-! ### `load_ds` -/

inductive Reader where
  | joblibLoad                                              -- `joblib.load(path, **kwargs)`
  | openZarr                                                -- `xr.open_zarr(path, chunks=chunks, **kwargs)`
  | openDataset (engine : String) (retryWith : Option String)   -- `xr.open_dataset(path, engine=…)`, retried once with
                                                                -- another engine on the AttributeError of old files
deriving Repr, DecidableEq

structure ReadCall where
  reader : Reader
  path : String
  chunksHandedOn : Bool      -- `chunks=chunks` given to the reader
  loadAndClose : Bool        -- `ds.load(); ds.close()` before returning
deriving Repr, DecidableEq

inductive LoadOutcome where
  | empty                    -- `xr.Dataset()`
  | read (c : ReadCall)
  | raise (e : PyErr)
deriving Repr, DecidableEq

/-! ### `save_df` / `load_df` -/

structure DfCall where
  method : String            -- `to_<engine>` of the frame / `read_<engine>` of pandas
  keyGiven : Bool            -- `key=key` reaches the call
  indexFalse : Bool          -- `index=False` (unless given) reaches the call
  kwargsHandedOn : Bool      -- `**kwargs` is handed to the call
deriving Repr, DecidableEq

end Gen

namespace Gen.Default
open Gen

def saveMergeDs {S D G E : Type} (o : StoreOps S D G E) (x : StoreExt S D G E) (overwrite : Option Bool) (ds : D) (kwEngine : Option G) (st : S) : S × Option E :=
  let engine := (kwEngine.getD (x.engineLit "h5netcdf"))
  if (o.pathExists st (.ext (some engine))) then
    (match o.loadData st .bare (some engine) with
    | .error e => (st, some e)
    | .ok oldDs =>
      if (overwrite == some true) then
        (match o.merge MergeKind.newFirst oldDs ds with
        | .error e => (st, some e)
        | .ok newDs =>
          (stBind (o.saveData st newDs .bare (some (kwEngine.getD (x.engineLit "h5netcdf")))) fun st =>
            let newDs := (o.afterSave (some (kwEngine.getD (x.engineLit "h5netcdf"))) newDs)
            (st, none)))
      else
        if (overwrite == some false) then
          (match o.merge MergeKind.oldFirst oldDs ds with
          | .error e => (st, some e)
          | .ok newDs =>
            (stBind (o.saveData st newDs .bare (some (kwEngine.getD (x.engineLit "h5netcdf")))) fun st =>
              let newDs := (o.afterSave (some (kwEngine.getD (x.engineLit "h5netcdf"))) newDs)
              (st, none)))
        else
          (match o.merge MergeKind.noConflicts oldDs ds with
          | .error e => (st, some e)
          | .ok newDs =>
            (stBind (o.saveData st newDs .bare (some (kwEngine.getD (x.engineLit "h5netcdf")))) fun st =>
              let newDs := (o.afterSave (some (kwEngine.getD (x.engineLit "h5netcdf"))) newDs)
              (st, none))))
  else
    let oldDs := x.emptyData
    if (overwrite == some true) then
      (match o.merge MergeKind.newFirst oldDs ds with
      | .error e => (st, some e)
      | .ok newDs =>
        (stBind (o.saveData st newDs .bare (some (kwEngine.getD (x.engineLit "h5netcdf")))) fun st =>
          let newDs := (o.afterSave (some (kwEngine.getD (x.engineLit "h5netcdf"))) newDs)
          (st, none)))
    else
      if (overwrite == some false) then
        (match o.merge MergeKind.oldFirst oldDs ds with
        | .error e => (st, some e)
        | .ok newDs =>
          (stBind (o.saveData st newDs .bare (some (kwEngine.getD (x.engineLit "h5netcdf")))) fun st =>
            let newDs := (o.afterSave (some (kwEngine.getD (x.engineLit "h5netcdf"))) newDs)
            (st, none)))
      else
        (match o.merge MergeKind.noConflicts oldDs ds with
        | .error e => (st, some e)
        | .ok newDs =>
          (stBind (o.saveData st newDs .bare (some (kwEngine.getD (x.engineLit "h5netcdf")))) fun st =>
            let newDs := (o.afterSave (some (kwEngine.getD (x.engineLit "h5netcdf"))) newDs)
            (st, none)))

def hvDeleteDs {S D G E : Type} (o : StoreOps S D G E) (x : StoreExt S D G E) (backup : Bool) (st : S) : S × Option E :=
  (stBind ((if backup then x.copyBak st (.ext (some (o.selfEngine st))) else (st, none))) fun st =>
    (stBind (if (o.isZarr (some (o.selfEngine st))) then
        (stBind (o.rmtree st (.ext (some (o.selfEngine st)))) fun st =>
          (st, none))
      else
        (stBind (o.remove st (.ext (some (o.selfEngine st)))) fun st =>
          (st, none))) fun st =>
      (st, none)))

def hvFullDs {S D G E : Type} (o : StoreOps S D G E) (x : StoreExt S D G E) (st : S) : S × Option E :=
  (stBind (if (o.memIsNone st) then
      (stBind (hvLoadFull o none st) fun st =>
        (st, none))
    else
      (st, none)) fun st =>
    (st, none))

def hvExpandDims {S D G E : Type} (o : StoreOps S D G E) (x : StoreExt S D G E) (dataNameNone : Bool) (xf : D → Except E D) (engine : Option G) (st : S) : S × Option E :=
  (stBind (hvFullDs o x st) fun st =>
    (match (if o.memIsNone st then Except.error x.noneAttr else xf (o.mem st)) with
    | .error e => (st, some e)
    | .ok newDs =>
      (stBind (if (!dataNameNone) then
          (stBind (hvSaveFull o dataNameNone true newDs engine st) fun st =>
            (st, none))
        else
          let st := o.setMem st newDs
          (st, none)) fun st =>
        (st, none))))

def hvDropSel {S D G E : Type} (o : StoreOps S D G E) (x : StoreExt S D G E) (dataNameNone : Bool) (xf : D → Except E D) (engine : Option G) (st : S) : S × Option E :=
  (stBind (hvFullDs o x st) fun st =>
    (match (if o.memIsNone st then Except.error x.noneAttr else xf (o.mem st)) with
    | .error e => (st, some e)
    | .ok newDs =>
      (stBind (if (!dataNameNone) then
          (stBind (hvSaveFull o dataNameNone true newDs engine st) fun st =>
            (st, none))
        else
          let st := o.setMem st newDs
          (st, none)) fun st =>
        (st, none))))

def hvHarvestCombos {S D G E : Type} (o : StoreOps S D G E) (x : StoreExt S D G E) (dataNameNone usesEllipsis sync : Bool) (overwrite : Option Bool) (run : Except E D) (engine : Option G) (st : S) : S × Option E :=
  (stBind ((if usesEllipsis then hvFullDs o x st else (st, none))) fun st =>
    (match run with
    | .error e => (st, some e)
    | .ok ds =>
      (stBind (hvAddDs o dataNameNone sync overwrite ds engine st) fun st =>
        (st, none))))

def hvHarvestCases {S D G E : Type} (o : StoreOps S D G E) (x : StoreExt S D G E) (dataNameNone sync : Bool) (overwrite : Option Bool) (run : Except E D) (engine : Option G) (st : S) : S × Option E :=
  (match run with
  | .error e => (st, some e)
  | .ok ds =>
    (stBind (hvAddDs o dataNameNone sync overwrite ds engine st) fun st =>
      (st, none)))

def hvHarvestCombosChunks : Bool := true

def hvHarvestCasesChunks : Bool := true

def saveDs {A : Type} (a : AttrOps A) (ext : String → String → String) (fileName engine : String) (attrs : List (String × A)) (vars : List VarEnc) (kwInvalid : Option Bool) : Option (SaveCall A) :=
  let fileName : String := (ext fileName engine)
  if ((!(decide (engine = "joblib") || decide (engine = "zarr")))) then
    let attrs := (attrs.map fun kv =>
      (kv.1,
        let val := kv.2
        let cur := val
        let cur := if (a.isNone val) then
            let cur := a.str "None"
            cur
          else
            cur
        let cur := if (a.isTrue val) then
            let cur := a.str "True"
            cur
          else
            cur
        let cur := if (a.isFalse val) then
            let cur := a.str "False"
            cur
          else
            cur
        cur))
    if (decide (engine = "joblib")) then
      let call := (some ({ writer := .joblibDump, path := fileName, attrs := attrs, dropDtype := (vars.map fun _ => false) } : SaveCall A))
      call
    else
      if (decide (engine = "zarr")) then
        let call := (some ({ writer := .toZarr, path := fileName, attrs := attrs, dropDtype := (vars.map fun _ => false) } : SaveCall A))
        call
      else
        let dropDtype := (vars.map fun v => (v.encDtype.isSome && (npDtype v.encDtype != v.dtype) && (!v.hasScale) && (!v.hasOffset)))
        let invalid := (if vars.any (·.isComplex) then (some (kwInvalid.getD true)) else kwInvalid)
        let call := (some ({ writer := (.toNetcdf engine invalid), path := fileName, attrs := attrs, dropDtype := dropDtype } : SaveCall A))
        call
  else
    if (decide (engine = "joblib")) then
      let call := (some ({ writer := .joblibDump, path := fileName, attrs := attrs, dropDtype := (vars.map fun _ => false) } : SaveCall A))
      call
    else
      if (decide (engine = "zarr")) then
        let call := (some ({ writer := .toZarr, path := fileName, attrs := attrs, dropDtype := (vars.map fun _ => false) } : SaveCall A))
        call
      else
        let dropDtype := (vars.map fun v => (v.encDtype.isSome && (npDtype v.encDtype != v.dtype) && (!v.hasScale) && (!v.hasOffset)))
        let invalid := (if vars.any (·.isComplex) then (some (kwInvalid.getD true)) else kwInvalid)
        let call := (some ({ writer := (.toNetcdf engine invalid), path := fileName, attrs := attrs, dropDtype := dropDtype } : SaveCall A))
        call

def loadDs {C : Type} (ext : String → String → String) (pathExists : String → Bool) (fileName engine : String) (loadToMem : Option Bool) (createNew : Bool) (chunks : Option C) : LoadOutcome :=
  let fileName : String := (ext fileName engine)
  if ((!(pathExists fileName)) && createNew) then
    .empty
  else
    if (decide (engine = "joblib")) then
      .read { reader := .joblibLoad, path := fileName, chunksHandedOn := false, loadAndClose := false }
    else
      if (loadToMem.isNone && chunks.isNone) then
        let loadToMem := (some true : Option Bool)
        if (decide (engine = "zarr")) then
          let ds : ReadCall := { reader := .openZarr, path := fileName, chunksHandedOn := true, loadAndClose := false }
          let ds : ReadCall := (if (loadToMem == some true) then { ds with loadAndClose := true } else ds)
          .read ds
        else
          let ds : ReadCall := { reader := (.openDataset engine (if ((decide (engine = "h5netcdf"))) then some "netcdf4" else none)), path := fileName, chunksHandedOn := true, loadAndClose := false }
          let ds : ReadCall := (if (loadToMem == some true) then { ds with loadAndClose := true } else ds)
          .read ds
      else
        if ((loadToMem == some true) && chunks.isSome) then
          .raise .valueError
        else
          let loadToMem := (some false : Option Bool)
          if (decide (engine = "zarr")) then
            let ds : ReadCall := { reader := .openZarr, path := fileName, chunksHandedOn := true, loadAndClose := false }
            let ds : ReadCall := (if (loadToMem == some true) then { ds with loadAndClose := true } else ds)
            .read ds
          else
            let ds : ReadCall := { reader := (.openDataset engine (if ((decide (engine = "h5netcdf"))) then some "netcdf4" else none)), path := fileName, chunksHandedOn := true, loadAndClose := false }
            let ds : ReadCall := (if (loadToMem == some true) then { ds with loadAndClose := true } else ds)
            .read ds

def saveDf (engine : String) : DfCall :=
  let meth : String := ("to_" ++ engine ++ "")
  if (decide (engine = "hdf")) then
    let key := true
    if (decide (engine = "csv")) then
      let index := true
      { method := meth, keyGiven := key && true, indexFalse := index && true, kwargsHandedOn := true }
    else
      { method := meth, keyGiven := key && true, indexFalse := false && true, kwargsHandedOn := true }
  else
    if (decide (engine = "csv")) then
      let index := true
      { method := meth, keyGiven := false && true, indexFalse := index && true, kwargsHandedOn := true }
    else
      { method := meth, keyGiven := false && true, indexFalse := false && true, kwargsHandedOn := true }

def loadDf (engine : String) : DfCall :=
  let func : String := ("read_" ++ engine ++ "")
  if (decide (engine = "hdf")) then
    let key := true
    { method := func, keyGiven := key && false, indexFalse := false && false, kwargsHandedOn := false }
  else
    { method := func, keyGiven := false && false, indexFalse := false && false, kwargsHandedOn := false }

end Gen.Default
