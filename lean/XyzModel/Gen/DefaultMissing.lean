import XyzModel.Gen.DefaultCore
/-!
# Missing-data discovery (xyzpy/gen/case_runner.py: `is_case_missing`, `find_missing_cases`, `parse_into_cases`)

Part 1 (`Gen`): the abstract dataset operations the translated bodies are written over (`harness/anchors_missing.py`).
Part 2 (`Gen.Default`): last-good text of the anchors; `Gen/Extracted.lean` holds the translation of the current source.
-/
namespace Gen

/-- the exception classes the three functions distinguish -/
inductive MErr where
  | keyError | valueError | attributeError | typeError | other
deriving Repr, DecidableEq, Inhabited

/-- the dynamically typed `ignore_dims` argument of `find_missing_cases` -/
inductive IgnoreArg where
  | none                        -- `None`
  | str (s : String)            -- one bare dimension name
  | coll (l : List String)      -- a set / list / tuple of names
deriving Repr, DecidableEq

/-- what the three functions ask of an xarray object.  `D` datasets (and data arrays), `M` boolean datasets,
`R` their reduction by `.all()` (one 0-d answer per variable), `V` coordinate values -/
structure MissOps (D M R V : Type) where
  /-- `ds.sel(setting)`; `KeyError` when a label or a dimension is not there -/
  sel : D → List (String × V) → Except MErr D
  /-- `x.isnull()` -/
  isnull : D → M
  /-- `~np.isfinite(x)` -/
  notFinite : D → M
  /-- `m.all()` -/
  allM : M → R
  /-- `r.to_array()`: the answers of the variables side by side; `AttributeError` for a DataArray -/
  toArray : R → Except MErr (List Bool)
  /-- `r.item()` of a 0-d DataArray -/
  item : R → Bool
  /-- `ds.dims`, in the dataset's order -/
  dims : D → List String
  /-- `ds[dim].data` -/
  coordValues : D → String → List V

end Gen

namespace Gen.Default
open Gen

def missingDefaultMethod : String := "isnull"

def missingEntryDefaults : List String := ["isnull", "isnull"]

def isCaseMissing {D M R V : Type} (o : MissOps D M R V) (ds : D) (setting : List (String × V)) (method : String) : Except MErr Bool := 
  (match o.sel ds setting with
  | .error e2 =>
    if e2 = MErr.keyError then
      .ok true
    else
      .error e2
  | .ok x1 =>
    let sds := x1
    if (method == "isnull") then
      let sds := (o.isnull sds)
      let nds := (o.allM sds)
      (match o.toArray nds with
      | .error e4 =>
        if e4 = MErr.attributeError then
          .ok (o.item nds)
        else
          .error e4
      | .ok x3 =>
        let nds := (x3.all id)
        .ok nds)
    else
      if (method == "isfinite") then
        let sds := (o.notFinite sds)
        let nds := (o.allM sds)
        (match o.toArray nds with
        | .error e6 =>
          if e6 = MErr.attributeError then
            .ok (o.item nds)
          else
            .error e6
        | .ok x5 =>
          let nds := (x5.all id)
          .ok nds)
      else
        .error MErr.valueError)

def findMissing {D M R V : Type} (o : MissOps D M R V) (ds : D) (ignoreDims : IgnoreArg) (method : String) (showProgbar : Bool) : Except MErr (List String × List (List V)) := 
  match ignoreDims with
  | .none =>
    let ignoreDims : List String := ([] : List String)
    let fnArgs : List String := (((o.dims ds).filter (fun coo => (!(ignoreDims.contains coo)))).map (fun coo => coo))
    let allCases : List (List V) := (Core.product (fnArgs.map (fun arg => (o.coordValues ds arg))))
    let genMissingListItems : List (List V) := ([] : List (List V))
    (match (List.foldlM (m := Except MErr) (fun (genMissingListItems : (List (List V))) case' =>
        let setting : List (String × V) := (Py.dictOfList (List.zip fnArgs case'))
        (match isCaseMissing o ds setting method with
        | .error e => .error e
        | .ok b1 =>
          if b1 then
            let genMissingListItems : List (List V) := (genMissingListItems ++ [case'])
            .ok genMissingListItems
          else
            .ok genMissingListItems)) genMissingListItems allCases) with
    | .error e2 => .error e2
    | .ok genMissingListItems =>
      .ok (fnArgs, genMissingListItems))
  | .str ignoreDims =>
    let ignoreDims : List String := [ignoreDims]
    let fnArgs : List String := (((o.dims ds).filter (fun coo => (!(ignoreDims.contains coo)))).map (fun coo => coo))
    let allCases : List (List V) := (Core.product (fnArgs.map (fun arg => (o.coordValues ds arg))))
    let genMissingListItems : List (List V) := ([] : List (List V))
    (match (List.foldlM (m := Except MErr) (fun (genMissingListItems : (List (List V))) case' =>
        let setting : List (String × V) := (Py.dictOfList (List.zip fnArgs case'))
        (match isCaseMissing o ds setting method with
        | .error e => .error e
        | .ok b1 =>
          if b1 then
            let genMissingListItems : List (List V) := (genMissingListItems ++ [case'])
            .ok genMissingListItems
          else
            .ok genMissingListItems)) genMissingListItems allCases) with
    | .error e2 => .error e2
    | .ok genMissingListItems =>
      .ok (fnArgs, genMissingListItems))
  | .coll ignoreDims =>
    let ignoreDims : List String := (if (!ignoreDims.isEmpty) then ignoreDims else ([] : List String))
    let fnArgs : List String := (((o.dims ds).filter (fun coo => (!(ignoreDims.contains coo)))).map (fun coo => coo))
    let allCases : List (List V) := (Core.product (fnArgs.map (fun arg => (o.coordValues ds arg))))
    let genMissingListItems : List (List V) := ([] : List (List V))
    (match (List.foldlM (m := Except MErr) (fun (genMissingListItems : (List (List V))) case' =>
        let setting : List (String × V) := (Py.dictOfList (List.zip fnArgs case'))
        (match isCaseMissing o ds setting method with
        | .error e => .error e
        | .ok b1 =>
          if b1 then
            let genMissingListItems : List (List V) := (genMissingListItems ++ [case'])
            .ok genMissingListItems
          else
            .ok genMissingListItems)) genMissingListItems allCases) with
    | .error e2 => .error e2
    | .ok genMissingListItems =>
      .ok (fnArgs, genMissingListItems))

def parseIntoCases {D M R V : Type} (o : MissOps D M R V) (combos : Option (List (String × List V))) (cases : Option (List (List (String × V)))) (ds : Option D) (method : String) : Except MErr (List (List (String × V))) := 
  match combos, cases, ds with
  | none, none, none =>
    let combos : List (String × (List V)) := ([] : List (String × (List V)))
    let cases : List (List (String × V)) := [([] : List (String × V))]
    let comboKeys : List String := (combos.map Prod.fst)
    let comboVals : List (List V) := (combos.map Prod.snd)
    let newCases : List (List (String × V)) := ([] : List (List (String × V)))
    (match (List.foldlM (m := Except MErr) (fun (newCases : (List (List (String × V)))) case' =>
        (match (List.foldlM (m := Except MErr) (fun (newCases : (List (List (String × V)))) setting =>
            let newCase : List (String × V) := (Py.dictUpdate case' (Py.dictOfList (List.zip comboKeys setting)))
            let newCases : List (List (String × V)) := (newCases ++ [newCase])
            .ok newCases) newCases (Core.product comboVals)) with
        | .error e1 => .error e1
        | .ok newCases =>
          .ok newCases)) newCases cases) with
    | .error e2 => .error e2
    | .ok newCases =>
      .ok newCases)
  | none, none, some ds =>
    let combos : List (String × (List V)) := ([] : List (String × (List V)))
    let cases : List (List (String × V)) := [([] : List (String × V))]
    let comboKeys : List String := (combos.map Prod.fst)
    let comboVals : List (List V) := (combos.map Prod.snd)
    let newCases : List (List (String × V)) := ([] : List (List (String × V)))
    (match (List.foldlM (m := Except MErr) (fun (newCases : (List (List (String × V)))) case' =>
        (match (List.foldlM (m := Except MErr) (fun (newCases : (List (List (String × V)))) setting =>
            let newCase : List (String × V) := (Py.dictUpdate case' (Py.dictOfList (List.zip comboKeys setting)))
            (match isCaseMissing o ds newCase method with
            | .error e => .error e
            | .ok b1 =>
              if b1 then
                let newCases : List (List (String × V)) := (newCases ++ [newCase])
                .ok newCases
              else
                .ok newCases)) newCases (Core.product comboVals)) with
        | .error e2 => .error e2
        | .ok newCases =>
          .ok newCases)) newCases cases) with
    | .error e3 => .error e3
    | .ok newCases =>
      .ok newCases)
  | none, some cases, none =>
    let combos : List (String × (List V)) := ([] : List (String × (List V)))
    let comboKeys : List String := (combos.map Prod.fst)
    let comboVals : List (List V) := (combos.map Prod.snd)
    let newCases : List (List (String × V)) := ([] : List (List (String × V)))
    (match (List.foldlM (m := Except MErr) (fun (newCases : (List (List (String × V)))) case' =>
        (match (List.foldlM (m := Except MErr) (fun (newCases : (List (List (String × V)))) setting =>
            let newCase : List (String × V) := (Py.dictUpdate case' (Py.dictOfList (List.zip comboKeys setting)))
            let newCases : List (List (String × V)) := (newCases ++ [newCase])
            .ok newCases) newCases (Core.product comboVals)) with
        | .error e1 => .error e1
        | .ok newCases =>
          .ok newCases)) newCases cases) with
    | .error e2 => .error e2
    | .ok newCases =>
      .ok newCases)
  | none, some cases, some ds =>
    let combos : List (String × (List V)) := ([] : List (String × (List V)))
    let comboKeys : List String := (combos.map Prod.fst)
    let comboVals : List (List V) := (combos.map Prod.snd)
    let newCases : List (List (String × V)) := ([] : List (List (String × V)))
    (match (List.foldlM (m := Except MErr) (fun (newCases : (List (List (String × V)))) case' =>
        (match (List.foldlM (m := Except MErr) (fun (newCases : (List (List (String × V)))) setting =>
            let newCase : List (String × V) := (Py.dictUpdate case' (Py.dictOfList (List.zip comboKeys setting)))
            (match isCaseMissing o ds newCase method with
            | .error e => .error e
            | .ok b1 =>
              if b1 then
                let newCases : List (List (String × V)) := (newCases ++ [newCase])
                .ok newCases
              else
                .ok newCases)) newCases (Core.product comboVals)) with
        | .error e2 => .error e2
        | .ok newCases =>
          .ok newCases)) newCases cases) with
    | .error e3 => .error e3
    | .ok newCases =>
      .ok newCases)
  | some combos, none, none =>
    let cases : List (List (String × V)) := [([] : List (String × V))]
    let comboKeys : List String := (combos.map Prod.fst)
    let comboVals : List (List V) := (combos.map Prod.snd)
    let newCases : List (List (String × V)) := ([] : List (List (String × V)))
    (match (List.foldlM (m := Except MErr) (fun (newCases : (List (List (String × V)))) case' =>
        (match (List.foldlM (m := Except MErr) (fun (newCases : (List (List (String × V)))) setting =>
            let newCase : List (String × V) := (Py.dictUpdate case' (Py.dictOfList (List.zip comboKeys setting)))
            let newCases : List (List (String × V)) := (newCases ++ [newCase])
            .ok newCases) newCases (Core.product comboVals)) with
        | .error e1 => .error e1
        | .ok newCases =>
          .ok newCases)) newCases cases) with
    | .error e2 => .error e2
    | .ok newCases =>
      .ok newCases)
  | some combos, none, some ds =>
    let cases : List (List (String × V)) := [([] : List (String × V))]
    let comboKeys : List String := (combos.map Prod.fst)
    let comboVals : List (List V) := (combos.map Prod.snd)
    let newCases : List (List (String × V)) := ([] : List (List (String × V)))
    (match (List.foldlM (m := Except MErr) (fun (newCases : (List (List (String × V)))) case' =>
        (match (List.foldlM (m := Except MErr) (fun (newCases : (List (List (String × V)))) setting =>
            let newCase : List (String × V) := (Py.dictUpdate case' (Py.dictOfList (List.zip comboKeys setting)))
            (match isCaseMissing o ds newCase method with
            | .error e => .error e
            | .ok b1 =>
              if b1 then
                let newCases : List (List (String × V)) := (newCases ++ [newCase])
                .ok newCases
              else
                .ok newCases)) newCases (Core.product comboVals)) with
        | .error e2 => .error e2
        | .ok newCases =>
          .ok newCases)) newCases cases) with
    | .error e3 => .error e3
    | .ok newCases =>
      .ok newCases)
  | some combos, some cases, none =>
    let comboKeys : List String := (combos.map Prod.fst)
    let comboVals : List (List V) := (combos.map Prod.snd)
    let newCases : List (List (String × V)) := ([] : List (List (String × V)))
    (match (List.foldlM (m := Except MErr) (fun (newCases : (List (List (String × V)))) case' =>
        (match (List.foldlM (m := Except MErr) (fun (newCases : (List (List (String × V)))) setting =>
            let newCase : List (String × V) := (Py.dictUpdate case' (Py.dictOfList (List.zip comboKeys setting)))
            let newCases : List (List (String × V)) := (newCases ++ [newCase])
            .ok newCases) newCases (Core.product comboVals)) with
        | .error e1 => .error e1
        | .ok newCases =>
          .ok newCases)) newCases cases) with
    | .error e2 => .error e2
    | .ok newCases =>
      .ok newCases)
  | some combos, some cases, some ds =>
    let comboKeys : List String := (combos.map Prod.fst)
    let comboVals : List (List V) := (combos.map Prod.snd)
    let newCases : List (List (String × V)) := ([] : List (List (String × V)))
    (match (List.foldlM (m := Except MErr) (fun (newCases : (List (List (String × V)))) case' =>
        (match (List.foldlM (m := Except MErr) (fun (newCases : (List (List (String × V)))) setting =>
            let newCase : List (String × V) := (Py.dictUpdate case' (Py.dictOfList (List.zip comboKeys setting)))
            (match isCaseMissing o ds newCase method with
            | .error e => .error e
            | .ok b1 =>
              if b1 then
                let newCases : List (List (String × V)) := (newCases ++ [newCase])
                .ok newCases
              else
                .ok newCases)) newCases (Core.product comboVals)) with
        | .error e2 => .error e2
        | .ok newCases =>
          .ok newCases)) newCases cases) with
    | .error e3 => .error e3
    | .ok newCases =>
      .ok newCases)

end Gen.Default
