import XyzModel.Gen.DefaultCore
/-!
# Argument flow of the labelled entry points (harness/pyflow2lean.py, harness/anchors_flow.py)

Vocabulary (`Gen.FlowE`, `Gen.FlowCall`, `Gen.FlowPath`, `Gen.Flow`) and the last-good text of the generated records and
functions (`Gen.Default.*`; written by tools/update_default_flow.py).  `Gen/Extracted.lean` holds the translation of
the *current* source.
-/
namespace Gen

/-- a value in an entry point, as a first-order term over what the caller gave and what the object held on entry -/
inductive FlowE where
  | param (n : String)               -- the parameter `n` as given by the caller (`**n` / `*n` collectors included)
  | stored (a : String)              -- `self.<a>` as it is when the entry point is entered
  | lit (s : String)                 -- a literal (Python `repr`)
  | attr (e : FlowE) (n : String)    -- `e.<n>`
  | item (e : FlowE) (k : String)    -- `e[k]` for a constant key / the k-th component of a returned tuple
  | merge (a b : FlowE)              -- `{**a, **b}`: a new dict, `b` wins; also what `a.update(b)` leaves in `a`
  | ite (c t e : FlowE)              -- `t if c else e`, and the join of an `if` that assigns
  | fn (f : String)                  -- a function / operator known by name only (`expr<source>` for an expression not read)
  | ap (f x : FlowE)                 -- application (curried)
  | kw (n : String) (e : FlowE)      -- a keyword argument `n=e` inside an application
  | ret (i : Nat)                    -- what the i-th recorded call returned
deriving Repr, DecidableEq

/-- one recorded call: positional arguments are renamed to the callee's parameter names when its `def` is known -/
structure FlowCall where
  callee : FlowE
  pos : List FlowE
  kws : List (String × FlowE)
  splat : List FlowE
  cond : List (FlowE × Bool)
deriving Repr, DecidableEq

/-- one way the body ends without raising: what is returned and what was written to objects that outlive the call
(`stored a`: an attribute of `self`; `param n`: an object handed in by the caller, changed in place) -/
structure FlowPath where
  cond : List (FlowE × Bool)
  ret : FlowE
  writes : List (FlowE × FlowE)
deriving Repr, DecidableEq

structure Flow where
  calls : List FlowCall
  paths : List FlowPath
deriving Repr, DecidableEq

end Gen

namespace Gen.Default
open Gen


def flowRunnerInit : Flow := {
  calls := [
    ],
  paths := [
    { cond := [], ret := (FlowE.lit "None"), writes := [((FlowE.stored "fn"), (FlowE.param "fn")), ((FlowE.stored "_var_names"), (FlowE.ap (FlowE.fn "parse_var_names") (FlowE.param "var_names"))), ((FlowE.stored "_fn_args"), (FlowE.ap (FlowE.ap (FlowE.fn "parse_fn_args") (FlowE.param "fn")) (FlowE.param "fn_args"))), ((FlowE.stored "_var_dims"), (FlowE.ap (FlowE.ap (FlowE.fn "parse_var_dims") (FlowE.param "var_dims")) (FlowE.ap (FlowE.fn "parse_var_names") (FlowE.param "var_names")))), ((FlowE.stored "_var_coords"), (FlowE.ap (FlowE.fn "parse_var_coords") (FlowE.param "var_coords"))), ((FlowE.stored "_constants"), (FlowE.ap (FlowE.fn "parse_constants") (FlowE.param "constants"))), ((FlowE.stored "_resources"), (FlowE.ap (FlowE.fn "parse_resources") (FlowE.param "resources"))), ((FlowE.stored "_attrs"), (FlowE.ap (FlowE.fn "parse_attrs") (FlowE.param "attrs"))), ((FlowE.stored "_last_ds"), (FlowE.lit "None")), ((FlowE.stored "default_runner_settings"), (FlowE.param "default_runner_settings"))] }] }

def flowRunCombos : Flow := {
  calls := [
    { callee := (FlowE.fn "combo_runner_to_ds"), pos := [], kws := [("fn", (FlowE.stored "fn")), ("combos", (FlowE.ap (FlowE.fn "parse_combos") (FlowE.param "combos"))), ("var_names", (FlowE.stored "_var_names")), ("var_dims", (FlowE.stored "_var_dims")), ("var_coords", (FlowE.stored "_var_coords")), ("constants", (FlowE.merge (FlowE.stored "_constants") (FlowE.ap (FlowE.fn "dict") (FlowE.param "constants")))), ("resources", (FlowE.stored "_resources")), ("attrs", (FlowE.stored "_attrs")), ("parse", (FlowE.lit "False"))], splat := [(FlowE.merge (FlowE.stored "default_runner_settings") (FlowE.param "runner_settings"))], cond := [] }],
  paths := [
    { cond := [], ret := (FlowE.ret 0), writes := [((FlowE.stored "_last_ds"), (FlowE.ret 0))] }] }

def flowRunCases : Flow := {
  calls := [
    { callee := (FlowE.fn "case_runner_to_ds"), pos := [], kws := [("fn", (FlowE.stored "fn")), ("fn_args", (FlowE.ite (FlowE.ap (FlowE.fn "is None") (FlowE.param "fn_args")) (FlowE.stored "_fn_args") (FlowE.param "fn_args"))), ("cases", (FlowE.ap (FlowE.ap (FlowE.fn "parse_cases") (FlowE.param "cases")) (FlowE.ite (FlowE.ap (FlowE.fn "is None") (FlowE.param "fn_args")) (FlowE.stored "_fn_args") (FlowE.param "fn_args")))), ("var_names", (FlowE.stored "_var_names")), ("var_dims", (FlowE.stored "_var_dims")), ("var_coords", (FlowE.stored "_var_coords")), ("constants", (FlowE.merge (FlowE.stored "_constants") (FlowE.ap (FlowE.fn "dict") (FlowE.param "constants")))), ("resources", (FlowE.stored "_resources")), ("attrs", (FlowE.stored "_attrs")), ("parse", (FlowE.lit "False"))], splat := [(FlowE.merge (FlowE.stored "default_runner_settings") (FlowE.param "runner_settings"))], cond := [] }],
  paths := [
    { cond := [], ret := (FlowE.ret 0), writes := [((FlowE.stored "_last_ds"), (FlowE.ret 0))] }] }

def flowLabel : Flow := {
  calls := [
    { callee := (FlowE.fn "Runner"), pos := [], kws := [("fn", (FlowE.param "fn")), ("var_names", (FlowE.param "var_names")), ("fn_args", (FlowE.param "fn_args")), ("var_dims", (FlowE.param "var_dims")), ("var_coords", (FlowE.param "var_coords")), ("constants", (FlowE.param "constants")), ("resources", (FlowE.param "resources")), ("attrs", (FlowE.param "attrs"))], splat := [(FlowE.param "default_runner_settings")], cond := [] },
    { callee := (FlowE.fn "Harvester"), pos := [], kws := [("runner", (FlowE.ret 0)), ("data_name", (FlowE.ite (FlowE.ap (FlowE.ap (FlowE.fn "is") (FlowE.param "harvester")) (FlowE.lit "True")) (FlowE.lit "None") (FlowE.param "harvester"))), ("engine", (FlowE.param "engine"))], splat := [], cond := [((FlowE.param "harvester"), true)] },
    { callee := (FlowE.fn "Sampler"), pos := [], kws := [("runner", (FlowE.ite (FlowE.param "harvester") (FlowE.ret 1) (FlowE.ret 0))), ("data_name", (FlowE.ite (FlowE.ap (FlowE.ap (FlowE.fn "is") (FlowE.param "sampler")) (FlowE.lit "True")) (FlowE.lit "None") (FlowE.param "sampler"))), ("engine", (FlowE.param "engine"))], splat := [], cond := [((FlowE.param "sampler"), true)] }],
  paths := [
    { cond := [], ret := (FlowE.ap (FlowE.ap (FlowE.fn "functools.update_wrapper") (FlowE.ite (FlowE.param "sampler") (FlowE.ret 2) (FlowE.ite (FlowE.param "harvester") (FlowE.ret 1) (FlowE.ret 0)))) (FlowE.param "fn")), writes := [] }] }

def flowHarvestCombos : Flow := {
  calls := [
    { callee := (FlowE.attr (FlowE.stored "runner") "run_combos"), pos := [], kws := [("combos", (FlowE.ap (FlowE.fn "tuple") (FlowE.ap (FlowE.ap (FlowE.fn "expr<((key, self.full_ds.coords[key].values if values is ... else values) for key, values in parse_combos(combos))>") (FlowE.param "combos")) (FlowE.stored "full_ds"))))], splat := [(FlowE.param "runner_settings")], cond := [] },
    { callee := (FlowE.stored "add_ds"), pos := [], kws := [("new_ds", (FlowE.ret 0)), ("sync", (FlowE.param "sync")), ("overwrite", (FlowE.param "overwrite")), ("chunks", (FlowE.param "chunks")), ("engine", (FlowE.param "engine"))], splat := [], cond := [] }],
  paths := [
    { cond := [], ret := (FlowE.lit "None"), writes := [] }] }

def flowHarvestCases : Flow := {
  calls := [
    { callee := (FlowE.attr (FlowE.stored "runner") "run_cases"), pos := [], kws := [("cases", (FlowE.param "cases"))], splat := [(FlowE.param "runner_settings")], cond := [] },
    { callee := (FlowE.stored "add_ds"), pos := [], kws := [("new_ds", (FlowE.ret 0)), ("sync", (FlowE.param "sync")), ("overwrite", (FlowE.param "overwrite")), ("chunks", (FlowE.param "chunks")), ("engine", (FlowE.param "engine"))], splat := [], cond := [] }],
  paths := [
    { cond := [], ret := (FlowE.lit "None"), writes := [] }] }

def flowGenCases : Flow := {
  calls := [
    ],
  paths := [
    { cond := [], ret := (FlowE.ap (FlowE.ap (FlowE.fn "tuple") (FlowE.ap (FlowE.fn "tuple") (FlowE.attr (FlowE.merge (FlowE.stored "default_combos") (FlowE.ite (FlowE.ap (FlowE.fn "is None") (FlowE.param "combos")) (FlowE.lit "{}") (FlowE.ap (FlowE.fn "dict") (FlowE.param "combos")))) "keys"))) (FlowE.ap (FlowE.fn "tuple") (FlowE.ap (FlowE.ap (FlowE.fn "expr<(tuple((v() if callable(v) else np.random.choice(v) for v in combos.values())) for _ in range(n))>") (FlowE.param "n")) (FlowE.merge (FlowE.stored "default_combos") (FlowE.ite (FlowE.ap (FlowE.fn "is None") (FlowE.param "combos")) (FlowE.lit "{}") (FlowE.ap (FlowE.fn "dict") (FlowE.param "combos"))))))), writes := [] }] }

def flowSampleCombos : Flow := {
  calls := [
    { callee := (FlowE.attr (FlowE.stored "runner") "run_cases"), pos := [], kws := [("cases", (FlowE.ap (FlowE.fn "tuple") (FlowE.ap (FlowE.ap (FlowE.fn "expr<(tuple((v() if callable(v) else np.random.choice(v) for v in combos.values())) for _ in range(n))>") (FlowE.param "n")) (FlowE.merge (FlowE.stored "default_combos") (FlowE.ite (FlowE.ap (FlowE.fn "is None") (FlowE.param "combos")) (FlowE.lit "{}") (FlowE.ap (FlowE.fn "dict") (FlowE.param "combos"))))))), ("fn_args", (FlowE.ap (FlowE.fn "tuple") (FlowE.attr (FlowE.merge (FlowE.stored "default_combos") (FlowE.ite (FlowE.ap (FlowE.fn "is None") (FlowE.param "combos")) (FlowE.lit "{}") (FlowE.ap (FlowE.fn "dict") (FlowE.param "combos")))) "keys"))), ("to_df", (FlowE.lit "True"))], splat := [(FlowE.param "case_runner_settings")], cond := [] },
    { callee := (FlowE.stored "add_df"), pos := [], kws := [("new_df", (FlowE.ret 0)), ("engine", (FlowE.param "engine"))], splat := [], cond := [] }],
  paths := [
    { cond := [], ret := (FlowE.ret 0), writes := [((FlowE.stored "_last_df"), (FlowE.ret 0))] }] }

def flowComboToDs : Flow := {
  calls := [
    { callee := (FlowE.fn "combo_runner_core"), pos := [], kws := [("fn", (FlowE.param "fn")), ("combos", (FlowE.ite (FlowE.param "parse") (FlowE.ap (FlowE.fn "parse_combos") (FlowE.param "combos")) (FlowE.param "combos"))), ("cases", (FlowE.ite (FlowE.param "parse") (FlowE.ap (FlowE.fn "parse_cases") (FlowE.param "cases")) (FlowE.param "cases"))), ("constants", (FlowE.merge (FlowE.ite (FlowE.param "parse") (FlowE.ap (FlowE.fn "parse_resources") (FlowE.param "resources")) (FlowE.param "resources")) (FlowE.ite (FlowE.param "parse") (FlowE.ap (FlowE.fn "parse_constants") (FlowE.param "constants")) (FlowE.param "constants")))), ("parallel", (FlowE.param "parallel")), ("num_workers", (FlowE.param "num_workers")), ("executor", (FlowE.param "executor")), ("verbosity", (FlowE.param "verbosity")), ("info", (FlowE.ite (FlowE.ap (FlowE.ap (FlowE.fn "or") (FlowE.ite (FlowE.param "parse") (FlowE.ap (FlowE.fn "parse_cases") (FlowE.param "cases")) (FlowE.param "cases"))) (FlowE.param "to_df")) (FlowE.lit "{}") (FlowE.lit "None"))), ("split", (FlowE.ap (FlowE.ap (FlowE.fn "and") (FlowE.ap (FlowE.fn "not") (FlowE.param "to_df"))) (FlowE.ap (FlowE.ap (FlowE.fn ">") (FlowE.ap (FlowE.fn "len") (FlowE.ite (FlowE.param "parse") (FlowE.ap (FlowE.fn "parse_var_names") (FlowE.param "var_names")) (FlowE.param "var_names")))) (FlowE.lit "1")))), ("flat", (FlowE.param "to_df")), ("shuffle", (FlowE.param "shuffle"))], splat := [], cond := [] },
    { callee := (FlowE.fn "results_to_df"), pos := [], kws := [("results_linear", (FlowE.ret 0)), ("settings", (FlowE.item (FlowE.ite (FlowE.ap (FlowE.ap (FlowE.fn "or") (FlowE.ite (FlowE.param "parse") (FlowE.ap (FlowE.fn "parse_cases") (FlowE.param "cases")) (FlowE.param "cases"))) (FlowE.param "to_df")) (FlowE.lit "{}") (FlowE.lit "None")) "settings")), ("attrs", (FlowE.param "attrs")), ("resources", (FlowE.ite (FlowE.param "parse") (FlowE.ap (FlowE.fn "parse_resources") (FlowE.param "resources")) (FlowE.param "resources"))), ("var_names", (FlowE.ite (FlowE.param "parse") (FlowE.ap (FlowE.fn "parse_var_names") (FlowE.param "var_names")) (FlowE.param "var_names")))], splat := [], cond := [((FlowE.param "to_df"), true)] },
    { callee := (FlowE.fn "results_to_ds"), pos := [], kws := [("results", (FlowE.ret 0)), ("combos", (FlowE.ite (FlowE.ite (FlowE.param "parse") (FlowE.ap (FlowE.fn "parse_cases") (FlowE.param "cases")) (FlowE.param "cases")) (FlowE.ap (FlowE.fn "tuple") (FlowE.ap (FlowE.ap (FlowE.fn "zip") (FlowE.item (FlowE.ite (FlowE.ap (FlowE.ap (FlowE.fn "or") (FlowE.ite (FlowE.param "parse") (FlowE.ap (FlowE.fn "parse_cases") (FlowE.param "cases")) (FlowE.param "cases"))) (FlowE.param "to_df")) (FlowE.lit "{}") (FlowE.lit "None")) "fn_args")) (FlowE.item (FlowE.ite (FlowE.ap (FlowE.ap (FlowE.fn "or") (FlowE.ite (FlowE.param "parse") (FlowE.ap (FlowE.fn "parse_cases") (FlowE.param "cases")) (FlowE.param "cases"))) (FlowE.param "to_df")) (FlowE.lit "{}") (FlowE.lit "None")) "all_combo_values"))) (FlowE.ite (FlowE.param "parse") (FlowE.ap (FlowE.fn "parse_combos") (FlowE.param "combos")) (FlowE.param "combos")))), ("var_names", (FlowE.ite (FlowE.param "parse") (FlowE.ap (FlowE.fn "parse_var_names") (FlowE.param "var_names")) (FlowE.param "var_names"))), ("var_dims", (FlowE.ite (FlowE.param "parse") (FlowE.ap (FlowE.ap (FlowE.fn "parse_var_dims") (FlowE.param "var_dims")) (FlowE.kw "var_names" (FlowE.ap (FlowE.fn "parse_var_names") (FlowE.param "var_names")))) (FlowE.param "var_dims"))), ("var_coords", (FlowE.ite (FlowE.param "parse") (FlowE.ap (FlowE.fn "parse_var_coords") (FlowE.param "var_coords")) (FlowE.param "var_coords"))), ("constants", (FlowE.ite (FlowE.param "parse") (FlowE.ap (FlowE.fn "parse_constants") (FlowE.param "constants")) (FlowE.param "constants"))), ("attrs", (FlowE.param "attrs"))], splat := [], cond := [((FlowE.param "to_df"), false)] }],
  paths := [
    { cond := [((FlowE.param "to_df"), true)], ret := (FlowE.ret 1), writes := [] },
    { cond := [((FlowE.param "to_df"), false)], ret := (FlowE.ret 2), writes := [] }] }

def flowCaseToDs : Flow := {
  calls := [
    { callee := (FlowE.fn "combo_runner_to_ds"), pos := [], kws := [("fn", (FlowE.param "fn")), ("combos", (FlowE.ite (FlowE.param "parse") (FlowE.ap (FlowE.fn "parse_combos") (FlowE.param "combos")) (FlowE.param "combos"))), ("var_names", (FlowE.ite (FlowE.param "parse") (FlowE.ap (FlowE.fn "parse_var_names") (FlowE.param "var_names")) (FlowE.param "var_names"))), ("var_dims", (FlowE.ite (FlowE.param "parse") (FlowE.ap (FlowE.ap (FlowE.fn "parse_var_dims") (FlowE.param "var_dims")) (FlowE.kw "var_names" (FlowE.ap (FlowE.fn "parse_var_names") (FlowE.param "var_names")))) (FlowE.param "var_dims"))), ("var_coords", (FlowE.ite (FlowE.param "parse") (FlowE.ap (FlowE.fn "parse_var_coords") (FlowE.param "var_coords")) (FlowE.param "var_coords"))), ("cases", (FlowE.ite (FlowE.param "parse") (FlowE.ap (FlowE.ap (FlowE.fn "parse_cases") (FlowE.param "cases")) (FlowE.ap (FlowE.ap (FlowE.fn "parse_fn_args") (FlowE.param "fn")) (FlowE.param "fn_args"))) (FlowE.param "cases"))), ("constants", (FlowE.ite (FlowE.param "parse") (FlowE.ap (FlowE.fn "parse_constants") (FlowE.param "constants")) (FlowE.param "constants"))), ("resources", (FlowE.ite (FlowE.param "parse") (FlowE.ap (FlowE.fn "parse_resources") (FlowE.param "resources")) (FlowE.param "resources"))), ("attrs", (FlowE.param "attrs")), ("shuffle", (FlowE.param "shuffle")), ("to_df", (FlowE.param "to_df")), ("parallel", (FlowE.param "parallel")), ("num_workers", (FlowE.param "num_workers")), ("executor", (FlowE.param "executor")), ("verbosity", (FlowE.param "verbosity")), ("parse", (FlowE.lit "False"))], splat := [], cond := [] }],
  paths := [
    { cond := [], ret := (FlowE.ret 0), writes := [] }] }

def dictifyKeeps : Bool := true

def dfRows {V β : Type} (asCell : β → V) (outputs : β → List V) (resultsLinear : List β) (settings : List (List (String × V))) (attrs resources : List (String × V)) (varNames : List String) : Except PyErr (List (List (String × V))) := 
  let data : List (List (String × V)) := ([] : List (List (String × V)))
  (match ((List.zip settings resultsLinear).foldlM (m := Except PyErr) (fun (data : (List (List (String × V)))) (row, result) =>
      (match ((resources.map Prod.fst).foldlM (m := Except PyErr) (fun (row : (List (String × V))) k =>
          let row : List (String × V) := (Py.dictErase row k)
          .ok row) row) with
      | .error e => .error e
      | .ok row =>
        if (!attrs.isEmpty) then
          let row : List (String × V) := (Py.dictUpdate row attrs)
          if (varNames.length == (1 : Nat)) then
            (match varNames[0]? with
            | none => .error .indexError
            | some x1 =>
              let row : List (String × V) := (Py.dictSet row x1 (asCell result))
              let data : List (List (String × V)) := (data ++ [row])
              .ok data)
          else
            let row : List (String × V) := (Py.dictUpdate row (Py.dictOfList (List.zip varNames (outputs result))))
            let data : List (List (String × V)) := (data ++ [row])
            .ok data
        else
          if (varNames.length == (1 : Nat)) then
            (match varNames[0]? with
            | none => .error .indexError
            | some x2 =>
              let row : List (String × V) := (Py.dictSet row x2 (asCell result))
              let data : List (List (String × V)) := (data ++ [row])
              .ok data)
          else
            let row : List (String × V) := (Py.dictUpdate row (Py.dictOfList (List.zip varNames (outputs result))))
            let data : List (List (String × V)) := (data ++ [row])
            .ok data)) data) with
  | .error e => .error e
  | .ok data =>
    .ok (data))

def coreRunInfo {α β : Type} (leR : β → β → Bool) (σ : List Nat) (shuffle flat execGiven poolAsked infoGiven : Bool) (runSeq runExec : List α → List β) (settings : List α) : Except PyErr (List β × List α) := 
  if shuffle then
    let enumSettings : List (Nat × α) := (Py.enumerate settings)
    let enumSettings : List (Nat × α) := (Py.permute σ enumSettings)
    (match (if enumSettings.isEmpty then none else some (List.unzip enumSettings)) with
    | none => .error .valueError
    | some u1 =>
      let enum : List Nat := u1.1
      let settings : List α := u1.2
      if execGiven then
        let resultsLinear : List β := (runExec settings)
        let enumResults : List (Nat × β) := (Py.sortedOn Py.leNat (fun x' => x'.1) (List.zip enum resultsLinear))
        (match (if enumResults.isEmpty then none else some (List.unzip enumResults)) with
        | none => .error .valueError
        | some u2 =>
          let resultsLinear : List β := u2.2
          if infoGiven then
            if flat then
              let enumSettings : List (Nat × α) := (Py.sortedOn Py.leNat (fun x' => x'.1) (List.zip enum settings))
              (match (if enumSettings.isEmpty then none else some (List.unzip enumSettings)) with
              | none => .error .valueError
              | some u3 =>
                let settings : List α := u3.2
                let infoSettings : List α := settings
                .ok (resultsLinear, infoSettings))
            else
              .ok (resultsLinear, ([] : List α))
          else
            .ok (resultsLinear, ([] : List α)))
      else
        if poolAsked then
          let resultsLinear : List β := (runExec settings)
          let enumResults : List (Nat × β) := (Py.sortedOn Py.leNat (fun x' => x'.1) (List.zip enum resultsLinear))
          (match (if enumResults.isEmpty then none else some (List.unzip enumResults)) with
          | none => .error .valueError
          | some u4 =>
            let resultsLinear : List β := u4.2
            if infoGiven then
              if flat then
                let enumSettings : List (Nat × α) := (Py.sortedOn Py.leNat (fun x' => x'.1) (List.zip enum settings))
                (match (if enumSettings.isEmpty then none else some (List.unzip enumSettings)) with
                | none => .error .valueError
                | some u5 =>
                  let settings : List α := u5.2
                  let infoSettings : List α := settings
                  .ok (resultsLinear, infoSettings))
              else
                .ok (resultsLinear, ([] : List α))
            else
              .ok (resultsLinear, ([] : List α)))
        else
          let resultsLinear : List β := (runSeq settings)
          let enumResults : List (Nat × β) := (Py.sortedOn Py.leNat (fun x' => x'.1) (List.zip enum resultsLinear))
          (match (if enumResults.isEmpty then none else some (List.unzip enumResults)) with
          | none => .error .valueError
          | some u6 =>
            let resultsLinear : List β := u6.2
            if infoGiven then
              if flat then
                let enumSettings : List (Nat × α) := (Py.sortedOn Py.leNat (fun x' => x'.1) (List.zip enum settings))
                (match (if enumSettings.isEmpty then none else some (List.unzip enumSettings)) with
                | none => .error .valueError
                | some u7 =>
                  let settings : List α := u7.2
                  let infoSettings : List α := settings
                  .ok (resultsLinear, infoSettings))
              else
                .ok (resultsLinear, ([] : List α))
            else
              .ok (resultsLinear, ([] : List α))))
  else
    if execGiven then
      let resultsLinear : List β := (runExec settings)
      if infoGiven then
        if flat then
          let infoSettings : List α := settings
          .ok (resultsLinear, infoSettings)
        else
          .ok (resultsLinear, ([] : List α))
      else
        .ok (resultsLinear, ([] : List α))
    else
      if poolAsked then
        let resultsLinear : List β := (runExec settings)
        if infoGiven then
          if flat then
            let infoSettings : List α := settings
            .ok (resultsLinear, infoSettings)
          else
            .ok (resultsLinear, ([] : List α))
        else
          .ok (resultsLinear, ([] : List α))
      else
        let resultsLinear : List β := (runSeq settings)
        if infoGiven then
          if flat then
            let infoSettings : List α := settings
            .ok (resultsLinear, infoSettings)
          else
            .ok (resultsLinear, ([] : List α))
        else
          .ok (resultsLinear, ([] : List α))

def casesZip {V : Type} (fnArgs : List String) (cases : List (List V)) : List (List (String × V)) := (cases.map (fun c => (Py.dictOfList (List.zip fnArgs c))))

end Gen.Default
