import XyzModel.Gen.DefaultFn
/-!
Life cycle of a crop on disk (harness/anchors_lifecycle.py): `Crop.ensure_dirs_exists / save_function_to_disk / save_info /
prepare / load_info / delete_all / parse_constants`, the whole of `sow_combos / sow_cases / sow_samples` and of
`reap_combos / reap_combos_to_ds / reap_runner`, translated on every run to **effect skeletons whose effects carry what
they are given**: `.writeInfo info` holds the record `save_info` writes (one field per key of the dict, `none` = key not
written), `.runSower args` what the runner that drives the Sower is handed, `.gather args` what the runner that drives
the Reaper is handed (and the `num_batches` the Reaper is built with).  So one translated function says both *in which
order* things happen and *which value flows where*.

The values themselves (`C` combos, `K` cases, `A` function argument names, `V` constant values) are abstract; what the
library's parsers do to them is given by a record of operations `LcOps`.  Dictionaries of constants are association
lists (`Dict V`), `{**a, **b}` is `dictMerge a b` (keys of `b` win).

This file holds the vocabulary and the last-good text of the generated functions (`Gen.Default.*`, written by
tools/update_default_lifecycle.py).
-/
set_option linter.unusedVariables false
namespace Gen

abbrev Dict (V : Type) := List (String × V)

/-- `d.get(k)` -/
def dictGet {V : Type} (d : Dict V) (k : String) : Option V := (d.find? (fun kv => kv.1 == k)).map (·.2)

/-- `{**a, **b}` as a finite map: every key of `b` with `b`'s value, the other keys of `a` with `a`'s -/
def dictMerge {V : Type} (a b : Dict V) : Dict V := b ++ a

/-- which parser / generator is called (each may raise) -/
inductive ParseKind where
  | combos | cases | fnArgs | constants | attrs | genCases
deriving Repr, DecidableEq, Inhabited

inductive DirKind where
  | batches | results | other
deriving Repr, DecidableEq, Inhabited

/-- the `farmer` entry of the info file: `None`, or the pickled copy of the farmer (with its `fn` set to `None` first, or not) -/
inductive FarmerPkl where
  | none
  | pickled (fnStripped : Bool)
deriving Repr, DecidableEq, Inhabited

inductive RunnerKind where
  | comboRunnerCore | caseRunner | comboRunnerToDs | other
deriving Repr, DecidableEq, Inhabited

/-- what `save_info` writes: one field per key of the dict; `none` = the key is not written -/
structure InfoRec (C K A V : Type) where
  combos : Option C := none
  cases : Option K := none
  fnArgs : Option A := none
  batchsize : Option (Option Int) := none
  numBatches : Option (Option Int) := none
  remainder : Option (Option Int) := none
  shuffle : Option (Option Int) := none
  farmer : Option FarmerPkl := none
  constants : Option (Dict V) := none

/-- what the runner driving the Sower is handed -/
structure RunArgs (C K A V : Type) where
  runner : RunnerKind
  combos : C
  cases : K
  fnArgs : A
  constants : Dict V
  shuffle : Option Int
  /-- `parse=` as passed (`true` when the runner has no such parameter or it is left at its default) -/
  parse : Bool

/-- what the Reaper and the runner driving it are handed -/
structure ReapArgs (C K A V : Type) where
  runner : RunnerKind
  /-- `Reaper(num_batches=…)` -/
  numBatches : Option Int
  combos : C
  cases : K
  /-- the constants that label the output (`constants=`) -/
  constants : Dict V
  shuffle : Option Int
  parse : Bool

/-- the effects of the life cycle -/
inductive LEff (C K A V : Type) where
  | parse (k : ParseKind)                    -- parse_combos / parse_cases / parse_fn_args / parse_constants / gen_cases_fnargs
  | mkDir (d : DirKind) (existOk : Bool)     -- os.makedirs(<location>/<d>, exist_ok=…)
  | pickleFn                                 -- to_pickle(self._fn)
  | writeFn                                  -- write_to_disk(<pickled function>, <location>/FNCT_NM)
  | pickleFarmer (fnStripped : Bool)         -- to_pickle(<copy of the farmer>)
  | writeInfo (info : InfoRec C K A V)       -- write_to_disk({...}, <location>/INFO_NM)
  | runSower (args : RunArgs C K A V)        -- the runner driving the Sower: batch files are written
  | exitSower                                -- Sower.__exit__: the last, partly filled batch file
  | checkReady | allNan
  | loadInfo                                 -- read_from_disk(<location>/INFO_NM)
  | gather (args : ReapArgs C K A V)         -- the runner driving the Reaper: result files are read
  | label | reaperExit | setLast
  | deleteAll                                -- shutil.rmtree(<location>)
  | writeOther | other

/-- what the library's parsers do to the (abstract) values -/
structure LcOps (C K A V : Type) where
  noneC : C
  noneK : K
  noneA : A
  parseCombos : C → C
  parseCases : K → Option A → K
  parseFnArgs : A → A
  parseConstants : Dict V → Dict V
  /-- `sorted(combos, key=lambda x: x[0])` -/
  sortByName : C → C
  combosTruthy : C → Bool
  /-- `prod(len(x) for _, x in combos)` -/
  combosProd : C → Int
  casesTruthy : K → Bool
  casesLen : K → Int
  /-- `Sampler.gen_cases_fnargs(n, combos)` -/
  genFnArgs : Int → C → A
  genCases : Int → C → K

/-- `d[k]`: `KeyError` when the key was not written -/
def getKey {α : Type} : Option α → Except PyErr α
  | none => .error .keyError
  | some a => .ok a

/-- the attributes of the Crop object a sow leaves behind: batchsize, num_batches, _batch_remainder, shuffle, _sow_constants -/
abbrev LObj (V : Type) := Option Int × Option Int × Option Int × Option Int × Option (Dict V)

/-- result of a sow skeleton: (effects attempted, object attributes) and how it ended -/
abbrev LRes (C K A V : Type) := (List (LEff C K A V) × LObj V) × Option PyErr

end Gen

namespace Gen.Default
open Gen

def ensureDirsLc {C K A V : Type} (o : LcOps C K A V) (fails : LEff C K A V → Bool) (trace : List (LEff C K A V)) : List (LEff C K A V) × Option PyErr :=
  let trace := trace ++ [(.mkDir .batches true)]
  if fails (.mkDir .batches true) then (trace, some .other) else
  let trace := trace ++ [(.mkDir .results true)]
  if fails (.mkDir .results true) then (trace, some .other) else
  (trace, none)

def saveFnLc {C K A V : Type} (o : LcOps C K A V) (fails : LEff C K A V → Bool) (trace : List (LEff C K A V)) : List (LEff C K A V) × Option PyErr :=
  let trace := trace ++ [.pickleFn]
  if fails .pickleFn then (trace, some .other) else
  let trace := trace ++ [.writeFn]
  if fails .writeFn then (trace, some .other) else
  (trace, none)

def saveInfoLc {C K A V : Type} (o : LcOps C K A V) (fails : LEff C K A V → Bool) (combos : C) (cases : K) (fnArgs : A) (saveFn farmerIsNone hasRunner : Bool) (runnerConstants runnerResources : Dict V) (batchsize numBatches remainder shuffle : Option Int) (sowConstants : Option (Dict V)) (trace : List (LEff C K A V)) : List (LEff C K A V) × Option PyErr :=
  if (!farmerIsNone) then
    let trace := trace ++ [(.pickleFarmer true)]
    if fails (.pickleFarmer true) then (trace, some .other) else
    let trace := trace ++ [(.writeInfo { combos := some combos, cases := some cases, fnArgs := some fnArgs, batchsize := some batchsize, numBatches := some numBatches, remainder := some remainder, shuffle := some shuffle, farmer := some (FarmerPkl.pickled true), constants := some (sowConstants.getD []) })]
    if fails (.writeInfo { combos := some combos, cases := some cases, fnArgs := some fnArgs, batchsize := some batchsize, numBatches := some numBatches, remainder := some remainder, shuffle := some shuffle, farmer := some (FarmerPkl.pickled true), constants := some (sowConstants.getD []) }) then (trace, some .other) else
    (trace, none)
  else
    let trace := trace ++ [(.writeInfo { combos := some combos, cases := some cases, fnArgs := some fnArgs, batchsize := some batchsize, numBatches := some numBatches, remainder := some remainder, shuffle := some shuffle, farmer := some FarmerPkl.none, constants := some (sowConstants.getD []) })]
    if fails (.writeInfo { combos := some combos, cases := some cases, fnArgs := some fnArgs, batchsize := some batchsize, numBatches := some numBatches, remainder := some remainder, shuffle := some shuffle, farmer := some FarmerPkl.none, constants := some (sowConstants.getD []) }) then (trace, some .other) else
    (trace, none)

def prepareLc {C K A V : Type} (o : LcOps C K A V) (fails : LEff C K A V → Bool) (combos : C) (cases : K) (fnArgs : A) (saveFn farmerIsNone hasRunner : Bool) (runnerConstants runnerResources : Dict V) (batchsize numBatches remainder shuffle : Option Int) (sowConstants : Option (Dict V)) (trace : List (LEff C K A V)) : List (LEff C K A V) × Option PyErr :=
  let trace := trace ++ [(.mkDir .batches true)]
  if fails (.mkDir .batches true) then (trace, some .other) else
  let trace := trace ++ [(.mkDir .results true)]
  if fails (.mkDir .results true) then (trace, some .other) else
  if saveFn then
    let trace := trace ++ [.pickleFn]
    if fails .pickleFn then (trace, some .other) else
    let trace := trace ++ [.writeFn]
    if fails .writeFn then (trace, some .other) else
    let i3Combos := combos
    let i3Cases := cases
    let i3Fnargs := fnArgs
    if (!farmerIsNone) then
      let trace := trace ++ [(.pickleFarmer true)]
      if fails (.pickleFarmer true) then (trace, some .other) else
      let trace := trace ++ [(.writeInfo { combos := some i3Combos, cases := some i3Cases, fnArgs := some i3Fnargs, batchsize := some batchsize, numBatches := some numBatches, remainder := some remainder, shuffle := some shuffle, farmer := some (FarmerPkl.pickled true), constants := some (sowConstants.getD []) })]
      if fails (.writeInfo { combos := some i3Combos, cases := some i3Cases, fnArgs := some i3Fnargs, batchsize := some batchsize, numBatches := some numBatches, remainder := some remainder, shuffle := some shuffle, farmer := some (FarmerPkl.pickled true), constants := some (sowConstants.getD []) }) then (trace, some .other) else
      (trace, none)
    else
      let trace := trace ++ [(.writeInfo { combos := some i3Combos, cases := some i3Cases, fnArgs := some i3Fnargs, batchsize := some batchsize, numBatches := some numBatches, remainder := some remainder, shuffle := some shuffle, farmer := some FarmerPkl.none, constants := some (sowConstants.getD []) })]
      if fails (.writeInfo { combos := some i3Combos, cases := some i3Cases, fnArgs := some i3Fnargs, batchsize := some batchsize, numBatches := some numBatches, remainder := some remainder, shuffle := some shuffle, farmer := some FarmerPkl.none, constants := some (sowConstants.getD []) }) then (trace, some .other) else
      (trace, none)
  else
    let i4Combos := combos
    let i4Cases := cases
    let i4Fnargs := fnArgs
    if (!farmerIsNone) then
      let trace := trace ++ [(.pickleFarmer true)]
      if fails (.pickleFarmer true) then (trace, some .other) else
      let trace := trace ++ [(.writeInfo { combos := some i4Combos, cases := some i4Cases, fnArgs := some i4Fnargs, batchsize := some batchsize, numBatches := some numBatches, remainder := some remainder, shuffle := some shuffle, farmer := some (FarmerPkl.pickled true), constants := some (sowConstants.getD []) })]
      if fails (.writeInfo { combos := some i4Combos, cases := some i4Cases, fnArgs := some i4Fnargs, batchsize := some batchsize, numBatches := some numBatches, remainder := some remainder, shuffle := some shuffle, farmer := some (FarmerPkl.pickled true), constants := some (sowConstants.getD []) }) then (trace, some .other) else
      (trace, none)
    else
      let trace := trace ++ [(.writeInfo { combos := some i4Combos, cases := some i4Cases, fnArgs := some i4Fnargs, batchsize := some batchsize, numBatches := some numBatches, remainder := some remainder, shuffle := some shuffle, farmer := some FarmerPkl.none, constants := some (sowConstants.getD []) })]
      if fails (.writeInfo { combos := some i4Combos, cases := some i4Cases, fnArgs := some i4Fnargs, batchsize := some batchsize, numBatches := some numBatches, remainder := some remainder, shuffle := some shuffle, farmer := some FarmerPkl.none, constants := some (sowConstants.getD []) }) then (trace, some .other) else
      (trace, none)

def deleteAllLc {C K A V : Type} (o : LcOps C K A V) (fails : LEff C K A V → Bool) (trace : List (LEff C K A V)) : List (LEff C K A V) × Option PyErr :=
  let trace := trace ++ [.deleteAll]
  if fails .deleteAll then (trace, some .other) else
  (trace, none)

def loadInfoLc {C K A V : Type} (o : LcOps C K A V) (fails : LEff C K A V → Bool) (infoIsFile : Bool) (trace : List (LEff C K A V)) : List (LEff C K A V) × Option PyErr :=
  if (!infoIsFile) then
    (trace, some .xyzError)
  else
    let trace := trace ++ [.loadInfo]
    if fails .loadInfo then (trace, some .other) else
    (trace, none)

def sowCasesLc {C K A V : Type} (o : LcOps C K A V) (fails : LEff C K A V → Bool) (fnArgs : A) (cases : K) (combos : C) (constants : Dict V) (batchsizeArg numBatchesArg : Option Int) (saveFn farmerIsNone hasRunner : Bool) (runnerConstants runnerResources : Dict V) (batchsize numBatches remainder shuffle : Option Int) (sowConstants : Option (Dict V)) (trace : List (LEff C K A V)) : LRes C K A V :=
  let batchsize := if batchsizeArg.isSome then
      let batchsize : Option Int := batchsizeArg
      batchsize
    else
      batchsize
  let numBatches := if numBatchesArg.isSome then
      let numBatches : Option Int := numBatchesArg
      numBatches
    else
      numBatches
  let trace := trace ++ [(.parse .fnArgs)]
  if fails (.parse .fnArgs) then ((trace, batchsize, numBatches, remainder, shuffle, sowConstants), some .other) else
  let fnArgs := (o.parseFnArgs fnArgs)
  let trace := trace ++ [(.parse .cases)]
  if fails (.parse .cases) then ((trace, batchsize, numBatches, remainder, shuffle, sowConstants), some .other) else
  let cases := (o.parseCases cases (some fnArgs))
  let i1Constants := constants
  let trace := trace ++ [(.parse .constants)]
  if fails (.parse .constants) then ((trace, batchsize, numBatches, remainder, shuffle, sowConstants), some .other) else
  let i1Constants := (o.parseConstants i1Constants)
  let sowConstants := (some i1Constants)
  let i1Constants := if hasRunner then
      let i1Constants := (dictMerge runnerConstants i1Constants)
      let i1Constants := (dictMerge runnerResources i1Constants)
      i1Constants
    else
      i1Constants
  let constants := i1Constants
  (match chooseBatchSettings (o.combosTruthy combos) (o.combosProd combos) (o.casesTruthy cases) (o.casesLen cases) batchsize numBatches remainder with
  | .error e => ((trace, batchsize, numBatches, remainder, shuffle, sowConstants), some e)
  | .ok (batchsize, numBatches, remainder) =>
    let i2Combos := combos
    let i2Cases := cases
    let i2Fnargs := fnArgs
    let trace := trace ++ [(.mkDir .batches true)]
    if fails (.mkDir .batches true) then ((trace, batchsize, numBatches, remainder, shuffle, sowConstants), some .other) else
    let trace := trace ++ [(.mkDir .results true)]
    if fails (.mkDir .results true) then ((trace, batchsize, numBatches, remainder, shuffle, sowConstants), some .other) else
    if saveFn then
      let trace := trace ++ [.pickleFn]
      if fails .pickleFn then ((trace, batchsize, numBatches, remainder, shuffle, sowConstants), some .other) else
      let trace := trace ++ [.writeFn]
      if fails .writeFn then ((trace, batchsize, numBatches, remainder, shuffle, sowConstants), some .other) else
      let i5Combos := i2Combos
      let i5Cases := i2Cases
      let i5Fnargs := i2Fnargs
      if (!farmerIsNone) then
        let trace := trace ++ [(.pickleFarmer true)]
        if fails (.pickleFarmer true) then ((trace, batchsize, numBatches, remainder, shuffle, sowConstants), some .other) else
        let trace := trace ++ [(.writeInfo { combos := some i5Combos, cases := some i5Cases, fnArgs := some i5Fnargs, batchsize := some batchsize, numBatches := some numBatches, remainder := some remainder, shuffle := some shuffle, farmer := some (FarmerPkl.pickled true), constants := some (sowConstants.getD []) })]
        if fails (.writeInfo { combos := some i5Combos, cases := some i5Cases, fnArgs := some i5Fnargs, batchsize := some batchsize, numBatches := some numBatches, remainder := some remainder, shuffle := some shuffle, farmer := some (FarmerPkl.pickled true), constants := some (sowConstants.getD []) }) then ((trace, batchsize, numBatches, remainder, shuffle, sowConstants), some .other) else
        let trace := trace ++ [(.runSower { runner := .caseRunner, combos := combos, cases := cases, fnArgs := fnArgs, constants := constants, shuffle := shuffle, parse := false })]
        if fails (.runSower { runner := .caseRunner, combos := combos, cases := cases, fnArgs := fnArgs, constants := constants, shuffle := shuffle, parse := false }) then ((trace, batchsize, numBatches, remainder, shuffle, sowConstants), some .other) else
        let trace := trace ++ [.exitSower]
        if fails .exitSower then ((trace, batchsize, numBatches, remainder, shuffle, sowConstants), some .other) else
        ((trace, batchsize, numBatches, remainder, shuffle, sowConstants), none)
      else
        let trace := trace ++ [(.writeInfo { combos := some i5Combos, cases := some i5Cases, fnArgs := some i5Fnargs, batchsize := some batchsize, numBatches := some numBatches, remainder := some remainder, shuffle := some shuffle, farmer := some FarmerPkl.none, constants := some (sowConstants.getD []) })]
        if fails (.writeInfo { combos := some i5Combos, cases := some i5Cases, fnArgs := some i5Fnargs, batchsize := some batchsize, numBatches := some numBatches, remainder := some remainder, shuffle := some shuffle, farmer := some FarmerPkl.none, constants := some (sowConstants.getD []) }) then ((trace, batchsize, numBatches, remainder, shuffle, sowConstants), some .other) else
        let trace := trace ++ [(.runSower { runner := .caseRunner, combos := combos, cases := cases, fnArgs := fnArgs, constants := constants, shuffle := shuffle, parse := false })]
        if fails (.runSower { runner := .caseRunner, combos := combos, cases := cases, fnArgs := fnArgs, constants := constants, shuffle := shuffle, parse := false }) then ((trace, batchsize, numBatches, remainder, shuffle, sowConstants), some .other) else
        let trace := trace ++ [.exitSower]
        if fails .exitSower then ((trace, batchsize, numBatches, remainder, shuffle, sowConstants), some .other) else
        ((trace, batchsize, numBatches, remainder, shuffle, sowConstants), none)
    else
      let i6Combos := i2Combos
      let i6Cases := i2Cases
      let i6Fnargs := i2Fnargs
      if (!farmerIsNone) then
        let trace := trace ++ [(.pickleFarmer true)]
        if fails (.pickleFarmer true) then ((trace, batchsize, numBatches, remainder, shuffle, sowConstants), some .other) else
        let trace := trace ++ [(.writeInfo { combos := some i6Combos, cases := some i6Cases, fnArgs := some i6Fnargs, batchsize := some batchsize, numBatches := some numBatches, remainder := some remainder, shuffle := some shuffle, farmer := some (FarmerPkl.pickled true), constants := some (sowConstants.getD []) })]
        if fails (.writeInfo { combos := some i6Combos, cases := some i6Cases, fnArgs := some i6Fnargs, batchsize := some batchsize, numBatches := some numBatches, remainder := some remainder, shuffle := some shuffle, farmer := some (FarmerPkl.pickled true), constants := some (sowConstants.getD []) }) then ((trace, batchsize, numBatches, remainder, shuffle, sowConstants), some .other) else
        let trace := trace ++ [(.runSower { runner := .caseRunner, combos := combos, cases := cases, fnArgs := fnArgs, constants := constants, shuffle := shuffle, parse := false })]
        if fails (.runSower { runner := .caseRunner, combos := combos, cases := cases, fnArgs := fnArgs, constants := constants, shuffle := shuffle, parse := false }) then ((trace, batchsize, numBatches, remainder, shuffle, sowConstants), some .other) else
        let trace := trace ++ [.exitSower]
        if fails .exitSower then ((trace, batchsize, numBatches, remainder, shuffle, sowConstants), some .other) else
        ((trace, batchsize, numBatches, remainder, shuffle, sowConstants), none)
      else
        let trace := trace ++ [(.writeInfo { combos := some i6Combos, cases := some i6Cases, fnArgs := some i6Fnargs, batchsize := some batchsize, numBatches := some numBatches, remainder := some remainder, shuffle := some shuffle, farmer := some FarmerPkl.none, constants := some (sowConstants.getD []) })]
        if fails (.writeInfo { combos := some i6Combos, cases := some i6Cases, fnArgs := some i6Fnargs, batchsize := some batchsize, numBatches := some numBatches, remainder := some remainder, shuffle := some shuffle, farmer := some FarmerPkl.none, constants := some (sowConstants.getD []) }) then ((trace, batchsize, numBatches, remainder, shuffle, sowConstants), some .other) else
        let trace := trace ++ [(.runSower { runner := .caseRunner, combos := combos, cases := cases, fnArgs := fnArgs, constants := constants, shuffle := shuffle, parse := false })]
        if fails (.runSower { runner := .caseRunner, combos := combos, cases := cases, fnArgs := fnArgs, constants := constants, shuffle := shuffle, parse := false }) then ((trace, batchsize, numBatches, remainder, shuffle, sowConstants), some .other) else
        let trace := trace ++ [.exitSower]
        if fails .exitSower then ((trace, batchsize, numBatches, remainder, shuffle, sowConstants), some .other) else
        ((trace, batchsize, numBatches, remainder, shuffle, sowConstants), none))

def sowCombosLc {C K A V : Type} (o : LcOps C K A V) (fails : LEff C K A V → Bool) (combos : C) (cases : K) (constants : Dict V) (shuffleArg batchsizeArg numBatchesArg : Option Int) (saveFn farmerIsNone hasRunner : Bool) (runnerConstants runnerResources : Dict V) (batchsize numBatches remainder shuffle : Option Int) (sowConstants : Option (Dict V)) (trace : List (LEff C K A V)) : LRes C K A V :=
  let batchsize := if batchsizeArg.isSome then
      let batchsize : Option Int := batchsizeArg
      batchsize
    else
      batchsize
  let numBatches := if numBatchesArg.isSome then
      let numBatches : Option Int := numBatchesArg
      numBatches
    else
      numBatches
  let shuffle := if shuffleArg.isSome then
      let shuffle : Option Int := shuffleArg
      shuffle
    else
      shuffle
  let trace := trace ++ [(.parse .combos)]
  if fails (.parse .combos) then ((trace, batchsize, numBatches, remainder, shuffle, sowConstants), some .other) else
  let combos := (o.parseCombos combos)
  let trace := trace ++ [(.parse .cases)]
  if fails (.parse .cases) then ((trace, batchsize, numBatches, remainder, shuffle, sowConstants), some .other) else
  let cases := (o.parseCases cases none)
  let i1Constants := constants
  let trace := trace ++ [(.parse .constants)]
  if fails (.parse .constants) then ((trace, batchsize, numBatches, remainder, shuffle, sowConstants), some .other) else
  let i1Constants := (o.parseConstants i1Constants)
  let sowConstants := (some i1Constants)
  let i1Constants := if hasRunner then
      let i1Constants := (dictMerge runnerConstants i1Constants)
      let i1Constants := (dictMerge runnerResources i1Constants)
      i1Constants
    else
      i1Constants
  let constants := i1Constants
  let combos := (o.sortByName combos)
  (match chooseBatchSettings (o.combosTruthy combos) (o.combosProd combos) (o.casesTruthy cases) (o.casesLen cases) batchsize numBatches remainder with
  | .error e => ((trace, batchsize, numBatches, remainder, shuffle, sowConstants), some e)
  | .ok (batchsize, numBatches, remainder) =>
    let i2Combos := combos
    let i2Cases := cases
    let i2Fnargs := o.noneA
    let trace := trace ++ [(.mkDir .batches true)]
    if fails (.mkDir .batches true) then ((trace, batchsize, numBatches, remainder, shuffle, sowConstants), some .other) else
    let trace := trace ++ [(.mkDir .results true)]
    if fails (.mkDir .results true) then ((trace, batchsize, numBatches, remainder, shuffle, sowConstants), some .other) else
    if saveFn then
      let trace := trace ++ [.pickleFn]
      if fails .pickleFn then ((trace, batchsize, numBatches, remainder, shuffle, sowConstants), some .other) else
      let trace := trace ++ [.writeFn]
      if fails .writeFn then ((trace, batchsize, numBatches, remainder, shuffle, sowConstants), some .other) else
      let i5Combos := i2Combos
      let i5Cases := i2Cases
      let i5Fnargs := i2Fnargs
      if (!farmerIsNone) then
        let trace := trace ++ [(.pickleFarmer true)]
        if fails (.pickleFarmer true) then ((trace, batchsize, numBatches, remainder, shuffle, sowConstants), some .other) else
        let trace := trace ++ [(.writeInfo { combos := some i5Combos, cases := some i5Cases, fnArgs := some i5Fnargs, batchsize := some batchsize, numBatches := some numBatches, remainder := some remainder, shuffle := some shuffle, farmer := some (FarmerPkl.pickled true), constants := some (sowConstants.getD []) })]
        if fails (.writeInfo { combos := some i5Combos, cases := some i5Cases, fnArgs := some i5Fnargs, batchsize := some batchsize, numBatches := some numBatches, remainder := some remainder, shuffle := some shuffle, farmer := some (FarmerPkl.pickled true), constants := some (sowConstants.getD []) }) then ((trace, batchsize, numBatches, remainder, shuffle, sowConstants), some .other) else
        let trace := trace ++ [(.runSower { runner := .comboRunnerCore, combos := combos, cases := cases, fnArgs := o.noneA, constants := constants, shuffle := shuffle, parse := true })]
        if fails (.runSower { runner := .comboRunnerCore, combos := combos, cases := cases, fnArgs := o.noneA, constants := constants, shuffle := shuffle, parse := true }) then ((trace, batchsize, numBatches, remainder, shuffle, sowConstants), some .other) else
        let trace := trace ++ [.exitSower]
        if fails .exitSower then ((trace, batchsize, numBatches, remainder, shuffle, sowConstants), some .other) else
        ((trace, batchsize, numBatches, remainder, shuffle, sowConstants), none)
      else
        let trace := trace ++ [(.writeInfo { combos := some i5Combos, cases := some i5Cases, fnArgs := some i5Fnargs, batchsize := some batchsize, numBatches := some numBatches, remainder := some remainder, shuffle := some shuffle, farmer := some FarmerPkl.none, constants := some (sowConstants.getD []) })]
        if fails (.writeInfo { combos := some i5Combos, cases := some i5Cases, fnArgs := some i5Fnargs, batchsize := some batchsize, numBatches := some numBatches, remainder := some remainder, shuffle := some shuffle, farmer := some FarmerPkl.none, constants := some (sowConstants.getD []) }) then ((trace, batchsize, numBatches, remainder, shuffle, sowConstants), some .other) else
        let trace := trace ++ [(.runSower { runner := .comboRunnerCore, combos := combos, cases := cases, fnArgs := o.noneA, constants := constants, shuffle := shuffle, parse := true })]
        if fails (.runSower { runner := .comboRunnerCore, combos := combos, cases := cases, fnArgs := o.noneA, constants := constants, shuffle := shuffle, parse := true }) then ((trace, batchsize, numBatches, remainder, shuffle, sowConstants), some .other) else
        let trace := trace ++ [.exitSower]
        if fails .exitSower then ((trace, batchsize, numBatches, remainder, shuffle, sowConstants), some .other) else
        ((trace, batchsize, numBatches, remainder, shuffle, sowConstants), none)
    else
      let i6Combos := i2Combos
      let i6Cases := i2Cases
      let i6Fnargs := i2Fnargs
      if (!farmerIsNone) then
        let trace := trace ++ [(.pickleFarmer true)]
        if fails (.pickleFarmer true) then ((trace, batchsize, numBatches, remainder, shuffle, sowConstants), some .other) else
        let trace := trace ++ [(.writeInfo { combos := some i6Combos, cases := some i6Cases, fnArgs := some i6Fnargs, batchsize := some batchsize, numBatches := some numBatches, remainder := some remainder, shuffle := some shuffle, farmer := some (FarmerPkl.pickled true), constants := some (sowConstants.getD []) })]
        if fails (.writeInfo { combos := some i6Combos, cases := some i6Cases, fnArgs := some i6Fnargs, batchsize := some batchsize, numBatches := some numBatches, remainder := some remainder, shuffle := some shuffle, farmer := some (FarmerPkl.pickled true), constants := some (sowConstants.getD []) }) then ((trace, batchsize, numBatches, remainder, shuffle, sowConstants), some .other) else
        let trace := trace ++ [(.runSower { runner := .comboRunnerCore, combos := combos, cases := cases, fnArgs := o.noneA, constants := constants, shuffle := shuffle, parse := true })]
        if fails (.runSower { runner := .comboRunnerCore, combos := combos, cases := cases, fnArgs := o.noneA, constants := constants, shuffle := shuffle, parse := true }) then ((trace, batchsize, numBatches, remainder, shuffle, sowConstants), some .other) else
        let trace := trace ++ [.exitSower]
        if fails .exitSower then ((trace, batchsize, numBatches, remainder, shuffle, sowConstants), some .other) else
        ((trace, batchsize, numBatches, remainder, shuffle, sowConstants), none)
      else
        let trace := trace ++ [(.writeInfo { combos := some i6Combos, cases := some i6Cases, fnArgs := some i6Fnargs, batchsize := some batchsize, numBatches := some numBatches, remainder := some remainder, shuffle := some shuffle, farmer := some FarmerPkl.none, constants := some (sowConstants.getD []) })]
        if fails (.writeInfo { combos := some i6Combos, cases := some i6Cases, fnArgs := some i6Fnargs, batchsize := some batchsize, numBatches := some numBatches, remainder := some remainder, shuffle := some shuffle, farmer := some FarmerPkl.none, constants := some (sowConstants.getD []) }) then ((trace, batchsize, numBatches, remainder, shuffle, sowConstants), some .other) else
        let trace := trace ++ [(.runSower { runner := .comboRunnerCore, combos := combos, cases := cases, fnArgs := o.noneA, constants := constants, shuffle := shuffle, parse := true })]
        if fails (.runSower { runner := .comboRunnerCore, combos := combos, cases := cases, fnArgs := o.noneA, constants := constants, shuffle := shuffle, parse := true }) then ((trace, batchsize, numBatches, remainder, shuffle, sowConstants), some .other) else
        let trace := trace ++ [.exitSower]
        if fails .exitSower then ((trace, batchsize, numBatches, remainder, shuffle, sowConstants), some .other) else
        ((trace, batchsize, numBatches, remainder, shuffle, sowConstants), none))

def sowSamplesLc {C K A V : Type} (o : LcOps C K A V) (fails : LEff C K A V → Bool) (n : Int) (combos : C) (constants : Dict V) (saveFn farmerIsNone hasRunner : Bool) (runnerConstants runnerResources : Dict V) (batchsize numBatches remainder shuffle : Option Int) (sowConstants : Option (Dict V)) (trace : List (LEff C K A V)) : LRes C K A V :=
  let trace := trace ++ [(.parse .genCases)]
  if fails (.parse .genCases) then ((trace, batchsize, numBatches, remainder, shuffle, sowConstants), some .other) else
  let fnArgs := (o.genFnArgs n combos)
  let cases := (o.genCases n combos)
  sowCasesLc o fails fnArgs cases o.noneC constants (none : Option Int) (none : Option Int) saveFn farmerIsNone hasRunner runnerConstants runnerResources batchsize numBatches remainder shuffle sowConstants trace

def reapCombosLc {C K A V : Type} (o : LcOps C K A V) (fails : LEff C K A V → Bool) (info : InfoRec C K A V) (wait : Bool) (cleanUp : Option Bool) (allowIncomplete : Bool) (selfBatchsize selfNumBatches selfRemainder selfShuffle : Option Int) (trace : List (LEff C K A V)) : List (LEff C K A V) × Option PyErr :=
  let trace := trace ++ [.checkReady]
  if fails .checkReady then (trace, some .other) else
  (match calcCleanUp cleanUp allowIncomplete with
  | .error e => (trace, some e)
  | .ok (cleanUp, defaultResult) =>
    let trace := if defaultResult then trace ++ [.allNan] else trace
    if defaultResult && fails .allNan then (trace, some .other) else
    let trace := trace ++ [.loadInfo]
    if fails .loadInfo then (trace, some .other) else
    (match getKey info.numBatches with
    | .error e => (trace, some e)
    | .ok kNumBatches =>
      (match getKey info.combos with
      | .error e => (trace, some e)
      | .ok kCombos =>
        (match getKey info.cases with
        | .error e => (trace, some e)
        | .ok kCases =>
          let trace := trace ++ [(.gather { runner := .comboRunnerCore, numBatches := kNumBatches, combos := kCombos, cases := kCases, constants := ([] : Dict V), shuffle := (info.shuffle.getD (some 0 : Option Int)), parse := true })]
          if fails (.gather { runner := .comboRunnerCore, numBatches := kNumBatches, combos := kCombos, cases := kCases, constants := ([] : Dict V), shuffle := (info.shuffle.getD (some 0 : Option Int)), parse := true }) then (trace, some .other) else
          let results := ()
          let trace := trace ++ [.reaperExit]
          if fails .reaperExit then (trace, some .other) else
          if (cleanUp == some true) then
            let trace := trace ++ [.deleteAll]
            if fails .deleteAll then (trace, some .other) else
            (trace, none)
          else
            (trace, none)))))

def reapCombosToDsLc {C K A V : Type} (o : LcOps C K A V) (fails : LEff C K A V → Bool) (info : InfoRec C K A V) (wait : Bool) (cleanUp : Option Bool) (allowIncomplete : Bool) (selfBatchsize selfNumBatches selfRemainder selfShuffle : Option Int) (constants : Dict V) (parse toDf : Bool) (trace : List (LEff C K A V)) : List (LEff C K A V) × Option PyErr :=
  let trace := trace ++ [.checkReady]
  if fails .checkReady then (trace, some .other) else
  (match calcCleanUp cleanUp allowIncomplete with
  | .error e => (trace, some e)
  | .ok (cleanUp, defaultResult) =>
    let trace := if defaultResult then trace ++ [.allNan] else trace
    if defaultResult && fails .allNan then (trace, some .other) else
    let trace := trace ++ [.loadInfo]
    if fails .loadInfo then (trace, some .other) else
    if parse then
      let trace := trace ++ [(.parse .constants)]
      if fails (.parse .constants) then (trace, some .other) else
      let constants := (o.parseConstants constants)
      let trace := trace ++ [(.parse .attrs)]
      if fails (.parse .attrs) then (trace, some .other) else
      let attrs := ()
      (match getKey info.numBatches with
      | .error e => (trace, some e)
      | .ok kNumBatches =>
        (match getKey info.combos with
        | .error e => (trace, some e)
        | .ok kCombos =>
          (match getKey info.cases with
          | .error e => (trace, some e)
          | .ok kCases =>
            let trace := trace ++ [(.gather { runner := .comboRunnerToDs, numBatches := kNumBatches, combos := kCombos, cases := kCases, constants := constants, shuffle := (info.shuffle.getD (some 0 : Option Int)), parse := parse })]
            if fails (.gather { runner := .comboRunnerToDs, numBatches := kNumBatches, combos := kCombos, cases := kCases, constants := constants, shuffle := (info.shuffle.getD (some 0 : Option Int)), parse := parse }) then (trace, some .other) else
            let trace := trace ++ [.label]
            if fails .label then (trace, some .other) else
            let data := ()
            let trace := trace ++ [.reaperExit]
            if fails .reaperExit then (trace, some .other) else
            if (cleanUp == some true) then
              let trace := trace ++ [.deleteAll]
              if fails .deleteAll then (trace, some .other) else
              (trace, none)
            else
              (trace, none))))
    else
      (match getKey info.numBatches with
      | .error e => (trace, some e)
      | .ok kNumBatches =>
        (match getKey info.combos with
        | .error e => (trace, some e)
        | .ok kCombos =>
          (match getKey info.cases with
          | .error e => (trace, some e)
          | .ok kCases =>
            let trace := trace ++ [(.gather { runner := .comboRunnerToDs, numBatches := kNumBatches, combos := kCombos, cases := kCases, constants := constants, shuffle := (info.shuffle.getD (some 0 : Option Int)), parse := parse })]
            if fails (.gather { runner := .comboRunnerToDs, numBatches := kNumBatches, combos := kCombos, cases := kCases, constants := constants, shuffle := (info.shuffle.getD (some 0 : Option Int)), parse := parse }) then (trace, some .other) else
            let trace := trace ++ [.label]
            if fails .label then (trace, some .other) else
            let data := ()
            let trace := trace ++ [.reaperExit]
            if fails .reaperExit then (trace, some .other) else
            if (cleanUp == some true) then
              let trace := trace ++ [.deleteAll]
              if fails .deleteAll then (trace, some .other) else
              (trace, none)
            else
              (trace, none)))))

def reapRunnerLc {C K A V : Type} (o : LcOps C K A V) (fails : LEff C K A V → Bool) (info : InfoRec C K A V) (wait : Bool) (cleanUp : Option Bool) (allowIncomplete : Bool) (selfBatchsize selfNumBatches selfRemainder selfShuffle : Option Int) (runnerConstants : Dict V) (toDf : Bool) (trace : List (LEff C K A V)) : List (LEff C K A V) × Option PyErr :=
  let trace := trace ++ [.loadInfo]
  if fails .loadInfo then (trace, some .other) else
  let sowConstants := (info.constants.getD [])
  let i1Varnames := ()
  let i1Vardims := ()
  let i1Varcoords := ()
  let i1Constants := (dictMerge runnerConstants sowConstants)
  let i1Attrs := ()
  let i1Parse := false
  let i1Wait := wait
  let i1Cleanup := cleanUp
  let i1Allowincomplete := allowIncomplete
  let i1Todf := toDf
  let trace := trace ++ [.checkReady]
  if fails .checkReady then (trace, some .other) else
  (match calcCleanUp i1Cleanup i1Allowincomplete with
  | .error e => (trace, some e)
  | .ok (i1_cleanUp, i1_defaultResult) =>
    let trace := if i1_defaultResult then trace ++ [.allNan] else trace
    if i1_defaultResult && fails .allNan then (trace, some .other) else
    let trace := trace ++ [.loadInfo]
    if fails .loadInfo then (trace, some .other) else
    if i1Parse then
      let trace := trace ++ [(.parse .constants)]
      if fails (.parse .constants) then (trace, some .other) else
      let i1Constants := (o.parseConstants i1Constants)
      let trace := trace ++ [(.parse .attrs)]
      if fails (.parse .attrs) then (trace, some .other) else
      let i1Attrs := ()
      (match getKey info.numBatches with
      | .error e => (trace, some e)
      | .ok i1_kNumBatches =>
        (match getKey info.combos with
        | .error e => (trace, some e)
        | .ok i1_kCombos =>
          (match getKey info.cases with
          | .error e => (trace, some e)
          | .ok i1_kCases =>
            let trace := trace ++ [(.gather { runner := .comboRunnerToDs, numBatches := i1_kNumBatches, combos := i1_kCombos, cases := i1_kCases, constants := i1Constants, shuffle := (info.shuffle.getD (some 0 : Option Int)), parse := i1Parse })]
            if fails (.gather { runner := .comboRunnerToDs, numBatches := i1_kNumBatches, combos := i1_kCombos, cases := i1_kCases, constants := i1Constants, shuffle := (info.shuffle.getD (some 0 : Option Int)), parse := i1Parse }) then (trace, some .other) else
            let trace := trace ++ [.label]
            if fails .label then (trace, some .other) else
            let i1_data := ()
            let trace := trace ++ [.reaperExit]
            if fails .reaperExit then (trace, some .other) else
            if (i1_cleanUp == some true) then
              let trace := trace ++ [.deleteAll]
              if fails .deleteAll then (trace, some .other) else
              let data := i1_data
              let trace := trace ++ [.setLast]
              if fails .setLast then (trace, some .other) else
              (trace, none)
            else
              let data := i1_data
              let trace := trace ++ [.setLast]
              if fails .setLast then (trace, some .other) else
              (trace, none))))
    else
      (match getKey info.numBatches with
      | .error e => (trace, some e)
      | .ok i1_kNumBatches =>
        (match getKey info.combos with
        | .error e => (trace, some e)
        | .ok i1_kCombos =>
          (match getKey info.cases with
          | .error e => (trace, some e)
          | .ok i1_kCases =>
            let trace := trace ++ [(.gather { runner := .comboRunnerToDs, numBatches := i1_kNumBatches, combos := i1_kCombos, cases := i1_kCases, constants := i1Constants, shuffle := (info.shuffle.getD (some 0 : Option Int)), parse := i1Parse })]
            if fails (.gather { runner := .comboRunnerToDs, numBatches := i1_kNumBatches, combos := i1_kCombos, cases := i1_kCases, constants := i1Constants, shuffle := (info.shuffle.getD (some 0 : Option Int)), parse := i1Parse }) then (trace, some .other) else
            let trace := trace ++ [.label]
            if fails .label then (trace, some .other) else
            let i1_data := ()
            let trace := trace ++ [.reaperExit]
            if fails .reaperExit then (trace, some .other) else
            if (i1_cleanUp == some true) then
              let trace := trace ++ [.deleteAll]
              if fails .deleteAll then (trace, some .other) else
              let data := i1_data
              let trace := trace ++ [.setLast]
              if fails .setLast then (trace, some .other) else
              (trace, none)
            else
              let data := i1_data
              let trace := trace ++ [.setLast]
              if fails .setLast then (trace, some .other) else
              (trace, none)))))

end Gen.Default
