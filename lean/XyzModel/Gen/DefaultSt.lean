import XyzModel.Gen.DefaultFn
import XyzModel.Gen.DefaultData
/-!
State skeletons (harness/pyst2lean.py, harness/anchors_st.py): the farmers' storage methods as functions over an abstract
state and a record of operations.  This file holds the vocabulary (`NameRef`, `StoreOps`, `stBind`, `stFinally`) and the
last-good text of the generated functions (`Gen.Default.*`).
-/
namespace Gen

/-- which file name an operation is handed -/
inductive NameRef (G : Type) where
  | bare                              -- `self.data_name`
  | ext (engine : Option G)           -- `auto_add_extension(self.data_name, engine)`
  | tmp (of : NameRef G)              -- `<dir of F>/.tmp-<pid>-<base of F>` for such a name F
deriving Repr, DecidableEq

/-- the operations the storage methods of `Harvester` / `Sampler` perform, on any state type `S`
(`D` data, `G` engines, `E` errors).  An operation that can raise returns the state it reached and the error. -/
structure StoreOps (S D G E : Type) where
  raised : PyErr → E                                      -- an exception raised by the method itself
  selfEngine : S → G                                      -- `self.engine`
  isZarr : Option G → Bool                                -- `engine == 'zarr'`
  memIsNone : S → Bool                                    -- `self._full_ds is None`
  mem : S → D                                             -- `self._full_ds` (meaningful when not `memIsNone`)
  setMem : S → D → S                                      -- `self._full_ds = d`
  accessW : S → NameRef G → Bool                          -- `os.access(name, os.W_OK)`
  isFile : S → NameRef G → Bool                           -- `os.path.isfile(name)`
  pathExists : S → NameRef G → Bool                       -- `os.path.exists(name)`
  loadData : S → NameRef G → Option G → Except E D        -- `load_ds(name, engine=…)` / `load_df`
  saveData : S → D → NameRef G → Option G → S × Option E  -- `save_ds(d, name, engine=…)` / `save_df`
  afterSave : Option G → D → D                            -- the object handed to the writer, afterwards (rewritten in place)
  replace : S → NameRef G → NameRef G → S × Option E      -- `os.replace(src, dst)`
  remove : S → NameRef G → S × Option E                   -- `os.remove(name)`
  rmtree : S → NameRef G → S × Option E                   -- `shutil.rmtree(name)`
  copy : D → D                                            -- `d.copy(deep=True)`
  merge : MergeKind → D → D → Except E D                  -- the xarray merge of (old, new) of that kind
  concat : D → D → D                                      -- `pd.concat([old, new], ignore_index=True)`

/-- continue on the state an operation reached unless it raised -/
def stBind {S E : Type} (r : S × Option E) (k : S → S × Option E) : S × Option E :=
  match r with
  | (s, some e) => (s, some e)
  | (s, none) => k s

/-- `try: A finally: B` — B runs on the state A reached; A's exception is re-raised unless B raises itself -/
def stFinally {S E : Type} (r : S × Option E) (fin : S → S × Option E) : S × Option E :=
  match r with
  | (s, none) => fin s
  | (s, some e) =>
    match fin s with
    | (s', none) => (s', some e)
    | (s', some e') => (s', some e')

@[simp] theorem stBind_err {S E : Type} (s : S) (e : E) (k) : stBind (s, some e) k = (s, some e) := rfl
@[simp] theorem stBind_ok {S E : Type} (s : S) (k : S → S × Option E) : stBind (s, none) k = k s := rfl
@[simp] theorem stFinally_ok {S E : Type} (s : S) (f : S → S × Option E) : stFinally (s, none) f = f s := rfl

end Gen

namespace Gen.Default
open Gen

def hvLoadFull {S D G E : Type} (o : StoreOps S D G E) (engine : Option G) (st : S) : S × Option E :=
  let engine := if engine.isNone then
      let engine := (some (o.selfEngine st))
      engine
    else
      engine
  if (o.accessW st (.ext engine)) then
    (match o.loadData st .bare engine with
    | .error e => (st, some e)
    | .ok loaded =>
      let st := o.setMem st loaded
      (st, none))
  else
    if (!(o.isFile st (.ext engine))) then
      (st, none)
    else
      (st, some (o.raised .other))

def hvSaveFull {S D G E : Type} (o : StoreOps S D G E) (dataNameNone newGiven : Bool) (newFullDs : D) (engine : Option G) (st : S) : S × Option E :=
  if dataNameNone then
    (st, some (o.raised .xyzError))
  else
    let engine := if engine.isNone then
        let engine := (some (o.selfEngine st))
        engine
      else
        engine
    if newGiven then
      if (o.isZarr engine) then
        (stBind (if (o.pathExists st (.ext engine)) then
            (stBind (o.rmtree st (.ext engine)) fun st =>
              (st, none))
          else
            (st, none)) fun st =>
          let st := o.setMem st newFullDs
          (stBind (o.saveData st (o.mem st) .bare engine) fun st =>
            let st := o.setMem st (o.afterSave engine (o.mem st))
            (st, none)))
      else
        (stBind (stFinally (
            (stBind (o.saveData st newFullDs (.tmp (.ext engine)) engine) fun st =>
              let newFullDs := (o.afterSave engine newFullDs)
              (stBind (o.replace st (.tmp (.ext engine)) (.ext engine)) fun st =>
                (st, none))))
          (fun st =>
            (stBind (if (o.pathExists st (.tmp (.ext engine))) then
                (stBind (o.remove st (.tmp (.ext engine))) fun st =>
                  (st, none))
              else
                (st, none)) fun st =>
              (st, none)))) fun st =>
          let newFullDs := (o.afterSave engine newFullDs)
          let st := o.setMem st newFullDs
          (st, none))
    else
      (stBind (o.saveData st (o.mem st) .bare engine) fun st =>
        let st := o.setMem st (o.afterSave engine (o.mem st))
        (st, none))

def hvAddDs {S D G E : Type} (o : StoreOps S D G E) (dataNameNone sync : Bool) (overwrite : Option Bool) (newDs : D) (engine : Option G) (st : S) : S × Option E :=
  let syncWithDisk : Bool := (sync && (!dataNameNone))
  (stBind (if syncWithDisk then
      (stBind (hvLoadFull o engine st) fun st =>
        (st, none))
    else
      (st, none)) fun st =>
    if (o.memIsNone st) then
      let newFullDs := (o.copy newDs)
      (stBind (if syncWithDisk then
          (stBind (hvSaveFull o dataNameNone true newFullDs engine st) fun st =>
            (st, none))
        else
          let st := o.setMem st newFullDs
          (st, none)) fun st =>
        (st, none))
    else
      if (overwrite == some true) then
        (match o.merge MergeKind.newFirst (o.mem st) newDs with
        | .error e => (st, some e)
        | .ok newFullDs =>
          (stBind (if syncWithDisk then
              (stBind (hvSaveFull o dataNameNone true newFullDs engine st) fun st =>
                (st, none))
            else
              let st := o.setMem st newFullDs
              (st, none)) fun st =>
            (st, none)))
      else
        if (overwrite == some false) then
          (match o.merge MergeKind.oldFirst (o.mem st) newDs with
          | .error e => (st, some e)
          | .ok newFullDs =>
            (stBind (if syncWithDisk then
                (stBind (hvSaveFull o dataNameNone true newFullDs engine st) fun st =>
                  (st, none))
              else
                let st := o.setMem st newFullDs
                (st, none)) fun st =>
              (st, none)))
        else
          (match o.merge MergeKind.noConflicts (o.mem st) newDs with
          | .error e => (st, some e)
          | .ok newFullDs =>
            (stBind (if syncWithDisk then
                (stBind (hvSaveFull o dataNameNone true newFullDs engine st) fun st =>
                  (st, none))
              else
                let st := o.setMem st newFullDs
                (st, none)) fun st =>
              (st, none))))

def smLoadFull {S D G E : Type} (o : StoreOps S D G E) (engine : Option G) (st : S) : S × Option E :=
  let engine := if engine.isNone then
      let engine := (some (o.selfEngine st))
      engine
    else
      engine
  if (o.accessW st .bare) then
    (match o.loadData st .bare engine with
    | .error e => (st, some e)
    | .ok loaded =>
      let st := o.setMem st loaded
      (st, none))
  else
    if (!(o.isFile st .bare)) then
      (st, none)
    else
      (st, some (o.raised .other))

def smSaveFull {S D G E : Type} (o : StoreOps S D G E) (newGiven : Bool) (newFullDf : D) (engine : Option G) (st : S) : S × Option E :=
  let engine := if engine.isNone then
      let engine := (some (o.selfEngine st))
      engine
    else
      engine
  if newGiven then
    (stBind (stFinally (
        (stBind (o.saveData st newFullDf (.tmp .bare) engine) fun st =>
          let newFullDf := (o.afterSave engine newFullDf)
          (stBind (o.replace st (.tmp .bare) .bare) fun st =>
            (st, none))))
      (fun st =>
        (stBind (if (o.pathExists st (.tmp .bare)) then
            (stBind (o.remove st (.tmp .bare)) fun st =>
              (st, none))
          else
            (st, none)) fun st =>
          (st, none)))) fun st =>
      let newFullDf := (o.afterSave engine newFullDf)
      let st := o.setMem st newFullDf
      (st, none))
  else
    (stBind (o.saveData st (o.mem st) .bare engine) fun st =>
      let st := o.setMem st (o.afterSave engine (o.mem st))
      (st, none))

def smAddDf {S D G E : Type} (o : StoreOps S D G E) (dataNameNone sync : Bool) (newDf : D) (engine : Option G) (st : S) : S × Option E :=
  let syncWithDisk : Bool := (sync && (!dataNameNone))
  (stBind (if syncWithDisk then
      (stBind (smLoadFull o engine st) fun st =>
        (st, none))
    else
      (st, none)) fun st =>
    if (o.memIsNone st) then
      let newFullDf := (o.copy newDf)
      (stBind (if syncWithDisk then
          (stBind (smSaveFull o true newFullDf engine st) fun st =>
            (st, none))
        else
          let st := o.setMem st newFullDf
          (st, none)) fun st =>
        (st, none))
    else
      let newFullDf := (o.concat (o.mem st) newDf)
      (stBind (if syncWithDisk then
          (stBind (smSaveFull o true newFullDf engine st) fun st =>
            (st, none))
        else
          let st := o.setMem st newFullDf
          (st, none)) fun st =>
        (st, none)))

end Gen.Default
