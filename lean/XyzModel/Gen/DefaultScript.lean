/-!
Last-good definitions of the C16 extraction anchors (harness/anchors_script.py; DESIGN.md Appendix D):
the sixteen script-template constants of `xyzpy/gen/cropping.py` and the decision logic of `gen_cluster_script`
(which ids, `run_start`/`run_stop`, which templates are concatenated, the single-mode "compute the ids in the job"
override, the PBS size-1 rewrite).  These defaults describe the repaired tree (D9 fixed: no stray `]` in
`tplSgeGrowPartial`).

Template text is written as a string literal and expanded to a `List Char` by `chars!` while the file is elaborated:
evaluating `String.toList` on a 500-character literal costs the Lean 4.33 kernel about half a minute (strings are UTF-8
byte arrays), a character list costs nothing.
-/
open Lean in
/-- `chars! "abc"` = `['a', 'b', 'c']` -/
macro "chars!" s:str : term => do
  let elems : Array (TSyntax `term) :=
    (s.getString.toList.map fun c => (⟨Syntax.mkCharLit c⟩ : TSyntax `term)).toArray
  `([$elems,*])

namespace Gen.Default

def tplSgeHeader : List Char := chars! "#!/bin/bash -l\n#$ -S /bin/bash\n#$ -N {name}\n#$ -l h_rt={hours}:{minutes}:{seconds},mem={gigabytes}G\n#$ -l tmpfs={temp_gigabytes}G\nmkdir -p {output_directory}\n#$ -wd {output_directory}\n#$ -pe {pe} {num_procs}\n{header_options}\n"
def tplSgeArrayHeader : List Char := chars! "#$ -t {run_start}-{run_stop}\n"
def tplPbsHeader : List Char := chars! "#!/bin/bash -l\n#PBS -N {name}\n#PBS -lselect={num_nodes}:ncpus={num_procs}:mem={gigabytes}gb\n#PBS -lwalltime={hours:02}:{minutes:02}:{seconds:02}\n{header_options}\n"
def tplPbsArrayHeader : List Char := chars! "#PBS -J {run_start}-{run_stop}\n"
def tplSlurmHeader : List Char := chars! "#!/bin/bash -l\n#SBATCH --job-name={name}\n#SBATCH --time={hours:02}:{minutes:02}:{seconds:02}\n{header_options}\n"
def tplSlurmArrayHeader : List Char := chars! "#SBATCH --array={run_start}-{run_stop}\n"
def tplBase : List Char := chars! "echo 'XYZPY script starting...'\ncd {working_directory}\nexport OMP_NUM_THREADS={num_threads}\nexport MKL_NUM_THREADS={num_threads}\nexport OPENBLAS_NUM_THREADS={num_threads}\nexport NUMBA_NUM_THREADS={num_threads}\n{shell_setup}\nread -r -d '' SCRIPT << EOM\n{setup}\nfrom xyzpy.gen.cropping import grow, Crop\nif __name__ == '__main__':\n    crop = Crop(name='{name}', parent_dir='{parent_dir}')\n    print('Growing:', repr(crop))\n"
def tplArrayGrowKwargs : List Char := chars! "    grow_kwargs = dict(crop=crop, debugging={debugging}, num_workers={num_workers})\n"
def tplSgeGrowAll : List Char := chars! "    grow_kwargs = dict(crop=crop, debugging={debugging}, num_workers={num_workers})\n    grow($SGE_TASK_ID, **grow_kwargs)\n"
def tplPbsGrowAll : List Char := chars! "    grow_kwargs = dict(crop=crop, debugging={debugging}, num_workers={num_workers})\n    grow($PBS_ARRAY_INDEX, **grow_kwargs)\n"
def tplSlurmGrowAll : List Char := chars! "    grow_kwargs = dict(crop=crop, debugging={debugging}, num_workers={num_workers})\n    grow($SLURM_ARRAY_TASK_ID, **grow_kwargs)\n"
def tplSgeGrowPartial : List Char := chars! "    grow_kwargs = dict(crop=crop, debugging={debugging}, num_workers={num_workers})\n    batch_ids = {batch_ids}\n    grow(batch_ids[$SGE_TASK_ID - 1], **grow_kwargs)\n"
def tplPbsGrowPartial : List Char := chars! "    grow_kwargs = dict(crop=crop, debugging={debugging}, num_workers={num_workers})\n    batch_ids = {batch_ids}\n    grow(batch_ids[$PBS_ARRAY_INDEX - 1], **grow_kwargs)\n"
def tplSlurmGrowPartial : List Char := chars! "    grow_kwargs = dict(crop=crop, debugging={debugging}, num_workers={num_workers})\n    batch_ids = {batch_ids}\n    grow(batch_ids[$SLURM_ARRAY_TASK_ID - 1], **grow_kwargs)\n"
def tplGrowSingle : List Char := chars! "    batch_ids = {batch_ids}\n    crop.grow(batch_ids, num_workers={num_workers})\n"
def tplScriptEnd : List Char := chars! "EOM\n{launcher} -c \"$SCRIPT\"\necho 'XYZPY script finished'\n"
def scriptPieces (sched mode am : List Char) : List (List Char) := if sched == chars! "sge" && mode == chars! "array" && am == chars! "all" then [tplSgeHeader, tplSgeArrayHeader, tplBase, tplSgeGrowAll, tplScriptEnd] else if sched == chars! "sge" && mode == chars! "array" && am == chars! "partial" then [tplSgeHeader, tplSgeArrayHeader, tplBase, tplSgeGrowPartial, tplScriptEnd] else if sched == chars! "sge" && mode == chars! "single" && am == chars! "all" then [tplSgeHeader, tplBase, tplGrowSingle, tplScriptEnd] else if sched == chars! "sge" && mode == chars! "single" && am == chars! "partial" then [tplSgeHeader, tplBase, tplGrowSingle, tplScriptEnd] else if sched == chars! "pbs" && mode == chars! "array" && am == chars! "all" then [tplPbsHeader, tplPbsArrayHeader, tplBase, tplPbsGrowAll, tplScriptEnd] else if sched == chars! "pbs" && mode == chars! "array" && am == chars! "partial" then [tplPbsHeader, tplPbsArrayHeader, tplBase, tplPbsGrowPartial, tplScriptEnd] else if sched == chars! "pbs" && mode == chars! "single" && am == chars! "all" then [tplPbsHeader, tplBase, tplGrowSingle, tplScriptEnd] else if sched == chars! "pbs" && mode == chars! "single" && am == chars! "partial" then [tplPbsHeader, tplBase, tplGrowSingle, tplScriptEnd] else if sched == chars! "slurm" && mode == chars! "array" && am == chars! "all" then [tplSlurmHeader, tplSlurmArrayHeader, tplBase, tplSlurmGrowAll, tplScriptEnd] else if sched == chars! "slurm" && mode == chars! "array" && am == chars! "partial" then [tplSlurmHeader, tplSlurmArrayHeader, tplBase, tplSlurmGrowPartial, tplScriptEnd] else if sched == chars! "slurm" && mode == chars! "single" && am == chars! "all" then [tplSlurmHeader, tplBase, tplGrowSingle, tplScriptEnd] else if sched == chars! "slurm" && mode == chars! "single" && am == chars! "partial" then [tplSlurmHeader, tplBase, tplGrowSingle, tplScriptEnd] else []
def scriptIdsChoice (explicitGiven : Bool) (numResults numBatches : Int) : Nat × Bool := (if explicitGiven then ((0 : Nat), false) else (if (decide (numResults = (0 : Int))) then ((1 : Nat), true) else ((2 : Nat), false)))
def scriptAllRangeStart (numBatches : Int) : Int := (1 : Int)
def scriptAllRangeStop (numBatches : Int) : Int := (numBatches + (1 : Int))
def scriptRunStart (numBatches lenIds : Int) : Int := (1 : Int)
def scriptRunStopAll (numBatches lenIds : Int) : Int := numBatches
def scriptRunStopPartial (numBatches lenIds : Int) : Int := lenIds
def scriptSingleDynamic (explicitGiven : Bool) : Bool := (!explicitGiven)
def scriptSingleDynamicIds : List Char := chars! "crop.missing_results()"
def scriptPbsRewrite (isPbs : Bool) (lenIds : Int) : Bool := (isPbs && (decide (lenIds = (1 : Int))))
def scriptPbsReplacements : List (List Char × List Char) := [(chars! "#PBS -J 1-1\n", chars! ""), (chars! "$PBS_ARRAY_INDEX", chars! "1")]

end Gen.Default
