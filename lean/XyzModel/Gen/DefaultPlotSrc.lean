/-!
# Data preparation of the classic plots, translated from the source (xyzpy/plot/core.py) — C17

Part 1 (`Gen`): the vocabulary the translated bodies are written over (`harness/anchors_plotsrc.py`): the dynamically
typed arguments (`NameArg`, `PZ`), the label iterator (`PLabels`), the ABSTRACT dataset / array operations (`PlotOps`) and
the fixed combinators (`plLoop`, `plSet`, `plGet`, `plTry`, …).
Part 2 (`Gen.Default`): last-good text of the anchors (`tools/update_default_plotsrc.py`); `Gen/Extracted.lean` holds the
translation of the current source.
-/
namespace Gen

/-- the exception classes the bodies distinguish -/
inductive PErr where
  | valueError | keyError | stopIteration | other
deriving Repr, DecidableEq, Inhabited

/-- the `x` / `y` argument of a plot: one variable name, or several (tuple / list) -/
inductive NameArg where
  | one (s : String)
  | many (l : List String)
deriving Repr, DecidableEq

/-- one entry of `_z_vals`: a value of the z coordinate, a variable name, or `None` -/
inductive PZ (Z : Type) where
  | coord (v : Z)
  | name (s : String)
  | none
deriving Repr, DecidableEq

/-- `z is None` -/
def PZ.isNone {Z : Type} : PZ Z → Bool
  | .none => true
  | _ => false

/-- `str(z)` (also: the key `z` stands for in `ds[z]`) -/
def PZ.key {Z : Type} (str : Z → String) : PZ Z → String
  | .coord v => str v
  | .name s => s
  | .none => "None"

/-- the iterator `_zlbls` -/
inductive PLabels where
  | finite (l : List (Option String))     -- `iter(<sequence>)`
  | repeatNone                            -- `itertools.repeat(None)`
deriving Repr, DecidableEq

/-- `next(it)`: the label and the advanced iterator; `none` = StopIteration -/
def PLabels.next : PLabels → Option (Option String × PLabels)
  | .finite [] => none
  | .finite (a :: l) => some (a, .finite l)
  | .repeatNone => some (Option.none, .repeatNone)

/-- what the preparation asks of xarray / numpy.  `D` datasets, `A` data arrays, `F` flattened value arrays, `M` boolean
masks, `C` a single colour value, `Z` coordinate values -/
structure PlotOps (D A F M C Z : Type) where
  /-- `ds[name].values` of a coordinate -/
  coordValues : D → String → List Z
  /-- `str(v)` -/
  str : Z → String
  /-- `ds[{key: i}]` (positional); `ValueError` when the key is not a dimension -/
  isel : D → Option String → Nat → Except PErr D
  /-- `ds.loc[{key: v}]` (by label) -/
  locSel : D → Option String → PZ Z → D
  /-- `ds[name]` -/
  getVar : D → String → A
  /-- `xr.broadcast(*arrays)` -/
  broadcast : List A → List A
  /-- `a.values.flatten()` -/
  flatten : A → F
  /-- `f.item()` -/
  item : F → C
  /-- `np.isfinite(f)` -/
  isFinite : F → M
  /-- `m1 & m2` -/
  mand : M → M → M
  /-- `f[m]` -/
  select : F → M → F
  /-- `m.any()` / `m.all()` -/
  anyM : M → Bool
  allM : M → Bool
  /-- `len(f) == 0` -/
  isEmpty : F → Bool

/-- a limit of the colour normalisation, by where it comes from: the caller's `vmin` (0) / `vmax` (1) argument (and whether
it is a zero), `zlims[i]`, the minimum / maximum of the FINITE values of the colour quantity, a float constant -/
inductive LimV where
  | arg (which : Nat) (isZero : Bool)
  | zlim (i : Nat)
  | dataMin
  | dataMax
  | const (s : String)
deriving Repr, DecidableEq

/-- the truth value Python gives the caller's argument: not `None` and not zero -/
def LimV.truthy : Option LimV → Bool
  | some (.arg _ z) => !z
  | some _ => true
  | none => false

/-- `d[k] = v` on an insertion-ordered dict -/
def plSet {α : Type} (d : List (String × α)) (k : String) (v : α) : List (String × α) :=
  if d.any (·.1 == k) then d.map fun p => if p.1 == k then (k, v) else p else d ++ [(k, v)]

/-- `d[k]` -/
def plGet {α : Type} (d : List (String × α)) (k : String) : Except PErr α :=
  match d.find? (·.1 == k) with
  | some p => .ok p.2
  | none => .error .keyError

/-- `k in d` -/
def plHas {α : Type} (d : List (String × α)) (k : String) : Bool := d.any (·.1 == k)

/-- `try: a  except …: h e` -/
def plTry {α : Type} (a : Except PErr α) (h : PErr → Except PErr α) : Except PErr α :=
  match a with
  | .ok v => .ok v
  | .error e => h e

/-- `enumerate(l)` -/
def plEnumerate {α : Type} (l : List α) : List (Nat × α) := (List.range l.length).zip l

/-- a generator's `for` loop: `step i z` = (what the iteration yields, what it appends to `_c_cols`); the first error
ends the loop -/
def plLoop {α Y C : Type} (step : Nat → α → Except PErr (List Y × List C)) (l : List (Nat × α)) :
    Except PErr (List Y × List C) :=
  l.foldlM (fun acc p => match step p.1 p.2 with
    | .ok r => .ok (acc.1 ++ r.1, acc.2 ++ r.2)
    | .error e => .error e) ([], [])

end Gen

namespace Gen.Default
open Gen

def plZVals {D A F M C Z : Type} (o : PlotOps D A F M C Z) (ds : D) (zCoo : Option String) (yCoo xCoo : NameArg) (grid : Bool) (mode : String) : Except PErr (Bool × List (PZ Z)) := do
  let multiVar : Bool := false
  let (multiVar, zVals) ← (show Except PErr ((Bool) × (List (PZ Z))) from
    match zCoo with
    | some zCoo_2 => do
      let zVals : List (PZ Z) := ((o.coordValues ds zCoo_2).map PZ.coord)
      pure (multiVar, zVals)
    | none => do
      let (multiVar, zVals) ← (show Except PErr ((Bool) × (List (PZ Z))) from
        match yCoo with
        | .many yCoo_30 => do
          let multiVar : Bool := true
          let zVals : List (PZ Z) := (yCoo_30.map PZ.name)
          pure (multiVar, zVals)
        | .one yCoo_30 => do
          let (multiVar, zVals) ← (show Except PErr ((Bool) × (List (PZ Z))) from
            match xCoo with
            | .many xCoo_44 => do
              let multiVar : Bool := true
              let zVals : List (PZ Z) := (xCoo_44.map PZ.name)
              pure (multiVar, zVals)
            | .one xCoo_44 => do
              let zVals : List (PZ Z) := [PZ.none]
              pure (multiVar, zVals)
            )
          pure (multiVar, zVals)
        )
      pure (multiVar, zVals)
    )
  pure (multiVar, zVals)

def plZLabels {D A F M C Z : Type} (o : PlotOps D A F M C Z) (zlabels : Option (List String)) (zCoo : Option String) (multiVar : Bool) (zVals : List (PZ Z)) : Except PErr PLabels := do
  let zlbls ← (show Except PErr ((PLabels)) from
    match zlabels with
    | some zlabels_1 => do
      let zlbls : PLabels := (PLabels.finite (zlabels_1.map some))
      pure zlbls
    | none => do
      let zlbls ← (show Except PErr ((PLabels)) from
        if ((!zCoo.isNone) || multiVar) then do
          let zlbls : PLabels := (PLabels.finite (zVals.map fun z => some (PZ.key o.str z)))
          pure zlbls
        else do
          let zlbls : PLabels := PLabels.repeatNone
          pure zlbls
        )
      pure zlbls
    )
  pure zlbls

def plLegend (n : Nat) (legend colorbar : Option Bool) (hasC colorsTrue : Bool) : Option Bool × Option Bool :=
  let legend2 : Option Bool := if ((colorbar == some true) && legend.isNone) then (if (!hasC) then (some false) else (some (decide ((1 : Int) < (n : Int)) && decide ((n : Int) ≤ (10 : Int))))) else legend
  let colorbar4 : Option Bool := if ((legend2 == some true) && colorbar.isNone) then (if (!hasC) then (some false) else (some true)) else colorbar
  let useLegend9 : Option Bool := if (legend2.isNone && colorbar4.isNone) then (some (decide ((1 : Int) < (n : Int)) && decide ((n : Int) ≤ (10 : Int)))) else legend2
  let useColorbar10 : Option Bool := if (legend2.isNone && colorbar4.isNone) then (some (((!((some (decide ((1 : Int) < (n : Int)) && decide ((n : Int) ≤ (10 : Int)))) == some true)) && colorsTrue) || hasC)) else colorbar4
  (useLegend9, useColorbar10)

def plGenXY {D A F M C Z : Type} (o : PlotOps D A F M C Z) (ds : D) (zVals : List (PZ Z)) (multiVar : Bool) (xCoo yCoo : String) (zCoo cCoo yErr xErr : Option String) (mode : String) : Except PErr (List (List (String × F)) × List C) := plLoop (fun (i : Nat) (z : PZ Z) => do
    let yields : List (List (String × F)) := []
    let cCols : List C := []
    let das : List (String × A) := []
    let data : List (String × F) := []
    let (das, cCols) ← (show Except PErr ((List (String × A)) × (List C)) from
      if multiVar then do
        let das := plSet das "x" (o.getVar ds xCoo)
        let das := plSet das "y" (o.getVar ds (PZ.key o.str z))
        let _ ← (show Except PErr (Unit) from
          if ((!yErr.isNone) || (!xErr.isNone) || (!cCoo.isNone)) then do
            throw PErr.valueError
          else do
            pure ()
          )
        pure (das, cCols)
      else do
        let (das, cCols) ← (show Except PErr ((List (String × A)) × (List C)) from
          if (!z.isNone) then do
            let subDs ← plTry (show Except PErr ((D)) from do
                let x_832 ← o.isel ds zCoo i
                let subDs : D := x_832
                pure subDs
              ) (fun e_834 =>
                if e_834 = PErr.valueError then do
                  let subDs : D := (o.locSel ds zCoo z)
                  pure subDs
                else
                  throw e_834)
            let das := plSet das "x" (o.getVar subDs xCoo)
            let das := plSet das "y" (o.getVar subDs yCoo)
            let (das, cCols) ← (show Except PErr ((List (String × A)) × (List C)) from
              match cCoo with
              | some cCoo_839 => do
                let (das, cCols) ← (show Except PErr ((List (String × A)) × (List C)) from
                  if (mode == "lineplot") then do
                    let cCols := cCols ++ [(o.item (o.flatten (o.getVar subDs cCoo_839)))]
                    pure (das, cCols)
                  else do
                    let das ← (show Except PErr ((List (String × A))) from
                      if (mode == "scatter") then do
                        let das := plSet das "c" (o.getVar subDs cCoo_839)
                        pure das
                      else do
                        pure das
                      )
                    pure (das, cCols)
                  )
                pure (das, cCols)
              | none => do
                pure (das, cCols)
              )
            let das ← (show Except PErr ((List (String × A))) from
              match yErr with
              | some yErr_876 => do
                let das := plSet das "ye" (o.getVar subDs yErr_876)
                pure das
              | none => do
                pure das
              )
            let das ← (show Except PErr ((List (String × A))) from
              match xErr with
              | some xErr_880 => do
                let das := plSet das "xe" (o.getVar subDs xErr_880)
                pure das
              | none => do
                pure das
              )
            pure (das, cCols)
          else do
            let das := plSet das "x" (o.getVar ds xCoo)
            let das := plSet das "y" (o.getVar ds yCoo)
            let (das, cCols) ← (show Except PErr ((List (String × A)) × (List C)) from
              match cCoo with
              | some cCoo_886 => do
                let (das, cCols) ← (show Except PErr ((List (String × A)) × (List C)) from
                  if (mode == "lineplot") then do
                    let cCols := cCols ++ [(o.item (o.flatten (o.getVar ds cCoo_886)))]
                    pure (das, cCols)
                  else do
                    let das ← (show Except PErr ((List (String × A))) from
                      if (mode == "scatter") then do
                        let das := plSet das "c" (o.getVar ds cCoo_886)
                        pure das
                      else do
                        pure das
                      )
                    pure (das, cCols)
                  )
                pure (das, cCols)
              | none => do
                pure (das, cCols)
              )
            let das ← (show Except PErr ((List (String × A))) from
              match yErr with
              | some yErr_923 => do
                let das := plSet das "ye" (o.getVar ds yErr_923)
                pure das
              | none => do
                pure das
              )
            let das ← (show Except PErr ((List (String × A))) from
              match xErr with
              | some xErr_927 => do
                let das := plSet das "xe" (o.getVar ds xErr_927)
                pure das
              | none => do
                pure das
              )
            pure (das, cCols)
          )
        pure (das, cCols)
      )
    let data := ((das.map Prod.fst).zip (o.broadcast (das.map Prod.snd))).foldl (fun (acc : List (String × F)) (p : String × A) => (fun (k : String) (da : A) => plSet acc k (o.flatten da)) p.1 p.2) data
    let x_938 ← plGet data "x"
    let notNull : M := (o.isFinite x_938)
    let x_940 ← plGet data "y"
    let notNull := o.mand notNull (o.isFinite x_940)
    let x_942 ← plGet data "x"
    let data := plSet data "x" (o.select x_942 notNull)
    let x_944 ← plGet data "y"
    let data := plSet data "y" (o.select x_944 notNull)
    let data ← (show Except PErr ((List (String × F))) from
      if (plHas data "c") then do
        let x_950 ← plGet data "c"
        let data := plSet data "c" (o.select x_950 notNull)
        pure data
      else do
        pure data
      )
    let data ← (show Except PErr ((List (String × F))) from
      if (plHas data "ye") then do
        let x_957 ← plGet data "ye"
        let data := plSet data "ye" (o.select x_957 notNull)
        pure data
      else do
        pure data
      )
    let data ← (show Except PErr ((List (String × F))) from
      if (plHas data "xe") then do
        let x_964 ← plGet data "xe"
        let data := plSet data "xe" (o.select x_964 notNull)
        pure data
      else do
        pure data
      )
    let yields := yields ++ [data]
    pure (yields, cCols)) (plEnumerate zVals)

def plGenX {D A F M C Z : Type} (o : PlotOps D A F M C Z) (ds : D) (zVals : List (PZ Z)) (multiVar : Bool) (xCoo yCoo : String) (zCoo cCoo yErr xErr : Option String) (mode : String) : Except PErr (List (List (String × F)) × List C) := plLoop (fun (_i : Nat) (z : PZ Z) => do
    let yields : List (List (String × F)) := []
    let cCols : List C := []
    let x ← (show Except PErr ((F)) from
      if multiVar then do
        let x : F := (o.flatten (o.getVar ds (PZ.key o.str z)))
        pure x
      else do
        let x ← (show Except PErr ((F)) from
          if (!z.isNone) then do
            let subDs : D := (o.locSel ds zCoo z)
            let x : F := (o.flatten (o.getVar subDs xCoo))
            pure x
          else do
            let x : F := (o.flatten (o.getVar ds xCoo))
            pure x
          )
        pure x
      )
    let yields := yields ++ [[("x", (o.select x (o.isFinite x)))]]
    pure (yields, cCols)) (plEnumerate zVals)

def plLoopNexts : List (String × List String × List String) := [("plot_lines", ["_cols", "_lws", "_mrkrs", "_zlbls", "_zordrs", "_lines"], []), ("plot_scatter", ["_mrkrs", "_zlbls", "_zordrs"], ["_cols"]), ("plot_histogram", ["_cols", "_lws", "_zordrs", "_zlbls"], [])]

def plRowCol {D A F M C Z : Type} (o : PlotOps D A F M C Z) (ds : D) (row col : Option String) : Option (List (List (List (String × Z))) × Nat × Nat) :=
  match row, col with
  | some row, some col => some (((o.coordValues ds row).map fun r => ((o.coordValues ds col).map fun c => [(row, r), (col, c)])), (o.coordValues ds row).length, (o.coordValues ds col).length)
  | some row, none => some (((o.coordValues ds row).map fun r => [[(row, r)]]), (o.coordValues ds row).length, 1)
  | none, some col => some ([((o.coordValues ds col).map fun c => [(col, c)])], 1, (o.coordValues ds col).length)
  | none, none => none

def plColorNorm (numeric : Bool) (vmin vmax : Option Bool) (zlimLo zlimHi : Bool) : Option LimV × Option LimV :=
  let vminV : Option LimV := vmin.map fun a => LimV.arg 0 a
  let vmaxV : Option LimV := vmax.map fun a => LimV.arg 1 a
  let zmin1 : Option LimV := if (if zlimLo then some (LimV.zlim 0) else none).isNone then (some LimV.dataMin) else (if zlimLo then some (LimV.zlim 0) else none)
  let zmax2 : Option LimV := if (if zlimHi then some (LimV.zlim 1) else none).isNone then (some LimV.dataMax) else (if zlimHi then some (LimV.zlim 1) else none)
  let zmin3 : Option LimV := if numeric then zmin1 else (some (LimV.const "0.0"))
  let zmax4 : Option LimV := if numeric then zmax2 else (some (LimV.const "1.0"))
  let vmin5 : Option LimV := if vminV.isNone then zmin3 else vminV
  let vmax6 : Option LimV := if vmaxV.isNone then zmax4 else vmaxV
  (vmin5, vmax6)

end Gen.Default
