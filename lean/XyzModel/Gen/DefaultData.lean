/-!
Last-good definitions of the extraction anchors of the data family (harness/anchors_data.py):
`xyzpy/manage.py` (`_engine_extensions`, `auto_add_extension`, `save_ds`, `load_ds`, `save_merge_ds`) and
`xyzpy/gen/farming.py` (`Harvester.load_full_ds`, `save_full_ds`, `delete_ds`, `add_ds`).
They describe the repaired tree (after the `fix:` commit for D4).
-/
namespace Gen

/-- which xarray merge an `overwrite` value is dispatched to -/
inductive MergeKind where
  | newFirst      -- `new.combine_first(old)`
  | oldFirst      -- `old.combine_first(new)`
  | noConflicts   -- `old.merge(new, compat='no_conflicts')` / `xr.merge([old, new])`
  | unknown
deriving DecidableEq, Repr

end Gen

namespace Gen.Default

-- manage.py : _engine_extensions
def engineExt : List (String × String) :=
  [("h5netcdf", ".h5"), ("netcdf4", ".nc"), ("joblib", ".dmp"), ("zarr", ".zarr")]

-- manage.py : auto_add_extension — the guard is `not any(ext in file_name for ext in _engine_extensions.values())`
def extRuleSubstring : Bool := true
-- … and its body appends `_engine_extensions[engine]` this many times
def extAppendCount : Nat := 1

-- manage.py : save_ds / load_ds start with `file_name = auto_add_extension(file_name, engine)`
def saveDsExtends : Bool := true
def loadDsExtends : Bool := true

-- manage.py : save_ds — engines whose attributes are NOT rewritten, and the rewriting of None / True / False
def attrExempt : List String := ["joblib", "zarr"]
def attrNoneStr : String := "None"
def attrTrueStr : String := "True"
def attrFalseStr : String := "False"

-- farming.py : Harvester.load_full_ds — is the path given to os.access / os.path.isfile the extended name?
def loadFullAccessExtended : Bool := true
def loadFullIsfileExtended : Bool := true
-- farming.py : Harvester.save_full_ds — os.path.exists(...) / os.remove(...)
def saveFullExistsExtended : Bool := true
def saveFullRemoveExtended : Bool := true
-- farming.py : Harvester.delete_ds — os.remove(...)
def deleteRemoveExtended : Bool := true
-- manage.py : save_merge_ds — os.path.exists(...) on the extended name; load_ds called with the engine used to save
def saveMergeExistsExtended : Bool := true
def saveMergeLoadsWithEngine : Bool := true

-- farming.py : Harvester.add_ds — overwrite dispatch
def addDsTrue : MergeKind := .newFirst
def addDsFalse : MergeKind := .oldFirst
def addDsNone : MergeKind := .noConflicts
-- manage.py : save_merge_ds — overwrite dispatch
def saveMergeTrue : MergeKind := .newFirst
def saveMergeFalse : MergeKind := .oldFirst
def saveMergeNone : MergeKind := .noConflicts

end Gen.Default
