import XyzModel.Gen.DefaultFn
/-!
Last-good definitions of the anchors of harness/anchors_grow.py (the module-level `grow` as an effect skeleton; the
progress queries of `Crop` as functions over directory queries; `check_bad` as a skeleton per result file), and the
helpers the generated text calls.  Written by tools/update_default_grow.py; `Gen/Extracted.lean` holds the translation
of the *current* source.
-/
set_option linter.unusedVariables false
namespace Gen

/-- the effects a `grow` of one batch can attempt -/
inductive GEff where
  | readFn            -- reading the pickled function (only when no function was handed in)
  | readBatch         -- reading the batch file of this batch number
  | readOther         -- reading any other file
  | executor          -- getting the worker pool
  | submit (k : Nat)  -- handing case k to the pool
  | eval (k : Nat)    -- evaluating the function on case k (sequential branch)
  | collect (k : Nat) -- waiting for / fetching the result of case k from the pool
  | writeResult       -- writing the result file of this batch number
  | writeOther        -- writing any other file
deriving Repr, DecidableEq, Inhabited

/-- run a skeleton, then continue on its trace unless it raised (any effect type) -/
def skBindG {ε : Type} (r : List ε × Option PyErr) (k : List ε → List ε × Option PyErr) : List ε × Option PyErr :=
  match r with
  | (t, some e) => (t, some e)
  | (t, none) => k t

@[simp] theorem skBindG_err {ε : Type} (t : List ε) (e : PyErr) (k) : skBindG (t, some e) k = (t, some e) := rfl
@[simp] theorem skBindG_ok {ε : Type} (t : List ε) (k) : skBindG (t, none) k = k t := rfl

/-- a loop over `n` items starting at index `k`: attempt `item k`; if it raises the loop (and the body) ends there;
otherwise run the loop body's own skeleton, then go on with `k + 1` -/
def skLoopB {ε : Type} (fails : ε → Bool) (item : Nat → ε) (body : Nat → List ε → List ε × Option PyErr) :
    Nat → Nat → List ε → List ε × Option PyErr
  | 0, _, t => (t, none)
  | n + 1, k, t =>
    if fails (item k) then (t ++ [item k], some .other)
    else skBindG (body k (t ++ [item k])) (skLoopB fails item body n (k + 1))

/-- "attempt `item k` for k = 0..n-1 in order, stop at the first that fails" -/
def skLoop {ε : Type} (fails : ε → Bool) (item : Nat → ε) (n : Nat) (t : List ε) : List ε × Option PyErr :=
  skLoopB fails item (fun _ t => (t, none)) n 0 t

/-- Python's `range(a, b)` -/
def rangeInt (a b : Int) : List Int := (List.range (b - a).toNat).map (fun (k : Nat) => a + (k : Int))

end Gen

namespace Gen.Default


def growSk (fails : GEff → Bool) (cropIsNone cwdNotCrop fnIsNone : Bool) (n : Nat) (numWorkers : Option Int) (checkMpi ompiSet : Bool) (ompiRank : Int) (pmiSet : Bool) (pmiRank : Int) (trace : List GEff) : List GEff × Option PyErr := 
  if cropIsNone then
    if cwdNotCrop then
      (trace, some .xyzError)
    else
      let trace := if fnIsNone then trace ++ [.readFn] else trace
      if fnIsNone && fails .readFn then (trace, some .other) else
      let trace := trace ++ [.readBatch]
      if fails .readBatch then (trace, some .other) else
      if (decide ((n : Int) = (0 : Int))) then
        (trace, some .valueError)
      else
        if (checkMpi && ompiSet) then
          let mpi : Bool := true
          let rank : Int := ompiRank
          if numWorkers.isNone then
            (skBindG (skLoop fails GEff.eval n trace) fun trace =>
              if (decide (rank = (0 : Int))) then
                let trace := trace ++ [.writeResult]
                if fails .writeResult then (trace, some .other) else
                (trace, none)
              else
                (trace, none))
          else
            let trace := trace ++ [.executor]
            if fails .executor then (trace, some .other) else
            (skBindG (skLoop fails GEff.submit n trace) fun trace =>
              (skBindG (skLoop fails GEff.collect n trace) fun trace =>
                if (decide (rank = (0 : Int))) then
                  let trace := trace ++ [.writeResult]
                  if fails .writeResult then (trace, some .other) else
                  (trace, none)
                else
                  (trace, none)))
        else
          let (mpi, rank) := if (checkMpi && pmiSet) then
              let mpi : Bool := true
              let rank : Int := pmiRank
              (mpi, rank)
            else
              let mpi : Bool := false
              let rank : Int := (0 : Int)
              (mpi, rank)
          if numWorkers.isNone then
            (skBindG (skLoop fails GEff.eval n trace) fun trace =>
              if (decide (rank = (0 : Int))) then
                let trace := trace ++ [.writeResult]
                if fails .writeResult then (trace, some .other) else
                (trace, none)
              else
                (trace, none))
          else
            let trace := trace ++ [.executor]
            if fails .executor then (trace, some .other) else
            (skBindG (skLoop fails GEff.submit n trace) fun trace =>
              (skBindG (skLoop fails GEff.collect n trace) fun trace =>
                if (decide (rank = (0 : Int))) then
                  let trace := trace ++ [.writeResult]
                  if fails .writeResult then (trace, some .other) else
                  (trace, none)
                else
                  (trace, none)))
  else
    let trace := if fnIsNone then trace ++ [.readFn] else trace
    if fnIsNone && fails .readFn then (trace, some .other) else
    let trace := trace ++ [.readBatch]
    if fails .readBatch then (trace, some .other) else
    if (decide ((n : Int) = (0 : Int))) then
      (trace, some .valueError)
    else
      if (checkMpi && ompiSet) then
        let mpi : Bool := true
        let rank : Int := ompiRank
        if numWorkers.isNone then
          (skBindG (skLoop fails GEff.eval n trace) fun trace =>
            if (decide (rank = (0 : Int))) then
              let trace := trace ++ [.writeResult]
              if fails .writeResult then (trace, some .other) else
              (trace, none)
            else
              (trace, none))
        else
          let trace := trace ++ [.executor]
          if fails .executor then (trace, some .other) else
          (skBindG (skLoop fails GEff.submit n trace) fun trace =>
            (skBindG (skLoop fails GEff.collect n trace) fun trace =>
              if (decide (rank = (0 : Int))) then
                let trace := trace ++ [.writeResult]
                if fails .writeResult then (trace, some .other) else
                (trace, none)
              else
                (trace, none)))
      else
        let (mpi, rank) := if (checkMpi && pmiSet) then
            let mpi : Bool := true
            let rank : Int := pmiRank
            (mpi, rank)
          else
            let mpi : Bool := false
            let rank : Int := (0 : Int)
            (mpi, rank)
        if numWorkers.isNone then
          (skBindG (skLoop fails GEff.eval n trace) fun trace =>
            if (decide (rank = (0 : Int))) then
              let trace := trace ++ [.writeResult]
              if fails .writeResult then (trace, some .other) else
              (trace, none)
            else
              (trace, none))
        else
          let trace := trace ++ [.executor]
          if fails .executor then (trace, some .other) else
          (skBindG (skLoop fails GEff.submit n trace) fun trace =>
            (skBindG (skLoop fails GEff.collect n trace) fun trace =>
              if (decide (rank = (0 : Int))) then
                let trace := trace ++ [.writeResult]
                if fails .writeResult then (trace, some .other) else
                (trace, none)
              else
                (trace, none)))

def cropIsPrepared (infoExists otherExists : Bool) (infoBs infoNb infoRem : Option Int) (nBatchFiles nResultFiles nOtherFiles : Int) (isResultFile isBatchFile : Int → Bool) (batchsize numBatches remainder : Option Int) (numSown numResults : Int) : Except PyErr Bool := 
  .ok (infoExists)

def cropCalcProgress (infoExists otherExists : Bool) (infoBs infoNb infoRem : Option Int) (nBatchFiles nResultFiles nOtherFiles : Int) (isResultFile isBatchFile : Int → Bool) (batchsize numBatches remainder : Option Int) (numSown numResults : Int) : Except PyErr (Option Int × Option Int × Option Int × Int × Int) := 
  if infoExists then
    let batchsize : Option Int := infoBs
    let numBatches : Option Int := infoNb
    let remainder : Option Int := infoRem
    let numSown : Int := nBatchFiles
    let numResults : Int := nResultFiles
    .ok (batchsize, numBatches, remainder, numSown, numResults)
  else
    let numSown : Int := (-(1 : Int))
    let numResults : Int := (-(1 : Int))
    .ok (batchsize, numBatches, remainder, numSown, numResults)

def cropIsReadyToReap (infoExists otherExists : Bool) (infoBs infoNb infoRem : Option Int) (nBatchFiles nResultFiles nOtherFiles : Int) (isResultFile isBatchFile : Int → Bool) (batchsize numBatches remainder : Option Int) (numSown numResults : Int) : Except PyErr (Bool × Option Int × Option Int × Option Int × Int × Int) := 
  if infoExists then
    let batchsize : Option Int := infoBs
    let numBatches : Option Int := infoNb
    let remainder : Option Int := infoRem
    let numSown : Int := nBatchFiles
    let numResults : Int := nResultFiles
    if infoExists then
      let batchsize : Option Int := infoBs
      let numBatches : Option Int := infoNb
      let remainder : Option Int := infoRem
      let numSown : Int := nBatchFiles
      let numResults : Int := nResultFiles
      .ok (((decide (numResults > (0 : Int))) && (decide (numResults = numSown))), batchsize, numBatches, remainder, numSown, numResults)
    else
      let numSown : Int := (-(1 : Int))
      let numResults : Int := (-(1 : Int))
      .ok (((decide (numResults > (0 : Int))) && (decide (numResults = numSown))), batchsize, numBatches, remainder, numSown, numResults)
  else
    let numSown : Int := (-(1 : Int))
    let numResults : Int := (-(1 : Int))
    if infoExists then
      let batchsize : Option Int := infoBs
      let numBatches : Option Int := infoNb
      let remainder : Option Int := infoRem
      let numSown : Int := nBatchFiles
      let numResults : Int := nResultFiles
      .ok (((decide (numResults > (0 : Int))) && (decide (numResults = numSown))), batchsize, numBatches, remainder, numSown, numResults)
    else
      let numSown : Int := (-(1 : Int))
      let numResults : Int := (-(1 : Int))
      .ok (((decide (numResults > (0 : Int))) && (decide (numResults = numSown))), batchsize, numBatches, remainder, numSown, numResults)

def cropMissingResults (infoExists otherExists : Bool) (infoBs infoNb infoRem : Option Int) (nBatchFiles nResultFiles nOtherFiles : Int) (isResultFile isBatchFile : Int → Bool) (batchsize numBatches remainder : Option Int) (numSown numResults : Int) : Except PyErr (List Int × Option Int × Option Int × Option Int × Int × Int) := 
  if infoExists then
    let batchsize : Option Int := infoBs
    let numBatches : Option Int := infoNb
    let remainder : Option Int := infoRem
    let numSown : Int := nBatchFiles
    let numResults : Int := nResultFiles
    (match numBatches with
    | none => .error .typeError
    | some numBatches_v1 =>
      .ok (((rangeInt (1 : Int) (numBatches_v1 + (1 : Int))).filter (fun x => (!(isResultFile x)))), batchsize, (some numBatches_v1 : Option Int), remainder, numSown, numResults))
  else
    let numSown : Int := (-(1 : Int))
    let numResults : Int := (-(1 : Int))
    (match numBatches with
    | none => .error .typeError
    | some numBatches_v2 =>
      .ok (((rangeInt (1 : Int) (numBatches_v2 + (1 : Int))).filter (fun x => (!(isResultFile x)))), batchsize, (some numBatches_v2 : Option Int), remainder, numSown, numResults))

def cropNumSownBatches (infoExists otherExists : Bool) (infoBs infoNb infoRem : Option Int) (nBatchFiles nResultFiles nOtherFiles : Int) (isResultFile isBatchFile : Int → Bool) (batchsize numBatches remainder : Option Int) (numSown numResults : Int) : Except PyErr (Int × Option Int × Option Int × Option Int × Int × Int) := 
  if infoExists then
    let batchsize : Option Int := infoBs
    let numBatches : Option Int := infoNb
    let remainder : Option Int := infoRem
    let numSown : Int := nBatchFiles
    let numResults : Int := nResultFiles
    .ok (numSown, batchsize, numBatches, remainder, numSown, numResults)
  else
    let numSown : Int := (-(1 : Int))
    let numResults : Int := (-(1 : Int))
    .ok (numSown, batchsize, numBatches, remainder, numSown, numResults)

def cropNumResults (infoExists otherExists : Bool) (infoBs infoNb infoRem : Option Int) (nBatchFiles nResultFiles nOtherFiles : Int) (isResultFile isBatchFile : Int → Bool) (batchsize numBatches remainder : Option Int) (numSown numResults : Int) : Except PyErr (Int × Option Int × Option Int × Option Int × Int × Int) := 
  if infoExists then
    let batchsize : Option Int := infoBs
    let numBatches : Option Int := infoNb
    let remainder : Option Int := infoRem
    let numSown : Int := nBatchFiles
    let numResults : Int := nResultFiles
    .ok (numResults, batchsize, numBatches, remainder, numSown, numResults)
  else
    let numSown : Int := (-(1 : Int))
    let numResults : Int := (-(1 : Int))
    .ok (numResults, batchsize, numBatches, remainder, numSown, numResults)

def cropGrowIds (idsIsInt : Bool) (single : Int) (many : List Int) : List Int := (if idsIsInt then [single] else many)

def growMissingIds (missing : List Int) : List Int := missing

end Gen.Default
