/-!
Last-good definitions of the publication-protocol anchors (harness/anchors_fs.py; used by CropFS.lean).
They describe the repaired tree (after the `fix:` commit for D7).
-/
namespace Gen.Default

-- gen/cropping.py : write_to_disk — dumps into `tmp_fname`, then `os.replace(tmp_fname, fname)` after the file is closed
def publishViaRename : Bool := true
-- … `tmp_fname` contains `uuid.uuid4().hex`
def tmpNamePrivate : Bool := true
-- … and starts with `.tmp-`, which none of `xyz-batch-*.jbdmp` / `xyz-result-*.jbdmp` matches
def tmpNameHidden : Bool := true

end Gen.Default
