import XyzModel.Gen.DefaultScript
import XyzModel.Gen.DefaultFn
/-!
Run-time library and last-good definitions for the *body* of `gen_cluster_script` and of `xyzpy_grow_cli.main`
(harness/anchors_scriptopts.py, translated by harness/pydyn2lean.py and harness/pysk2lean.py).

* `Scr.PyVal` … `Scr.lookup`: the dynamically typed Python values the option handling computes with, and how they
  print (moved here from `XyzModel/Script.lean` so that the generated definitions can mention them).
* `Scr.Py.*`: the primitives the dynamic translator targets (`int(x)`, `round(a / b)`, `a // b`, `max`, `isinstance`,
  truth value, `str.split`, `len`, `os.path.join`, `str.lower`).  Modelled domain: option values are `None`, bools,
  ints, strings and floats carried as their printed text; arithmetic is defined on ints only (anything else is
  Python's `TypeError` here, also where Python would coerce a float).
* `Gen.Default.gcsOpts`, `Gen.Default.gcsTail`, `Gen.Default.cliSk`: last-good translations.
-/
namespace Scr

abbrev Str := List Char

/-! ### Python values and their printed forms -/

inductive PyVal where
  | none
  | bool (b : Bool)
  | int (i : Int)
  | str (s : Str)
  | flt (repr : Str)            -- a float, carried as the text Python prints for it
  | tuple (l : List Nat)
  | range (a b : Int)
deriving Repr, DecidableEq, Inhabited

def digitChar (d : Nat) : Char :=
  match d with
  | 0 => '0' | 1 => '1' | 2 => '2' | 3 => '3' | 4 => '4'
  | 5 => '5' | 6 => '6' | 7 => '7' | 8 => '8' | _ => '9'

def natDigitsAux : Nat → Nat → Str → Str
  | 0, _, acc => acc
  | fuel + 1, n, acc =>
    if n < 10 then digitChar n :: acc else natDigitsAux fuel (n / 10) (digitChar (n % 10) :: acc)

/-- decimal digits of a natural number -/
def natDigits (n : Nat) : Str := natDigitsAux (n + 1) n []

def intDigits (i : Int) : Str := if i < 0 then '-' :: natDigits i.natAbs else natDigits i.toNat

def joinSep (sep : Str) : List Str → Str
  | [] => []
  | [a] => a
  | a :: b :: r => a ++ sep ++ joinSep sep (b :: r)

/-- Python `repr` of a tuple of non-negative ints: `()`, `(3,)`, `(1, 3)` -/
def reprTuple : List Nat → Str
  | [] => ['(', ')']
  | [a] => '(' :: natDigits a ++ [',', ')']
  | a :: b :: r => '(' :: joinSep [',', ' '] ((a :: b :: r).map natDigits) ++ [')']

/-- Python `repr` of `range(a, b)` -/
def reprRange (a b : Int) : Str := chars! "range" ++ ('(' :: (intDigits a ++ [',', ' '] ++ intDigits b) ++ [')'])

/-- `str(v)` = `format(v, "")` -/
def pyStr : PyVal → Str
  | .none => chars! "None"
  | .bool true => chars! "True"
  | .bool false => chars! "False"
  | .int i => intDigits i
  | .str s => s
  | .flt r => r
  | .tuple l => reprTuple l
  | .range a b => reprRange a b

/-- the option record: field name → value (first binding wins) -/
abbrev Opts := List (Str × PyVal)

def lookup (o : Opts) (k : Str) : Option PyVal :=
  match o with
  | [] => none
  | (k', v) :: r => if k' = k then some v else lookup r k

/-! ### small string helpers -/

def hasSub (pat : Str) : Str → Bool
  | [] => pat.isEmpty
  | c :: r => pat.isPrefixOf (c :: r) || hasSub pat r

def splitOn (sep : Char) (s : Str) : List Str :=
  let r := s.foldr (fun c (acc : Str × List Str) => if c = sep then ([], acc.1 :: acc.2) else (c :: acc.1, acc.2)) ([], [])
  r.1 :: r.2

def parseNat? (s : Str) : Option Nat :=
  if s.isEmpty then none
  else s.foldl (fun acc c => match acc with
    | some n => if c.isDigit then some (n * 10 + (c.toNat - 48)) else none
    | none => none) (some 0)

/-- `round(p / w)` for ints (round half to even) -/
def roundDiv (p w : Int) : Int :=
  let (p, w) := if w < 0 then (-p, -w) else (p, w)
  let q := p / w
  let r := p % w
  if 2 * r < w then q else if 2 * r > w then q + 1 else if q % 2 = 0 then q else q + 1

/-- `d[k] = v` on an insertion-ordered dict -/
def setKw (kw : List (Str × PyVal)) (k : Str) (v : PyVal) : List (Str × PyVal) :=
  if kw.any (·.1 = k) then kw.map (fun p => if p.1 = k then (k, v) else p) else kw ++ [(k, v)]

def isNone : PyVal → Bool | .none => true | _ => false

/-! ### primitives of the dynamic translation -/
namespace Py
open Gen (PyErr)

/-- sequencing of statements that may raise -/
def bind {α β : Type} (x : Except PyErr α) (k : α → Except PyErr β) : Except PyErr β :=
  match x with
  | .error e => .error e
  | .ok a => k a

@[simp] theorem bind_ok {α β : Type} (a : α) (k : α → Except PyErr β) : bind (.ok a) k = k a := rfl
@[simp] theorem bind_error {α β : Type} (e : PyErr) (k : α → Except PyErr β) : bind (.error e) k = .error e := rfl

/-- `isinstance(v, int)` (a bool is an int) -/
def isInt : PyVal → Bool | .int _ => true | .bool _ => true | _ => false
def isFloat : PyVal → Bool | .flt _ => true | _ => false
def isStr : PyVal → Bool | .str _ => true | _ => false

/-- Python truth value -/
def truthy : PyVal → Bool
  | .none => false
  | .bool b => b
  | .int i => i != 0
  | .str s => !s.isEmpty
  | .flt r => !(r == chars! "0.0" || r == chars! "-0.0")
  | .tuple l => !l.isEmpty
  | .range a b => decide (a < b)

/-- `int(x)`: ints, bools, decimal strings; a malformed string is a ValueError, anything else a TypeError -/
def int : PyVal → Except PyErr PyVal
  | .int i => .ok (.int i)
  | .bool b => .ok (.int (if b then 1 else 0))
  | .str s => match parseNat? s with
    | some n => .ok (.int n)
    | none => .error .valueError
  | _ => .error .typeError

/-- `round(a / b)` on ints (`PyErr.other` stands for ZeroDivisionError) -/
def roundDiv : PyVal → PyVal → Except PyErr PyVal
  | .int p, .int w => if w = 0 then .error .other else .ok (.int (Scr.roundDiv p w))
  | _, _ => .error .typeError

/-- `a // b` on ints -/
def floorDiv : PyVal → PyVal → Except PyErr PyVal
  | .int p, .int w => if w = 0 then .error .other else .ok (.int (Int.fdiv p w))
  | _, _ => .error .typeError

/-- `max(a, b)` on ints -/
def max2 : PyVal → PyVal → Except PyErr PyVal
  | .int a, .int b => .ok (.int (max a b))
  | _, _ => .error .typeError

/-- `s.split(sep)` (`PyErr.other` stands for the AttributeError of a non-string) -/
def split (v : PyVal) (sep : Char) : Except PyErr (List Str) :=
  match v with
  | .str s => .ok (splitOn sep s)
  | _ => .error .other

/-- `len(d[k])` given the result of the lookup -/
def lenOf : Option PyVal → Except PyErr Int
  | some (.tuple l) => .ok l.length
  | some (.str s) => .ok s.length
  | some (.range a b) => .ok ((b - a).toNat : Int)
  | some _ => .error .typeError
  | Option.none => .error .keyError

/-- `tuple(batch_ids)` for a given id list -/
def tupleOf (ids : Option (List Nat)) : PyVal := .tuple (ids.getD [])

def pathJoin2 (a b : Str) : Str :=
  if b.head? = some '/' then b
  else if a.isEmpty || a.getLast? = some '/' then a ++ b
  else a ++ '/' :: b

/-- `os.path.join(a, b, …)` (posix) -/
def pathJoin : List Str → Str
  | [] => []
  | a :: r => r.foldl pathJoin2 a

/-- `s.lower()` -/
def lower (s : Str) : Str := s.map Char.toLower

end Py
end Scr

namespace Gen

/-- the effects of `xyzpy-grow` (`xyzpy_grow_cli.main`), as its skeleton records them; the flags say whether the value
handed on is the one read off the command line (`args.<name>`) -/
inductive CliEff where
  | parseArgs
  | mkExecutor                                                  -- `--ray`: building the executor
  | mkCrop (nameFromArgs parentDirFromArgs : Bool)              -- `Crop(name=args.crop_name, parent_dir=args.parent_dir)`
  | isPrepared                                                  -- `crop.is_prepared()`
  | growMissing (numWorkersFromArgs verbosityFromArgs : Bool)   -- `crop.grow_missing(num_workers=args.num_workers, verbosity=args.verbosity, …)`
deriving Repr, DecidableEq, Inhabited

end Gen

namespace Gen.Default

def gcsOpts (scheduler mode launcher setup shellSetup : List Char) (numProcs numThreads numNodes numWorkers mem memPerCpu gigabytes time hours minutes seconds condaEnv tempGigabytes outputDirectory debugging : Scr.PyVal) (mpi : Bool) (kwargs : List (List Char × Scr.PyVal)) (home : List Char) (condaDefault : Scr.PyVal) (cropName fullParentDir : List Char) : Except PyErr (List (List Char × Scr.PyVal)) :=
  let scheduler : List Char := (Scr.Py.lower scheduler)
  (Scr.Py.bind (if (!(scheduler == (chars! "sge") || scheduler == (chars! "pbs") || scheduler == (chars! "slurm"))) then
      (Except.error PyErr.valueError)
    else
      (Except.ok ()) : Except PyErr (Unit)) fun _ =>
  (Scr.Py.bind (if (!(mode == (chars! "array") || mode == (chars! "single"))) then
      (Except.error PyErr.valueError)
    else
      (Except.ok ()) : Except PyErr (Unit)) fun _ =>
  (Scr.Py.bind (if ((Scr.isNone numThreads)) then
      (Scr.Py.bind (if ((Scr.isNone numWorkers)) then
          let numThreads : Scr.PyVal := numProcs
          (Except.ok numThreads)
        else
          (Scr.Py.bind (Scr.Py.roundDiv numProcs numWorkers) fun r1 =>
            let numThreads : Scr.PyVal := r1
            (Except.ok numThreads)) : Except PyErr (Scr.PyVal)) fun numThreads =>
      (Except.ok numThreads))
    else
      (Except.ok numThreads) : Except PyErr (Scr.PyVal)) fun numThreads =>
  (Scr.Py.bind (if ((Scr.isNone hours) && (Scr.isNone minutes) && (Scr.isNone seconds)) then
      (Scr.Py.bind (if (!(Scr.isNone time)) then
          (Scr.Py.bind (if (Scr.Py.isInt time || Scr.Py.isFloat time) then
              let hours : Scr.PyVal := time
              let minutes : Scr.PyVal := (Scr.PyVal.int (0 : Int))
              let seconds : Scr.PyVal := (Scr.PyVal.int (0 : Int))
              (Except.ok (hours, minutes, seconds))
            else
              (Scr.Py.bind (if (Scr.Py.isStr time) then
                  (match Scr.Py.split time ':' with
                  | Except.error e => Except.error e
                  | Except.ok [p2, p3, p4] =>
                    let hours : Scr.PyVal := (Scr.PyVal.str p2)
                    let minutes : Scr.PyVal := (Scr.PyVal.str p3)
                    let seconds : Scr.PyVal := (Scr.PyVal.str p4)
                    (Except.ok (hours, minutes, seconds))
                  | Except.ok _ => Except.error PyErr.valueError)
                else
                  (Except.ok (hours, minutes, seconds)) : Except PyErr (Scr.PyVal × Scr.PyVal × Scr.PyVal)) fun (hours, minutes, seconds) =>
              (Except.ok (hours, minutes, seconds))) : Except PyErr (Scr.PyVal × Scr.PyVal × Scr.PyVal)) fun (hours, minutes, seconds) =>
          (Except.ok (hours, minutes, seconds)))
        else
          let hours : Scr.PyVal := (Scr.PyVal.int (1 : Int))
          let minutes : Scr.PyVal := (Scr.PyVal.int (0 : Int))
          let seconds : Scr.PyVal := (Scr.PyVal.int (0 : Int))
          (Except.ok (hours, minutes, seconds)) : Except PyErr (Scr.PyVal × Scr.PyVal × Scr.PyVal)) fun (hours, minutes, seconds) =>
      (Except.ok (hours, minutes, seconds)))
    else
      (Scr.Py.bind (if (!(Scr.isNone time)) then
          (Except.error PyErr.valueError)
        else
          (Except.ok ()) : Except PyErr (Unit)) fun _ =>
      (Scr.Py.bind (if ((Scr.isNone hours)) then (Except.ok (Scr.PyVal.int (0 : Int))) else (Scr.Py.int hours)) fun r5 =>
        let hours : Scr.PyVal := r5
        (Scr.Py.bind (if ((Scr.isNone minutes)) then (Except.ok (Scr.PyVal.int (0 : Int))) else (Scr.Py.int minutes)) fun r6 =>
          let minutes : Scr.PyVal := r6
          (Scr.Py.bind (if ((Scr.isNone seconds)) then (Except.ok (Scr.PyVal.int (0 : Int))) else (Scr.Py.int seconds)) fun r7 =>
            let seconds : Scr.PyVal := r7
            (Except.ok (hours, minutes, seconds)))))) : Except PyErr (Scr.PyVal × Scr.PyVal × Scr.PyVal)) fun (hours, minutes, seconds) =>
  (Scr.Py.bind (if (scheduler == (chars! "slurm")) then
      let kwargs : List (List Char × Scr.PyVal) := (if (!(Scr.isNone numNodes)) then
          let kwargs : List (List Char × Scr.PyVal) := (Scr.setKw kwargs (chars! "nodes") numNodes)
          kwargs
        else
          kwargs)
      let kwargs : List (List Char × Scr.PyVal) := (if (!(Scr.isNone numProcs)) then
          let kwargs : List (List Char × Scr.PyVal) := (Scr.setKw kwargs (chars! "cpus-per-task") numProcs)
          kwargs
        else
          kwargs)
      (Scr.Py.bind (if (!(Scr.isNone gigabytes)) then
          (Scr.Py.bind (if (!(Scr.isNone mem)) then
              (Except.error PyErr.valueError)
            else
              (Except.ok ()) : Except PyErr (Unit)) fun _ =>
          let mem : Scr.PyVal := gigabytes
          (Except.ok mem))
        else
          (Except.ok mem) : Except PyErr (Scr.PyVal)) fun mem =>
      let (kwargs, mem) : List (List Char × Scr.PyVal) × Scr.PyVal := (if (!(Scr.isNone mem)) then
          let mem : Scr.PyVal := (if (Scr.Py.isInt mem) then
              let mem : Scr.PyVal := (Scr.PyVal.str (Scr.pyStr mem ++ chars! "G"))
              mem
            else
              mem)
          let kwargs : List (List Char × Scr.PyVal) := (Scr.setKw kwargs (chars! "mem") mem)
          (kwargs, mem)
        else
          (kwargs, mem))
      let (kwargs, memPerCpu) : List (List Char × Scr.PyVal) × Scr.PyVal := (if (!(Scr.isNone memPerCpu)) then
          let memPerCpu : Scr.PyVal := (if (Scr.Py.isInt memPerCpu) then
              let memPerCpu : Scr.PyVal := (Scr.PyVal.str (Scr.pyStr memPerCpu ++ chars! "G"))
              memPerCpu
            else
              memPerCpu)
          let kwargs : List (List Char × Scr.PyVal) := (Scr.setKw kwargs (chars! "mem-per-cpu") memPerCpu)
          (kwargs, memPerCpu)
        else
          (kwargs, memPerCpu))
      (Except.ok (kwargs, mem, gigabytes, memPerCpu)))
    else
      (Scr.Py.bind (if ((!(Scr.isNone gigabytes)) && (!(Scr.isNone mem))) then
          (Except.error PyErr.valueError)
        else
          (Except.ok ()) : Except PyErr (Unit)) fun _ =>
      (Scr.Py.bind (if (!(Scr.isNone mem)) then
          (Scr.Py.bind (Scr.Py.int mem) fun r8 =>
            let gigabytes : Scr.PyVal := r8
            (Except.ok gigabytes))
        else
          (Except.ok gigabytes) : Except PyErr (Scr.PyVal)) fun gigabytes =>
      (Except.ok (kwargs, mem, gigabytes, memPerCpu)))) : Except PyErr (List (List Char × Scr.PyVal) × Scr.PyVal × Scr.PyVal × Scr.PyVal)) fun (kwargs, mem, gigabytes, memPerCpu) =>
  let outputDirectory : Scr.PyVal := (if ((Scr.isNone outputDirectory)) then
      let home : List Char := home
      let outputDirectory : Scr.PyVal := (Scr.PyVal.str (Scr.Py.pathJoin [home, (chars! "Scratch"), (chars! "output")]))
      outputDirectory
    else
      outputDirectory)
  let condaEnv : Scr.PyVal := (if (condaEnv == Scr.PyVal.bool true) then
      let condaEnv : Scr.PyVal := condaDefault
      let condaEnv : Scr.PyVal := (if (Scr.Py.truthy condaEnv) then
          let condaEnv : Scr.PyVal := (if ((Scr.hasSub (chars! "conda activate") shellSetup) || (Scr.hasSub (chars! "mamba activate") shellSetup)) then
              let condaEnv : Scr.PyVal := (Scr.PyVal.bool false)
              condaEnv
            else
              condaEnv)
          condaEnv
        else
          condaEnv)
      condaEnv
    else
      condaEnv)
  (Scr.Py.bind (if (Scr.Py.isStr condaEnv) then
      let shellSetup : List Char := (shellSetup ++ (chars! "\nconda activate " ++ Scr.pyStr condaEnv))
      (Except.ok shellSetup)
    else
      (Scr.Py.bind (if (!(condaEnv == Scr.PyVal.bool false)) then
          (Except.error PyErr.valueError)
        else
          (Except.ok ()) : Except PyErr (Unit)) fun _ =>
      (Except.ok shellSetup)) : Except PyErr (List Char)) fun shellSetup =>
  let headerOptions : List Char := (if (!kwargs.isEmpty) then
      let headerOptions : List Char := (if (scheduler == (chars! "slurm")) then
          let headerOptions : List Char := (Scr.joinSep (chars! "\n") (List.map (fun kv9 => (if (((Scr.isNone kv9.2)) || (kv9.2 == Scr.PyVal.bool true)) then (chars! "#SBATCH --" ++ kv9.1) else (chars! "#SBATCH --" ++ kv9.1 ++ chars! "=" ++ Scr.pyStr kv9.2))) kwargs))
          headerOptions
        else
          let headerOptions : List Char := (if (scheduler == (chars! "pbs")) then
              let headerOptions : List Char := (Scr.joinSep (chars! "\n") (List.map (fun kv10 => (if (((Scr.isNone kv10.2)) || (kv10.2 == Scr.PyVal.bool true)) then (chars! "#PBS -l " ++ kv10.1) else (chars! "#PBS -l " ++ kv10.1 ++ chars! "=" ++ Scr.pyStr kv10.2))) kwargs))
              headerOptions
            else
              let headerOptions : List Char := (if (scheduler == (chars! "sge")) then
                  let headerOptions : List Char := (Scr.joinSep (chars! "\n") (List.map (fun kv11 => (if (((Scr.isNone kv11.2)) || (kv11.2 == Scr.PyVal.bool true)) then (chars! "#$ -l " ++ kv11.1) else (chars! "#$ -l " ++ kv11.1 ++ chars! "=" ++ Scr.pyStr kv11.2))) kwargs))
                  headerOptions
                else
                  ([] : List Char))
              headerOptions)
          headerOptions)
      headerOptions
    else
      let headerOptions : List Char := (chars! "")
      headerOptions)
  (Scr.Py.bind (if ((Scr.isNone numThreads)) then
      (Scr.Py.bind (if mpi then
          let numThreads : Scr.PyVal := (Scr.PyVal.int (1 : Int))
          (Except.ok numThreads)
        else
          (Scr.Py.bind (if ((Scr.isNone numWorkers)) then
              let numThreads : Scr.PyVal := numProcs
              (Except.ok numThreads)
            else
              (Scr.Py.bind (Scr.Py.bind (Scr.Py.floorDiv numProcs numWorkers) fun t12 => (Scr.Py.max2 (Scr.PyVal.int (1 : Int)) t12)) fun r13 =>
                let numThreads : Scr.PyVal := r13
                (Except.ok numThreads)) : Except PyErr (Scr.PyVal)) fun numThreads =>
          (Except.ok numThreads)) : Except PyErr (Scr.PyVal)) fun numThreads =>
      (Except.ok numThreads))
    else
      (Except.ok numThreads) : Except PyErr (Scr.PyVal)) fun numThreads =>
  let fullParentDir : List Char := fullParentDir
  let opts : List (List Char × Scr.PyVal) := [(chars! "hours", hours), (chars! "minutes", minutes), (chars! "seconds", seconds), (chars! "gigabytes", gigabytes), (chars! "name", (Scr.PyVal.str cropName)), (chars! "parent_dir", (Scr.PyVal.str fullParentDir)), (chars! "num_procs", numProcs), (chars! "num_threads", numThreads), (chars! "num_nodes", numNodes), (chars! "num_workers", numWorkers), (chars! "launcher", (Scr.PyVal.str launcher)), (chars! "setup", (Scr.PyVal.str setup)), (chars! "shell_setup", (Scr.PyVal.str shellSetup)), (chars! "pe", (Scr.PyVal.str (if mpi then (chars! "mpi") else (chars! "smp")))), (chars! "temp_gigabytes", tempGigabytes), (chars! "output_directory", outputDirectory), (chars! "working_directory", (Scr.PyVal.str fullParentDir)), (chars! "header_options", (Scr.PyVal.str headerOptions)), (chars! "debugging", debugging)]
  (Except.ok opts))))))))

def gcsTail (scheduler mode : List Char) (explicit : Option (List Nat)) (numResults numBatches : Int) (missing : List Nat) (opts : List (List Char × Scr.PyVal)) : Except PyErr (List Char × List (List Char × Scr.PyVal)) :=
  let (opts, arrayMode) : List (List Char × Scr.PyVal) × List Char := (if (!explicit.isNone) then
      let opts : List (List Char × Scr.PyVal) := (Scr.setKw opts (chars! "batch_ids") (Scr.Py.tupleOf explicit))
      let arrayMode : List Char := (chars! "partial")
      (opts, arrayMode)
    else
      let (opts, arrayMode) : List (List Char × Scr.PyVal) × List Char := (if (numResults == (0 : Int)) then
          let opts : List (List Char × Scr.PyVal) := (Scr.setKw opts (chars! "batch_ids") (Scr.PyVal.range (1 : Int) (numBatches + (1 : Int))))
          let arrayMode : List Char := (chars! "all")
          (opts, arrayMode)
        else
          let opts : List (List Char × Scr.PyVal) := (Scr.setKw opts (chars! "batch_ids") (Scr.PyVal.tuple missing))
          let arrayMode : List Char := (chars! "partial")
          (opts, arrayMode))
      (opts, arrayMode))
  let script : List Char := (if (scheduler == (chars! "sge")) then
      let script : List Char := tplSgeHeader
      let script : List Char := (if (mode == (chars! "array")) then
          let script : List Char := (script ++ tplSgeArrayHeader)
          script
        else
          script)
      script
    else
      let script : List Char := (if (scheduler == (chars! "pbs")) then
          let script : List Char := tplPbsHeader
          let script : List Char := (if (mode == (chars! "array")) then
              let script : List Char := (script ++ tplPbsArrayHeader)
              script
            else
              script)
          script
        else
          let script : List Char := (if (scheduler == (chars! "slurm")) then
              let script : List Char := tplSlurmHeader
              let script : List Char := (if (mode == (chars! "array")) then
                  let script : List Char := (script ++ tplSlurmArrayHeader)
                  script
                else
                  script)
              script
            else
              ([] : List Char))
          script)
      script)
  let script : List Char := (script ++ tplBase)
  (Scr.Py.bind (if (mode == (chars! "array")) then
      let opts : List (List Char × Scr.PyVal) := (Scr.setKw opts (chars! "run_start") (Scr.PyVal.int (1 : Int)))
      (Scr.Py.bind (if (arrayMode == (chars! "all")) then
          let opts : List (List Char × Scr.PyVal) := (Scr.setKw opts (chars! "run_stop") (Scr.PyVal.int numBatches))
          let script : List Char := (if (scheduler == (chars! "sge")) then
              let script : List Char := (script ++ tplSgeGrowAll)
              script
            else
              let script : List Char := (if (scheduler == (chars! "pbs")) then
                  let script : List Char := (script ++ tplPbsGrowAll)
                  script
                else
                  let script : List Char := (if (scheduler == (chars! "slurm")) then
                      let script : List Char := (script ++ tplSlurmGrowAll)
                      script
                    else
                      script)
                  script)
              script)
          (Except.ok (opts, script))
        else
          (Scr.Py.bind (if (arrayMode == (chars! "partial")) then
              (Scr.Py.bind (Scr.Py.bind (Scr.Py.lenOf (Scr.lookup opts (chars! "batch_ids"))) fun t1 => (Except.ok (Scr.setKw opts (chars! "run_stop") (Scr.PyVal.int t1)))) fun r2 =>
                let opts : List (List Char × Scr.PyVal) := r2
                let script : List Char := (if (scheduler == (chars! "sge")) then
                    let script : List Char := (script ++ tplSgeGrowPartial)
                    script
                  else
                    let script : List Char := (if (scheduler == (chars! "pbs")) then
                        let script : List Char := (script ++ tplPbsGrowPartial)
                        script
                      else
                        let script : List Char := (if (scheduler == (chars! "slurm")) then
                            let script : List Char := (script ++ tplSlurmGrowPartial)
                            script
                          else
                            script)
                        script)
                    script)
                (Except.ok (opts, script)))
            else
              (Except.ok (opts, script)) : Except PyErr (List (List Char × Scr.PyVal) × List Char)) fun (opts, script) =>
          (Except.ok (opts, script))) : Except PyErr (List (List Char × Scr.PyVal) × List Char)) fun (opts, script) =>
      (Except.ok (opts, script)))
    else
      let (script, opts) : List Char × List (List Char × Scr.PyVal) := (if (mode == (chars! "single")) then
          let opts : List (List Char × Scr.PyVal) := (if (explicit.isNone) then
              let opts : List (List Char × Scr.PyVal) := (Scr.setKw opts (chars! "batch_ids") (Scr.PyVal.str (chars! "crop.missing_results()")))
              opts
            else
              opts)
          let script : List Char := (script ++ tplGrowSingle)
          (script, opts)
        else
          (script, opts))
      (Except.ok (opts, script)) : Except PyErr (List (List Char × Scr.PyVal) × List Char)) fun (opts, script) =>
  let script : List Char := (script ++ tplScriptEnd)
  (Except.ok (script, opts)))

def gcsWrappers : List (List Char × List Char × Bool × Bool) := [(chars! "gen_qsub_script", chars! "", true, true), (chars! "gen_sge_script", chars! "sge", true, true), (chars! "gen_pbs_script", chars! "pbs", true, true), (chars! "gen_slurm_script", chars! "slurm", true, true)]

def cliSk (fails : CliEff → Bool) (ray gpusNone prepared : Bool) (trace : List CliEff) : List CliEff × Option PyErr :=
  let trace := trace ++ [.parseArgs]
  if fails .parseArgs then (trace, some .other) else
  let args := ()
  if ray then
    if gpusNone then
      let trace := trace ++ [.mkExecutor]
      if fails .mkExecutor then (trace, some .other) else
      let trace := trace ++ [(.mkCrop true true)]
      if fails (.mkCrop true true) then (trace, some .other) else
      let crop := ()
      let trace := trace ++ [.isPrepared]
      if fails .isPrepared then (trace, some .other) else
      if (!prepared) then
        (trace, some .other)
      else
        let trace := trace ++ [(.growMissing true true)]
        if fails (.growMissing true true) then (trace, some .other) else
        (trace, none)
    else
      let trace := trace ++ [.mkExecutor]
      if fails .mkExecutor then (trace, some .other) else
      let trace := trace ++ [(.mkCrop true true)]
      if fails (.mkCrop true true) then (trace, some .other) else
      let crop := ()
      let trace := trace ++ [.isPrepared]
      if fails .isPrepared then (trace, some .other) else
      if (!prepared) then
        (trace, some .other)
      else
        let trace := trace ++ [(.growMissing true true)]
        if fails (.growMissing true true) then (trace, some .other) else
        (trace, none)
  else
    let trace := trace ++ [(.mkCrop true true)]
    if fails (.mkCrop true true) then (trace, some .other) else
    let crop := ()
    let trace := trace ++ [.isPrepared]
    if fails .isPrepared then (trace, some .other) else
    if (!prepared) then
      (trace, some .other)
    else
      let trace := trace ++ [(.growMissing true true)]
      if fails (.growMissing true true) then (trace, some .other) else
      (trace, none)

end Gen.Default
