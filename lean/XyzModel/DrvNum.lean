import Lean.Data.Json
import XyzModel.Stats
import XyzModel.Fmt
/-!
JSON front end of the numerical models (C19, C20).  Rationals travel as `[numerator, denominator]` integer pairs
(Lean's JSON numbers are arbitrary-precision: 330-digit integers round-trip).

`handleNum op j` returns `none` for an op it does not know, so that `Drv.handle` can fall through.
-/
open Lean

namespace DrvNum

def err (s : String) : Json := Json.mkObj [("err", Json.str s)]

def ratOf (j : Json) : Rat :=
  match j with
  | .arr #[a, b] => mkRat (a.getInt?.toOption.getD 0) (b.getNat?.toOption.getD 1)
  | _ => 0

def ratJ (q : Rat) : Json := Json.arr #[toJson q.num, toJson q.den]

def getObj (j : Json) (k : String) : Json := (j.getObjVal? k).toOption.getD Json.null
def getArr (j : Json) (k : String) : List Json := (((j.getObjValAs? (Array Json) k).toOption).getD #[]).toList
def arrOf (j : Json) : List Json := match j with | .arr a => a.toList | _ => []
def getRat (j : Json) (k : String) : Rat := ratOf (getObj j k)
def getInt (j : Json) (k : String) (d : Int := 0) : Int := ((j.getObjValAs? Int k).toOption).getD d
def getNat (j : Json) (k : String) (d : Nat := 0) : Nat := ((j.getObjValAs? Nat k).toOption).getD d
def getBool (j : Json) (k : String) (d : Bool := false) : Bool := ((j.getObjValAs? Bool k).toOption).getD d
def ratList (j : Json) : List Rat := (arrOf j).map ratOf

def rsJson (s : Stats.RS) : List (String × Json) :=
  [("count", toJson s.count), ("mean", ratJ s.mean), ("M2", ratJ s.M2)] ++
  (if s.count = 0 then [] else [("var", ratJ s.var), ("errSq", ratJ s.errSq)])

/-- op "stats": a fresh RunningStatistics fed `chunks` (a one-element chunk is fed through `update`, the others
through `update_from_it`: the same fold); optional `alt` = the same sample in another order / as one chunk, for
which the model reports whether the final state is identical (instances of c19_chunking / c19_permutation). -/
def opStats (j : Json) : Json :=
  let chunks := (getArr j "chunks").map ratList
  let s := chunks.foldl Stats.RS.updateFromIt Stats.RS.init
  let same := match (j.getObjVal? "alt").toOption with
    | some a => [("same", toJson (decide (Stats.run (ratList a) = s)))]
    | none => []
  Json.mkObj (rsJson s ++ same)

/-- op "cov": a RunningCovarianceMatrix of `k` variables fed `steps`, each either `{"rows": [[x_0..x_{k-1}], …]}`
(one `update(*x)` per row) or `{"cols": [[…], …]}` (one `update_from_it(*cols)`). -/
def opCov (j : Json) : Json :=
  let k := getNat j "k" 2
  let steps : List Stats.Step := (getArr j "steps").map fun st =>
      match (st.getObjVal? "rows").toOption with
      | some rows => Stats.Step.rows ((arrOf rows).map ratList)
      | none => Stats.Step.cols ((arrOf (getObj st "cols")).map ratList)
  let m := steps.foldl Stats.Mat.apply (Stats.Mat.init k)
  let idx := List.range k
  let n := m.count
  Json.mkObj ([("count", toJson n),
     ("counts", toJson (m.map fun e => e.2.count)),
     ("means", Json.arr (idx.map fun i => ratJ (m.get i i).xmean).toArray),
     ("C", Json.arr (idx.map fun i => Json.arr (idx.map fun jj => ratJ (m.get i jj).C).toArray).toArray)] ++
    (if n = 0 then [] else
      [("covar", Json.arr (idx.map fun i => Json.arr (idx.map fun jj => ratJ (m.covar i jj)).toArray).toArray)]) ++
    (if n = 0 || n = 1 then [] else
      [("sample", Json.arr (idx.map fun i => Json.arr (idx.map fun jj => ratJ (m.sampleCovar i jj)).toArray).toArray)]))

/-- op "repeats": estimate_from_repeats over the sample stream `samples` (padded with zeros) -/
def opRepeats (j : Json) : Json :=
  let xs := (ratList (getObj j "samples")).toArray
  let f : Nat → Rat := fun i => xs.getD i 0
  let P : Stats.Params := { rtol := getRat j "rtol", tolScale := getRat j "tol_scale",
                            minSamples := getInt j "min", maxSamples := getInt j "max" }
  let s := Stats.estimate f P
  Json.mkObj (rsJson s ++ [("short", toJson (decide (s.count > (xs.size : Int))))])

/-- op "fmt": format_number_with_error -/
def opFmt (j : Json) : Json :=
  let i : Fmt.Inp := { neg := getBool j "neg", ax := getRat j "ax", err := getRat j "err",
                       axs := getRat j "axs", errs := getRat j "errs", lt := getBool j "lt" }
  match Fmt.kOf i with
  | none => err "sci-none"
  | some k =>
    match Fmt.format i, Fmt.sci (Fmt.shownErr i k) 1 with
    | some o, some r =>
      let (v, u) := Fmt.denote o
      Json.mkObj [("s", Json.str (Fmt.render o)), ("neg", toJson o.neg), ("n", toJson o.n), ("d", toJson o.d),
                  ("m", toJson o.m), ("k", match o.k with | some k => toJson k | none => Json.null),
                  ("kraw", toJson k), ("hide", toJson (Fmt.hide i k)), ("E", toJson r.2),
                  ("val", ratJ v), ("unc", ratJ u),
                  ("gap51", toJson (Fmt.gapOk i k (1 / (2 ^ 51 : Nat)))),
                  ("gap40", toJson (Fmt.gapOk i k (1 / (2 ^ 40 : Nat))))]
    | _, _ => err "sci-none"

def handleNum (op : String) (j : Json) : Option Json :=
  match op with
  | "stats" => some (opStats j)
  | "cov" => some (opCov j)
  | "repeats" => some (opRepeats j)
  | "fmt" => some (opFmt j)
  | _ => none

end DrvNum
