import Lean.Data.Json
import XyzModel.PlotPrep
import XyzModel.Infini
/-! JSON front end of the plotting models (C17: ops lineplot / scatter / histogram / heatmap; C18: op infiniplot).
Cells travel as integers: `k ≥ 0` finite value with token `k`, `-1` NaN, `-2` +inf, `-3` -inf. -/
open Lean

namespace DrvPlot

def optStr (j : Json) (k : String) : Option String := (j.getObjValAs? String k).toOption
def getStr (j : Json) (k : String) (d : String := "") : String := (optStr j k).getD d
def getBool (j : Json) (k : String) (d : Bool := false) : Bool := ((j.getObjValAs? Bool k).toOption).getD d
def optBool (j : Json) (k : String) : Option Bool := (j.getObjValAs? Bool k).toOption
def optNat (j : Json) (k : String) : Option Nat := (j.getObjValAs? Nat k).toOption
def strList (j : Json) (k : String) : List String := ((j.getObjValAs? (List String) k).toOption).getD []
def intList (j : Json) (k : String) : List Int := ((j.getObjValAs? (List Int) k).toOption).getD []
def getArr (j : Json) (k : String) : List Json := (((j.getObjValAs? (Array Json) k).toOption).getD #[]).toList
def getObj (j : Json) (k : String) : Json := (j.getObjVal? k).toOption.getD Json.null

open PlotPrep in
def cellOfInt (i : Int) : Cell :=
  if i ≥ 0 then .fin i.toNat else if i == -1 then .nan else .inf (i == -3)

open PlotPrep in
def intOfCell : Cell → Int
  | .fin k => k
  | .nan => -1
  | .inf false => -2
  | .inf true => -3

open PlotPrep in
def dsOf (j : Json) : DS :=
  { dims := (getArr j "dims").map fun d =>
      { name := getStr d "name", labels := strList d "labels", tlabels := strList d "tlabels" }
    vars := (getArr j "vars").map fun v =>
      { name := getStr v "name", dims := strList v "dims", cells := (intList v "cells").map cellOfInt } }

/-- a colour limit: `null` (not given) or `{"zero": bool}` -/
def limOf (j : Json) (k : String) : Option PlotPrep.LimArg :=
  match j.getObjVal? k with
  | .ok (.obj o) => some { isZero := getBool (.obj o) "zero" }
  | _ => none

def limSrcJson : PlotPrep.LimSrc → Json
  | .given => "given"
  | .zlim => "zlim"
  | .data => "data"
  | .unset => "unset"

open PlotPrep in
def callOf (kind : Kind) (j : Json) : Call :=
  { kind := kind, x := strList j "x", y := strList j "y", multi := getBool j "multi",
    z := optStr j "z", c := optStr j "c", yErr := optStr j "y_err", xErr := optStr j "x_err",
    row := optStr j "row", col := optStr j "col", zstr := getBool j "zstr",
    colors := match getStr j "colors" with
      | "auto" => .auto
      | "list" => .list
      | _ => .default
    legend := optBool j "legend", colorbar := optBool j "colorbar",
    vmin := limOf j "vmin", vmax := limOf j "vmax",
    zlimLo := ((getArr j "zlims")[0]?.bind fun b => (fromJson? b : Except String Bool).toOption).getD false,
    zlimHi := ((getArr j "zlims")[1]?.bind fun b => (fromJson? b : Except String Bool).toOption).getD false }

def cellsJson (l : List PlotPrep.Cell) : Json := toJson (l.map intOfCell)

def optJson {α} (f : α → Json) : Option α → Json
  | some a => f a
  | none => Json.null

open PlotPrep in
def quantJson : Quant → Json
  | .cell c => Json.mkObj [("id", toJson (intOfCell c))]
  | .lin r => Json.mkObj [("lin", Json.arr #[toJson r.num, toJson r.den])]

open PlotPrep in
def seriesJson (s : Series) : Json :=
  Json.mkObj [("label", optJson Json.str s.label), ("x", cellsJson s.x), ("y", cellsJson s.y),
              ("c", optJson cellsJson s.c), ("ye", optJson cellsJson s.ye), ("xe", optJson cellsJson s.xe),
              ("q", optJson quantJson s.q)]

open PlotPrep in
def panelJson (p : Panel) : Json :=
  Json.mkObj [("i", toJson p.i), ("j", toJson p.j), ("title", optJson Json.str p.title),
              ("rlabel", optJson Json.str p.rlabel), ("series", Json.arr (p.series.map seriesJson).toArray),
              ("mesh", Json.arr (p.mesh.map cellsJson).toArray)]

open PlotPrep in
def opClassic (kind : Kind) (j : Json) : Json :=
  let ds := dsOf j
  let call := callOf kind j
  let fig := plot ds call
  Json.mkObj [("panels", Json.arr ((fig.panels.flatten).map panelJson).toArray),
              ("legend", toJson fig.useLegend), ("colorbar", toJson fig.useColorbar),
              ("coloured", toJson (call.colors == .auto || call.c.isSome)),
              ("limits", Json.arr #[limSrcJson fig.limits.1, limSrcJson fig.limits.2])]

/-! ### infiniplot -/

open Infini in
def mapOf (j : Json) (prop : String) : Option Mapping :=
  let m := getObj (getObj j "map") prop
  match (m.getObjValAs? (List String) "dims").toOption with
  | none => none
  | some ds => some { dims := ds, order := (m.getObjValAs? (List String) "order").toOption }

def ratJson (r : Rat) : Json := Json.arr #[toJson r.num, toJson r.den]

def ratOf (j : Json) : Rat :=
  match j with
  | .arr #[n, d] => mkRat ((fromJson? n : Except String Int).toOption.getD 0) ((fromJson? d : Except String Nat).toOption.getD 1)
  | _ => 0

open Infini in
def styleJson (s : Style) : Json :=
  Json.mkObj [("color", optJson (fun (n : Nat) => toJson n) s.color), ("hue", optJson (fun (n : Nat) => toJson n) s.hue),
              ("ncolor", toJson s.ncolor),
              ("marker", optJson (fun (n : Nat) => toJson n) s.marker),
              ("linestyle", optJson (fun (n : Nat) => toJson n) s.linestyle),
              ("markersize", optJson ratJson s.markersize), ("linewidth", optJson ratJson s.linewidth)]

open Infini in
def yJson : YVal → Json
  | .cell c => toJson (intOfCell c)
  | .agg cs => Json.mkObj [("agg", cellsJson cs)]
  | .count n => Json.mkObj [("count", toJson n)]
  | .dens r => Json.mkObj [("dens", ratJson r)]
  | .undefined => Json.str "undef"

open Infini in
def lineJson (l : Line) : Json :=
  Json.mkObj [("i", toJson l.i), ("j", toJson l.j), ("x", cellsJson l.x), ("xc", Json.arr (l.xc.map ratJson).toArray),
              ("y", Json.arr (l.y.map yJson).toArray), ("style", styleJson l.style), ("loc", toJson l.loc)]

open Infini in
def meshJson (m : Mesh) : Json :=
  Json.mkObj [("i", toJson m.i), ("j", toJson m.j), ("cells", Json.arr (m.cells.map fun r => Json.arr (r.map yJson).toArray).toArray)]

open Infini in
def opInfini (j : Json) : Json :=
  let ds := dsOf j
  let req : Request :=
    { x := getStr j "x", y := optStr j "y", z := optStr j "z", err := optStr j "err",
      maps := PROPS.filterMap fun p => (mapOf j p).map fun m => (p, m)
      aggregate := match (j.getObjValAs? (List String) "aggregate").toOption with
        | some l => .dims l
        | none => if getBool j "aggregate" then .all else .none
      join := getBool j "join", density := getBool j "density" true,
      edges := (getArr j "edges").map ratOf,
      values := (getArr j "values").map fun p =>
        match p with
        | .arr #[k, r] => ((fromJson? k : Except String Nat).toOption.getD 0, ratOf r)
        | _ => (0, 0) }
  match run ds req with
  | .error e => Json.mkObj [("err", Json.str e)]
  | .ok out =>
    Json.mkObj [("nrows", toJson out.nrows), ("ncols", toJson out.ncols),
                ("lines", Json.arr (out.lines.map lineJson).toArray),
                ("meshes", Json.arr (out.meshes.map meshJson).toArray)]

def handlePlot (op : String) (j : Json) : Option Json :=
  match op with
  | "lineplot" => some (opClassic .lineplot j)
  | "scatter" => some (opClassic .scatter j)
  | "histogram" => some (opClassic .histogram j)
  | "heatmap" => some (opClassic .heatmap j)
  | "infiniplot" => some (opInfini j)
  | _ => none

end DrvPlot
