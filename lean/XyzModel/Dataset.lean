/-!
# Finite-map datasets (the part of `xarray.Dataset` the Harvester / missing-data / save-load properties use)

* a *coordinate* is an `Int`: the harness sends, per dimension, the rank of every coordinate value in the sorted
  universe of that dimension (numeric or string), so Python's ordering of labels is not re-implemented here;
* a *point* `Pt` is an association list dimension ↦ coordinate, in the variable's dimension order
  (the Harvester model keeps dimensions sorted by name: the harness canonicalises the real datasets the same way);
* a *variable* is a finite map from points to `Option Tok` (`none` = NaN / null), represented by the association
  list of its non-null entries: `cget cells p : Option Tok` is the map.  A dense xarray variable over the product of
  its coordinates is exactly such a map; an outer join only adds points that map to `none`;
* `Tok` is an opaque value token (`v n`), or `±inf` (non-null but not finite; used by the missing-data model).

The three merges of `Harvester.add_ds` / `save_merge_ds` are `Dataset.combineFirst` (in both argument orders) and
`Dataset.mergeNoConflicts` (`merge(compat='no_conflicts')`), all with outer-join coordinate union.
-/
namespace DS

abbrev Coord := Int

inductive Tok where
  | v (n : Int)
  | pinf
  | ninf
deriving DecidableEq, Repr, Inhabited

abbrev Pt := List (String × Coord)
abbrev Cells := List (Pt × Tok)

/-- association-list lookup on string keys (first match wins, as in a Python dict built left to right) -/
def alookup {β : Type} : List (String × β) → String → Option β
  | [], _ => none
  | (k', x) :: r, k => if k' = k then some x else alookup r k

/-- the finite map represented by a cell list; `none` = null -/
def cget : Cells → Pt → Option Tok
  | [], _ => none
  | (q, t) :: r, p => if q = p then some t else cget r p

/-- `a.combine_first(b)` on one variable: `a` where it is non-null, else `b` -/
def combineFirst (a b : Cells) : Cells := a ++ b.filter (fun e => (cget a e.1).isNone)

/-- do `a` and `b` hold different non-null values at some point? -/
def conflict (a b : Cells) : Bool :=
  b.any fun e => match cget a e.1, cget b e.1 with
    | some x, some y => x != y
    | _, _ => false

structure Var where
  dims : List String
  cells : Cells
deriving Repr, DecidableEq

inductive Attr where
  | none
  | bool (b : Bool)
  | str (s : String)
  | int (i : Int)
  | num (repr : String)      -- a float, by its repr
deriving DecidableEq, Repr

structure Dataset where
  /-- per dimension its coordinate list, in the dataset's dimension order -/
  coords : List (String × List Coord) := []
  vars : List (String × Var) := []
  attrs : List (String × Attr) := []
deriving Repr, DecidableEq

namespace Dataset
def coordsOf (d : Dataset) (dim : String) : List Coord := (alookup d.coords dim).getD []
def cellsOf (d : Dataset) (var : String) : Cells := ((alookup d.vars var).map (·.cells)).getD []
/-- value of variable `var` at point `p` (`none` = null, or no such variable / point) -/
def get (d : Dataset) (var : String) (p : Pt) : Option Tok := cget (d.cellsOf var) p
end Dataset

/-! ### outer join of coordinates -/

def insertSorted (x : Coord) : List Coord → List Coord
  | [] => [x]
  | y :: ys => if x < y then x :: y :: ys else if x = y then y :: ys else y :: insertSorted x ys

/-- sorted, de-duplicated union (pandas `Index.union`) -/
def sortedUnion (xs ys : List Coord) : List Coord := (xs ++ ys).foldl (fun acc x => insertSorted x acc) []

def unionCoords (a b : List (String × List Coord)) : List (String × List Coord) :=
  a.map (fun e => (e.1, sortedUnion e.2 ((alookup b e.1).getD []))) ++
  (b.filter (fun e => (alookup a e.1).isNone)).map (fun e => (e.1, sortedUnion e.2 []))

def mergeVars (f : Cells → Cells → Cells) (a b : List (String × Var)) : List (String × Var) :=
  a.map (fun e => (e.1, { e.2 with cells := f e.2.cells (((alookup b e.1).map (·.cells)).getD []) })) ++
  b.filter (fun e => (alookup a e.1).isNone)

namespace Dataset

/-- `a.combine_first(b)`: outer join; `a`'s non-null values win, holes are filled from `b` -/
def combineFirst (a b : Dataset) : Dataset :=
  { coords := unionCoords a.coords b.coords, vars := mergeVars DS.combineFirst a.vars b.vars, attrs := a.attrs }

def conflicts (a b : Dataset) : Bool := a.vars.any fun e => conflict (a.cellsOf e.1) (b.cellsOf e.1)

/-- `a.merge(b, compat='no_conflicts')` / `xr.merge([a, b])`: error iff some variable holds two different non-null
values at one point; otherwise the outer-joined union -/
def mergeNoConflicts (a b : Dataset) : Except Unit Dataset :=
  if a.conflicts b then .error () else .ok (a.combineFirst b)

end Dataset

/-! ### selection -/

/-- does point `p` agree with `setting` on every dimension they share? -/
def ptMatches (setting p : Pt) : Bool :=
  setting.all fun s => match alookup p s.1 with
    | some c => c == s.2
    | none => true

def Var.sel (v : Var) (setting : Pt) : Var :=
  { dims := v.dims.filter (fun d => (alookup setting d).isNone)
    cells := (v.cells.filter (fun e => ptMatches setting e.1)).map
      (fun e => (e.1.filter (fun kc => (alookup setting kc.1).isNone), e.2)) }

/-- are all labels of `setting` present (a dimension of the dataset, and a coordinate of it)? else `KeyError` -/
def Dataset.hasLabels (d : Dataset) (setting : Pt) : Bool :=
  setting.all fun s => match alookup d.coords s.1 with
    | some cs => cs.contains s.2
    | none => false

/-- `ds.sel(setting)`; `none` = `KeyError` (a label or dimension that is not there) -/
def Dataset.sel (d : Dataset) (setting : Pt) : Option Dataset :=
  if d.hasLabels setting then
    some { coords := d.coords.filter (fun e => (alookup setting e.1).isNone)
           vars := d.vars.map (fun e => (e.1, e.2.sel setting))
           attrs := d.attrs }
  else none

/-! ### `expand_dims` / `drop_sel` (points keep their dimensions sorted by name) -/

def insertKey (k : String) (c : Coord) : Pt → Pt
  | [] => [(k, c)]
  | (k', c') :: r => if k < k' then (k, c) :: (k', c') :: r else (k', c') :: insertKey k c r

def insertDim (k : String) : List String → List String
  | [] => [k]
  | k' :: r => if k < k' then k :: k' :: r else k' :: insertDim k r

def insertCoordDim (k : String) (cs : List Coord) : List (String × List Coord) → List (String × List Coord)
  | [] => [(k, cs)]
  | (k', c') :: r => if k < k' then (k, cs) :: (k', c') :: r else (k', c') :: insertCoordDim k cs r

/-- `ds.expand_dims(name)` followed by `coords[name] = [value]`; `none` = `ValueError` (dimension exists already) -/
def Dataset.expandDims (d : Dataset) (name : String) (value : Coord) : Option Dataset :=
  if (alookup d.coords name).isSome then none else
  some { coords := insertCoordDim name [value] d.coords
         vars := d.vars.map fun e =>
           (e.1, { dims := insertDim name e.2.dims, cells := e.2.cells.map fun c => (insertKey name value c.1, c.2) })
         attrs := d.attrs }

/-- does a point survive `drop_sel({dim: values})`? (points without that dimension always do) -/
def keepsPt (dim : String) (values : List Coord) (p : Pt) : Bool :=
  match alookup p dim with
  | some x => !values.contains x
  | none => true

def dropCoords (dim : String) (values : List Coord) (k : String) (cs : List Coord) : List Coord :=
  if k = dim then cs.filter (fun c => !values.contains c) else cs

/-- `ds.drop_sel({dim: values})` with `errors='raise'`; `none` = `KeyError` (a label that is not there) -/
def Dataset.dropSel (d : Dataset) (dim : String) (values : List Coord) : Option Dataset :=
  match alookup d.coords dim with
  | none => none
  | some cs =>
    if values.all (fun x => cs.contains x) then
      some { coords := d.coords.map fun e => (e.1, dropCoords dim values e.1 e.2)
             vars := d.vars.map fun e =>
               (e.1, { dims := e.2.dims, cells := e.2.cells.filter fun c => keepsPt dim values c.1 })
             attrs := d.attrs }
    else none

end DS
