import XyzModel.Gen.Extracted
/-!
# `format_number_with_error(x, err)` (xyzpy/utils.py) over exact rationals

The Python function does three kinds of things:

1. decimal formatting of binary floats (`f"{x:e}"`, `f"{err:.1e}"`, `f"{x:.{d}f}"`): these are *correctly rounded*
   (round-half-even on the exact binary value), so they are functions of the exact rational value of the float
   and are modelled exactly: `sci q p` (p+1 significant digits) and `fixed q d` (d decimals);
2. three integer/boolean formulas — the common exponent, the "hide the exponent" rule and the number of decimals —
   which are **extracted from the source** on every run: `Gen.fmtExp`, `Gen.fmtHide`, `Gen.fmtDigits`;
3. two float operations, `x / 10**k`, `err / 10**k` and the comparison `err < abs(x / 10)`.  Floating point is not
   modelled: the harness passes the exact rationals of the two scaled floats (`axs`, `errs`) and the boolean of the
   comparison (`lt`) as data, and `gapOk` states how far the scaled floats may be from the exact quotients
   (checked on every sample; hypothesis of the theorems).

`sci` *checks its own result* (normalised mantissa, error at most half a unit of the last digit) and returns
`none` otherwise, so its specification is immediate; that `none` never occurs is confirmed by the correspondence
run (a `none` is reported as a model/implementation disagreement).

The structured output `Out` is what the string shows; `render` produces the string, `denote` reads it by the usual
convention (bracketed digits = uncertainty in units of the last shown digit, everything times the shown power of ten).
-/
namespace Fmt

/-- `10 ^ e` for an integer exponent -/
def pow10 (e : Int) : Rat :=
  if 0 ≤ e then ((10 ^ e.toNat : Nat) : Rat) else 1 / ((10 ^ (-e).toNat : Nat) : Rat)

/-- round to nearest integer, ties to even (what correctly rounded decimal formatting does) -/
def roundHalfEven (q : Rat) : Int :=
  let f := q.floor
  let r := q - (f : Rat)
  if r < 1 / 2 then f else if 1 / 2 < r then f + 1 else if f % 2 = 0 then f else f + 1

/-- number of decimal digits of a natural number -/
def ndigits (n : Nat) : Nat := (Nat.toDigits 10 n).length

/-- `⌊log10 q⌋` for `q > 0` (estimate from the digit counts of numerator and denominator, then one correction) -/
def floorLog10 (q : Rat) : Int :=
  let e0 : Int := (ndigits q.num.natAbs : Int) - (ndigits q.den : Int)
  if pow10 e0 ≤ q then e0 else e0 - 1

/-- candidate for the scientific rounding of `q > 0` to `p + 1` significant digits: (integer mantissa, exponent);
a mantissa that rounds up to `10^(p+1)` carries into the exponent (`9.96 → 1.0e+01`) -/
def sciRaw (q : Rat) (p : Nat) : Int × Int :=
  let e := floorLog10 q
  let m := roundHalfEven (q / pow10 (e - p))
  if m = ((10 ^ (p + 1) : Nat) : Int) then (((10 ^ p : Nat) : Int), e + 1) else (m, e)

/-- `(m, e)` is a correct rounding of `q` to `p + 1` significant digits: `10^p ≤ m < 10^(p+1)` and
`|q − m·10^(e−p)| ≤ ½·10^(e−p)` -/
def sciOk (q : Rat) (p : Nat) (r : Int × Int) : Bool :=
  let u := pow10 (r.2 - p)
  decide (((10 ^ p : Nat) : Int) ≤ r.1) && decide (r.1 < ((10 ^ (p + 1) : Nat) : Int)) &&
  decide (q - (r.1 : Rat) * u ≤ 1 / 2 * u) && decide ((r.1 : Rat) * u - q ≤ 1 / 2 * u)

/-- `f"{q:.{p}e}"` for `q > 0`, self-checked -/
def sci (q : Rat) (p : Nat) : Option (Int × Int) :=
  let r := sciRaw q p
  if sciOk q p r then some r else none

/-- the decimal exponent Python prints for `f"{q:e}"`, `q ≥ 0` (`0.000000e+00` for zero) -/
def expOf (q : Rat) : Option Int :=
  if q = 0 then some 0 else
  match sci q 6 with
  | some r => some r.2
  | none => none

/-- `f"{q:.{d}f}"` for `q ≥ 0`: all shown digits as one integer (value shown = `fixed q d / 10^d`) -/
def fixed (q : Rat) (d : Nat) : Int := roundHalfEven (q * ((10 ^ d : Nat) : Rat))

/-- inputs: sign bit of `x`, `|x|`, `err`, the exact values of the floats `|x / 10**k|` and `err / 10**k`,
and the float comparison `err < abs(x / 10)` -/
structure Inp where
  neg : Bool
  ax : Rat
  err : Rat
  axs : Rat
  errs : Rat
  lt : Bool

/-- what the string shows: sign, the shown digits of the value as an integer `n` with `d` of them after the point,
the two bracketed digits `m`, and the exponent suffix (absent when hidden) -/
structure Out where
  neg : Bool
  n : Nat
  d : Nat
  m : Nat
  k : Option Int
deriving Repr, DecidableEq

/-- `x_exponent` -/
def kOf (i : Inp) : Option Int :=
  match expOf i.ax, sci i.err 6 with
  | some xe, some r => some (Gen.fmtExp xe r.2)
  | _, _ => none

/-- `hide_exponent` -/
def hide (i : Inp) (k : Int) : Bool := Gen.fmtHide k i.lt

/-- the value / error that get formatted (rescaled unless the exponent is hidden) and the shown exponent -/
def shownX (i : Inp) (k : Int) : Rat := if hide i k then i.ax else i.axs
def shownErr (i : Inp) (k : Int) : Rat := if hide i k then i.err else i.errs
def shownExp (i : Inp) (k : Int) : Int := if hide i k then 0 else k

def format (i : Inp) : Option Out :=
  match kOf i with
  | none => none
  | some k =>
    match sci (shownErr i k) 1 with
    | none => none
    | some r =>
      let d := (Gen.fmtDigits r.2).toNat
      some { neg := i.neg, n := (fixed (shownX i k) d).toNat, d := d, m := r.1.toNat,
             k := if hide i k then none else some k }

/-- how far the scaled floats may be from the exact quotients (relative `τ`); also records `axs ≥ 0` -/
def gapOk (i : Inp) (k : Int) (τ : Rat) : Bool :=
  let s := pow10 k
  decide (0 ≤ i.axs) &&
  decide (i.axs - i.ax / s ≤ τ * (i.ax / s)) && decide (i.ax / s - i.axs ≤ τ * (i.ax / s)) &&
  decide (i.errs - i.err / s ≤ τ * (i.err / s)) && decide (i.err / s - i.errs ≤ τ * (i.err / s))

/-! ### the string and its reading -/

def fixedStr (neg : Bool) (n d : Nat) : String :=
  let ip := n / 10 ^ d
  let fp := n % 10 ^ d
  let fs := toString fp
  let frac := if d = 0 then "" else "." ++ String.ofList (List.replicate (d - fs.length) '0') ++ fs
  (if neg then "-" else "") ++ toString ip ++ frac

/-- `f"{k:+03d}"` -/
def expStr (k : Int) : String :=
  let a := k.natAbs
  (if k < 0 then "-" else "+") ++ (if a < 10 then "0" else "") ++ toString a

def render (o : Out) : String :=
  let ms := toString o.m
  fixedStr o.neg o.n o.d ++ "(" ++ (if ms.length < 2 then "0" ++ ms else ms) ++ ")" ++
    (match o.k with | none => "" | some k => "e" ++ expStr k)

/-- (value, uncertainty) denoted by the shown output -/
def denote (o : Out) : Rat × Rat :=
  let s := pow10 (o.k.getD 0)
  let u := pow10 (-(o.d : Int))
  ((if o.neg then -1 else 1) * (o.n : Rat) * u * s, (o.m : Rat) * u * s)

end Fmt
