import XyzModel.Gen.Extracted
/-!
# File-system level model of the crop protocol (C10, C11)

Two parts.

* `FS`: replay of a *trace* of write-side file operations (as recorded from the real library by the LD_PRELOAD shim),
  and the protocol predicate `atomicPublisher`: final names (info, function, batch, result, data files) are never
  opened for writing, written or truncated; they only come into being by renaming a private temporary file that the
  same process created and has closed.
* `Conc`: processes that publish files under that protocol (`tmpRename`) or the old way (`direct`: create the final
  name, then write), a reaper that waits for result files, a progress poller, and an arbitrary scheduler.  A crash is a
  process that is never scheduled again.
-/
namespace FS

inductive Ev where
  | openw (pid : Nat) (p : String) (trunc : Bool)
  | write (pid : Nat) (p : String) (n : Nat)
  | close (pid : Nat) (p : String)
  | rename (pid : Nat) (a b : String)
  | unlink (pid : Nat) (p : String)
  | other (pid : Nat)                       -- mkdir / rmdir and anything else that does not touch file content
deriving Repr

structure File where
  size : Nat
  /-- currently open for writing by some process -/
  openW : Bool
deriving Repr, DecidableEq

abbrev State := List (String × File)

def lookup {γ} (s : List (String × γ)) (p : String) : Option γ := (s.find? (·.1 == p)).map (·.2)
def erase {γ} (s : List (String × γ)) (p : String) : List (String × γ) := s.filter (·.1 != p)
def set {γ} (s : List (String × γ)) (p : String) (f : γ) : List (String × γ) := (erase s p) ++ [(p, f)]

def apply (s : State) : Ev → State
  | .openw _ p trunc =>
    match lookup s p with
    | some f => set s p { size := if trunc then 0 else f.size, openW := true }
    | none => set s p { size := 0, openW := true }
  | .write _ p n =>
    match lookup s p with
    | some f => set s p { f with size := f.size + n }
    | none => s
  | .close _ p =>
    match lookup s p with
    | some f => set s p { f with openW := false }
    | none => s
  | .rename _ a b =>
    match lookup s a with
    | some f => set (erase s a) b f
    | none => s
  | .unlink _ p => erase s p
  | .other _ => s

def replay (tr : List Ev) : State := tr.foldl apply []

/-- ghost bookkeeping of the predicate: temporaries with their creator and whether they have been closed -/
abbrev Ghost := List (String × Nat × Bool)

def glookup (g : Ghost) (p : String) : Option (Nat × Bool) := lookup g p
def gerase (g : Ghost) (p : String) : Ghost := erase g p
def gset (g : Ghost) (p : String) (v : Nat × Bool) : Ghost := set g p v

/-- one event is acceptable under the atomic-publication protocol -/
def okEv (isFinal : String → Bool) (g : Ghost) : Ev → Option Ghost
  | .openw pid p _ => if isFinal p then none else some (gset g p (pid, false))
  | .write _ p _ => if isFinal p then none else some g
  | .close pid p =>
    match glookup g p with
    | some (pid', _) => if pid' = pid then some (gset g p (pid, true)) else some g
    | none => some g
  | .rename pid a b =>
    if isFinal a then none
    else if isFinal b then
      match glookup g a with
      | some (pid', true) => if pid' = pid then some (gerase g a) else none
      | _ => none
    else some (gerase (gerase g a) b)     -- temporary renamed to another non-final name: stop tracking both
  | .unlink _ p => some (gerase g p)
  | .other _ => some g

def checkFrom (isFinal : String → Bool) : Ghost → List Ev → Option Ghost
  | g, [] => some g
  | g, e :: rest =>
    match okEv isFinal g e with
    | some g' => checkFrom isFinal g' rest
    | none => none

/-- the protocol predicate on a whole trace -/
def atomicPublisher (isFinal : String → Bool) (tr : List Ev) : Bool := (checkFrom isFinal [] tr).isSome

/-- index of the first event that breaks the protocol (for reporting) -/
def firstBad (isFinal : String → Bool) : Ghost → List Ev → Nat → Option Nat
  | _, [], _ => none
  | g, e :: rest, i =>
    match okEv isFinal g e with
    | some g' => firstBad isFinal g' rest (i + 1)
    | none => some i

end FS

namespace Conc

abbrev Payload := List Nat

inductive Mode where
  | tmpRename      -- write a private temporary, close it, rename it into place
  | direct         -- create the final name, then write into it
deriving Repr, DecidableEq

/-- the way `write_to_disk` publishes a file, read off its source on every run (`harness/anchors_fs.py`): it is the
protocol `tmpRename` only if the object is dumped under another name which is moved onto the final one after the file is
closed, that name is fresh for every call, and it cannot be taken for a batch or result file -/
def sourceMode : Mode :=
  if Gen.publishViaRename && Gen.tmpNamePrivate && Gen.tmpNameHidden then .tmpRename else .direct

/-- grower program counter -/
inductive GPc where
  | start
  | writing (done : Nat)
  | closed
  | finished
deriving DecidableEq, Repr

structure Grower where
  batch : Nat
  pc : GPc
deriving Repr

structure Reaper where
  next : Nat
  acc : List Payload
  failed : Bool
deriving Repr

structure Sys where
  mode : Mode
  nb : Nat
  /-- the true result of batch `i` (a deterministic function gives every grower of `i` the same payload) -/
  payload : Nat → Payload
  /-- private temporary of grower `g` -/
  tmp : Nat → Option Payload
  /-- result file of batch `i` as any other process sees it -/
  res : Nat → Option Payload
  growers : List Grower
  reaper : Reaper
  /-- what the progress poller has counted as finished (batch, content of the file at that instant), most recent first -/
  counted : List (List (Nat × Payload))

def setFn (f : Nat → Option Payload) (i : Nat) (v : Option Payload) : Nat → Option Payload :=
  fun j => if j = i then v else f j

/-- one atomic file operation of grower `g` -/
def stepGrower (s : Sys) (g : Nat) : Sys :=
  match s.growers[g]? with
  | none => s
  | some gr =>
    let p := s.payload gr.batch
    let upd (pc : GPc) := s.growers.set g { gr with pc := pc }
    match s.mode, gr.pc with
    | .tmpRename, .start => { s with tmp := setFn s.tmp g (some []), growers := upd (.writing 0) }
    | .tmpRename, .writing d =>
        if d < p.length then
          { s with tmp := setFn s.tmp g (some (p.take (d + 1))), growers := upd (.writing (d + 1)) }
        else { s with growers := upd .closed }
    | .tmpRename, .closed =>
        { s with res := setFn s.res gr.batch (s.tmp g), tmp := setFn s.tmp g none, growers := upd .finished }
    | .direct, .start => { s with res := setFn s.res gr.batch (some []), growers := upd (.writing 0) }
    | .direct, .writing d =>
        if d < p.length then
          { s with res := setFn s.res gr.batch (some (p.take (d + 1))), growers := upd (.writing (d + 1)) }
        else { s with growers := upd .finished }
    | .direct, .closed => { s with growers := upd .finished }
    | _, .finished => s

/-- one step of `reap(wait=True)`: poll for the next result; once it exists load it (a partly written pickle does
not load, and one that loaded is used as is) -/
def stepReaper (s : Sys) : Sys :=
  if s.reaper.failed ∨ s.reaper.next ≥ s.nb then s else
  match s.res s.reaper.next with
  | none => s
  | some data =>
      if data = s.payload s.reaper.next then
        { s with reaper := { s.reaper with next := s.reaper.next + 1, acc := s.reaper.acc ++ [data] } }
      else { s with reaper := { s.reaper with failed := true } }

/-- one progress query: list the result files -/
def stepPoller (s : Sys) : Sys :=
  { s with counted := ((List.range s.nb).filterMap fun i => (s.res i).map fun d => (i, d)) :: s.counted }

inductive Act where
  | grow (g : Nat)
  | reap
  | poll
deriving Repr

def step (s : Sys) : Act → Sys
  | .grow g => stepGrower s g
  | .reap => stepReaper s
  | .poll => stepPoller s

def run (s : Sys) (sched : List Act) : Sys := sched.foldl step s

def init (mode : Mode) (nb : Nat) (payload : Nat → Payload) (batches : List Nat) : Sys :=
  { mode := mode, nb := nb, payload := payload, tmp := fun _ => none, res := fun _ => none,
    growers := batches.map fun b => { batch := b, pc := .start },
    reaper := { next := 0, acc := [], failed := false }, counted := [] }

/-! ### the data file of a Harvester / Sampler: replace by rename, or remove-then-rewrite -/

/-- visible content of the data path after `k` steps of a save that replaces `old` by `new` -/
def dataVisible (mode : Mode) (old new : Payload) (chunks : Nat) (k : Nat) : Option Payload :=
  match mode with
  | .tmpRename =>
      -- create T; write T × chunks; close T; rename T D   (chunks + 3 steps)
      if k < chunks + 3 then some old else some new
  | .direct =>
      -- unlink D; create D; write D × chunks; close D
      if k = 0 then some old
      else if k = 1 then none
      else if k < chunks + 2 then some (new.take (k - 2)) else some new

end Conc
