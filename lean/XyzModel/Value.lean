/-!
# Result kinds and `nan_like_result` (xyzpy/gen/combo_runner.py)

Results are described by their *kind* — what the property distinguishes: a plain scalar, a rectangular nested
list / array (by shape), a tuple of outputs (each an array, shape `[]` = scalar), a dict / Dataset of variables.
`nanLike` is `nan_like_result`: `None` for a plain bool/str, NaN for any other scalar, an all-NaN array of the
inferred shape per tuple component, an all-NaN Dataset for dict/Dataset results.
-/
namespace Value

inductive Leaf where
  | num | nan | none | bool | str
deriving Repr, DecidableEq

inductive Val where
  | scalar (l : Leaf)
  | arr (shape : List Nat) (fill : Leaf)
  | tuple (comps : List (List Nat × Leaf))
  | ds (vars : List (String × List Nat × Leaf))
deriving Repr, DecidableEq

def Leaf.missing : Leaf → Bool
  | .nan => true
  | .none => true
  | _ => false

def nanLike : Val → Val
  | .scalar .bool => .scalar .none
  | .scalar .str => .scalar .none
  | .scalar _ => .scalar .nan
  | .arr shape _ => .arr shape .nan
  | .tuple comps => .tuple (comps.map fun c => (c.1, .nan))
  | .ds vars => .ds (vars.map fun v => (v.1, v.2.1, .nan))

/-- shape, componentwise -/
def shape : Val → List (List Nat)
  | .scalar _ => [[]]
  | .arr s _ => [s]
  | .tuple comps => comps.map (·.1)
  | .ds vars => vars.map (·.2.1)

def names : Val → List String
  | .ds vars => vars.map (·.1)
  | _ => []

def leaves : Val → List Leaf
  | .scalar l => [l]
  | .arr _ l => [l]
  | .tuple comps => comps.map (·.2)
  | .ds vars => vars.map (·.2.2)

end Value
