import XyzModel.Dataset
import XyzModel.Nest
/-!
# Missing-data discovery (xyzpy/gen/case_runner.py: `is_case_missing`, `find_missing_cases`, `parse_into_cases`)

Cells are `Tok`s: a value, `±inf`, or absent (= null).  `Method.isnull` counts only null as missing,
`Method.isfinite` counts null and `±inf`.  A *location* is a `Pt` over some of the dataset's dimensions
(the non-ignored ones, or the keys of a requested case); the remaining (internal / ignored) dimensions are
quantified over by the `.all()` of the code.
-/
namespace Missing
open DS

inductive Method where
  | isnull | isfinite
deriving DecidableEq, Repr

/-- does a stored (non-null) token count as data under the method? -/
def present (m : Method) : Tok → Bool
  | .v _ => true
  | _ => m == .isnull

/-- `is_case_missing(ds, setting, method)`: `ds.sel(setting)`, null test, `.all()` over everything that is left, all
over the variables; a `KeyError` of the selection (label or dimension not there) means missing -/
def isCaseMissing (d : Dataset) (setting : Pt) (m : Method) : Bool :=
  match d.sel setting with
  | none => true
  | some s => s.vars.all fun e => e.2.cells.all fun c => !present m c.2

/-- `find_missing_cases(ds, ignore_dims, method)`: the non-ignored dimensions in dataset order, their product in
grid order, filtered by `is_case_missing` -/
def findMissingCases (d : Dataset) (ignore : List String) (m : Method) : List String × List (List Coord) :=
  let dims := d.coords.filter fun e => !ignore.contains e.1
  let fnArgs := dims.map (·.1)
  (fnArgs, (Core.product (dims.map (·.2))).filter fun c => isCaseMissing d (fnArgs.zip c) m)

/-- `{**case, **extra}` -/
def mergeCase (case extra : Pt) : Pt :=
  case.map (fun kv => (kv.1, (alookup extra kv.1).getD kv.2)) ++ extra.filter (fun kv => (alookup case kv.1).isNone)

/-- all requested settings of `parse_into_cases`, before filtering: cases outermost, combos in product order -/
def requested (combos : List (String × List Coord)) (cases : List Pt) : List Pt :=
  cases.flatMap fun case =>
    (Core.product (combos.map (·.2))).map fun setting => mergeCase case ((combos.map (·.1)).zip setting)

/-- `parse_into_cases(combos, cases, ds, method)`; `cases = none` is the single empty case -/
def parseIntoCases (combos : List (String × List Coord)) (cases : Option (List Pt)) (d : Option Dataset)
    (m : Method) : List Pt :=
  (requested combos (cases.getD [[]])).filter fun nc =>
    match d with
    | none => true
    | some d => isCaseMissing d nc m

end Missing
