import Lean.Data.Json
import XyzModel.Script
/-! Driver family for C16: op "script" (and "script_cli").  One JSON request in, one JSON reply out.

request  {"op":"script","scheduler":"sge|pbs|slurm","mode":"array|single","batch_ids":[..]|null,"num_batches":B,
          "done":[ids with a result file],"opts":{<keyword arguments of gen_cluster_script; a float is {"float":"1.5"};
          "extra":[[key,value],..] are the **kwargs in order>},"env":{"home":..,"conda_default_env":..|null,"name":..,"parent_dir":..}}
reply    {"text":<script>,"python":<embedded program>,"run":[run_start,run_stop],"rewritten":bool,
          "tasks":[[t, batch id | null],..],"ids":[..],"amode":"all|partial","dynamic":bool,"single_ids":[..]}
         or {"err":"value|type|zerodiv|format"}
request  {"op":"script_cli","num_batches":B,"done":[..],"prepared":bool}
reply    {"ids":[the batches `xyzpy-grow` grows],"raised":bool}   (through the translated skeleton `Gen.cliSk`)
-/
open Lean

namespace DrvScript
open Scr

def getObj (j : Json) (k : String) : Json := (j.getObjVal? k).toOption.getD Json.null
def getStr (j : Json) (k : String) (d : String := "") : String := ((j.getObjValAs? String k).toOption).getD d
def getNat (j : Json) (k : String) (d : Nat := 0) : Nat := ((j.getObjValAs? Nat k).toOption).getD d
def natList (j : Json) (k : String) : List Nat := ((j.getObjValAs? (List Nat) k).toOption).getD []
def err (s : String) : Json := Json.mkObj [("err", Json.str s)]

/-- a keyword-argument value: null, bool, integer, string, {"float": text} -/
def pyValOf (j : Json) : PyVal :=
  match j with
  | .null => .none
  | .bool b => .bool b
  | .str s => .str s.toList
  | .num _ => match (fromJson? j : Except String Int) with
    | .ok i => .int i
    | .error _ => .none
  | .obj _ => match (j.getObjValAs? String "float").toOption with
    | some r => .flt r.toList
    | none => .none
  | _ => .none

def optVal (o : Json) (k : String) (d : PyVal) : PyVal :=
  match (o.getObjVal? k).toOption with
  | some v => pyValOf v
  | none => d

def optStr (o : Json) (k : String) (d : String) : Str :=
  (((o.getObjValAs? String k).toOption).getD d).toList

def rawOf (o env : Json) : Raw :=
  { numProcs := optVal o "num_procs" .none, numThreads := optVal o "num_threads" .none,
    numNodes := optVal o "num_nodes" .none, numWorkers := optVal o "num_workers" .none,
    mem := optVal o "mem" .none, memPerCpu := optVal o "mem_per_cpu" .none, gigabytes := optVal o "gigabytes" .none,
    time := optVal o "time" .none, hours := optVal o "hours" .none, minutes := optVal o "minutes" .none,
    seconds := optVal o "seconds" .none, condaEnv := optVal o "conda_env" (.bool true),
    launcher := optStr o "launcher" "python", setup := optStr o "setup" "#", shellSetup := optStr o "shell_setup" "",
    mpi := ((o.getObjValAs? Bool "mpi").toOption).getD false,
    tempGigabytes := optVal o "temp_gigabytes" (.int 1), outputDirectory := optVal o "output_directory" .none,
    debugging := optVal o "debugging" (.bool false),
    extra := (((o.getObjValAs? (Array Json) "extra").toOption).getD #[]).toList.map (fun kv =>
      match kv with
      | .arr #[k, v] => ((k.getStr?.toOption.getD "").toList, pyValOf v)
      | _ => ([], .none)),
    home := (getStr env "home").toList,
    condaDefault := match (env.getObjValAs? String "conda_default_env").toOption with
      | some e => .str e.toList
      | none => .bool false,
    name := (getStr env "name").toList, parentDir := (getStr env "parent_dir").toList }

def schedOf : String → Option Sched
  | "sge" => some .sge | "pbs" => some .pbs | "slurm" => some .slurm | _ => none
def modeOf : String → Option Mode
  | "array" => some .array | "single" => some .single | _ => none

def opScript (j : Json) : Json :=
  match schedOf (getStr j "scheduler").toLower, modeOf (getStr j "mode") with
  | some sched, some mode =>
    let explicit := (j.getObjValAs? (List Nat) "batch_ids").toOption
    let B := getNat j "num_batches"
    let done := natList j "done"
    let raw := rawOf (getObj j "opts") (getObj j "env")
    match resolve sched raw with
    | .error e => Json.mkObj [("err", Json.str (match e with | .valueError => "value" | .typeError => "type" | _ => "other")),
        ("gen_err", toJson (match genText (getStr j "scheduler").toList (getStr j "mode").toList explicit B done raw with
          | .error _ => true | .ok _ => false))]
    | .ok base =>
      let s := mkScript sched mode explicit B done base
      match s.text with
      | none => err "format"
      | some txt =>
        Json.mkObj [
          ("text", Json.str txt), ("python", Json.str s.python),
          ("run", toJson [s.runStart, s.runStop]), ("rewritten", toJson s.rewritten),
          ("tasks", Json.arr (s.tasks.map (fun t => Json.arr #[toJson t, toJson (taskBatch s t)])).toArray),
          ("ids", toJson s.ids), ("amode", Json.str (String.ofList s.amode.name)), ("dynamic", toJson s.dynamic),
          ("single_ids", toJson (singleIds s (missing B done))),
          -- the same text computed with the translated body of gen_cluster_script (null: it raised / format failed)
          ("text_gen", match genText (getStr j "scheduler").toList (getStr j "mode").toList explicit B done raw with
            | .ok (some t) => Json.str t
            | _ => Json.null)]
  | _, _ => err "value"

def opCli (j : Json) : Json :=
  let prepared := ((j.getObjValAs? Bool "prepared").toOption).getD true
  let r := cliRun prepared (getNat j "num_batches") (natList j "done")
  Json.mkObj [("ids", toJson r.1), ("raised", toJson r.2)]

def handleScript (op : String) (j : Json) : Option Json :=
  match op with
  | "script" => some (opScript j)
  | "script_cli" => some (opCli j)
  | _ => none

end DrvScript
