import XyzModel.Dataset
import XyzModel.Gen.Extracted
/-!
# `xyzpy/manage.py`: file names, attribute rewriting, `save_ds` / `load_ds` on a store

* `autoAddExt` — `auto_add_extension`: the extracted rule (`Gen.extRuleSubstring`: substring test against every value
  of the extracted table `Gen.engineExt`) and the extracted number of appended extensions (`Gen.extAppendCount`);
* every *path resolution* is explicit and comes from an extracted anchor: which path `save_ds` writes, which
  `load_ds` reads, which the Harvester probes (`os.access` / `os.path.isfile` / `os.path.exists`) and removes, and
  which `save_merge_ds` probes and loads;
* `coerceAttrs` — the rewriting of `None` / `True` / `False` attributes to strings for the netCDF engines;
* a `Store` maps paths to files; a file remembers the engine that wrote it (reading it with another engine fails).
  The engines' encoders/decoders are NOT modelled: `saveVia`/`loadVia` take an abstract `Codec`, and the round-trip
  theorem (C14) carries the explicit assumption that decoding inverts encoding.
-/
namespace StoreIO
open DS

inductive Engine where
  | h5netcdf | netcdf4 | joblib | zarr
deriving DecidableEq, Repr, Inhabited

def Engine.key : Engine → String
  | .h5netcdf => "h5netcdf" | .netcdf4 => "netcdf4" | .joblib => "joblib" | .zarr => "zarr"

/-- `_engine_extensions[engine]` (`none` = `KeyError`) -/
def extOf (e : Engine) : Option String := alookup Gen.engineExt e.key

def isInfix (p : List Char) : List Char → Bool
  | [] => p.isEmpty
  | c :: r => p.isPrefixOf (c :: r) || isInfix p r

def isSuffix (p s : List Char) : Bool := p.reverse.isPrefixOf s.reverse

/-- the guard of `auto_add_extension`: does the name already carry one of the known extensions? -/
def hasKnownExt (name : String) : Bool :=
  Gen.engineExt.any fun kv =>
    if Gen.extRuleSubstring then isInfix kv.2.toList name.toList else isSuffix kv.2.toList name.toList

def appendN (s ext : String) : Nat → String
  | 0 => s
  | n + 1 => appendN (s ++ ext) ext n

/-- `auto_add_extension(file_name, engine)` -/
def autoAddExt (name : String) (e : Engine) : String :=
  if hasKnownExt name then name else appendN name ((extOf e).getD "") Gen.extAppendCount

/-! ### path resolution (every `if` is an extracted anchor) -/

/-- the path `save_ds(ds, name, engine)` writes -/
def savePath (name : String) (e : Engine) : String := if Gen.saveDsExtends then autoAddExt name e else name
/-- the path `load_ds(name, engine)` reads -/
def loadPath (name : String) (e : Engine) : String := if Gen.loadDsExtends then autoAddExt name e else name

/-- `Harvester.load_full_ds`: the path handed to `os.access(·, W_OK)` … -/
def hvAccessPath (name : String) (e : Engine) : String := if Gen.loadFullAccessExtended then autoAddExt name e else name
/-- … and to `os.path.isfile` -/
def hvIsfilePath (name : String) (e : Engine) : String := if Gen.loadFullIsfileExtended then autoAddExt name e else name
/-- `Harvester.save_full_ds`: the path handed to `os.path.exists` … -/
def hvExistsPath (name : String) (e : Engine) : String := if Gen.saveFullExistsExtended then autoAddExt name e else name
/-- … and to `os.remove` -/
def hvRemovePath (name : String) (e : Engine) : String := if Gen.saveFullRemoveExtended then autoAddExt name e else name
/-- `Harvester.delete_ds`: the path removed -/
def hvDeletePath (name : String) (e : Engine) : String := if Gen.deleteRemoveExtended then autoAddExt name e else name

/-- `save_merge_ds(ds, fname, engine=e)`: the path handed to `os.path.exists` … -/
def smExistsPath (name : String) (e : Engine) : String := if Gen.saveMergeExistsExtended then autoAddExt name e else name
/-- … the engine the existing file is loaded with (`load_ds(fname)` alone means the default engine) … -/
def smLoadEngine (e : Engine) : Engine := if Gen.saveMergeLoadsWithEngine then e else .h5netcdf
/-- … hence the path it is loaded from -/
def smLoadPath (name : String) (e : Engine) : String := loadPath name (smLoadEngine e)

/-! ### attributes -/

def coerceAttr : Attr → Attr
  | .none => .str Gen.attrNoneStr
  | .bool true => .str Gen.attrTrueStr
  | .bool false => .str Gen.attrFalseStr
  | a => a

def coercesAttrs (e : Engine) : Bool := !Gen.attrExempt.contains e.key

/-- what `save_ds` does to the attributes (in place, so the caller's dataset changes as well) -/
def coerceAttrs (e : Engine) (d : Dataset) : Dataset :=
  if coercesAttrs e then { d with attrs := d.attrs.map fun kv => (kv.1, coerceAttr kv.2) } else d

/-! ### stores -/

abbrev GStore (β : Type) := List (String × β)

def sset {β} : GStore β → String → β → GStore β
  | [], k, x => [(k, x)]
  | (k', y) :: r, k, x => if k' = k then (k, x) :: r else (k', y) :: sset r k x

def serase {β} : GStore β → String → GStore β
  | [], _ => []
  | (k', y) :: r, k => if k' = k then serase r k else (k', y) :: serase r k

def shas {β} (s : GStore β) (k : String) : Bool := (alookup s k).isSome

/-- an engine's writer and reader, abstractly -/
structure Codec (β : Type) where
  enc : Engine → Dataset → β
  dec : Engine → β → Option Dataset

/-- the assumption under which C14's round trip is proved: reading inverts writing -/
def Codec.Inverse {β} (c : Codec β) : Prop := ∀ e d, c.dec e (c.enc e d) = some d

inductive IOErr where
  | notFound      -- FileNotFoundError
  | badFormat     -- the file cannot be decoded with this engine (OSError / UnpicklingError …)
deriving DecidableEq, Repr

def saveVia {β} (c : Codec β) (s : GStore β) (name : String) (e : Engine) (d : Dataset) : GStore β :=
  sset s (savePath name e) (c.enc e (coerceAttrs e d))

def loadVia {β} (c : Codec β) (s : GStore β) (name : String) (e : Engine) : Except IOErr Dataset :=
  match alookup s (loadPath name e) with
  | none => .error .notFound
  | some f => match c.dec e f with
    | some d => .ok d
    | none => .error .badFormat

/-- a file of the executable model: the dataset tagged with the engine that wrote it -/
structure File where
  engine : Engine
  ds : Dataset
deriving Repr, DecidableEq

abbrev Store := GStore File

def tagCodec : Codec File :=
  { enc := fun e d => ⟨e, d⟩, dec := fun e f => if f.engine = e then some f.ds else none }

/-- `save_ds(ds, name, engine)` -/
def save (s : Store) (name : String) (e : Engine) (d : Dataset) : Store := saveVia tagCodec s name e d
/-- `load_ds(name, engine)` -/
def load (s : Store) (name : String) (e : Engine) : Except IOErr Dataset := loadVia tagCodec s name e

end StoreIO
