import XyzModel.StoreIO
/-!
# The Harvester (xyzpy/gen/farming.py) and `save_merge_ds` (xyzpy/manage.py) as sessions over a store

* `Store` = path ↦ file (StoreIO); a `Session` is one `Harvester` object: `data_name`, `engine`, in-memory `_full_ds`;
* operations: `addDs` (= what `harvest_combos` / `harvest_cases` / `add_ds` do with the freshly run dataset `N`,
  overwrite policy ∈ {none, overwrite, keep}, `sync` flag), `saveMerge`, `expandDims`, `dropSel`, `flush`
  (`save_full_ds()`), `deleteDs`, `newSession`, and the lazy `full_ds` property (`fullDs`);
* path resolution is explicit (StoreIO: which path is written, probed, removed — extracted anchors);
* the overwrite dispatch is extracted (`Gen.addDsTrue/False/None`, `Gen.saveMergeTrue/False/None`).
The swept function is not run by the model: the new data `N` is an input.
-/
namespace Harvest
open DS StoreIO

/-- `overwrite=None / True / False` -/
inductive Policy where
  | none | overwrite | keep
deriving DecidableEq, Repr

inductive Err where
  | conflict       -- xarray.MergeError
  | io             -- FileNotFoundError / OSError while reading or removing a file
  | notWritable    -- the OSError raised by load_full_ds
  | noData         -- AttributeError: there is no full dataset (None)
  | key            -- KeyError (drop_sel of a label that is not there)
  | value          -- ValueError (expand_dims along an existing dimension)
  | badMerge       -- the dispatch is not one of the three known merges (extraction only)
  | badSession
deriving DecidableEq, Repr

structure Session where
  name : String
  engine : Engine
  mem : Option Dataset := none
deriving Repr, DecidableEq

structure St where
  store : Store := []
  sessions : List Session := []
deriving Repr

def mergeBy (k : Gen.MergeKind) (old new : Dataset) : Except Err Dataset :=
  match k with
  | .newFirst => .ok (new.combineFirst old)
  | .oldFirst => .ok (old.combineFirst new)
  | .noConflicts =>
    match old.mergeNoConflicts new with
    | .ok d => .ok d
    | .error _ => .error .conflict
  | .unknown => .error .badMerge

def addDsKind : Policy → Gen.MergeKind
  | .overwrite => Gen.addDsTrue
  | .keep => Gen.addDsFalse
  | .none => Gen.addDsNone

def saveMergeKind : Policy → Gen.MergeKind
  | .overwrite => Gen.saveMergeTrue
  | .keep => Gen.saveMergeFalse
  | .none => Gen.saveMergeNone

/-- `Harvester.load_full_ds` -/
def loadFull (store : Store) (s : Session) : Except Err Session :=
  if shas store (hvAccessPath s.name s.engine) then
    match load store s.name s.engine with
    | .ok d => .ok { s with mem := some d }
    | .error _ => .error .io
  else if !shas store (hvIsfilePath s.name s.engine) then .ok s
  else .error .notWritable

/-- `Harvester.save_full_ds(new_full_ds)` with a new dataset: remove the old file if it is seen, then `save_ds` -/
def saveFullNew (store : Store) (s : Session) (d : Dataset) : Except Err (Store × Session) :=
  let d' := coerceAttrs s.engine d
  if shas store (hvExistsPath s.name s.engine) then
    if shas store (hvRemovePath s.name s.engine) then
      .ok (save (serase store (hvRemovePath s.name s.engine)) s.name s.engine d', { s with mem := some d' })
    else .error .io
  else .ok (save store s.name s.engine d', { s with mem := some d' })

def setSession (st : St) (sid : Nat) (s : Session) : St := { st with sessions := st.sessions.set sid s }

/-- `if sync_with_disk: self.load_full_ds()` -/
def preload (store : Store) (s : Session) (sync : Bool) : Except Err Session :=
  if sync then loadFull store s else .ok s

/-- the merge of `add_ds`: with nothing in memory the new data is taken as it is -/
def mergeInto (mem : Option Dataset) (k : Gen.MergeKind) (N : Dataset) : Except Err Dataset :=
  match mem with
  | none => .ok N
  | some old => mergeBy k old N

/-- `Harvester.add_ds(N, sync, overwrite)` — also the tail of `harvest_combos` / `harvest_cases` -/
def addDs (st : St) (sid : Nat) (N : Dataset) (pol : Policy) (sync : Bool) : St × Option Err :=
  match st.sessions[sid]? with
  | none => (st, some .badSession)
  | some s =>
    match preload st.store s sync with
    | .error e => (st, some e)
    | .ok s1 =>
      match mergeInto s1.mem (addDsKind pol) N with
      | .error e => (setSession st sid s1, some e)
      | .ok d =>
        if sync then
          match saveFullNew st.store s1 d with
          | .ok (store', s2) => ({ store := store', sessions := st.sessions.set sid s2 }, none)
          | .error e => (setSession st sid s1, some e)
        else (setSession st sid { s1 with mem := some d }, none)

/-- the `full_ds` property: loads from disk when nothing is in memory yet -/
def fullDs (st : St) (sid : Nat) : St × Except Err (Option Dataset) :=
  match st.sessions[sid]? with
  | none => (st, .error .badSession)
  | some s =>
    match s.mem with
    | some d => (st, .ok (some d))
    | none =>
      match loadFull st.store s with
      | .ok s1 => (setSession st sid s1, .ok s1.mem)
      | .error e => (st, .error e)

/-- an operation that rewrites `full_ds` and saves it at once (`expand_dims`, `drop_sel`) -/
def rewrite (st : St) (sid : Nat) (f : Dataset → Option Dataset) (onNone : Err) : St × Option Err :=
  match fullDs st sid with
  | (st1, .error e) => (st1, some e)
  | (st1, .ok none) => (st1, some .noData)
  | (st1, .ok (some d)) =>
    match f d with
    | none => (st1, some onNone)
    | some d' =>
      match st1.sessions[sid]? with
      | none => (st1, some .badSession)
      | some s =>
        match saveFullNew st1.store s d' with
        | .ok (store', s2) => ({ store := store', sessions := st1.sessions.set sid s2 }, none)
        | .error e => (st1, some e)

def expandDims (st : St) (sid : Nat) (dim : String) (value : Coord) : St × Option Err :=
  rewrite st sid (fun d => d.expandDims dim value) .value

def dropSel (st : St) (sid : Nat) (dim : String) (values : List Coord) : St × Option Err :=
  rewrite st sid (fun d => d.dropSel dim values) .key

/-- `Harvester.save_full_ds()` without a new dataset: write the memory as it is -/
def flush (st : St) (sid : Nat) : St × Option Err :=
  match st.sessions[sid]? with
  | none => (st, some .badSession)
  | some s =>
    match s.mem with
    | none => (st, some .noData)
    | some d =>
      let d' := coerceAttrs s.engine d
      ({ store := save st.store s.name s.engine d', sessions := st.sessions.set sid { s with mem := some d' } }, none)

/-- `Harvester.delete_ds()` -/
def deleteDs (st : St) (sid : Nat) : St × Option Err :=
  match st.sessions[sid]? with
  | none => (st, some .badSession)
  | some s =>
    if shas st.store (hvDeletePath s.name s.engine) then
      ({ st with store := serase st.store (hvDeletePath s.name s.engine) }, none)
    else (st, some .io)

/-- `save_merge_ds`: the existing dataset, or the empty one when no file is seen -/
def smOld (store : Store) (name : String) (e : Engine) : Except Err Dataset :=
  if shas store (smExistsPath name e) then
    match load store name (smLoadEngine e) with
    | .ok d => .ok d
    | .error _ => .error .io
  else .ok {}

/-- `save_merge_ds(N, name, overwrite, engine=e)` -/
def saveMerge (store : Store) (name : String) (e : Engine) (N : Dataset) (pol : Policy) : Store × Option Err :=
  match smOld store name e with
  | .error er => (store, some er)
  | .ok o =>
    match mergeBy (saveMergeKind pol) o N with
    | .error er => (store, some er)
    | .ok d => (save store name e d, none)

def newSession (st : St) (name : String) (e : Engine) : St :=
  { st with sessions := st.sessions ++ [{ name := name, engine := e }] }

/-! ### histories -/

inductive Step where
  | newSession (name : String)
  | harvest (sid : Nat) (N : Dataset) (pol : Policy) (sync : Bool)
  | saveMerge (name : String) (N : Dataset) (pol : Policy)
  | expandDims (sid : Nat) (dim : String) (value : Coord)
  | dropSel (sid : Nat) (dim : String) (values : List Coord)
  | flush (sid : Nat)
  | delete (sid : Nat)
deriving Repr

def step (e : Engine) (st : St) : Step → St × Option Err
  | .newSession name => (newSession st name e, none)
  | .harvest sid N pol sync => addDs st sid N pol sync
  | .saveMerge name N pol =>
    let r := saveMerge st.store name e N pol
    ({ st with store := r.1 }, r.2)
  | .expandDims sid dim value => expandDims st sid dim value
  | .dropSel sid dim values => dropSel st sid dim values
  | .flush sid => flush st sid
  | .delete sid => deleteDs st sid

def run (e : Engine) (st : St) (h : List Step) : St := h.foldl (fun s x => (step e s x).1) st

end Harvest
