import XyzModel.Nest
/-!
# `combo_runner_core` (xyzpy/gen/combo_runner.py)

Argument values are natural numbers: the harness sends, per argument, the rank of each value under Python's
`==`/`sorted`, so Python's ordering of mixed int/float/str values is not re-implemented here.
Swept functions are never executed by the model: `f` is a parameter (theorems) or the symbolic `Sym.r loc`
(driver), and the harness decodes real results to that form.
-/
namespace Core

structure Sweep where
  caseArgs : List String := []
  /-- `none`: no cases were given (a single empty case) -/
  caseRows : Option (List (List Nat)) := none
  comboArgs : List String := []
  comboVals : List (List Nat) := []
deriving Repr

inductive Err where
  | overlap          -- an argument appears in both cases and combos
  | emptyResults     -- placeholder requested but nothing was run
deriving Repr, DecidableEq

namespace Sweep

def overlap (s : Sweep) : Bool := s.caseArgs.any fun a => s.comboArgs.contains a

/-- key location of every evaluated setting, in enumeration order (cases outermost) -/
def locs (s : Sweep) : List (List Nat) :=
  (s.caseRows.getD [[]]).flatMap fun cp => (product s.comboVals).map (cp ++ ·)

def insertSorted (x : Nat) : List Nat → List Nat
  | [] => [x]
  | y :: ys => if x < y then x :: y :: ys else if x = y then y :: ys else y :: insertSorted x ys

/-- sorted, de-duplicated values (`sorted(set(...))`) -/
def sortedSet (l : List Nat) : List Nat := l.foldl (fun acc x => insertSorted x acc) []

/-- per case argument, the sorted union of the values seen in the cases -/
def caseCoords (s : Sweep) : List (List Nat) :=
  match s.caseRows with
  | none => []
  | some rows => (List.range s.caseArgs.length).map fun j => sortedSet (rows.map fun r => r.getD j 0)

/-- coordinates of the output grid: case unions then combo values -/
def coords (s : Sweep) : List (List Nat) := s.caseCoords ++ s.comboVals

def fnArgs (s : Sweep) : List String := s.caseArgs ++ s.comboArgs

end Sweep

/-! ### `parse_combos`: spellings of a grid, duplicate values rejected -/

/-- the spellings `combo_runner` accepts for a grid -/
inductive Spelling where
  | dict (items : List (String × List Nat))        -- `{'a': [...], 'b': [...]}`
  | pairs (items : List (String × List Nat))       -- `[('a', [...]), ('b', [...])]`
  | single (arg : String) (vals : List Nat)        -- `('a', [...])`
deriving Repr

inductive ParseErr where
  | duplicate (arg : String) (v : Nat)
deriving Repr, DecidableEq

def firstDup : List Nat → Option Nat
  | [] => none
  | x :: xs => if xs.contains x then
      -- Python reports the value when it is seen the second time; which one is reported does not matter here
      some x else firstDup xs

/-- `parse_combos`: normalise the spelling, then `check_for_duplicates` on every argument -/
def parseCombos (sp : Spelling) : Except ParseErr (List (String × List Nat)) :=
  let items := match sp with
    | .dict items => items
    | .pairs items => items
    | .single a vs => [(a, vs)]
  match items.findSome? (fun (a, vs) => (firstDup vs).map fun v => (a, v)) with
  | some (a, v) => .error (.duplicate a v)
  | none => .ok items

/-- how the settings are executed. `σ`: the permutation `random.shuffle` produced (position `j` of the shuffled
list holds original index `σ[j]`); `π`: the order in which an executor happened to *run* the submitted calls
(it only affects the call log — results are collected in submission order). -/
inductive Strategy where
  | seq
  | shuffled (σ : List Nat)
  | executor (π : List Nat)
  | shuffledExecutor (σ π : List Nat)
deriving Repr

def applyPerm {α} (σ : List Nat) (l : List α) (d : α) : List α := σ.map fun i => l.getD i d

def keyLE {β} (a b : Nat × β) : Bool := decide (a.1 ≤ b.1)

/-- shuffle, evaluate in shuffled order, then `sorted(zip(enum, results), key=fst)` and drop the keys -/
def runShuffled {α β} (f : α → β) (settings : List α) (σ : List Nat) (d : α) : List β :=
  let results := (applyPerm σ settings d).map f
  ((σ.zip results).mergeSort keyLE).map Prod.snd

/-- the linear run: (call log in execution order, results in enumeration order) -/
def runLinear {β} (f : List Nat → β) (locs : List (List Nat)) : Strategy → List (List Nat) × List β
  | .seq => (locs, locs.map f)
  | .shuffled σ => (applyPerm σ locs [], runShuffled f locs σ [])
  | .executor π => (applyPerm π locs [], locs.map f)
  | .shuffledExecutor σ π => (applyPerm π (applyPerm σ locs []) [], runShuffled f locs σ [])

def lookup {β} (l : List (List Nat × β)) (k : List Nat) : Option β := (l.find? (·.1 == k)).map (·.2)

/-- `process_results` for the nested (non-flat) form; `ph` is `nan_like_result(r[0])` -/
def processNested {β} (s : Sweep) (results : List β) (ph : β) : Nest β :=
  let table := s.locs.zip results
  match s.caseRows with
  | none => unflatten (.leaf ph) s.comboVals (fun p => (lookup table p).map .leaf)
  | some _ => unflatten (.leaf ph) s.coords (fun p => (lookup table p).map .leaf)

structure Run (β : Type) where
  log : List (List Nat)
  flat : List β
  nested : Nest β

/-- `combo_runner_core` for one output (no `split`): placeholder = `nanLike` of the first result -/
def core {β} (f : List Nat → β) (nanLike : β → β) (s : Sweep) (st : Strategy) : Except Err (Run β) :=
  if s.overlap then .error .overlap else
  let (log, results) := runLinear f s.locs st
  match results with
  | [] => .ok { log := log, flat := [], nested := processNested s [] (nanLike (f [])) }
  | r0 :: _ => .ok { log := log, flat := results, nested := processNested s results (nanLike r0) }

/-- `split=True`: each output component is processed separately (`zip(*results_linear)`) -/
def coreSplit {β} (k : Nat) (f : List Nat → List β) (dfl : β) (nanLike : β → β) (s : Sweep) (st : Strategy) :
    Except Err (List (Run β)) :=
  (List.range k).mapM fun j => core (fun loc => (f loc).getD j dfl) nanLike s st

end Core
