import XyzModel.Gen.Extracted
/-!
# Data preparation of the classic plots (xyzpy/plot/core.py, plotter_matplotlib.py) — C17

Floats are never computed here: a data value is an opaque `Cell` (`fin id`, `nan`, `inf`), a coordinate value is a
cell too (the dataset holds one variable per dimension carrying the coordinate tokens) and its printed forms
(`str(z)` for labels, the prettified form for grid titles) are supplied as strings.

A dataset is a list of dimensions (name + coordinate labels) and a list of variables (dimension names + cells in C
order).  Selection never builds a new dataset: a `View` is the dataset plus an assignment of indices to the selected
dimensions (`ds[{z: i}]`, `ds.loc[{row: r, col: c}]` with unique coordinates).  `xr.broadcast` + `flatten` is the
enumeration, in C order, of the index tuples of the union of the free dimensions (ordered by first appearance) and the
evaluation of each variable at the tuple's assignment.
-/
namespace PlotPrep

inductive Cell where
  | fin (id : Nat)
  | nan
  | inf (neg : Bool)
deriving Repr, DecidableEq, Inhabited

def Cell.isFinite : Cell → Bool
  | .fin _ => true
  | _ => false

abbrev Env := List (String × Nat)

/-- index assigned to dimension `d` (0 if unassigned: size-1 dimensions are squeezed) -/
def Env.get (e : Env) (d : String) : Nat := ((e.find? (·.1 == d)).map (·.2)).getD 0

def Env.has (e : Env) (d : String) : Bool := e.any (·.1 == d)

structure Dim where
  name : String
  /-- `str(v)` of every coordinate value -/
  labels : List String
  /-- prettified form used in grid titles -/
  tlabels : List String
deriving Repr

structure Var where
  name : String
  dims : List String
  cells : List Cell
deriving Repr

structure DS where
  dims : List Dim
  vars : List Var
deriving Repr

namespace DS

def dim? (ds : DS) (d : String) : Option Dim := ds.dims.find? (·.name == d)
def size (ds : DS) (d : String) : Nat := ((ds.dim? d).map (·.labels.length)).getD 0
def labels (ds : DS) (d : String) : List String := ((ds.dim? d).map (·.labels)).getD []
def tlabels (ds : DS) (d : String) : List String := ((ds.dim? d).map (·.tlabels)).getD []
def var? (ds : DS) (n : String) : Option Var := ds.vars.find? (·.name == n)
def varDims (ds : DS) (n : String) : List String := ((ds.var? n).map (·.dims)).getD []

/-- C-order position of the assignment `e` inside an array with dimensions `dims` -/
def flatIndex (ds : DS) (dims : List String) (e : Env) : Nat :=
  dims.foldl (fun acc d => acc * ds.size d + e.get d) 0

/-- value of variable `n` at the index assignment `e` -/
def cell (ds : DS) (n : String) (e : Env) : Cell :=
  match ds.var? n with
  | some v => v.cells.getD (ds.flatIndex v.dims e) .nan
  | none => .nan

end DS

/-- a dataset with some dimensions selected -/
structure View where
  ds : DS
  fixed : Env := []
deriving Repr

namespace View

def sel (vw : View) (d : String) (i : Nat) : View := { vw with fixed := (d, i) :: vw.fixed }

/-- dimensions of variable `n` that are still free -/
def freeDims (vw : View) (n : String) : List String := (vw.ds.varDims n).filter fun d => !vw.fixed.has d

/-- dimension order of `xr.broadcast(*vars)`: first appearance -/
def bdims (vw : View) (names : List String) : List String :=
  names.foldl (fun acc n => acc ++ (vw.freeDims n).filter fun d => !acc.contains d) []

end View

/-- all index tuples of an array of the given shape, in C order (last index fastest) -/
def prod : List Nat → List (List Nat)
  | [] => [[]]
  | n :: rest => (List.range n).flatMap fun i => (prod rest).map (i :: ·)

namespace View

def points (vw : View) (bd : List String) : List (List Nat) := prod (bd.map vw.ds.size)

def envOf (vw : View) (bd : List String) (p : List Nat) : Env := bd.zip p ++ vw.fixed

/-- `broadcast(...)[n].values.flatten()` -/
def flat (vw : View) (bd : List String) (n : String) : List Cell :=
  (vw.points bd).map fun p => vw.ds.cell n (vw.envOf bd p)

end View

/-- `arr[mask]` for a boolean mask -/
def applyMask {α} (mask : List Bool) (l : List α) : List α := ((mask.zip l).filter (·.1)).map (·.2)

/-- the quantity that drives a series' colour -/
inductive Quant where
  | cell (c : Cell)          -- colour = cmap (norm c)
  | lin (r : Rat)            -- colour = cmap r   (`np.linspace(0, 1, n)[i]`, strings have no scale)
deriving Repr, DecidableEq

structure Series where
  label : Option String
  x : List Cell
  y : List Cell
  c : Option (List Cell) := none
  ye : Option (List Cell) := none
  xe : Option (List Cell) := none
  q : Option Quant := none
deriving Repr

inductive Kind where
  | lineplot | scatter | histogram | heatmap
deriving Repr, DecidableEq

inductive ColorMode where
  | default | auto | list
deriving Repr, DecidableEq

/-- a colour limit (`vmin=` / `vmax=`) passed by the caller.  Its value is opaque; whether it is a number Python calls
false is kept, because that is all an expression can tell about it without comparing it with data -/
structure LimArg where
  isZero : Bool
deriving Repr, DecidableEq

/-- where an end of the colour normalisation comes from -/
inductive LimSrc where
  | given      -- the value passed as `vmin` / `vmax`
  | zlim       -- the entry of `zlims`
  | data       -- min / max of the finite values of the colour quantity over the whole dataset (0 / 1: non-numeric)
  | unset      -- `None` reaches the normalisation
deriving Repr, DecidableEq

structure Call where
  kind : Kind
  /-- x variable; several names for a multi-variable histogram -/
  x : List String
  y : List String
  multi : Bool := false
  z : Option String := none
  c : Option String := none
  yErr : Option String := none
  xErr : Option String := none
  row : Option String := none
  col : Option String := none
  /-- the z coordinate is not numeric -/
  zstr : Bool := false
  colors : ColorMode := .default
  legend : Option Bool := none
  colorbar : Option Bool := none
  vmin : Option LimArg := none
  vmax : Option LimArg := none
  /-- `zlims[0]` / `zlims[1]` is not None -/
  zlimLo : Bool := false
  zlimHi : Bool := false
deriving Repr

def Call.x1 (c : Call) : String := c.x.headD ""
def Call.y1 (c : Call) : String := c.y.headD ""

/-- one entry of `_z_vals` -/
inductive ZVal where
  | coord (i : Nat) (label : String)   -- the i-th value of the z coordinate
  | var (name : String)                -- one of several variables
  | single                             -- `(None,)`
deriving Repr, DecidableEq

/-- `prepare_z_vals` -/
def prepareZVals (ds : DS) (call : Call) : List ZVal :=
  match call.z with
  | some z => (ds.labels z).mapIdx fun i l => .coord i l
  | none =>
    if call.multi then (if call.kind == .histogram then call.x else call.y).map .var
    else [.single]

/-- `prepare_z_labels` (no manual `zlabels`) -/
def prepareZLabels (zs : List ZVal) : List (Option String) :=
  zs.map fun
    | .coord _ l => some l
    | .var n => some n
    | .single => none

/-- `np.linspace(0, 1, n)[i]` -/
def linspace01 (i n : Nat) : Rat := if n ≤ 1 then 0 else (i : Rat) / ((n - 1 : Nat) : Rat)

/-- the carried variables of a call, in the insertion order of the `das` dict: c (scatter only), y_err, x_err -/
def carriedNames (call : Call) : List String :=
  (if call.kind == .scatter then call.c.toList else []) ++ call.yErr.toList ++ call.xErr.toList

/-- the variable behind a key of the `data` dict of `gen_xy` (`x`, `y`, and the carried `c`, `ye`, `xe` when present) -/
def dataName (call : Call) (xn yn : String) (carry : Bool) : String → Option String
  | "x" => some xn
  | "y" => some yn
  | "c" => if carry && call.kind == .scatter then call.c else none
  | "ye" => if carry then call.yErr else none
  | "xe" => if carry then call.xErr else none
  | _ => none

/-- the prepared arrays besides x and y that enter the missing-data mask: those among the keys `Gen.maskArrays` read off
the source (there are none: the source masks on `data['x']` and `data['y']` only) -/
def extraMaskNames (call : Call) (xn yn : String) (carry : Bool) : List String :=
  (Gen.maskArrays.filter fun k => !(k == "x" || k == "y")).filterMap (dataName call xn yn carry)

/-- `not_null`: x and y combined by the source's expression, and every further array of `Gen.maskArrays` -/
def notNull (vw : View) (bd : List String) (xs ys : List Cell) (extra : List String) : List Bool :=
  extra.foldl (fun m n => List.zipWith (· && ·) m ((vw.flat bd n).map Cell.isFinite))
    (List.zipWith (fun a b => Gen.maskIsBothFinite a.isFinite b.isFinite) xs ys)

/-- the body of `gen_xy` for one slice: broadcast, flatten, mask on both finite, carry the rest through the mask -/
def mkSeries (vw : View) (call : Call) (xn yn : String) (carry : Bool) (lab : Option String) : Series :=
  let extra := if carry then carriedNames call else []
  let bd := vw.bdims ([xn, yn] ++ extra)
  let xs := vw.flat bd xn
  let ys := vw.flat bd yn
  let mask := notNull vw bd xs ys (extraMaskNames call xn yn carry)
  let pick := fun (o : Option String) => if carry then o.map fun n => applyMask mask (vw.flat bd n) else none
  { label := lab, x := applyMask mask xs, y := applyMask mask ys,
    c := if call.kind == .scatter then pick call.c else none, ye := pick call.yErr, xe := pick call.xErr }

/-- the view a z value selects -/
def sliceView (vw : View) (call : Call) : ZVal → View
  | .coord i _ => match call.z with
    | some z => vw.sel z i
    | none => vw
  | _ => vw

/-- colour quantity of series `zv` (number `k` of `n`) -/
def quantOf (vw : View) (call : Call) (zv : ZVal) (n : Nat) : Option Quant :=
  match call.kind, call.c with
  | .lineplot, some c =>
    -- `sub_ds[c].values.flatten().item()`: the single value of `c` in the slice
    let sv := sliceView vw call zv
    (sv.flat (sv.freeDims c) c).head?.map .cell
  | .scatter, some _ => none          -- per point: the carried `c` values themselves
  | _, _ =>
    if call.colors == .auto then
      match zv, call.z with
      | .coord i _, some z => some (if call.zstr then .lin (linspace01 i n) else .cell (vw.ds.cell z [(z, i)]))
      | _, _ => none
    else none

def xySeries (vw : View) (call : Call) (zs : List ZVal) : List Series :=
  zs.map fun zv =>
    let s := match zv with
      | .coord _ l => mkSeries (sliceView vw call zv) call call.x1 call.y1 true (some l)
      | .var n => mkSeries vw call call.x1 n false (some n)
      | .single => mkSeries vw call call.x1 call.y1 true none
    { s with q := quantOf vw call zv zs.length }

/-- `prepare_x_vals_histogram`: the finite values of each series -/
def prepareHistogram (vw : View) (call : Call) (zs : List ZVal) : List Series :=
  zs.map fun zv =>
    let sv := sliceView vw call zv
    let n := match zv with
      | .var n => n
      | _ => call.x1
    let lab := match zv with
      | .coord _ l => some l
      | .var n => some n
      | .single => none
    { label := lab, x := (sv.flat (sv.freeDims n) n).filter Cell.isFinite, y := [], q := quantOf vw call zv zs.length }

/-- `ma.masked_invalid`: what a heat-map cell shows -/
def maskInvalid (c : Cell) : Cell := if c.isFinite then c else .nan

/-- `prepare_heatmap_data`: `ds[z].squeeze().transpose(y, x)`, row `j` = y index, column `i` = x index -/
def prepareHeatmap (vw : View) (call : Call) : List (List Cell) :=
  let z := call.z.getD ""
  (List.range (vw.ds.size call.y1)).map fun j =>
    (List.range (vw.ds.size call.x1)).map fun i =>
      maskInvalid (vw.ds.cell z ((call.x1, i) :: (call.y1, j) :: vw.fixed))

/-- `calc_use_legend_or_colorbar` (truthiness of the two results) -/
def legendOrColorbar (n : Nat) (legend colorbar : Option Bool) (hasC colorsAuto : Bool) : Bool × Bool :=
  let auto := Gen.autoLegend (n : Int)
  let legend1 := if colorbar == some true && legend.isNone then some (if hasC then auto else false) else legend
  let colorbar1 := if legend1 == some true && colorbar.isNone then some hasC else colorbar
  if legend1.isNone && colorbar1.isNone then (auto, (!auto && colorsAuto) || hasC)
  else (legend1.getD false, colorbar1.getD false)

/-- one end of the colour normalisation of `calc_color_norm`: `_zmin` is the `zlims` entry if given, else the finite
data minimum; `vmin` is replaced by `_zmin` when `defaulted` (the source's test on `vmin`) says so -/
def limitSource (defaulted : Bool → Bool → Bool) (arg : Option LimArg) (zlim : Bool) : LimSrc :=
  if defaulted arg.isNone ((arg.map (·.isZero)).getD false) then (if zlim then .zlim else .data)
  else if arg.isSome then .given else .unset

/-- `zlims` only counts for a numeric colour quantity (a non-numeric z coordinate is scaled on 0..1) -/
def zlimsApply (call : Call) : Bool := call.c.isSome || !call.zstr

/-- (lower, upper) end of the colour normalisation -/
def colourLimits (call : Call) : LimSrc × LimSrc :=
  (limitSource Gen.vminDefaulted call.vmin (call.zlimLo && zlimsApply call),
   limitSource Gen.vmaxDefaulted call.vmax (call.zlimHi && zlimsApply call))

structure Panel where
  i : Nat
  j : Nat
  title : Option String
  rlabel : Option String
  series : List Series
  mesh : List (List Cell)
deriving Repr

/-- the plotter's state: the dataset it was given and what the preparation steps have computed so far -/
structure PState where
  view : View
  call : Call
  zvals : List ZVal := []
  zlabels : List (Option String) := []
  useLegend : Bool := false
  useColorbar : Bool := false
  series : List Series := []
  mesh : List (List Cell) := []
deriving Repr

def stepZVals (s : PState) : PState := { s with zvals := prepareZVals s.view.ds s.call }
def stepZLabels (s : PState) : PState := { s with zlabels := prepareZLabels s.zvals }
def stepLegend (s : PState) : PState :=
  let n := if s.call.kind == .heatmap then 0 else s.zvals.length
  let r := legendOrColorbar n s.call.legend s.call.colorbar s.call.c.isSome (s.call.colors == .auto)
  { s with useLegend := r.1, useColorbar := r.2 }
def stepData (s : PState) : PState :=
  match s.call.kind with
  | .lineplot | .scatter => { s with series := xySeries s.view s.call s.zvals }
  | .histogram => { s with series := prepareHistogram s.view s.call s.zvals }
  | .heatmap => { s with mesh := prepareHeatmap s.view s.call }

/-- `prepare_data_single` of the four plotters (the steps that touch data) -/
def prepareDataSingle (s : PState) : PState :=
  match s.call.kind with
  | .heatmap => stepLegend (stepData s)
  | _ => stepData (stepLegend (stepZLabels (stepZVals s)))

def plotSingle (vw : View) (call : Call) : PState := prepareDataSingle { view := vw, call := call }

/-- `calc_row_col_datasets`: the grid of selections (unique coordinates: `.loc` by label = index) -/
def calcRowCol (ds : DS) (row col : Option String) : List (List (Nat × Nat × Env)) :=
  let rs : List (Option Nat) := match row with
    | some r => (List.range (ds.size r)).map some
    | none => [none]
  let cs : List (Option Nat) := match col with
    | some c => (List.range (ds.size c)).map some
    | none => [none]
  rs.mapIdx fun i r => cs.mapIdx fun j c =>
    (i, j, (match row, r with | some d, some k => [(d, k)] | _, _ => []) ++
           (match col, c with | some d, some k => [(d, k)] | _, _ => []))

def gridTitle (ds : DS) (call : Call) (i j : Nat) : Option String :=
  match call.col with
  | some c => if i == 0 then some s!"{c} = {(ds.tlabels c).getD j ""}" else none
  | none => none

def gridRowLabel (ds : DS) (call : Call) (i j ncols : Nat) : Option String :=
  match call.row with
  | some r => if j + 1 == ncols then some s!"{r} = {(ds.tlabels r).getD i ""}" else none
  | none => none

def panelOf (ds : DS) (call : Call) (ncols : Nat) (cell : Nat × Nat × Env) : Panel :=
  let st := plotSingle { ds := ds, fixed := cell.2.2 } call
  { i := cell.1, j := cell.2.1, title := gridTitle ds call cell.1 cell.2.1,
    rlabel := gridRowLabel ds call cell.1 cell.2.1 ncols, series := st.series, mesh := st.mesh }

structure Figure where
  panels : List (List Panel)
  useLegend : Bool
  useColorbar : Bool
  /-- the colour normalisation of the figure (one for all panels of a grid) -/
  limits : LimSrc × LimSrc
deriving Repr

/-- the decorated plotting function (`mpl_multi_plot`): one panel, or a grid of panels -/
def plot (ds : DS) (call : Call) : Figure :=
  let g := calcRowCol ds call.row call.col
  let ncols := (g.headD []).length
  let st := plotSingle { ds := ds } call
  { panels := g.map fun r => r.map (panelOf ds call ncols), useLegend := st.useLegend, useColorbar := st.useColorbar,
    limits := colourLimits call }

end PlotPrep
