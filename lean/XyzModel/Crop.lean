import XyzModel.Batch
import XyzModel.Core
import XyzModel.ToDs
/-!
# Coarse (operation-level) model of a `Crop` on disk (xyzpy/gen/cropping.py)

State = the current `Crop` object (`Obj`: the fields `batchsize`, `num_batches`, `_batch_remainder`, `shuffle`)
and the crop directory (`Dir`: info file, batch files, result files), or no directory at all.
Operations: construct/reload, sow (grids and case lists), grow (any ids, the function may fail on chosen
settings), grow_missing, delete/corrupt a result, check_bad, progress queries, reap with every option.
`P seed n` is the permutation `random.shuffle` produces for `(seed, n)` (supplied by the harness as data).
Results are polymorphic (`β`); `f loc` is the swept function's value at location `loc`.
-/
namespace Crop
open Core

abbrev Perms := Nat → Nat → List Nat

inductive Err where
  | notReady        -- XYZError: crop is not ready to reap
  | value           -- choose_batch_settings rejected the request
  | type            -- a field that should be a number is None
  | missingFile     -- a file that was needed is not there
  | badFile         -- a file could not be unpickled / has no data
  | fnRaised        -- the swept function raised
  | stopIteration   -- the reaper ran out of results
  | notAllReaped    -- results were left over
  | noResultForNan  -- allow_incomplete needs at least one finished batch
  | overlap
deriving Repr, DecidableEq

structure Info where
  bs : Nat
  nb : Nat
  rem : Nat
  shuffle : Nat
  sweep : Sweep
deriving Repr

inductive ResFile (β : Type) where
  | good (rs : List β)
  | bad
deriving Repr

structure Dir (β : Type) where
  info : Option Info := none
  batches : List (Nat × List (List Nat)) := []
  results : List (Nat × ResFile β) := []

structure Obj where
  bs : Option Nat := none
  nb : Option Nat := none
  rem : Option Nat := none
  shuffle : Nat := 0
deriving Repr

structure St (β : Type) where
  obj : Obj := {}
  dir : Option (Dir β) := none

/-! ### association lists keyed by batch id -/
def lookup {γ} (l : List (Nat × γ)) (k : Nat) : Option γ := (l.find? (·.1 == k)).map (·.2)
def insert {γ} (l : List (Nat × γ)) (k : Nat) (v : γ) : List (Nat × γ) := (l.filter (·.1 != k)) ++ [(k, v)]
def erase {γ} (l : List (Nat × γ)) (k : Nat) : List (Nat × γ) := l.filter (·.1 != k)
def enumFrom {γ} : Nat → List γ → List (Nat × γ)
  | _, [] => []
  | k, x :: xs => (k, x) :: enumFrom (k + 1) xs
/-- files are numbered from 1 -/
def enumFrom1 {γ} (l : List γ) : List (Nat × γ) := enumFrom 1 l

/-! ### sowing -/

def insertByName (x : String × List Nat) : List (String × List Nat) → List (String × List Nat)
  | [] => [x]
  | y :: ys => if x.1 < y.1 then x :: y :: ys else y :: insertByName x ys

/-- `sorted(combos, key=name)` -/
def sortByName (s : Sweep) : Sweep :=
  let sorted := (s.comboArgs.zip s.comboVals).foldl (fun acc x => insertByName x acc) []
  { s with comboArgs := sorted.map (·.1), comboVals := sorted.map (·.2) }

def seedStrategy (P : Perms) (seed n : Nat) : Strategy :=
  if seed = 0 then .seq else .shuffled (P seed n)

/-- the order in which the Sower receives the settings -/
def sowStream (P : Perms) (sw : Sweep) (seed : Nat) : List (List Nat) :=
  (runLinear (fun l => l) sw.locs (seedStrategy P seed sw.locs.length)).1

def syncFromDisk {β} (s : St β) : St β :=
  match s.dir with
  | some { info := some i, .. } => { s with obj := { s.obj with bs := some i.bs, nb := some i.nb, rem := some i.rem } }
  | _ => s

/-- `Crop(name=..., parent_dir=..., batchsize=..., num_batches=..., shuffle=...)` with autoload -/
def opNew {β} (s : St β) (bs nb : Option Nat) (shuffle : Nat) : St β :=
  syncFromDisk { s with obj := { bs := bs, nb := nb, rem := none, shuffle := shuffle } }

/-- attribute updates made at the top of `sow_combos` (`combos = true`; `shuffleArg = some v`: the call's `shuffle`
argument, whose default `False` is `some 0`; `none`: `shuffle=None` was given, the crop keeps its own) and of
`sow_cases` (`combos = false`; it has no `shuffle` argument).  `Refine.sowAttrs_refines` ties this to the translated
heads of the two methods. -/
def sowAttrs (o : Obj) (combos : Bool) (shuffleArg : Option Nat) (bs nb : Option Nat) : Obj :=
  let o := if bs.isSome then { o with bs := bs } else o
  let o := if nb.isSome then { o with nb := nb } else o
  match combos, shuffleArg with
  | true, some sh => { o with shuffle := sh }
  | _, _ => o

/-- the shuffle setting handed to the runner that drives the Sower (extracted from the two methods) -/
def runnerShuffle (combos : Bool) (shuffleArg : Option Nat) (o : Obj) : Nat :=
  let self? : Option Int := some (o.shuffle : Int)
  let r := if combos then Gen.sowCombosRunnerShuffle (shuffleArg.map Int.ofNat) self? else Gen.sowCasesRunnerShuffle self?
  (r.getD 0).toNat

/-- `sow_combos` (`combos = true`, combos sorted by name) and `sow_cases` (`combos = false`) -/
def opSow {β} (P : Perms) (s : St β) (sw : Sweep) (combos : Bool) (shuffleArg : Option Nat) (bs nb : Option Nat) :
    Except Err (St β) :=
  let o := sowAttrs s.obj combos shuffleArg bs nb
  let sw := if combos then sortByName sw else sw
  let n := sw.locs.length
  match Batch.chooseBatch n o.bs o.nb o.rem with
  | .error _ => .error .value
  | .ok c =>
    let runSh := runnerShuffle combos shuffleArg o
    let o := { o with bs := some c.batchsize, nb := some c.numBatches, rem := some c.remainder }
    let d := s.dir.getD {}
    let info : Info := { bs := c.batchsize, nb := c.numBatches, rem := c.remainder, shuffle := o.shuffle, sweep := sw }
    let newB := enumFrom1 (Batch.sow c (sowStream P sw runSh))
    let batches := newB.foldl (fun acc kv => insert acc kv.1 kv.2) d.batches
    .ok { obj := o, dir := some { d with info := some info, batches := batches } }

/-! ### growing -/

/-- grow one batch: load it, evaluate every case, write the tuple of results only if all returned -/
def growOne {β} (f : List Nat → β) (fails : List Nat → Bool) (d : Dir β) (i : Nat) : Except Err (Dir β) :=
  match lookup d.batches i with
  | none => .error .missingFile
  | some b =>
    if b.isEmpty then .error .badFile
    else if b.any fails then .error .fnRaised
    else .ok { d with results := insert d.results i (.good (b.map f)) }

/-- grow a list of ids in order, stopping at the first failure (earlier batches stay grown) -/
def growMany {β} (f : List Nat → β) (fails : List Nat → Bool) : Dir β → List Nat → Dir β × Option Err
  | d, [] => (d, none)
  | d, i :: is =>
    match growOne f fails d i with
    | .ok d' => growMany f fails d' is
    | .error e => (d, some e)

/-! ### progress -/

structure Progress where
  sown : Int
  results : Int
  deriving Repr

/-- `calc_progress`: syncs the object from disk and counts files by name -/
def calcProgress {β} (s : St β) : St β × Progress :=
  match s.dir with
  | some d =>
    if d.info.isSome then (syncFromDisk s, { sown := d.batches.length, results := d.results.length })
    else (s, { sown := -1, results := -1 })
  | none => (s, { sown := -1, results := -1 })

def isReady {β} (s : St β) : St β × Bool :=
  let (s', p) := calcProgress s
  (s', Gen.isReady p.results p.sown)

def hasResult {β} (s : St β) (i : Nat) : Bool :=
  match s.dir with
  | some d => (lookup d.results i).isSome
  | none => false

/-- `missing_results` (needs `num_batches` to be known) -/
def missingResults {β} (s : St β) : St β × Except Err (List Nat) :=
  let (s', _) := calcProgress s
  match s'.obj.nb with
  | none => (s', .error .type)
  | some nb => (s', .ok (((List.range nb).map (· + 1)).filter fun i => !hasResult s' i))

/-- `check_bad(delete_bad=True)`: a result is bad if unreadable or of the wrong length -/
def checkBad {β} (d : Dir β) : Except Err (Dir β × List Nat) :=
  d.results.foldl (fun acc kv =>
    match acc with
    | .error e => .error e
    | .ok (d', bad) =>
      match lookup d.batches kv.1 with
      | none => .error .missingFile
      | some b =>
        let isBad := match kv.2 with
          | .bad => true
          | .good rs => rs.length != b.length
        if isBad then .ok ({ d' with results := erase d'.results kv.1 }, bad ++ [kv.1]) else .ok (d', bad))
    (.ok (d, []))

/-! ### reaping -/

/-- `check_ready_to_reap` -/
def readyGate {β} (s : St β) (allowIncomplete wait : Bool) : St β × Bool :=
  if allowIncomplete || wait then (s, true) else isReady s

/-- `calc_clean_up_default_res`: clean-up flag -/
def cleanUpResolved (cleanUp : Option Bool) (allowIncomplete : Bool) : Bool :=
  Gen.cleanUpDefault (cleanUp.isNone) (cleanUp.getD false) allowIncomplete

def ResFile.isBad {β} : ResFile β → Bool
  | .bad => true
  | .good _ => false

/-- the all-missing stand-in, made from the first entry of some finished result (the first listed here; any
unreadable result file makes the reap fail sooner or later, so which one is picked does not matter) -/
def allNanResult {β} (nanLike : β → β) (d : Dir β) : Except Err β :=
  match d.results with
  | [] => .error .noResultForNan
  | (_, r) :: _ =>
    if d.results.any (fun kv => kv.2.isBad) then .error .badFile
    else match r with
      | .good (x :: _) => .ok (nanLike x)
      | _ => .error .badFile

/-- one step of the Reaper's stream: load result file `i0+1`, or substitute placeholders of the batch's size -/
def reapStep {β} (o : Obj) (d : Dir β) (dflt : Option β) (acc : Except Err (List β)) (i0 : Nat) : Except Err (List β) :=
  match acc with
  | .error e => .error e
  | .ok stream =>
    match lookup d.results (i0 + 1) with
    | some (.good rs) => if rs.isEmpty then .error .badFile else .ok (stream ++ rs)
    | some .bad => .error .badFile
    | none =>
      match dflt with
      | none => .error .missingFile
      | some ph =>
        -- the stand-in has the length of the sown batch file it replaces
        match lookup d.batches (i0 + 1) with
        | some b => .ok (stream ++ List.replicate b.length ph)
        | none => .error .missingFile

/-- the Reaper's stream: result files 1..nb in order, a missing one replaced by placeholders of the batch's size -/
def reapStream {β} (o : Obj) (d : Dir β) (nb : Nat) (dflt : Option β) : Except Err (List β) :=
  (List.range nb).foldl (reapStep o d dflt) (.ok [])

/-- feed the stream to `combo_runner_core` under the stored shuffle: call `k` receives `stream[k]`, then the
(index, result) pairs are sorted back -/
def reorder {β} (P : Perms) (seed n : Nat) (stream : List β) : Except Err (List β) :=
  if stream.length < n then .error .stopIteration
  else if stream.length > n then .error .notAllReaped
  else if seed = 0 then .ok stream
  else .ok (((P seed n).zip stream).mergeSort keyLE |>.map Prod.snd)

structure ReapOpts where
  allowIncomplete : Bool := false
  wait : Bool := false
  cleanUp : Option Bool := none
deriving Repr

/-- linear (enumeration-order) results of a reap, before nesting; the state reflects object syncing only -/
def reapLinear {β} (P : Perms) (nanLike : β → β) (s : St β) (o : ReapOpts) : Except Err (St β × Info × List β) :=
  let (s1, ready) := readyGate s o.allowIncomplete o.wait
  if !ready then .error .notReady else
  match s1.dir with
  | none => .error .missingFile
  | some d =>
    let dflt? : Except Err (Option β) :=
      if o.allowIncomplete then (allNanResult nanLike d).map some else .ok none
    match dflt? with
    | .error e => .error e
    | .ok dflt =>
      match d.info with
      | none => .error .missingFile
      | some info =>
        match reapStream s1.obj d info.nb (if o.wait then none else dflt) with
        | .error e => .error e
        | .ok stream =>
          match reorder P info.shuffle info.sweep.locs.length stream with
          | .error e => .error e
          | .ok results => .ok (s1, info, results)

/-- `Crop.reap_combos`: the nested tuple, and the crop directory removed when clean-up applies -/
def reapRaw {β} (P : Perms) (nanLike : β → β) (s : St β) (o : ReapOpts) : Except Err (St β × Nest β) :=
  match reapLinear P nanLike s o with
  | .error e => .error e
  | .ok (s1, info, results) =>
    let out := match results with
      | r :: _ => processNested info.sweep results (nanLike r)
      | [] => Nest.node []
    let s2 := if cleanUpResolved o.cleanUp o.allowIncomplete then { s1 with dir := none } else s1
    .ok (s2, out)

/-- `reap_combos_to_ds` / `reap_runner`: the reaped results labelled with the runner's description.
Results are lists of outputs; the placeholder of a missing batch is `nan_like_result` of a whole reference result. -/
def reapToDs {β} (P : Perms) (nanLike : β → β) (dfl : β) (d : ToDs.Desc) (s : St (List β)) (o : ReapOpts) :
    Except Err (St (List β) × ToDs.DS β) :=
  match reapLinear P (fun r => r.map nanLike) s o with
  | .error e => .error e
  | .ok (s1, info, results) =>
    let s2 := if cleanUpResolved o.cleanUp o.allowIncomplete then { s1 with dir := none } else s1
    .ok (s2, ToDs.labelLinear d dfl nanLike info.sweep results)

/-- DataFrame form: one row per setting, in enumeration order -/
def reapToDf {β} (P : Perms) (nanLike : β → β) (d : ToDs.Desc) (s : St (List β)) (o : ReapOpts) :
    Except Err (St (List β) × List (ToDs.Row β)) :=
  match reapLinear P (fun r => r.map nanLike) s o with
  | .error e => .error e
  | .ok (s1, info, results) =>
    let s2 := if cleanUpResolved o.cleanUp o.allowIncomplete then { s1 with dir := none } else s1
    .ok (s2, (info.sweep.locs.zip results).map fun (loc, r) =>
      { loc := loc, extra := d.constants ++ d.attrs, outputs := r })

/-! ### crops attached to a farmer (Runner / Harvester / Sampler): order of delivery and deletion -/

inductive FarmerKind where
  | raw | runner | harvester | sampler
deriving Repr, DecidableEq

/-- failures injected by the environment: the output description does not fit the results (dataset / dataframe
construction raises); syncing with the farmer's store fails (merge conflict, save error) -/
structure Env where
  labelFails : Bool := false
  deliverFails : Bool := false
deriving Repr

inductive FErr where
  | gather (e : Err)     -- check_ready / loading results failed
  | label                -- results could not be labelled
  | deliver              -- add_ds / add_df failed
deriving Repr

structure FOut (β : Type) where
  /-- the state after the attempt, *including* whatever was already done when an error occurred -/
  st : St β
  res : Except FErr (List β)
  /-- did the farmer's store receive the data -/
  delivered : Bool

/-- does this farmer's reap postpone the deletion of the crop until its store has the data? -/
def defers : FarmerKind → Bool
  | .harvester => Gen.harvestDefersCleanup
  | .sampler => Gen.samplesDefersCleanup
  | _ => false

def removeDir {β} (s : St β) : St β := { s with dir := none }

/-- `Crop.reap` for each farmer kind, as a sequence of effects: gather → label → [clean up] → deliver → [clean up].
`late` is whatever *other processes* do to the crop directory while a Harvester / Sampler syncs its store (growers
finishing further batches): it happens after the results were gathered and before the deferred clean-up is decided. -/
def reapFarmer {β} (P : Perms) (nanLike : β → β) (k : FarmerKind) (env : Env) (s : St β) (o : ReapOpts)
    (late : Option (Dir β) → Option (Dir β) := id) : FOut β :=
  let outer := cleanUpResolved o.cleanUp o.allowIncomplete
  let inner : ReapOpts := if defers k then { o with cleanUp := some false } else o
  match reapLinear P nanLike s inner with
  | .error e => { st := s, res := .error (.gather e), delivered := false }
  | .ok (s1, _, results) =>
    if k != .raw && env.labelFails then { st := s1, res := .error .label, delivered := false } else
    let s2 := if cleanUpResolved inner.cleanUp inner.allowIncomplete then removeDir s1 else s1
    match k with
    | .raw => { st := s2, res := .ok results, delivered := false }
    | .runner => { st := s2, res := .ok results, delivered := true }
    | _ =>
      let s2 := { s2 with dir := late s2.dir }
      if env.deliverFails then { st := s2, res := .error .deliver, delivered := false }
      else
        let s3 := if defers k && outer then removeDir s2 else s2
        { st := s3, res := .ok results, delivered := true }

end Crop
