import XyzModel.Gen.Extracted
/-!
# Generated cluster scripts (`gen_cluster_script`, xyzpy/gen/cropping.py) — C16

* `PyVal`, `pyStr`, `fmt`: the Python values that end up in the option record `opts` and how `str.format` prints them
  for the two kinds of replacement field the templates use (`{name}` and `{name:02}`); `reprTuple` is Python's `repr`
  of a tuple of ints (`()`, `(3,)`, `(1, 3)`), `reprRange` that of `range(a, b)`.
* `parseTpl` / `render`: `str.format` on a template: literal text, `{{`/`}}` escapes, `{name}` / `{name:spec}` fields.
* `resolve`: the option handling of `gen_cluster_script` before the script is assembled (threads, time, memory,
  extra header flags, conda activation) → the option record.  Hand-written; tied to the code by the byte-for-byte
  comparison of rendered scripts in `harness/props/c16.py`.
* `chooseIds`, `runStart`, `runStop`, `assemble`, `mkScript`, `Script.text`: the decision logic — every step calls the
  definition extracted from the source (`Gen.scriptIdsChoice`, `Gen.scriptRunStopAll`, `Gen.scriptPieces`, …) and the
  extracted template strings.
* `taskBatch`, `singleIds`: abstract semantics of a generated script — which batch id array task `t` grows, which ids a
  single-mode job grows.  The shape of the `grow(...)` line is read off the extracted template text (`growArgOf`).

Everything is on `List Char` (`Str`), written `chars! "…"` (expanded when the file is elaborated, see
Gen/DefaultScript.lean), so that the kernel can evaluate it (`decide +kernel`) in the proofs: decoding a `String` literal is
prohibitively slow in the Lean 4.33 kernel.
-/
namespace Scr

/-! `Str`, `PyVal`, `pyStr`, `Opts`, `lookup`, `hasSub`, `splitOn`, `setKw`, … live in Gen/DefaultScriptOpts.lean (the generated
definitions mention them) -/

def padLeft0 (w : Nat) (s : Str) : Str := List.replicate (w - s.length) '0' ++ s
def padRight0 (w : Nat) (s : Str) : Str := s ++ List.replicate (w - s.length) '0'

/-- `format(v, spec)` for the specs that occur: `""` and `"02"` (zero fill, width 2: numbers are right-aligned with
the sign first, strings are left-aligned — so `format("1", "02") = "10"`); `none` = Python raises. -/
def fmt (v : PyVal) (spec : Str) : Option Str :=
  if spec = [] then some (pyStr v)
  else if spec = ['0', '2'] then
    match v with
    | .int i => some (if i < 0 then '-' :: padLeft0 1 (natDigits i.natAbs) else padLeft0 2 (natDigits i.toNat))
    | .bool b => some (padLeft0 2 [if b then '1' else '0'])
    | .str s => some (padRight0 2 s)
    | .flt r => some (padLeft0 2 r)
    | _ => none
  else none

/-! ### `str.format` -/

inductive Seg where
  | lit (s : Str)
  | fld (name spec : Str)
  | bad                           -- malformed template (a lone `}` / unterminated field): Python raises ValueError
deriving Repr, DecidableEq, Inhabited

structure PSt where
  mode : Nat      -- 0 text; 1 just read `{` in text; 2 in a field name; 3 in a format spec; 4 just read `}` in text
  acc : Str       -- reversed text / name / spec read so far
  name : Str      -- the field name, while its spec is being read
  out : List Seg  -- reversed

def pushLit (acc : Str) (out : List Seg) : List Seg := if acc.isEmpty then out else .lit acc.reverse :: out

def pstep (s : PSt) (c : Char) : PSt :=
  match s.mode with
  | 0 => if c = '{' then { s with mode := 1 } else if c = '}' then { s with mode := 4 } else { s with acc := c :: s.acc }
  | 1 => if c = '{' then { s with mode := 0, acc := '{' :: s.acc }
         else if c = '}' then { mode := 0, acc := [], name := [], out := .fld [] [] :: pushLit s.acc s.out }
         else if c = ':' then { mode := 3, acc := [], name := [], out := pushLit s.acc s.out }
         else { mode := 2, acc := [c], name := [], out := pushLit s.acc s.out }
  | 2 => if c = '}' then { mode := 0, acc := [], name := [], out := .fld s.acc.reverse [] :: s.out }
         else if c = ':' then { mode := 3, acc := [], name := s.acc.reverse, out := s.out }
         else { s with acc := c :: s.acc }
  | 3 => if c = '}' then { mode := 0, acc := [], name := [], out := .fld s.name s.acc.reverse :: s.out }
         else { s with acc := c :: s.acc }
  | _ => if c = '}' then { s with mode := 0, acc := '}' :: s.acc }
         else { mode := 0, acc := [c], name := [], out := .bad :: pushLit s.acc s.out }

/-- a template split into literal text and replacement fields -/
def parseTpl (t : Str) : List Seg :=
  let s := t.foldl pstep ⟨0, [], [], []⟩
  (match s.mode with
   | 0 => pushLit s.acc s.out
   | _ => .bad :: pushLit s.acc s.out).reverse

/-- text a segment contributes (empty where Python would raise; see `segOk`) -/
def segText (o : Opts) : Seg → Str
  | .lit s => s
  | .fld n sp => match lookup o n with
    | some v => (fmt v sp).getD []
    | none => []
  | .bad => []

def segOk (o : Opts) : Seg → Bool
  | .lit _ => true
  | .fld n sp => match lookup o n with
    | some v => (fmt v sp).isSome
    | none => false
  | .bad => false

/-- the rendered text, total version -/
def renderD (segs : List Seg) (o : Opts) : Str := (segs.map (segText o)).flatten

/-- `template.format(**opts)`; `none` = Python raises (KeyError / TypeError / ValueError) -/
def render (segs : List Seg) (o : Opts) : Option Str :=
  if segs.all (segOk o) then some (renderD segs o) else none

/-- all replacement fields of a parsed template -/
def fields : List Seg → List (Str × Str)
  | [] => []
  | .fld n sp :: r => (n, sp) :: fields r
  | _ :: r => fields r

/-- concatenated literal text of a parsed template -/
def litPart : List Seg → Str
  | [] => []
  | .lit s :: r => s ++ litPart r
  | _ :: r => litPart r

/-- concatenated text of the replacement fields -/
def fldPart (o : Opts) : List Seg → Str
  | [] => []
  | .fld n sp :: r => segText o (.fld n sp) ++ fldPart o r
  | _ :: r => fldPart o r

/-! ### small string helpers -/

/-- the text after the first occurrence of `pat` (`[]` if there is none) -/
def afterSub (pat : Str) : Str → Str
  | [] => []
  | c :: r => if pat.isPrefixOf (c :: r) then (c :: r).drop pat.length else afterSub pat r

/-- the text before the first occurrence of `pat` (everything if there is none) -/
def beforeSub (pat : Str) : Str → Str
  | [] => []
  | c :: r => if pat.isPrefixOf (c :: r) then [] else c :: beforeSub pat r

/-! ### schedulers, modes -/

inductive Sched where | sge | pbs | slurm
deriving Repr, DecidableEq, Inhabited
inductive Mode where | array | single
deriving Repr, DecidableEq, Inhabited
inductive AMode where | all | part
deriving Repr, DecidableEq, Inhabited

def Sched.name : Sched → Str | .sge => chars! "sge" | .pbs => chars! "pbs" | .slurm => chars! "slurm"
def Mode.name : Mode → Str | .array => chars! "array" | .single => chars! "single"
def AMode.name : AMode → Str | .all => chars! "all" | .part => chars! "partial"
/-- the environment variable through which the scheduler tells an array task its index -/
def Sched.var : Sched → Str
  | .sge => chars! "SGE_TASK_ID" | .pbs => chars! "PBS_ARRAY_INDEX" | .slurm => chars! "SLURM_ARRAY_TASK_ID"

/-! ### option handling of `gen_cluster_script` (hand model) -/

structure Raw where
  numProcs : PyVal := .none
  numThreads : PyVal := .none
  numNodes : PyVal := .none
  numWorkers : PyVal := .none
  mem : PyVal := .none
  memPerCpu : PyVal := .none
  gigabytes : PyVal := .none
  time : PyVal := .none
  hours : PyVal := .none
  minutes : PyVal := .none
  seconds : PyVal := .none
  condaEnv : PyVal := .bool true
  launcher : Str := chars! "python"
  setup : Str := chars! "#"
  shellSetup : Str := []
  mpi : Bool := false
  tempGigabytes : PyVal := .int 1
  outputDirectory : PyVal := .none
  debugging : PyVal := .bool false
  extra : List (Str × PyVal) := []
  -- environment of the call
  home : Str := []
  condaDefault : PyVal := .bool false   -- `os.environ.get("CONDA_DEFAULT_ENV", False)`
  name : Str := []
  parentDir : Str := []
deriving Repr, Inhabited

/-- `f"{m}G"` if `m` is an int, else `m` itself -/
def memSpelling (v : PyVal) : PyVal := if Py.isInt v then .str (pyStr v ++ ['G']) else v

def headerPrefix : Sched → Str
  | .slurm => chars! "#SBATCH --" | .pbs => chars! "#PBS -l " | .sge => chars! "#$ -l "

def headerLine (sched : Sched) (kv : Str × PyVal) : Str :=
  if isNone kv.2 || kv.2 == .bool true then headerPrefix sched ++ kv.1
  else headerPrefix sched ++ kv.1 ++ ['='] ++ pyStr kv.2

open Gen (PyErr)

/-- number of threads, first pass: given, else the processes (no workers) or `round(num_procs / num_workers)` -/
def threads1 (r : Raw) : Except PyErr PyVal :=
  if isNone r.numThreads then
    (if isNone r.numWorkers then .ok r.numProcs else Py.roundDiv r.numProcs r.numWorkers)
  else .ok r.numThreads

/-- `int(v)`, with 0 for a part of the time that is not given -/
def timePart (v : PyVal) : Except PyErr PyVal := if isNone v then .ok (.int 0) else Py.int v

/-- hours, minutes, seconds: from `time` (a number of hours, or `"h:m:s"`), else from the three parts, else 1:0:0 -/
def timeHMS (r : Raw) : Except PyErr (PyVal × PyVal × PyVal) :=
  if isNone r.hours && isNone r.minutes && isNone r.seconds then
    (if isNone r.time then .ok (.int 1, .int 0, .int 0)
     else if Py.isInt r.time || Py.isFloat r.time then .ok (r.time, .int 0, .int 0)
     else match r.time with
       | .str t => (match splitOn ':' t with
         | [a, b, c] => .ok (.str a, .str b, .str c)
         | _ => .error .valueError)
       | _ => .ok (.none, .none, .none))
  else if !isNone r.time then .error .valueError
  else Py.bind (timePart r.hours) fun h => Py.bind (timePart r.minutes) fun m => Py.bind (timePart r.seconds) fun s =>
    .ok (h, m, s)

def setIf (kw : List (Str × PyVal)) (k : Str) (v : PyVal) : List (Str × PyVal) :=
  if isNone v then kw else setKw kw k v

/-- memory and extra header resources: (the header keyword arguments, the `gigabytes` field) -/
def memKw (sched : Sched) (r : Raw) : Except PyErr (List (Str × PyVal) × PyVal) :=
  match sched with
  | .slurm =>
    if !isNone r.gigabytes && !isNone r.mem then .error .valueError
    else
      let kw := setIf (setIf r.extra (chars! "nodes") r.numNodes) (chars! "cpus-per-task") r.numProcs
      let mem := if !isNone r.gigabytes then r.gigabytes else r.mem
      let kw := if isNone mem then kw else setKw kw (chars! "mem") (memSpelling mem)
      let kw := if isNone r.memPerCpu then kw else setKw kw (chars! "mem-per-cpu") (memSpelling r.memPerCpu)
      .ok (kw, r.gigabytes)
  | _ =>
    if !isNone r.gigabytes && !isNone r.mem then .error .valueError
    else if isNone r.mem then .ok (r.extra, r.gigabytes)
    else Py.bind (Py.int r.mem) fun gb => .ok (r.extra, gb)

def outDir (r : Raw) : PyVal :=
  if isNone r.outputDirectory then .str (Py.pathJoin [r.home, chars! "Scratch", chars! "output"]) else r.outputDirectory

/-- the environment to activate: the one asked for; for `True` the running one unless the shell set-up already activates one -/
def condaEnvOf (r : Raw) : PyVal :=
  if r.condaEnv == .bool true then
    (if Py.truthy r.condaDefault &&
        (hasSub (chars! "conda activate") r.shellSetup || hasSub (chars! "mamba activate") r.shellSetup)
     then .bool false else r.condaDefault)
  else r.condaEnv

def condaSetup (r : Raw) : Except PyErr Str :=
  if Py.isStr (condaEnvOf r) then .ok (r.shellSetup ++ chars! "\nconda activate " ++ pyStr (condaEnvOf r))
  else if condaEnvOf r == .bool false then .ok r.shellSetup
  else .error .valueError

def headerOptions (sched : Sched) (kw : List (Str × PyVal)) : Str := joinSep ['\n'] (kw.map (headerLine sched))

/-- number of threads, second pass (only when still `None`, i.e. no processes given either) -/
def threads2 (r : Raw) (nt : PyVal) : Except PyErr PyVal :=
  if isNone nt then
    (if r.mpi then .ok (.int 1)
     else if isNone r.numWorkers then .ok r.numProcs
     else Py.bind (Py.floorDiv r.numProcs r.numWorkers) fun q => Py.max2 (.int 1) q)
  else .ok nt

/-- everything `gen_cluster_script` does to its keyword arguments before it decides which ids to grow:
the option record without `batch_ids`, `run_start`, `run_stop` -/
def resolve (sched : Sched) (r : Raw) : Except PyErr Opts :=
  Py.bind (threads1 r) fun nt =>
  Py.bind (timeHMS r) fun hms =>
  Py.bind (memKw sched r) fun kwgb =>
  Py.bind (condaSetup r) fun shellSetup =>
  Py.bind (threads2 r nt) fun nt =>
  .ok [
    (chars! "hours", hms.1), (chars! "minutes", hms.2.1), (chars! "seconds", hms.2.2), (chars! "gigabytes", kwgb.2), (chars! "name", .str r.name),
    (chars! "parent_dir", .str r.parentDir), (chars! "num_procs", r.numProcs), (chars! "num_threads", nt),
    (chars! "num_nodes", r.numNodes), (chars! "num_workers", r.numWorkers), (chars! "launcher", .str r.launcher),
    (chars! "setup", .str r.setup), (chars! "shell_setup", .str shellSetup), (chars! "pe", .str (if r.mpi then chars! "mpi" else chars! "smp")),
    (chars! "temp_gigabytes", r.tempGigabytes), (chars! "output_directory", outDir r), (chars! "working_directory", .str r.parentDir),
    (chars! "header_options", .str (headerOptions sched kwgb.1)), (chars! "debugging", r.debugging)]

/-- the keys `resolve` supplies -/
def baseFields : List Str :=
  [chars! "hours", chars! "minutes", chars! "seconds", chars! "gigabytes", chars! "name", chars! "parent_dir", chars! "num_procs", chars! "num_threads",
   chars! "num_nodes", chars! "num_workers", chars! "launcher", chars! "setup", chars! "shell_setup", chars! "pe", chars! "temp_gigabytes",
   chars! "output_directory", chars! "working_directory", chars! "header_options", chars! "debugging"]

/-- keys of the complete option record handed to `format` -/
def supplied (mode : Mode) : List Str :=
  chars! "batch_ids" :: (match mode with | .array => [chars! "run_start", chars! "run_stop"] | .single => []) ++ baseFields

/-! ### decision logic (extracted) -/

/-- ids in `1..B` without a result file -/
def missing (B : Nat) (done : List Nat) : List Nat := (List.range' 1 B).filter (fun i => !done.contains i)

def rangeList (a b : Int) : List Nat := List.range' a.toNat (b - a).toNat

structure Choice where
  amode : AMode
  ids : List Nat          -- the ids `opts["batch_ids"]` denotes
  val : PyVal             -- the Python object stored in `opts["batch_ids"]`
deriving Repr, DecidableEq

/-- the `batch_ids` / `array_mode` decision chain: `explicit` = the `batch_ids` argument, `B` = `crop.num_batches`,
`done` = the ids that have a result file (so `crop.num_results = done.length`) -/
def chooseIds (explicit : Option (List Nat)) (B : Nat) (done : List Nat) : Choice :=
  let c := Gen.scriptIdsChoice explicit.isSome done.length B
  let amode := if c.2 then AMode.all else AMode.part
  match c.1 with
  | 0 => ⟨amode, explicit.getD [], .tuple (explicit.getD [])⟩
  | 1 => ⟨amode, rangeList (Gen.scriptAllRangeStart B) (Gen.scriptAllRangeStop B),
          .range (Gen.scriptAllRangeStart B) (Gen.scriptAllRangeStop B)⟩
  | _ => ⟨amode, missing B done, .tuple (missing B done)⟩

def runStart (B len : Nat) : Int := Gen.scriptRunStart B len

def runStop (am : AMode) (B len : Nat) : Int :=
  match am with
  | .all => Gen.scriptRunStopAll B len
  | .part => Gen.scriptRunStopPartial B len

/-- the concatenated (still unformatted) template for a configuration -/
def assemble (sched : Sched) (mode : Mode) (am : AMode) : Str :=
  (Gen.scriptPieces sched.name mode.name am.name).flatten

/-- all sixteen extracted template constants -/
def allTemplates : List Str :=
  [Gen.tplSgeHeader, Gen.tplSgeArrayHeader, Gen.tplPbsHeader, Gen.tplPbsArrayHeader, Gen.tplSlurmHeader,
   Gen.tplSlurmArrayHeader, Gen.tplBase, Gen.tplArrayGrowKwargs, Gen.tplSgeGrowAll, Gen.tplPbsGrowAll,
   Gen.tplSlurmGrowAll, Gen.tplSgeGrowPartial, Gen.tplPbsGrowPartial, Gen.tplSlurmGrowPartial, Gen.tplGrowSingle,
   Gen.tplScriptEnd]

/-- the part of a template between the here-document marker and its terminator line: the embedded Python program -/
def pythonPart (t : Str) : Str := beforeSub (chars! "\nEOM\n") (afterSub (chars! "<< EOM\n") t) ++ ['\n']

def pythonTemplate (sched : Sched) (mode : Mode) (am : AMode) : Str := pythonPart (assemble sched mode am)

/-- how the `grow(...)` line of an array template picks its batch -/
inductive GrowArg where
  | direct                  -- `grow($VAR, …)`: task t grows batch t
  | indexed (off : Nat)     -- `batch_ids = {batch_ids}` … `grow(batch_ids[$VAR - off], …)`
  | unknown
deriving Repr, DecidableEq

def growArgOf (t var : Str) : GrowArg :=
  if hasSub (chars! "    grow($" ++ var ++ chars! ", **grow_kwargs)\n") t then .direct
  else if hasSub (chars! "    batch_ids = {batch_ids}\n") t then
    (if hasSub (chars! "    grow(batch_ids[$" ++ var ++ chars! " - 1], **grow_kwargs)\n") t then .indexed 1
     else if hasSub (chars! "    grow(batch_ids[$" ++ var ++ chars! "], **grow_kwargs)\n") t then .indexed 0
     else .unknown)
  else .unknown

/-- does a single-mode template grow exactly the tuple it binds to `batch_ids`? -/
def growsBoundIds (t : Str) : Bool :=
  hasSub (chars! "    batch_ids = {batch_ids}\n    crop.grow(batch_ids, ") t

structure Script where
  sched : Sched
  mode : Mode
  amode : AMode
  ids : List Nat
  dynamic : Bool          -- single mode without explicit ids: the job itself calls `crop.missing_results()`
  runStart : Int
  runStop : Int
  template : Str
  opts : Opts
  lenIds : Nat            -- Python's `len(opts["batch_ids"])` at the end (22 for the dynamic string)
deriving Repr

def mkScript (sched : Sched) (mode : Mode) (explicit : Option (List Nat)) (B : Nat) (done : List Nat)
    (base : Opts) : Script :=
  let ch := chooseIds explicit B done
  let dyn := decide (mode = .single) && Gen.scriptSingleDynamic explicit.isSome
  let bval := if dyn then PyVal.str Gen.scriptSingleDynamicIds else ch.val
  let rs := runStart B ch.ids.length
  let re := runStop ch.amode B ch.ids.length
  { sched := sched, mode := mode, amode := ch.amode, ids := ch.ids, dynamic := dyn, runStart := rs, runStop := re,
    template := assemble sched mode ch.amode,
    opts := (chars! "batch_ids", bval) ::
      (match mode with
       | .array => [(chars! "run_start", PyVal.int rs), (chars! "run_stop", PyVal.int re)]
       | .single => []) ++ base,
    lenIds := if dyn then Gen.scriptSingleDynamicIds.length else ch.ids.length }

/-- is the PBS size-1 rewrite applied to the formatted text? -/
def Script.rewritten (s : Script) : Bool := Gen.scriptPbsRewrite (decide (s.sched = .pbs)) s.lenIds

/-- the PBS size-1 rewrite: a chain of `str.replace` calls on the formatted text -/
def Script.rewrite (s : Script) (txt : String) : String :=
  if s.rewritten then Gen.scriptPbsReplacements.foldl (fun acc pr => acc.replace (String.ofList pr.1) (String.ofList pr.2)) txt else txt

/-- the script text `gen_cluster_script` returns -/
def Script.text (s : Script) : Option String :=
  match render (parseTpl s.template) s.opts with
  | none => none
  | some t => some (s.rewrite (String.ofList t))

/-- the embedded Python program (before the shell substitutes the task variable) -/
def Script.python (s : Script) : String :=
  s.rewrite (String.ofList (renderD (parseTpl (pythonPart s.template)) s.opts))

def Script.growArg (s : Script) : GrowArg := growArgOf s.template s.sched.var

/-! ### the same text through the TRANSLATED body of `gen_cluster_script` (`Gen.gcsOpts`, `Gen.gcsTail`) -/

/-- `Gen.gcsOpts` on an argument record: the `opts` mapping as the translated option handling computes it -/
def genOpts (scheduler mode : Str) (r : Raw) : Except PyErr Opts :=
  Gen.gcsOpts scheduler mode r.launcher r.setup r.shellSetup r.numProcs r.numThreads r.numNodes r.numWorkers r.mem
    r.memPerCpu r.gigabytes r.time r.hours r.minutes r.seconds r.condaEnv r.tempGigabytes r.outputDirectory r.debugging
    r.mpi r.extra r.home r.condaDefault r.name r.parentDir

/-- `Gen.gcsTail` for a crop of `B` batches with results `done`: (unformatted script, completed `opts`) -/
def genTail (scheduler mode : Str) (explicit : Option (List Nat)) (B : Nat) (done : List Nat) (base : Opts) :
    Except PyErr (Str × Opts) :=
  Gen.gcsTail scheduler mode explicit done.length B (missing B done) base

/-- `len(opts["batch_ids"])` (0 where Python would raise) -/
def lenBatchIds (o : Opts) : Int :=
  match Py.lenOf (lookup o (chars! "batch_ids")) with
  | .ok n => n
  | .error _ => 0

/-- the script text as the translated body computes it (`scheduler` as given by the caller, any case) -/
def genText (scheduler mode : Str) (explicit : Option (List Nat)) (B : Nat) (done : List Nat) (r : Raw) :
    Except PyErr (Option String) :=
  Py.bind (genOpts scheduler mode r) fun base =>
  Py.bind (genTail (Py.lower scheduler) mode explicit B done base) fun so =>
  .ok ((render (parseTpl so.1) so.2).map fun t =>
    let txt := String.ofList t
    if Gen.scriptPbsRewrite (Py.lower scheduler == chars! "pbs") (lenBatchIds so.2) then
      Gen.scriptPbsReplacements.foldl (fun acc pr => acc.replace (String.ofList pr.1) (String.ofList pr.2)) txt
    else txt)

/-- **abstract semantics, array mode**: the batch id grown by the task whose scheduler index is `t`
(`none`: `t` is outside the array range, or the script is not an array script / its grow line is not understood) -/
def taskBatch (s : Script) (t : Nat) : Option Nat :=
  if s.mode = .array ∧ s.runStart ≤ (t : Int) ∧ (t : Int) ≤ s.runStop then
    match s.growArg with
    | .direct => some t
    | .indexed off => if off ≤ t then s.ids[t - off]? else none
    | .unknown => none
  else none

/-- **abstract semantics, single mode**: the ids grown by the one job, given the ids missing when it runs -/
def singleIds (s : Script) (missingNow : List Nat) : List Nat :=
  if s.mode = .single ∧ growsBoundIds s.template then (if s.dynamic then missingNow else s.ids) else []

/-- the array tasks the scheduler starts: `run_start..run_stop` -/
def Script.tasks (s : Script) : List Nat :=
  match s.mode with
  | .array => List.range' s.runStart.toNat (s.runStop + 1 - s.runStart).toNat
  | .single => []

/-! ### `xyzpy-grow` (xyzpy_grow_cli.main), through its translated effect skeleton `Gen.cliSk` -/

/-- the batches a run of `xyzpy-grow <name>` grows on a crop that is sown (`prepared`) or not, has `B` batches and
results `done`, when no step fails on its own: those the `grow_missing` effect of the skeleton stands for (with the
`num_workers` / `verbosity` of the command line), nothing when the skeleton never reaches it; and whether it raised -/
def cliRun (prepared : Bool) (B : Nat) (done : List Nat) : List Nat × Bool :=
  let r := Gen.cliSk (fun _ => false) false true prepared []
  (if r.1.any (fun e => match e with | .growMissing _ _ => true | _ => false) then missing B done else [], r.2.isSome)

end Scr
