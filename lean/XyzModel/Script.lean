import XyzModel.Gen.Extracted
/-!
# Generated cluster scripts (`gen_cluster_script`, xyzpy/gen/cropping.py) — C16

* `PyVal`, `pyStr`, `fmt`: the Python values that end up in the option record `opts` and how `str.format` prints them
  for the two kinds of replacement field the templates use (`{name}` and `{name:02}`); `reprTuple` is Python's `repr`
  of a tuple of ints (`()`, `(3,)`, `(1, 3)`), `reprRange` that of `range(a, b)`.
* `parseTpl` / `render`: `str.format` on a template: literal text, `{{`/`}}` escapes, `{name}` / `{name:spec}` fields.
* `resolve`: the option handling of `gen_cluster_script` before the script is assembled (threads, time, memory,
  extra header flags, conda activation) → the option record.  Hand-written; tied to the code by the byte-for-byte
  comparison of rendered scripts in `harness/props/c16.py`.
* `chooseIds`, `runStart`, `runStop`, `assemble`, `mkScript`, `Script.text`: the decision logic — every step calls the
  definition extracted from the source (`Gen.scriptIdsChoice`, `Gen.scriptRunStopAll`, `Gen.scriptPieces`, …) and the
  extracted template strings.
* `taskBatch`, `singleIds`: abstract semantics of a generated script — which batch id array task `t` grows, which ids a
  single-mode job grows.  The shape of the `grow(...)` line is read off the extracted template text (`growArgOf`).

Everything is on `List Char` (`Str`), written `chars! "…"` (expanded when the file is elaborated, see
Gen/DefaultScript.lean), so that the kernel can evaluate it (`decide +kernel`) in the proofs: decoding a `String` literal is
prohibitively slow in the Lean 4.33 kernel.
-/
namespace Scr

abbrev Str := List Char

/-! ### Python values and their printed forms -/

inductive PyVal where
  | none
  | bool (b : Bool)
  | int (i : Int)
  | str (s : Str)
  | flt (repr : Str)            -- a float, carried as the text Python prints for it
  | tuple (l : List Nat)
  | range (a b : Int)
deriving Repr, DecidableEq, Inhabited

def digitChar (d : Nat) : Char :=
  match d with
  | 0 => '0' | 1 => '1' | 2 => '2' | 3 => '3' | 4 => '4'
  | 5 => '5' | 6 => '6' | 7 => '7' | 8 => '8' | _ => '9'

def natDigitsAux : Nat → Nat → Str → Str
  | 0, _, acc => acc
  | fuel + 1, n, acc =>
    if n < 10 then digitChar n :: acc else natDigitsAux fuel (n / 10) (digitChar (n % 10) :: acc)

/-- decimal digits of a natural number -/
def natDigits (n : Nat) : Str := natDigitsAux (n + 1) n []

def intDigits (i : Int) : Str := if i < 0 then '-' :: natDigits i.natAbs else natDigits i.toNat

def joinSep (sep : Str) : List Str → Str
  | [] => []
  | [a] => a
  | a :: b :: r => a ++ sep ++ joinSep sep (b :: r)

/-- Python `repr` of a tuple of non-negative ints: `()`, `(3,)`, `(1, 3)` -/
def reprTuple : List Nat → Str
  | [] => ['(', ')']
  | [a] => '(' :: natDigits a ++ [',', ')']
  | a :: b :: r => '(' :: joinSep [',', ' '] ((a :: b :: r).map natDigits) ++ [')']

/-- Python `repr` of `range(a, b)` -/
def reprRange (a b : Int) : Str := chars! "range" ++ ('(' :: (intDigits a ++ [',', ' '] ++ intDigits b) ++ [')'])

/-- `str(v)` = `format(v, "")` -/
def pyStr : PyVal → Str
  | .none => chars! "None"
  | .bool true => chars! "True"
  | .bool false => chars! "False"
  | .int i => intDigits i
  | .str s => s
  | .flt r => r
  | .tuple l => reprTuple l
  | .range a b => reprRange a b

def padLeft0 (w : Nat) (s : Str) : Str := List.replicate (w - s.length) '0' ++ s
def padRight0 (w : Nat) (s : Str) : Str := s ++ List.replicate (w - s.length) '0'

/-- `format(v, spec)` for the specs that occur: `""` and `"02"` (zero fill, width 2: numbers are right-aligned with
the sign first, strings are left-aligned — so `format("1", "02") = "10"`); `none` = Python raises. -/
def fmt (v : PyVal) (spec : Str) : Option Str :=
  if spec = [] then some (pyStr v)
  else if spec = ['0', '2'] then
    match v with
    | .int i => some (if i < 0 then '-' :: padLeft0 1 (natDigits i.natAbs) else padLeft0 2 (natDigits i.toNat))
    | .bool b => some (padLeft0 2 [if b then '1' else '0'])
    | .str s => some (padRight0 2 s)
    | .flt r => some (padLeft0 2 r)
    | _ => none
  else none

/-! ### `str.format` -/

inductive Seg where
  | lit (s : Str)
  | fld (name spec : Str)
  | bad                           -- malformed template (a lone `}` / unterminated field): Python raises ValueError
deriving Repr, DecidableEq, Inhabited

structure PSt where
  mode : Nat      -- 0 text; 1 just read `{` in text; 2 in a field name; 3 in a format spec; 4 just read `}` in text
  acc : Str       -- reversed text / name / spec read so far
  name : Str      -- the field name, while its spec is being read
  out : List Seg  -- reversed

def pushLit (acc : Str) (out : List Seg) : List Seg := if acc.isEmpty then out else .lit acc.reverse :: out

def pstep (s : PSt) (c : Char) : PSt :=
  match s.mode with
  | 0 => if c = '{' then { s with mode := 1 } else if c = '}' then { s with mode := 4 } else { s with acc := c :: s.acc }
  | 1 => if c = '{' then { s with mode := 0, acc := '{' :: s.acc }
         else if c = '}' then { mode := 0, acc := [], name := [], out := .fld [] [] :: pushLit s.acc s.out }
         else if c = ':' then { mode := 3, acc := [], name := [], out := pushLit s.acc s.out }
         else { mode := 2, acc := [c], name := [], out := pushLit s.acc s.out }
  | 2 => if c = '}' then { mode := 0, acc := [], name := [], out := .fld s.acc.reverse [] :: s.out }
         else if c = ':' then { mode := 3, acc := [], name := s.acc.reverse, out := s.out }
         else { s with acc := c :: s.acc }
  | 3 => if c = '}' then { mode := 0, acc := [], name := [], out := .fld s.name s.acc.reverse :: s.out }
         else { s with acc := c :: s.acc }
  | _ => if c = '}' then { s with mode := 0, acc := '}' :: s.acc }
         else { mode := 0, acc := [c], name := [], out := .bad :: pushLit s.acc s.out }

/-- a template split into literal text and replacement fields -/
def parseTpl (t : Str) : List Seg :=
  let s := t.foldl pstep ⟨0, [], [], []⟩
  (match s.mode with
   | 0 => pushLit s.acc s.out
   | _ => .bad :: pushLit s.acc s.out).reverse

/-- the option record: field name → value (first binding wins) -/
abbrev Opts := List (Str × PyVal)

def lookup (o : Opts) (k : Str) : Option PyVal :=
  match o with
  | [] => none
  | (k', v) :: r => if k' = k then some v else lookup r k

/-- text a segment contributes (empty where Python would raise; see `segOk`) -/
def segText (o : Opts) : Seg → Str
  | .lit s => s
  | .fld n sp => match lookup o n with
    | some v => (fmt v sp).getD []
    | none => []
  | .bad => []

def segOk (o : Opts) : Seg → Bool
  | .lit _ => true
  | .fld n sp => match lookup o n with
    | some v => (fmt v sp).isSome
    | none => false
  | .bad => false

/-- the rendered text, total version -/
def renderD (segs : List Seg) (o : Opts) : Str := (segs.map (segText o)).flatten

/-- `template.format(**opts)`; `none` = Python raises (KeyError / TypeError / ValueError) -/
def render (segs : List Seg) (o : Opts) : Option Str :=
  if segs.all (segOk o) then some (renderD segs o) else none

/-- all replacement fields of a parsed template -/
def fields : List Seg → List (Str × Str)
  | [] => []
  | .fld n sp :: r => (n, sp) :: fields r
  | _ :: r => fields r

/-- concatenated literal text of a parsed template -/
def litPart : List Seg → Str
  | [] => []
  | .lit s :: r => s ++ litPart r
  | _ :: r => litPart r

/-- concatenated text of the replacement fields -/
def fldPart (o : Opts) : List Seg → Str
  | [] => []
  | .fld n sp :: r => segText o (.fld n sp) ++ fldPart o r
  | _ :: r => fldPart o r

/-! ### small string helpers -/

def hasSub (pat : Str) : Str → Bool
  | [] => pat.isEmpty
  | c :: r => pat.isPrefixOf (c :: r) || hasSub pat r

/-- the text after the first occurrence of `pat` (`[]` if there is none) -/
def afterSub (pat : Str) : Str → Str
  | [] => []
  | c :: r => if pat.isPrefixOf (c :: r) then (c :: r).drop pat.length else afterSub pat r

/-- the text before the first occurrence of `pat` (everything if there is none) -/
def beforeSub (pat : Str) : Str → Str
  | [] => []
  | c :: r => if pat.isPrefixOf (c :: r) then [] else c :: beforeSub pat r

def splitOn (sep : Char) (s : Str) : List Str :=
  let r := s.foldr (fun c (acc : Str × List Str) => if c = sep then ([], acc.1 :: acc.2) else (c :: acc.1, acc.2)) ([], [])
  r.1 :: r.2

def parseNat? (s : Str) : Option Nat :=
  if s.isEmpty then none
  else s.foldl (fun acc c => match acc with
    | some n => if c.isDigit then some (n * 10 + (c.toNat - 48)) else none
    | none => none) (some 0)

/-! ### schedulers, modes -/

inductive Sched where | sge | pbs | slurm
deriving Repr, DecidableEq, Inhabited
inductive Mode where | array | single
deriving Repr, DecidableEq, Inhabited
inductive AMode where | all | part
deriving Repr, DecidableEq, Inhabited

def Sched.name : Sched → Str | .sge => chars! "sge" | .pbs => chars! "pbs" | .slurm => chars! "slurm"
def Mode.name : Mode → Str | .array => chars! "array" | .single => chars! "single"
def AMode.name : AMode → Str | .all => chars! "all" | .part => chars! "partial"
/-- the environment variable through which the scheduler tells an array task its index -/
def Sched.var : Sched → Str
  | .sge => chars! "SGE_TASK_ID" | .pbs => chars! "PBS_ARRAY_INDEX" | .slurm => chars! "SLURM_ARRAY_TASK_ID"

/-! ### option handling of `gen_cluster_script` (hand model) -/

structure Raw where
  numProcs : PyVal := .none
  numThreads : PyVal := .none
  numNodes : PyVal := .none
  numWorkers : PyVal := .none
  mem : PyVal := .none
  memPerCpu : PyVal := .none
  gigabytes : PyVal := .none
  time : PyVal := .none
  hours : PyVal := .none
  minutes : PyVal := .none
  seconds : PyVal := .none
  condaEnv : PyVal := .bool true
  launcher : Str := chars! "python"
  setup : Str := chars! "#"
  shellSetup : Str := []
  mpi : Bool := false
  tempGigabytes : PyVal := .int 1
  outputDirectory : PyVal := .none
  debugging : PyVal := .bool false
  extra : List (Str × PyVal) := []
  -- environment of the call
  home : Str := []
  condaDefault : Option Str := none
  name : Str := []
  parentDir : Str := []
deriving Repr, Inhabited

/-- `round(p / w)` for ints (round half to even) -/
def roundDiv (p w : Int) : Int :=
  let (p, w) := if w < 0 then (-p, -w) else (p, w)
  let q := p / w
  let r := p % w
  if 2 * r < w then q else if 2 * r > w then q + 1 else if q % 2 = 0 then q else q + 1

def setKw (kw : List (Str × PyVal)) (k : Str) (v : PyVal) : List (Str × PyVal) :=
  if kw.any (·.1 = k) then kw.map (fun p => if p.1 = k then (k, v) else p) else kw ++ [(k, v)]

def isNone : PyVal → Bool | .none => true | _ => false

/-- `f"{m}G"` if `m` is an int, else `m` itself -/
def memSpelling : PyVal → PyVal
  | .int i => .str (intDigits i ++ ['G'])
  | .bool b => .str (pyStr (.bool b) ++ ['G'])
  | v => v

/-- `int(x)` where it is applied to an option value -/
def pyInt : PyVal → Except String PyVal
  | .int i => .ok (.int i)
  | .bool b => .ok (.int (if b then 1 else 0))
  | .str s => match parseNat? s with
    | some n => .ok (.int n)
    | none => .error "value"
  | _ => .error "type"

def headerPrefix : Sched → Str
  | .slurm => chars! "#SBATCH --" | .pbs => chars! "#PBS -l " | .sge => chars! "#$ -l "

def headerLine (sched : Sched) (kv : Str × PyVal) : Str :=
  match kv.2 with
  | .none => headerPrefix sched ++ kv.1
  | .bool true => headerPrefix sched ++ kv.1
  | v => headerPrefix sched ++ kv.1 ++ ['='] ++ pyStr v

/-- everything `gen_cluster_script` does to its keyword arguments before it decides which ids to grow:
the option record without `batch_ids`, `run_start`, `run_stop` -/
def resolve (sched : Sched) (r : Raw) : Except String Opts := do
  -- number of threads
  let nt ← if isNone r.numThreads then
      (if isNone r.numWorkers then pure r.numProcs
       else match r.numProcs, r.numWorkers with
         | .int p, .int w => if w = 0 then throw "zerodiv" else pure (PyVal.int (roundDiv p w))
         | _, _ => throw "type")
    else pure r.numThreads
  -- time
  let (h, m, s) ← if isNone r.hours && isNone r.minutes && isNone r.seconds then
      (match r.time with
       | .none => pure (PyVal.int 1, PyVal.int 0, PyVal.int 0)
       | .int i => pure (.int i, .int 0, .int 0)
       | .flt f => pure (.flt f, .int 0, .int 0)
       | .bool b => pure (.bool b, .int 0, .int 0)
       | .str t => match splitOn ':' t with
         | [a, b, c] => pure (.str a, .str b, .str c)
         | _ => throw "value"
       | _ => pure (.none, .none, .none))
    else
      if !isNone r.time then throw "value" else do
        let f := fun (v : PyVal) => if isNone v then pure (PyVal.int 0) else pyInt v
        pure (← f r.hours, ← f r.minutes, ← f r.seconds)
  -- memory / extra header options
  let (kw, gb) ← match sched with
    | .slurm => do
      let kw := r.extra
      let kw := if isNone r.numNodes then kw else setKw kw (chars! "nodes") r.numNodes
      let kw := if isNone r.numProcs then kw else setKw kw (chars! "cpus-per-task") r.numProcs
      let mem ← if !isNone r.gigabytes then (if !isNone r.mem then throw "value" else pure r.gigabytes) else pure r.mem
      let kw := if isNone mem then kw else setKw kw (chars! "mem") (memSpelling mem)
      let kw := if isNone r.memPerCpu then kw else setKw kw (chars! "mem-per-cpu") (memSpelling r.memPerCpu)
      pure (kw, r.gigabytes)
    | _ => do
      if !isNone r.gigabytes && !isNone r.mem then throw "value"
      let gb ← if isNone r.mem then pure r.gigabytes else pyInt r.mem
      pure (r.extra, gb)
  let outDir := match r.outputDirectory with
    | .none => PyVal.str (r.home ++ chars! "/Scratch/output")
    | v => v
  -- conda activation
  let ce : PyVal := match r.condaEnv with
    | .bool true =>
      (match r.condaDefault with
       | some e => if !e.isEmpty && (hasSub (chars! "conda activate") r.shellSetup || hasSub (chars! "mamba activate") r.shellSetup)
                   then .bool false else .str e
       | none => .bool false)
    | v => v
  let shellSetup ← match ce with
    | .str e => pure (r.shellSetup ++ chars! "\nconda activate " ++ e)
    | .bool false => pure r.shellSetup
    | _ => throw "value"
  let headerOptions : Str := joinSep ['\n'] (kw.map (headerLine sched))
  let nt := if isNone nt then
      (if r.mpi then PyVal.int 1
       else if isNone r.numWorkers then r.numProcs
       else match r.numProcs, r.numWorkers with
         | .int p, .int w => .int (max 1 (p / w))
         | _, _ => .none)
    else nt
  pure [
    (chars! "hours", h), (chars! "minutes", m), (chars! "seconds", s), (chars! "gigabytes", gb), (chars! "name", .str r.name),
    (chars! "parent_dir", .str r.parentDir), (chars! "num_procs", r.numProcs), (chars! "num_threads", nt),
    (chars! "num_nodes", r.numNodes), (chars! "num_workers", r.numWorkers), (chars! "launcher", .str r.launcher),
    (chars! "setup", .str r.setup), (chars! "shell_setup", .str shellSetup), (chars! "pe", .str (if r.mpi then chars! "mpi" else chars! "smp")),
    (chars! "temp_gigabytes", r.tempGigabytes), (chars! "output_directory", outDir), (chars! "working_directory", .str r.parentDir),
    (chars! "header_options", .str headerOptions), (chars! "debugging", r.debugging)]

/-- the keys `resolve` supplies -/
def baseFields : List Str :=
  [chars! "hours", chars! "minutes", chars! "seconds", chars! "gigabytes", chars! "name", chars! "parent_dir", chars! "num_procs", chars! "num_threads",
   chars! "num_nodes", chars! "num_workers", chars! "launcher", chars! "setup", chars! "shell_setup", chars! "pe", chars! "temp_gigabytes",
   chars! "output_directory", chars! "working_directory", chars! "header_options", chars! "debugging"]

/-- keys of the complete option record handed to `format` -/
def supplied (mode : Mode) : List Str :=
  chars! "batch_ids" :: (match mode with | .array => [chars! "run_start", chars! "run_stop"] | .single => []) ++ baseFields

/-! ### decision logic (extracted) -/

/-- ids in `1..B` without a result file -/
def missing (B : Nat) (done : List Nat) : List Nat := (List.range' 1 B).filter (fun i => !done.contains i)

def rangeList (a b : Int) : List Nat := List.range' a.toNat (b - a).toNat

structure Choice where
  amode : AMode
  ids : List Nat          -- the ids `opts["batch_ids"]` denotes
  val : PyVal             -- the Python object stored in `opts["batch_ids"]`
deriving Repr, DecidableEq

/-- the `batch_ids` / `array_mode` decision chain: `explicit` = the `batch_ids` argument, `B` = `crop.num_batches`,
`done` = the ids that have a result file (so `crop.num_results = done.length`) -/
def chooseIds (explicit : Option (List Nat)) (B : Nat) (done : List Nat) : Choice :=
  let c := Gen.scriptIdsChoice explicit.isSome done.length B
  let amode := if c.2 then AMode.all else AMode.part
  match c.1 with
  | 0 => ⟨amode, explicit.getD [], .tuple (explicit.getD [])⟩
  | 1 => ⟨amode, rangeList (Gen.scriptAllRangeStart B) (Gen.scriptAllRangeStop B),
          .range (Gen.scriptAllRangeStart B) (Gen.scriptAllRangeStop B)⟩
  | _ => ⟨amode, missing B done, .tuple (missing B done)⟩

def runStart (B len : Nat) : Int := Gen.scriptRunStart B len

def runStop (am : AMode) (B len : Nat) : Int :=
  match am with
  | .all => Gen.scriptRunStopAll B len
  | .part => Gen.scriptRunStopPartial B len

/-- the concatenated (still unformatted) template for a configuration -/
def assemble (sched : Sched) (mode : Mode) (am : AMode) : Str :=
  (Gen.scriptPieces sched.name mode.name am.name).flatten

/-- all sixteen extracted template constants -/
def allTemplates : List Str :=
  [Gen.tplSgeHeader, Gen.tplSgeArrayHeader, Gen.tplPbsHeader, Gen.tplPbsArrayHeader, Gen.tplSlurmHeader,
   Gen.tplSlurmArrayHeader, Gen.tplBase, Gen.tplArrayGrowKwargs, Gen.tplSgeGrowAll, Gen.tplPbsGrowAll,
   Gen.tplSlurmGrowAll, Gen.tplSgeGrowPartial, Gen.tplPbsGrowPartial, Gen.tplSlurmGrowPartial, Gen.tplGrowSingle,
   Gen.tplScriptEnd]

/-- the part of a template between the here-document marker and its terminator line: the embedded Python program -/
def pythonPart (t : Str) : Str := beforeSub (chars! "\nEOM\n") (afterSub (chars! "<< EOM\n") t) ++ ['\n']

def pythonTemplate (sched : Sched) (mode : Mode) (am : AMode) : Str := pythonPart (assemble sched mode am)

/-- how the `grow(...)` line of an array template picks its batch -/
inductive GrowArg where
  | direct                  -- `grow($VAR, …)`: task t grows batch t
  | indexed (off : Nat)     -- `batch_ids = {batch_ids}` … `grow(batch_ids[$VAR - off], …)`
  | unknown
deriving Repr, DecidableEq

def growArgOf (t var : Str) : GrowArg :=
  if hasSub (chars! "    grow($" ++ var ++ chars! ", **grow_kwargs)\n") t then .direct
  else if hasSub (chars! "    batch_ids = {batch_ids}\n") t then
    (if hasSub (chars! "    grow(batch_ids[$" ++ var ++ chars! " - 1], **grow_kwargs)\n") t then .indexed 1
     else if hasSub (chars! "    grow(batch_ids[$" ++ var ++ chars! "], **grow_kwargs)\n") t then .indexed 0
     else .unknown)
  else .unknown

/-- does a single-mode template grow exactly the tuple it binds to `batch_ids`? -/
def growsBoundIds (t : Str) : Bool :=
  hasSub (chars! "    batch_ids = {batch_ids}\n    crop.grow(batch_ids, ") t

structure Script where
  sched : Sched
  mode : Mode
  amode : AMode
  ids : List Nat
  dynamic : Bool          -- single mode without explicit ids: the job itself calls `crop.missing_results()`
  runStart : Int
  runStop : Int
  template : Str
  opts : Opts
  lenIds : Nat            -- Python's `len(opts["batch_ids"])` at the end (22 for the dynamic string)
deriving Repr

def mkScript (sched : Sched) (mode : Mode) (explicit : Option (List Nat)) (B : Nat) (done : List Nat)
    (base : Opts) : Script :=
  let ch := chooseIds explicit B done
  let dyn := decide (mode = .single) && Gen.scriptSingleDynamic explicit.isSome
  let bval := if dyn then PyVal.str Gen.scriptSingleDynamicIds else ch.val
  let rs := runStart B ch.ids.length
  let re := runStop ch.amode B ch.ids.length
  { sched := sched, mode := mode, amode := ch.amode, ids := ch.ids, dynamic := dyn, runStart := rs, runStop := re,
    template := assemble sched mode ch.amode,
    opts := (chars! "batch_ids", bval) ::
      (match mode with
       | .array => [(chars! "run_start", PyVal.int rs), (chars! "run_stop", PyVal.int re)]
       | .single => []) ++ base,
    lenIds := if dyn then Gen.scriptSingleDynamicIds.length else ch.ids.length }

/-- is the PBS size-1 rewrite applied to the formatted text? -/
def Script.rewritten (s : Script) : Bool := Gen.scriptPbsRewrite (decide (s.sched = .pbs)) s.lenIds

/-- the PBS size-1 rewrite: a chain of `str.replace` calls on the formatted text -/
def Script.rewrite (s : Script) (txt : String) : String :=
  if s.rewritten then Gen.scriptPbsReplacements.foldl (fun acc pr => acc.replace (String.ofList pr.1) (String.ofList pr.2)) txt else txt

/-- the script text `gen_cluster_script` returns -/
def Script.text (s : Script) : Option String :=
  match render (parseTpl s.template) s.opts with
  | none => none
  | some t => some (s.rewrite (String.ofList t))

/-- the embedded Python program (before the shell substitutes the task variable) -/
def Script.python (s : Script) : String :=
  s.rewrite (String.ofList (renderD (parseTpl (pythonPart s.template)) s.opts))

def Script.growArg (s : Script) : GrowArg := growArgOf s.template s.sched.var

/-- **abstract semantics, array mode**: the batch id grown by the task whose scheduler index is `t`
(`none`: `t` is outside the array range, or the script is not an array script / its grow line is not understood) -/
def taskBatch (s : Script) (t : Nat) : Option Nat :=
  if s.mode = .array ∧ s.runStart ≤ (t : Int) ∧ (t : Int) ≤ s.runStop then
    match s.growArg with
    | .direct => some t
    | .indexed off => if off ≤ t then s.ids[t - off]? else none
    | .unknown => none
  else none

/-- **abstract semantics, single mode**: the ids grown by the one job, given the ids missing when it runs -/
def singleIds (s : Script) (missingNow : List Nat) : List Nat :=
  if s.mode = .single ∧ growsBoundIds s.template then (if s.dynamic then missingNow else s.ids) else []

/-- the array tasks the scheduler starts: `run_start..run_stop` -/
def Script.tasks (s : Script) : List Nat :=
  match s.mode with
  | .array => List.range' s.runStart.toNat (s.runStop + 1 - s.runStart).toNat
  | .single => []

end Scr
