import XyzModel.Core
/-!
# Labelled outputs: `combo_runner_to_ds`, `results_to_ds`, `results_to_df` (xyzpy/gen/combo_runner.py)

The description of a runner (`Desc`) is what `Runner.__init__` / `parse_*` leave: output variable names, their
internal dimensions, extra coordinates, constants, resources, attributes.  Values of constants / attributes /
internal coordinates are opaque and passed through; the model says *which names are recorded where* and *which cell
sits at which labelled position*.  A cell is the `j`-th output of `f` at a location (an array over the variable's
internal dimensions when it has any).
-/
namespace ToDs
open Core

structure Desc where
  /-- output variable names; `[]` stands for `var_names=None` (the function returns labelled data itself) -/
  varNames : List String
  /-- internal dimensions per output variable (same length and order as `varNames`) -/
  varDims : List (List String)
  /-- names of the extra coordinates given as `var_coords` -/
  varCoords : List String
  constants : List String
  resources : List String
  attrs : List String
  /-- with `var_names=None`: the variables the function's own Dataset holds, with their dims -/
  autoVars : List (String × List String) := []
deriving Repr

structure Var (β : Type) where
  name : String
  dims : List String
  /-- nested over the swept arguments only; each leaf is one cell -/
  data : Nest β

structure DS (β : Type) where
  /-- the swept dimensions with their coordinate values (ranks), in order -/
  dims : List (String × List Nat)
  /-- other coordinates recorded: `var_coords` and constants that name a dimension -/
  extraCoords : List String
  vars : List (Var β)
  /-- attribute names recorded -/
  attrs : List String

def Desc.outputs (d : Desc) : List (String × List String) :=
  if d.varNames.isEmpty then d.autoVars else d.varNames.zip d.varDims

/-- the dimension names of the dataset: swept arguments and every internal dimension of some variable -/
def isDim (d : Desc) (s : Sweep) (k : String) : Bool :=
  s.fnArgs.contains k || d.outputs.any (fun v => v.2.contains k)

/-- `results_to_ds`: coordinates, variables, and where constants / attributes go -/
def resultsToDs {β} (d : Desc) (s : Sweep) (arrays : List (Nest β)) : DS β :=
  { dims := s.fnArgs.zip s.coords
    extraCoords := d.varCoords ++ d.constants.filter (isDim d s)
    vars := (d.outputs.zip arrays).map fun (v, a) => { name := v.1, dims := s.fnArgs ++ v.2, data := a }
    attrs := d.attrs ++ d.constants.filter (fun k => !isDim d s k) }

/-- `combo_runner_to_ds(..., to_df=False)`: run (split when there are several outputs) and label -/
def toDs {β} (d : Desc) (f : List Nat → List β) (dfl : β) (nanLike : β → β) (s : Sweep) (st : Strategy) :
    Except Err (DS β) :=
  let k := d.outputs.length
  match coreSplit k f dfl nanLike s st with
  | .error e => .error e
  | .ok runs => .ok (resultsToDs d s (runs.map (·.nested)))

/-- label a list of results given in enumeration order (one list of outputs per setting): what both a direct run
and a reap do after they have obtained their linear results -/
def labelLinear {β} (d : Desc) (dfl : β) (nanLike : β → β) (s : Sweep) (results : List (List β)) : DS β :=
  resultsToDs d s ((List.range d.outputs.length).map fun j =>
    match results with
    | r0 :: _ => processNested s (results.map (·.getD j dfl)) (nanLike (r0.getD j dfl))
    | [] => processNested s [] (nanLike dfl))

structure Row (β : Type) where
  /-- swept argument values (ranks), in `fn_args` order -/
  loc : List Nat
  /-- names of the other columns carried by every row: constants and attributes, never resources -/
  extra : List String
  outputs : List β

/-- `combo_runner_to_ds(..., to_df=True)`: one row per evaluated setting, pairing that setting with its own outputs -/
def toDf {β} (d : Desc) (f : List Nat → List β) (nanLike : List β → List β) (s : Sweep) (st : Strategy) :
    Except Err (List (Row β)) :=
  match core f nanLike s st with
  | .error e => .error e
  | .ok run =>
    -- `info["settings"]` is the list of settings in enumeration order; results are un-shuffled to the same order
    .ok ((s.locs.zip run.flat).map fun (loc, r) =>
      { loc := loc, extra := d.constants ++ d.attrs, outputs := r })

end ToDs
