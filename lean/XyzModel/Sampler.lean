import XyzModel.ToDs
/-!
# `Sampler`: an append-only table synced with a file (xyzpy/gen/farming.py)

A run (direct `sample_combos`, or `sow_samples` → grow → reap on a Sampler crop, which C06 shows delivers the same rows)
produces one row per drawn setting; `add_df` loads the table from the file if there is one, appends the new rows
(`pd.concat(..., ignore_index=True)`) and writes the result back.  The draws themselves come from the environment
(`np.random.choice` or user callables) and are a parameter here.
-/
namespace Sampler
open ToDs

structure Row (β : Type) where
  loc : List Nat
  outputs : List β
deriving Repr

structure St (β : Type) where
  /-- `Sampler._full_df` of the current Sampler object (`none`: nothing loaded yet) -/
  mem : Option (List (Row β)) := none
  /-- content of the data file (`none`: no file) -/
  disk : Option (List (Row β)) := none
  /-- `_full_df` of a second, parked Sampler object on the same file (`none`: nothing loaded / no such object) -/
  other : Option (List (Row β)) := none

inductive Op where
  | sample (draws : List (List Nat))     -- one run drawing these settings (direct or through a crop)
  | newSampler                           -- a fresh Sampler object on the same data file
  | switch                               -- park the current object and continue with the parked (or a fresh) one
  | look                                 -- read `full_df` of the current object (loads and keeps the file's table if nothing is loaded)
deriving Repr

def rowsOf {β} (f : List Nat → List β) (draws : List (List Nat)) : List (Row β) :=
  draws.map fun loc => { loc := loc, outputs := f loc }

/-- `Sampler.add_df(new, sync=True)` -/
def addDf {β} (s : St β) (new : List (Row β)) : St β :=
  -- load_full_df: the file, when present, replaces what is in memory
  let mem := match s.disk with
    | some t => some t
    | none => s.mem
  let full := match mem with
    | none => new
    | some t => t ++ new
  { s with mem := some full, disk := some full }

def step {β} (f : List Nat → List β) (s : St β) : Op → St β
  | .sample draws => addDf s (rowsOf f draws)
  | .newSampler => { s with mem := none }
  | .switch => { s with mem := s.other, other := s.mem }
  | .look => { s with mem := match s.mem with | some t => some t | none => s.disk }

/-- `Sampler.full_df`: loads from the file on first access -/
def fullDf {β} (s : St β) : Option (List (Row β)) :=
  match s.mem with
  | some t => some t
  | none => s.disk

def run {β} (f : List Nat → List β) (s : St β) (ops : List Op) : St β := ops.foldl (step f) s

/-- all rows a history should have accumulated, in order -/
def allDraws : List Op → List (List Nat)
  | [] => []
  | .sample d :: rest => d ++ allDraws rest
  | .newSampler :: rest => allDraws rest
  | .switch :: rest => allDraws rest
  | .look :: rest => allDraws rest

end Sampler
