import XyzModel.Gen.Extracted
/-!
# Batch arithmetic and the Sower state machine (xyzpy/gen/cropping.py)

* `chooseBatch` models `Crop.choose_batch_settings` (what `batchsize`, `num_batches`, remainder become for
  `n` settings), built from the extracted arithmetic `Gen.nbFromBs`, `Gen.capNb`, `Gen.bsOfNb`, `Gen.remOfNb`,
  `Gen.bothOk`.
* `sow` models a `Sower` fed the stream of settings by `combo_runner_core`: `step` is `Sower.__call__`
  (append, count, flush when the counter reaches `batchsize + int(extra_batch)`), `finish` is `Sower.__exit__`.
  The flush test and the extra-item test are the extracted `Gen.sowerFlush` / `Gen.sowerGetsExtra`.
-/
namespace Batch

inductive Err where
  | value | type
deriving Repr, DecidableEq

structure Cfg where
  batchsize : Nat
  numBatches : Nat
  remainder : Nat
deriving Repr, DecidableEq

deriving instance DecidableEq for Except

/-- `Crop.choose_batch_settings` for `n` settings given the crop's `batchsize`/`num_batches` (either may be
absent) and a remainder remembered from an earlier sow (`_batch_remainder`). -/
def chooseBatch (n : Nat) (bs? nb? rem? : Option Nat) : Except Err Cfg :=
  match bs?, nb? with
  | some bs, some nb =>
      let posTot : Int := (bs : Int) * nb + ((rem?.getD 0 : Nat) : Int)
      if Gen.bothOk n bs posTot then .ok ⟨bs, nb, rem?.getD 0⟩ else .error .value
  | bs?, none =>
      let bs := bs?.getD 1
      if bs < 1 then .error .value
      else .ok ⟨bs, (Gen.nbFromBs n bs).toNat, 0⟩
  | none, some nb =>
      let nb' := (Gen.capNb n nb).toNat
      if nb' < 1 then .error .value
      else .ok ⟨(Gen.bsOfNb n nb').toNat, nb', (Gen.remOfNb n nb').toNat⟩

/-- Sower state: the batch being filled and the batches already written (file `i+1` is `out[i]`). -/
structure St (α : Type) where
  cur : List α
  out : List (List α)

/-- `Sower.__call__` -/
def step {α} (c : Cfg) (s : St α) (x : α) : St α :=
  let cur := s.cur ++ [x]
  if Gen.sowerFlush cur.length c.batchsize (Gen.sowerGetsExtra s.out.length c.remainder) then
    { cur := [], out := s.out ++ [cur] }
  else { cur := cur, out := s.out }

/-- `Sower.__exit__` -/
def finish {α} (s : St α) : List (List α) :=
  if s.cur.isEmpty then s.out else s.out ++ [s.cur]

/-- the batch files written when the settings `l` are streamed through a Sower -/
def sow {α} (c : Cfg) (l : List α) : List (List α) :=
  finish (l.foldl (step c) { cur := [], out := [] })

/-- size the Sower gives batch number `j` (0-based) -/
def sizeOf (c : Cfg) (j : Nat) : Nat :=
  c.batchsize + (if Gen.sowerGetsExtra j c.remainder then 1 else 0)

end Batch
