import XyzModel.Gen.Extracted
/-!
# Running statistics (xyzpy/utils.py: RunningStatistics, RunningCovariance, RunningCovarianceMatrix,
# estimate_from_repeats) over exact rationals

* `RS.update` / `RC.update` are the bodies of the two `update` methods; the new attribute values are the
  extracted `Gen.welford*` / `Gen.cov*` (the symbolically executed method bodies, regenerated from the source).
* `updateFromIt` is the `for x in xs: self.update(x)` loop, i.e. a left fold.
* `Mat` is `RunningCovarianceMatrix`: one `RunningCovariance` per index pair `i ≤ j < n`, all updated in lockstep.
* `estimate` is the loop of `estimate_from_repeats` over an arbitrary sample stream `f : Nat → Rat`
  (`f i` = the value `fn` returns at iteration `i`), with the extracted guards `Gen.repCheck` (`i > min_samples`),
  `Gen.repHitMax` (`i >= max_samples - 1`) and the extracted arguments of `rs.converged(rtol, tol_scale * rtol)`.

Square roots are not taken: the model has `var`, and `errSq = var / count` (the square of `RunningStatistics.err`);
`err < rhs` is decided as `0 < rhs ∧ errSq < rhs²` (valid because `err ≥ 0`).
Floating point is not modelled: everything here is exact.
-/
namespace Stats

/-! ### RunningStatistics -/

structure RS where
  count : Int
  mean : Rat
  M2 : Rat
deriving Repr, DecidableEq

def RS.init : RS := ⟨0, 0, 0⟩

/-- `RunningStatistics.update` -/
def RS.update (s : RS) (x : Rat) : RS :=
  { count := Gen.welfordCount s.count
    mean := Gen.welfordMean (s.count : Rat) s.mean s.M2 x
    M2 := Gen.welfordM2 (s.count : Rat) s.mean s.M2 x }

/-- `RunningStatistics.update_from_it` -/
def RS.updateFromIt (s : RS) (xs : List Rat) : RS := xs.foldl RS.update s

/-- a fresh object fed the whole list -/
def run (xs : List Rat) : RS := RS.init.updateFromIt xs

/-- `RunningStatistics.var` (for `count ≠ 0`) -/
def RS.var (s : RS) : Rat := Gen.statVar s.M2 (s.count : Rat)

/-- square of `RunningStatistics.err` = `(var ** 0.5 / count ** 0.5)²` -/
def RS.errSq (s : RS) : Rat := s.var / (s.count : Rat)

/-- `RunningStatistics.converged(rtol, atol)`: `err < rtol * abs(mean) + atol`, decided without square roots -/
def RS.converged (s : RS) (rtol atol : Rat) : Bool :=
  let rhs := Gen.convRhs rtol s.mean atol
  decide (0 < rhs) && decide (s.errSq < rhs * rhs)

/-! ### RunningCovariance -/

structure RC where
  count : Int
  xmean : Rat
  ymean : Rat
  C : Rat
deriving Repr, DecidableEq

def RC.init : RC := ⟨0, 0, 0, 0⟩

/-- `RunningCovariance.update` -/
def RC.update (s : RC) (p : Rat × Rat) : RC :=
  { count := Gen.covCount s.count
    xmean := Gen.covXmean (s.count : Rat) s.xmean s.ymean s.C p.1 p.2
    ymean := Gen.covYmean (s.count : Rat) s.xmean s.ymean s.C p.1 p.2
    C := Gen.covC (s.count : Rat) s.xmean s.ymean s.C p.1 p.2 }

/-- `RunningCovariance.update_from_it(xs, ys)` on `zip(xs, ys)` -/
def RC.updateFromIt (s : RC) (ps : List (Rat × Rat)) : RC := ps.foldl RC.update s

def runCov (ps : List (Rat × Rat)) : RC := RC.init.updateFromIt ps

def RC.covar (s : RC) : Rat := Gen.covCovar s.C (s.count : Rat)
def RC.sampleCovar (s : RC) : Rat := Gen.covSample s.C (s.count : Rat)

/-! ### RunningCovarianceMatrix -/

/-- the keys of `self.rcs`: `for i in range(n): for j in range(i, n)` -/
def pairs (n : Nat) : List (Nat × Nat) :=
  (List.range n).flatMap fun i => ((List.range n).filter fun j => decide (i ≤ j)).map fun j => (i, j)

abbrev Mat := List ((Nat × Nat) × RC)

def Mat.init (n : Nat) : Mat := (pairs n).map fun p => (p, RC.init)

/-- the two components of a sample `x` that the running covariance of pair `p` is fed -/
def proj (p : Nat × Nat) (x : List Rat) : Rat × Rat := (x.getD p.1 0, x.getD p.2 0)

/-- `RunningCovarianceMatrix.update(*x)` -/
def Mat.update (m : Mat) (x : List Rat) : Mat := m.map fun e => (e.1, e.2.update (proj e.1 x))

/-- `RunningCovarianceMatrix.update_from_it(*xs)` (`xs` = one list per variable) -/
def Mat.updateFromIt (m : Mat) (cols : List (List Rat)) : Mat :=
  m.map fun e => (e.1, e.2.updateFromIt ((cols.getD e.1.1 []).zip (cols.getD e.1.2 [])))

/-- one feeding step of the matrix: `rows` = one `update(*x)` per row, `cols` = one `update_from_it(*cols)` -/
inductive Step where
  | rows (rs : List (List Rat))
  | cols (cs : List (List Rat))

def Mat.apply (m : Mat) : Step → Mat
  | .rows rs => rs.foldl Mat.update m
  | .cols cs => m.updateFromIt cs

/-- the (x, y) pairs that a step feeds to the running covariance of pair `p` -/
def stepPairs (p : Nat × Nat) : Step → List (Rat × Rat)
  | .rows rs => rs.map (proj p)
  | .cols cs => (cs.getD p.1 []).zip (cs.getD p.2 [])

/-- which stored pair serves matrix entry `(i, j)`: `rcs[i, j] if j >= i else rcs[j, i]` -/
def key (i j : Nat) : Nat × Nat := if j ≥ i then (i, j) else (j, i)

def Mat.get (m : Mat) (i j : Nat) : RC := (m.lookup (key i j)).getD RC.init

/-- entry `(i, j)` of `covar_matrix` / `sample_covar_matrix` -/
def Mat.covar (m : Mat) (i j : Nat) : Rat := (m.get i j).covar
def Mat.sampleCovar (m : Mat) (i j : Nat) : Rat := (m.get i j).sampleCovar
def Mat.count (m : Mat) : Int := (m.get 0 0).count

/-! ### estimate_from_repeats -/

structure Params where
  rtol : Rat
  tolScale : Rat
  minSamples : Int
  maxSamples : Int

/-- after the sample of iteration `i` has been added: does the loop `break`? -/
def stopNow (P : Params) (i : Nat) (s : RS) : Bool :=
  (Gen.repCheck (i : Int) P.minSamples &&
      s.converged (Gen.repRtol P.rtol P.tolScale) (Gen.repAtol P.rtol P.tolScale))
    || Gen.repHitMax (i : Int) P.maxSamples

/-- the `for i in itertools.count()` loop with `fuel` iterations left, about to run iteration `i` -/
def loop (f : Nat → Rat) (P : Params) : Nat → Nat → RS → RS
  | 0, _, s => s
  | fuel + 1, i, s =>
    let s' := s.update (f i)
    if stopNow P i s' then s' else loop f P fuel (i + 1) s'

/-- `estimate_from_repeats(fn, rtol=, tol_scale=, min_samples=, max_samples=)` where `fn` returns `f 0, f 1, …`;
`max_samples` iterations always suffice when `max_samples ≥ 1` (theorem `c19_stop`); for `max_samples ≤ 0` the
real loop still draws one sample before its first test, hence the `max 1`. -/
def estimate (f : Nat → Rat) (P : Params) : RS := loop f P (max 1 P.maxSamples.toNat) 0 RS.init

end Stats
