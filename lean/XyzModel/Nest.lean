/-!
# Nested tuples and `_unflatten` (xyzpy/gen/combo_runner.py)

`Nest β` is the nested tuple `combo_runner` returns; `unflatten` is the while-loop of `_unflatten` over a dict
(a partial function from value tuples to entries, `dflt` being the `all_nan` default of `store.pop`);
`nest` is its recursive specification; `pick`/`Nest.get` relate index paths to value tuples.
-/
namespace Core

inductive Nest (β : Type) where
  | leaf : β → Nest β
  | node : List (Nest β) → Nest β
deriving Repr

namespace Nest
def get {β} : List Nat → Nest β → Option (Nest β)
  | [], n => some n
  | i :: is, .node l => (l[i]?).bind (get is)
  | _ :: _, .leaf _ => none
end Nest

variable {V β : Type}

/-- itertools.product: the first argument varies slowest -/
def product : List (List V) → List (List V)
  | [] => [[]]
  | vs :: rest => vs.flatMap fun v => (product rest).map (v :: ·)

/-- recursive specification of the nested output: outermost argument first -/
def nest : List (List V) → (List V → Nest β) → Nest β
  | [], g => g []
  | vs :: rest, g => .node (vs.map fun v => nest rest (fun p => g (v :: p)))

/-- the while-loop of `_unflatten`, running over the reversed list of value lists -/
def loop (dflt : Nest β) : List (List V) → (List V → Option (Nest β)) → Nest β
  | [], store => (store []).getD dflt
  | last :: rrest, store =>
      loop dflt rrest (fun p => some (.node (last.map fun v => (store (p ++ [v])).getD dflt)))

def unflatten (dflt : Nest β) (vals : List (List V)) (store : List V → Option (Nest β)) : Nest β :=
  loop dflt vals.reverse store

/-- the value tuple selected by an index path -/
def pick : List (List V) → List Nat → Option (List V)
  | [], [] => some []
  | vs :: rest, i :: is =>
      match vs[i]?, pick rest is with
      | some v, some p => some (v :: p)
      | _, _ => none
  | _, _ => none

end Core
