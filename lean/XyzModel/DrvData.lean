import Lean.Data.Json
import XyzModel.Harvest
import XyzModel.Missing
/-!
JSON front end of the data family (ops "harvest", "missing", "ext"), wired into `Drv.handle` by one line.

Dataset JSON (both directions): `{"coords": [[dim, [c…]]…], "vars": [[name, [dims…], [[c₁,…,c_k, tok]…]]…],
"attrs": [[key, attr]…]}` with points given positionally along the variable's dims, `tok` an integer or
`"inf"` / `"-inf"`, `attr` = null | bool | string | integer | `{"f": repr}`.
Replies are canonical: variables by name, cells in lexicographic order; coordinates by dimension name for
op "harvest" (the harness canonicalises the real datasets the same way).
-/
open Lean

namespace DrvData
open DS StoreIO Harvest Missing

def getStr (j : Json) (k : String) (d : String := "") : String := ((j.getObjValAs? String k).toOption).getD d
def getNat (j : Json) (k : String) (d : Nat := 0) : Nat := ((j.getObjValAs? Nat k).toOption).getD d
def getInt (j : Json) (k : String) (d : Int := 0) : Int := ((j.getObjValAs? Int k).toOption).getD d
def getBool (j : Json) (k : String) (d : Bool := false) : Bool := ((j.getObjValAs? Bool k).toOption).getD d
def getArr (j : Json) (k : String) : List Json := (((j.getObjValAs? (Array Json) k).toOption).getD #[]).toList
def getObj (j : Json) (k : String) : Json := (j.getObjVal? k).toOption.getD Json.null
def intList (j : Json) (k : String) : List Int := ((j.getObjValAs? (List Int) k).toOption).getD []
def strList (j : Json) (k : String) : List String := ((j.getObjValAs? (List String) k).toOption).getD []
def err (s : String) : Json := Json.mkObj [("err", Json.str s)]
def arrOf (j : Json) : List Json := match j with | .arr a => a.toList | _ => []
def intOf (j : Json) : Int := (fromJson? j : Except String Int).toOption.getD 0
def strOf (j : Json) : String := (j.getStr?).toOption.getD ""

def tokOfJson (j : Json) : Tok :=
  match j with
  | .str "inf" => .pinf
  | .str "-inf" => .ninf
  | j => .v (intOf j)

def tokJson : Tok → Json
  | .v n => toJson n
  | .pinf => Json.str "inf"
  | .ninf => Json.str "-inf"

def attrOfJson (j : Json) : Attr :=
  match j with
  | .null => .none
  | .bool b => .bool b
  | .str s => .str s
  | .num _ => .int (intOf j)
  | j => .num (getStr j "f")

def attrJson : Attr → Json
  | .none => Json.null
  | .bool b => Json.bool b
  | .str s => Json.str s
  | .int i => toJson i
  | .num r => Json.mkObj [("f", Json.str r)]

def cellOfJson (dims : List String) (j : Json) : Pt × Tok :=
  let xs := arrOf j
  (dims.zip ((xs.take dims.length).map intOf), tokOfJson (xs.getD dims.length Json.null))

def varOfJson (j : Json) : String × Var :=
  match arrOf j with
  | [n, ds, cs] =>
    let dims := (arrOf ds).map strOf
    (strOf n, { dims := dims, cells := (arrOf cs).map (cellOfJson dims) })
  | _ => ("", { dims := [], cells := [] })

def pairsOfJson {β} (f : Json → β) (j : Json) : List (String × β) :=
  (arrOf j).map fun kv => match arrOf kv with
    | [k, x] => (strOf k, f x)
    | _ => ("", f Json.null)

def dsOfJson (j : Json) : Dataset :=
  { coords := pairsOfJson (fun x => (arrOf x).map intOf) (getObj j "coords")
    vars := (getArr j "vars").map varOfJson
    attrs := pairsOfJson attrOfJson (getObj j "attrs") }

def ptOfJson (j : Json) : Pt := pairsOfJson intOf j
def ptJson (p : Pt) : Json := Json.arr (p.map fun kv => Json.arr #[Json.str kv.1, toJson kv.2]).toArray

def lexLE : List Int → List Int → Bool
  | [], _ => true
  | _ :: _, [] => false
  | x :: xs, y :: ys => x < y || (x == y && lexLE xs ys)

def cellsJson (c : Cells) : Json :=
  let rows := (c.map fun e => (e.1.map (·.2), e.2)).mergeSort (fun a b => lexLE a.1 b.1)
  Json.arr (rows.map fun r => Json.arr ((r.1.map (toJson ·)) ++ [tokJson r.2]).toArray).toArray

def dsJson (sortDims : Bool) (d : Dataset) : Json :=
  let coords := if sortDims then d.coords.mergeSort (fun a b => a.1 ≤ b.1) else d.coords
  let vars := d.vars.mergeSort (fun a b => a.1 ≤ b.1)
  Json.mkObj [
    ("coords", Json.arr (coords.map fun e => Json.arr #[Json.str e.1, toJson e.2]).toArray),
    ("vars", Json.arr (vars.map fun e => Json.arr #[Json.str e.1, toJson e.2.dims, cellsJson e.2.cells]).toArray),
    ("attrs", Json.arr (d.attrs.map fun e => Json.arr #[Json.str e.1, attrJson e.2]).toArray)]

def engineOf : String → Engine
  | "netcdf4" => .netcdf4 | "joblib" => .joblib | "zarr" => .zarr | _ => .h5netcdf

def policyOf : String → Policy
  | "overwrite" => .overwrite | "keep" => .keep | _ => .none

def errStr : Harvest.Err → String
  | .conflict => "conflict" | .io => "io" | .notWritable => "notWritable" | .noData => "noData"
  | .key => "key" | .value => "value" | .badMerge => "badMerge" | .badSession => "badSession"

def errJson : Option Harvest.Err → Json
  | none => Json.null
  | some e => Json.str (errStr e)

def lsJson (s : Store) : Json := toJson ((s.map (·.1)).mergeSort (fun a b => a ≤ b))

/-- what `load_ds(name, engine)` would return now: dataset, null (no file), or "ERR" (unreadable) -/
def diskJson (s : Store) (name : String) (e : Engine) : Json :=
  match load s name e with
  | .ok d => dsJson true d
  | .error .notFound => Json.null
  | .error .badFormat => Json.str "ERR"

def memJson (st : St) (sid : Nat) : St × Json :=
  match fullDs st sid with
  | (st', .ok (some d)) => (st', dsJson true d)
  | (st', .ok none) => (st', Json.null)
  | (st', .error _) => (st', Json.str "ERR")

def sessionName (st : St) (sid : Nat) : String := ((st.sessions[sid]?).map (·.name)).getD ""

/-- one operation of a history → (state, observation) -/
def histOp (e : Engine) (st : St) (op : Json) : St × Json :=
  let sid := getNat op "sid"
  let withSession (r : St × Option Harvest.Err) : St × Json :=
    let (st2, mem) := memJson r.1 sid
    (st2, Json.mkObj [("err", errJson r.2), ("mem", mem), ("disk", diskJson st2.store (sessionName st2 sid) e),
                      ("ls", lsJson st2.store)])
  match getStr op "op" with
  | "new" =>
    let st' := newSession st (getStr op "name") e
    (st', Json.mkObj [("ls", lsJson st'.store)])
  | "harvest" => withSession (addDs st sid (dsOfJson (getObj op "N")) (policyOf (getStr op "policy")) (getBool op "sync" true))
  | "expand" => withSession (expandDims st sid (getStr op "dim") (getInt op "value"))
  | "drop" => withSession (dropSel st sid (getStr op "dim") (intList op "values"))
  | "flush" => withSession (flush st sid)
  | "delete" =>
    let r := deleteDs st sid
    (r.1, Json.mkObj [("err", errJson r.2), ("ls", lsJson r.1.store)])
  | "save_merge" =>
    let name := getStr op "name"
    let r := saveMerge st.store name e (dsOfJson (getObj op "N")) (policyOf (getStr op "policy"))
    ({ st with store := r.1 }, Json.mkObj [("err", errJson r.2), ("disk", diskJson r.1 name e), ("ls", lsJson r.1)])
  | "save" =>
    let name := getStr op "name"
    let s' := save st.store name e (dsOfJson (getObj op "N"))
    ({ st with store := s' }, Json.mkObj [("err", Json.null), ("disk", diskJson s' name e), ("ls", lsJson s')])
  | "load" =>
    let name := getStr op "name"
    (st, Json.mkObj [("disk", diskJson st.store name e), ("ls", lsJson st.store)])
  | o => (st, err s!"bad-op {o}")

def opHarvest (j : Json) : Json :=
  let e := engineOf (getStr j "engine")
  let (_, obs) := (getArr j "ops").foldl (fun (acc : St × Array Json) op =>
    let (s', o) := histOp e acc.1 op
    (s', acc.2.push o)) (({} : St), #[])
  Json.mkObj [("obs", Json.arr obs)]

def methodOf : String → Method
  | "isfinite" => .isfinite | _ => .isnull

/-- the dataset a function "that returns data" yields when run on exactly `cases` (over `fnArgs`): every variable
of `d` gets a value at every case and every position of its remaining dimensions -/
def filledAt (d : Dataset) (fnArgs : List String) (cases : List (List Coord)) : Dataset :=
  let caseCoords := fun (_dim : String) (j : Nat) => DS.sortedUnion (cases.map fun c => c.getD j 0) []
  let coords := d.coords.map fun e =>
    match fnArgs.idxOf? e.1 with
    | some j => (e.1, caseCoords e.1 j)
    | none => e
  let vars := d.vars.map fun e =>
    let inner := e.2.dims.filter fun dm => !fnArgs.contains dm
    let innerPts := Core.product (inner.map fun dm => d.coordsOf dm)
    let cells : Cells := cases.flatMap fun c => innerPts.map fun ip =>
      let loc : Pt := fnArgs.zip c ++ inner.zip ip
      (e.2.dims.map fun dm => (dm, (alookup loc dm).getD 0), Tok.v 1)
    (e.1, { e.2 with cells := cells })
  { coords := coords, vars := vars, attrs := d.attrs }

def opMissing (j : Json) : Json :=
  let d := dsOfJson (getObj j "ds")
  let m := methodOf (getStr j "method")
  match getStr j "mode" with
  | "is" => Json.mkObj [("missing", toJson (isCaseMissing d (ptOfJson (getObj j "setting")) m))]
  | "find" =>
    let r := findMissingCases d (strList j "ignore") m
    Json.mkObj [("fn_args", toJson r.1), ("cases", toJson r.2)]
  | "parse" =>
    let combos := pairsOfJson (fun x => (arrOf x).map intOf) (getObj j "combos")
    let cases := match getObj j "cases" with
      | .null => none
      | c => some ((arrOf c).map ptOfJson)
    let r := parseIntoCases combos cases (if getBool j "with_ds" true then some d else none) m
    Json.mkObj [("cases", Json.arr (r.map ptJson).toArray)]
  | "loop" =>
    let ignore := strList j "ignore"
    let r1 := findMissingCases d ignore m
    let N := filledAt d r1.1 r1.2
    match mergeBy (addDsKind (policyOf (getStr j "policy"))) d N with
    | .error e => Json.mkObj [("fn_args", toJson r1.1), ("cases", toJson r1.2), ("err", errStr e)]
    | .ok d' =>
      let r2 := findMissingCases d' ignore m
      Json.mkObj [("fn_args", toJson r1.1), ("cases", toJson r1.2), ("err", Json.null), ("after", toJson r2.2),
                  ("merged", dsJson true d')]
  | o => err s!"bad-mode {o}"

def opExt (j : Json) : Json :=
  let e := engineOf (getStr j "engine")
  let name := getStr j "name"
  let attrs := pairsOfJson attrOfJson (getObj j "attrs")
  let d : Dataset := { attrs := attrs }
  Json.mkObj [
    ("ext", autoAddExt name e), ("twice", autoAddExt (autoAddExt name e) e), ("has_ext", hasKnownExt name),
    ("save", savePath name e), ("load", loadPath name e),
    ("hv_access", hvAccessPath name e), ("hv_isfile", hvIsfilePath name e), ("hv_exists", hvExistsPath name e),
    ("hv_remove", hvRemovePath name e), ("hv_delete", hvDeletePath name e),
    ("sm_exists", smExistsPath name e), ("sm_load", smLoadPath name e), ("sm_load_engine", (smLoadEngine e).key),
    ("coerces", coercesAttrs e),
    ("attrs", Json.arr ((coerceAttrs e d).attrs.map fun kv => Json.arr #[Json.str kv.1, attrJson kv.2]).toArray)]

def handleData (op : String) (j : Json) : Option Json :=
  match op with
  | "harvest" => some (opHarvest j)
  | "missing" => some (opMissing j)
  | "ext" => some (opExt j)
  | _ => none

end DrvData
