import XyzProofs.Refine.Lifecycle
import XyzProofs.Refine.Sow
/-!
# C04 / C06 — the life cycle of a crop, on the translated bodies of the `Crop` methods

Stated on `Gen.sowCombosLc`, `Gen.sowCasesLc`, `Gen.reapCombosLc`, `Gen.reapCombosToDsLc`, `Gen.reapRunnerLc` — the bodies
of the methods translated from the repository source on every run — for an arbitrary `fails` (which effects raise) and
arbitrary parsers `o`:

1. **round trip** (`c04_lc_sow_combos_ok`, `c04_lc_sow_cases_ok`, `c04_lc_reaper_replays_*`): a sow that returns has written,
   in this order, the directories, the function file (when asked), the info file, and only then driven the Sower; the info
   file holds the combos *in name order*, the cases, the batch settings that were *chosen* (which are the attributes the
   object is left with) and the shuffle the Sower was driven under; every reap method builds its Reaper with the saved
   `num_batches` and hands the runner the saved combos, cases and shuffle — the enumeration the Sower was driven by.
2. **constants** (`c06_lc_sow_constants_win`): a constant given at the sow call overrides the runner's own in the
   arguments that are sown and in the labels of `reap_runner`.
3. **order** (`c04_lc_sow_*_untouched`, `c04_lc_no_batch_without_info`): a sow that raises while parsing or in
   `choose_batch_settings` has attempted nothing but parsing; if the info file cannot be written no batch file is.
-/
set_option linter.unusedSimpArgs false
set_option linter.unusedVariables false
namespace Lc
open Gen

variable {C K A V : Type}

/-! ### inversion of the combinators -/

theorem thenK_none {E O : Type} (fails : E → Bool) (es t : List E) (obj : O) (k)
    (h : (thenK (attempt fails es t) obj k).2 = none) :
    (∀ e ∈ es, fails e = false) ∧ thenK (attempt fails es t) obj k = k (t ++ es) := by
  have hok : (attempt fails es t).2 = none := by
    cases hr : attempt fails es t with
    | mk t' e =>
      cases e with
      | none => rfl
      | some e => rw [hr] at h; simp [thenK] at h
  have hall := (attempt_ok_iff fails es t).mp hok
  exact ⟨hall, thenK_ok fails es t obj k hall⟩

theorem thenT_none {E : Type} (fails : E → Bool) (es t : List E) (k)
    (h : (thenT (attempt fails es t) k).2 = none) :
    (∀ e ∈ es, fails e = false) ∧ thenT (attempt fails es t) k = k (t ++ es) := by
  have hok : (attempt fails es t).2 = none := by
    cases hr : attempt fails es t with
    | mk t' e =>
      cases e with
      | none => rfl
      | some e => rw [hr] at h; simp [thenT] at h
  have hall := (attempt_ok_iff fails es t).mp hok
  exact ⟨hall, thenT_ok fails es t k hall⟩

/-- where an effect in the trace of `thenK (attempt …) k` can come from: the old trace, the attempted effects, or `k` -/
theorem thenK_trace_mem {E O : Type} (fails : E → Bool) (es t : List E) (obj : O) (k) (x : E) (P : Prop)
    (hk : ∀ t', x ∈ (k t').1.1 → x ∈ t' ∨ P)
    (hx : x ∈ (thenK (attempt fails es t) obj k).1.1) : x ∈ t ∨ x ∈ es ∨ P := by
  obtain ⟨n, _, htr, _, _⟩ := attempt_prefix fails es t
  cases hr : attempt fails es t with
  | mk t' e =>
    rw [hr] at htr hx
    simp only at htr
    have hmem : x ∈ t' ∨ P := by
      cases e with
      | none => exact hk t' (by simpa [thenK] using hx)
      | some e => exact Or.inl (by simpa [thenK] using hx)
    rcases hmem with hmem | hp
    · rw [htr, List.mem_append] at hmem
      rcases hmem with h | h
      · exact Or.inl h
      · exact Or.inr (Or.inl (List.mem_of_mem_take h))
    · exact Or.inr (Or.inr hp)

/-! ### 1. a sow that returns: what was written, in which order, and what the object is left with -/

/-- the effects of a successful sow after parsing, in order -/
def sowWrites (saveFn farmerIsNone : Bool) (info : FarmerPkl → InfoRec C K A V) (run : RunArgs C K A V) : List (LEff C K A V) :=
  prepareEffs saveFn farmerIsNone info ++ [.runSower run, .exitSower]

theorem sowTail_ok (fails : LEff C K A V → Bool) (saveFn fIN : Bool) (pc : C) (pk : K) (fa : A) (run : RunArgs C K A V)
    (bs nb rem sh : Option Int) (sc : Dict V) (choice) (t)
    (h : (sowTail fails saveFn fIN pc pk fa run bs nb rem sh sc choice t).2 = none) :
    ∃ bs' nb' rem', choice = .ok (bs', nb', rem') ∧
      sowTail fails saveFn fIN pc pk fa run bs nb rem sh sc choice t =
        ((t ++ sowWrites saveFn fIN (infoOf pc pk fa bs' nb' rem' sh (some sc)) run, bs', nb', rem', sh, some sc), none) := by
  unfold sowTail at h ⊢
  cases choice with
  | error e => simp at h
  | ok v =>
    obtain ⟨bs', nb', rem'⟩ := v
    simp only at h ⊢
    obtain ⟨_, heq⟩ := thenK_none fails _ t _ _ h
    exact ⟨bs', nb', rem', rfl, by rw [heq]; rfl⟩

/-- **`sow_combos` returned** (translated body): the arguments were parsed, `choose_batch_settings` accepted the sorted
combos and the cases, and then — in this order — the two directories were made, the function file written (iff `save_fn`),
the farmer pickled without its function (iff there is one), the info file written, the Sower driven and closed.  The info
file holds the combos in name order, the parsed cases, the *chosen* batch settings, the shuffle the call resolved to and
the constants of the call; the runner driving the Sower got the same combos, cases and shuffle; the object is left with
the chosen batch settings. -/
theorem c04_lc_sow_combos_ok (o : LcOps C K A V) (fails) (combos : C) (cases : K) (constants : Dict V)
    (shArg bsArg nbArg : Option Int) (saveFn fIN hasRunner : Bool) (rc rr : Dict V)
    (bs nb rem sh : Option Int) (sc0 : Option (Dict V)) (trace)
    (h : (sowCombosLc o fails combos cases constants shArg bsArg nbArg saveFn fIN hasRunner rc rr bs nb rem sh sc0 trace).2 = none) :
    ∃ bs' nb' rem',
      chooseBatchSettings (o.combosTruthy (o.sortByName (o.parseCombos combos))) (o.combosProd (o.sortByName (o.parseCombos combos)))
        (o.casesTruthy (o.parseCases cases none)) (o.casesLen (o.parseCases cases none))
        (headAttr bsArg bs) (headAttr nbArg nb) rem = .ok (bs', nb', rem') ∧
      sowCombosLc o fails combos cases constants shArg bsArg nbArg saveFn fIN hasRunner rc rr bs nb rem sh sc0 trace =
        ((trace ++ [.parse .combos, .parse .cases, .parse .constants] ++
            sowWrites saveFn fIN
              (infoOf (o.sortByName (o.parseCombos combos)) (o.parseCases cases none) o.noneA bs' nb' rem' (headAttr shArg sh)
                (some (o.parseConstants constants)))
              { runner := .comboRunnerCore, combos := o.sortByName (o.parseCombos combos), cases := o.parseCases cases none,
                fnArgs := o.noneA, constants := sowKwargs hasRunner rc rr (o.parseConstants constants),
                shuffle := headAttr shArg sh, parse := true },
          bs', nb', rem', headAttr shArg sh, some (o.parseConstants constants)), none) := by
  rw [sowCombos_refines] at h ⊢
  unfold sowCombosSpec at h ⊢
  obtain ⟨_, heq⟩ := thenK_none fails _ trace _ _ h
  rw [heq] at h ⊢
  obtain ⟨bs', nb', rem', hc, ht⟩ := sowTail_ok fails _ _ _ _ _ _ _ _ _ _ _ _ _ h
  exact ⟨bs', nb', rem', hc, ht⟩

/-- **`sow_cases` returned** (translated body): as for `sow_combos`, with the function's argument names parsed first, the
cases parsed against them, the combos handed on as given, the crop's own shuffle, `case_runner(parse=False)` -/
theorem c04_lc_sow_cases_ok (o : LcOps C K A V) (fails) (fnArgs : A) (cases : K) (combos : C) (constants : Dict V)
    (bsArg nbArg : Option Int) (saveFn fIN hasRunner : Bool) (rc rr : Dict V)
    (bs nb rem sh : Option Int) (sc0 : Option (Dict V)) (trace)
    (h : (sowCasesLc o fails fnArgs cases combos constants bsArg nbArg saveFn fIN hasRunner rc rr bs nb rem sh sc0 trace).2 = none) :
    ∃ bs' nb' rem',
      chooseBatchSettings (o.combosTruthy combos) (o.combosProd combos)
        (o.casesTruthy (o.parseCases cases (some (o.parseFnArgs fnArgs)))) (o.casesLen (o.parseCases cases (some (o.parseFnArgs fnArgs))))
        (headAttr bsArg bs) (headAttr nbArg nb) rem = .ok (bs', nb', rem') ∧
      sowCasesLc o fails fnArgs cases combos constants bsArg nbArg saveFn fIN hasRunner rc rr bs nb rem sh sc0 trace =
        ((trace ++ [.parse .fnArgs, .parse .cases, .parse .constants] ++
            sowWrites saveFn fIN
              (infoOf combos (o.parseCases cases (some (o.parseFnArgs fnArgs))) (o.parseFnArgs fnArgs) bs' nb' rem' sh
                (some (o.parseConstants constants)))
              { runner := .caseRunner, combos := combos, cases := o.parseCases cases (some (o.parseFnArgs fnArgs)),
                fnArgs := o.parseFnArgs fnArgs, constants := sowKwargs hasRunner rc rr (o.parseConstants constants),
                shuffle := sh, parse := false },
          bs', nb', rem', sh, some (o.parseConstants constants)), none) := by
  rw [sowCases_refines] at h ⊢
  unfold sowCasesSpec at h ⊢
  obtain ⟨_, heq⟩ := thenK_none fails _ trace _ _ h
  rw [heq] at h ⊢
  obtain ⟨bs', nb', rem', hc, ht⟩ := sowTail_ok fails _ _ _ _ _ _ _ _ _ _ _ _ _ h
  exact ⟨bs', nb', rem', hc, ht⟩

/-- the info file is written before the Sower is driven, after the directories and the function file exist -/
theorem sowWrites_order (saveFn fIN : Bool) (info : FarmerPkl → InfoRec C K A V) (run : RunArgs C K A V) :
    ∃ pre f, sowWrites saveFn fIN info run = [.mkDir .batches true, .mkDir .results true] ++ pre ++ [.writeInfo (info f), .runSower run, .exitSower] ∧
      (∀ x ∈ pre, x = .pickleFn ∨ x = .writeFn ∨ x = .pickleFarmer true) ∧ (f = .none ↔ fIN = true) := by
  cases saveFn <;> cases fIN
  · exact ⟨[.pickleFarmer true], .pickled true, by simp [sowWrites, prepareEffs, saveInfoEffs], by simp, by simp⟩
  · exact ⟨[], .none, by simp [sowWrites, prepareEffs, saveInfoEffs], by simp, by simp⟩
  · exact ⟨[.pickleFn, .writeFn, .pickleFarmer true], .pickled true, by simp [sowWrites, prepareEffs, saveInfoEffs], by simp, by simp⟩
  · exact ⟨[.pickleFn, .writeFn], .none, by simp [sowWrites, prepareEffs, saveInfoEffs], by simp, by simp⟩

/-! ### 1b. the Reaper replays the enumeration the Sower was driven by -/

/-- reading back an info record written by `save_info` -/
theorem reapArgsOf_infoOf (pc : C) (pk : K) (fa : A) (bs nb rem sh : Option Int) (sc : Option (Dict V)) (f : FarmerPkl)
    (runner : RunnerKind) (labels : Dict V) (parse : Bool) :
    reapArgsOf (infoOf pc pk fa bs nb rem sh sc f) runner labels parse =
      .ok { runner := runner, numBatches := nb, combos := pc, cases := pk, constants := labels, shuffle := sh, parse := parse } := by
  simp [reapArgsOf, infoOf]

/-- what a reap that returns has done, given what `reapArgsOf` reads off the info file -/
theorem reapSpec_ok (fails : LEff C K A V → Bool) (info : InfoRec C K A V) (cu : Option Bool) (ai : Bool)
    (first pre : List (LEff C K A V)) (runner : RunnerKind) (labels : Dict V) (parse : Bool) (post) (trace)
    (h : (reapSpec fails info cu ai first pre runner labels parse post trace).2 = none) :
    ∃ args, reapArgsOf info runner labels parse = .ok args ∧
      (reapSpec fails info cu ai first pre runner labels parse post trace).1 =
        trace ++ (first ++ [.checkReady] ++ (if ai then [.allNan] else []) ++ [.loadInfo] ++ pre) ++
          ([.gather args] ++ (if runner = .comboRunnerToDs then [.label] else []) ++ [.reaperExit] ++
            (if Crop.cleanUpResolved cu ai then [.deleteAll] else []) ++ post) := by
  unfold reapSpec at h ⊢
  obtain ⟨_, heq⟩ := thenT_none fails _ trace _ h
  rw [heq] at h ⊢
  cases ha : reapArgsOf info runner labels parse with
  | error e => rw [ha] at h; simp at h
  | ok args =>
    rw [ha] at h
    simp only at h ⊢
    have := (attempt_ok_iff fails _ _).mp h
    rw [attempt_ok fails _ _ this]
    exact ⟨args, rfl, rfl⟩

/-- **`reap_combos` replays the sow** (translated bodies of both): on a crop whose info file was written by a `save_info`
with these values, a reap that returns built its Reaper with the saved `num_batches` and handed `combo_runner_core` the
saved combos, the saved cases and the saved shuffle (not the object's), with no constants -/
theorem c04_lc_reaper_replays_combos (o : LcOps C K A V) (fails) (pc : C) (pk : K) (fa : A) (bs nb rem sh : Option Int)
    (sc : Option (Dict V)) (f : FarmerPkl) (wait : Bool) (cu : Option Bool) (ai : Bool) (sbs snb srem ssh : Option Int) (trace)
    (h : (reapCombosLc o fails (infoOf pc pk fa bs nb rem sh sc f) wait cu ai sbs snb srem ssh trace).2 = none) :
    (LEff.gather { runner := .comboRunnerCore, numBatches := nb, combos := pc, cases := pk, constants := [], shuffle := sh,
                   parse := true } : LEff C K A V)
      ∈ (reapCombosLc o fails (infoOf pc pk fa bs nb rem sh sc f) wait cu ai sbs snb srem ssh trace).1 ∧
    ∀ a, LEff.gather a ∈ (reapCombosLc o fails (infoOf pc pk fa bs nb rem sh sc f) wait cu ai sbs snb srem ssh trace).1 →
      LEff.gather a ∈ trace ∨ (a.numBatches = nb ∧ a.shuffle = sh) := by
  rw [reapCombos_refines] at h ⊢
  obtain ⟨args, ha, htr⟩ := reapSpec_ok fails _ cu ai _ _ _ _ _ _ trace h
  rw [reapArgsOf_infoOf] at ha
  cases ha
  rw [htr]
  refine ⟨by simp, ?_⟩
  intro a hmem
  generalize Crop.cleanUpResolved cu ai = cur at hmem
  cases ai <;> cases cur <;> simp at hmem <;>
    (rcases hmem with hm | hm
     · exact Or.inl hm
     · right; subst hm; exact ⟨rfl, rfl⟩)

/-- **`reap_runner` replays the sow and labels with the sow-time constants laid over the runner's** (translated bodies) -/
theorem c06_lc_reaper_replays_runner (o : LcOps C K A V) (fails) (pc : C) (pk : K) (fa : A) (bs nb rem sh : Option Int)
    (sc : Option (Dict V)) (f : FarmerPkl) (wait : Bool) (cu : Option Bool) (ai : Bool) (sbs snb srem ssh : Option Int)
    (rc : Dict V) (toDf : Bool) (trace)
    (h : (reapRunnerLc o fails (infoOf pc pk fa bs nb rem sh sc f) wait cu ai sbs snb srem ssh rc toDf trace).2 = none) :
    (LEff.gather { runner := .comboRunnerToDs, numBatches := nb, combos := pc, cases := pk,
                   constants := dictMerge rc (sc.getD []), shuffle := sh, parse := false } : LEff C K A V)
      ∈ (reapRunnerLc o fails (infoOf pc pk fa bs nb rem sh sc f) wait cu ai sbs snb srem ssh rc toDf trace).1 := by
  rw [reapRunner_refines] at h ⊢
  obtain ⟨args, ha, htr⟩ := reapSpec_ok fails _ cu ai _ _ _ _ _ _ trace h
  rw [reapArgsOf_infoOf] at ha
  cases ha
  rw [htr]
  simp [infoOf]

/-- **`reap_combos_to_ds` replays the sow** and labels with the constants it is given (parsed iff `parse`) -/
theorem c06_lc_reaper_replays_to_ds (o : LcOps C K A V) (fails) (pc : C) (pk : K) (fa : A) (bs nb rem sh : Option Int)
    (sc : Option (Dict V)) (f : FarmerPkl) (wait : Bool) (cu : Option Bool) (ai : Bool) (sbs snb srem ssh : Option Int)
    (constants : Dict V) (parse toDf : Bool) (trace)
    (h : (reapCombosToDsLc o fails (infoOf pc pk fa bs nb rem sh sc f) wait cu ai sbs snb srem ssh constants parse toDf trace).2 = none) :
    (LEff.gather { runner := .comboRunnerToDs, numBatches := nb, combos := pc, cases := pk,
                   constants := (if parse then o.parseConstants constants else constants), shuffle := sh, parse := parse } : LEff C K A V)
      ∈ (reapCombosToDsLc o fails (infoOf pc pk fa bs nb rem sh sc f) wait cu ai sbs snb srem ssh constants parse toDf trace).1 := by
  rw [reapCombosToDs_refines] at h ⊢
  obtain ⟨args, ha, htr⟩ := reapSpec_ok fails _ cu ai _ _ _ _ _ _ trace h
  rw [reapArgsOf_infoOf] at ha
  cases ha
  rw [htr]
  simp

/-- an info file in which a key the reap reads was not written makes every reap method raise `KeyError` before any result
is gathered (so `save_info` must write `num_batches`, `combos`, `cases`) -/
theorem c04_lc_missing_key_raises (o : LcOps C K A V) (fails) (info : InfoRec C K A V) (wait : Bool) (cu : Option Bool) (ai : Bool)
    (sbs snb srem ssh : Option Int) (trace)
    (hk : info.numBatches = none ∨ info.combos = none ∨ info.cases = none) :
    (reapCombosLc o fails info wait cu ai sbs snb srem ssh trace).2 ≠ none := by
  rw [reapCombos_refines]
  intro h
  obtain ⟨args, ha, _⟩ := reapSpec_ok fails _ cu ai _ _ _ _ _ _ trace h
  obtain ⟨c, k, fa, bs, nb, rem, sh, f, cs⟩ := info
  simp only at hk
  cases nb <;> cases c <;> cases k <;> first | (simp [reapArgsOf] at ha; done) | (simp at hk; done)

/-! ### 2. constants: what is given at the sow call wins -/

theorem dictGet_merge (a b : Dict V) (k : String) : dictGet (dictMerge a b) k = (dictGet b k).orElse fun _ => dictGet a k := by
  unfold dictGet dictMerge
  rw [List.find?_append]
  cases h : List.find? (fun kv => kv.1 == k) b <;> simp

/-- **a sow-time constant overrides the runner's own, both in the arguments that are sown and in the labels of the reap** -/
theorem c06_lc_sow_constants_win (hasRunner : Bool) (rc rr sc : Dict V) (k : String) (v : V) (h : dictGet sc k = some v) :
    dictGet (sowKwargs hasRunner rc rr sc) k = some v ∧ dictGet (dictMerge rc sc) k = some v := by
  cases hasRunner <;> simp [sowKwargs, dictGet_merge, h]

/-- a runner constant that the sow call does not mention is sown and labels the reap as the runner has it (a resource
of the same name is overridden by it in what is sown, as in a direct run) -/
theorem c06_lc_runner_constants_kept (rc rr sc : Dict V) (k : String) (hsc : dictGet sc k = none) :
    dictGet (dictMerge rc sc) k = dictGet rc k ∧
    dictGet (sowKwargs true rc rr sc) k = (dictGet rc k).orElse fun _ => dictGet rr k := by
  simp [sowKwargs, dictGet_merge, hsc]

/-! ### 3. order: what a failing sow has touched -/

/-- effects that change the crop directory -/
def isWrite : LEff C K A V → Bool
  | .mkDir _ _ | .writeFn | .writeInfo _ | .runSower _ | .exitSower | .deleteAll | .writeOther => true
  | _ => false

theorem sowTail_error_trace (fails : LEff C K A V → Bool) (saveFn fIN : Bool) (pc : C) (pk : K) (fa : A) (run : RunArgs C K A V)
    (bs nb rem sh : Option Int) (sc : Dict V) (e : PyErr) (t) :
    sowTail fails saveFn fIN pc pk fa run bs nb rem sh sc (.error e) t = ((t, bs, nb, rem, sh, some sc), some e) := rfl

/-- **a `sow_combos` that raises while parsing or in `choose_batch_settings` leaves the directory untouched** (translated
body): every effect it attempted was a parser call -/
theorem c04_lc_sow_combos_untouched (o : LcOps C K A V) (fails) (combos : C) (cases : K) (constants : Dict V)
    (shArg bsArg nbArg : Option Int) (saveFn fIN hasRunner : Bool) (rc rr : Dict V)
    (bs nb rem sh : Option Int) (sc0 : Option (Dict V)) (trace)
    (hfail : (∃ p ∈ [ParseKind.combos, .cases, .constants], fails (.parse p) = true) ∨
      ∃ e, chooseBatchSettings (o.combosTruthy (o.sortByName (o.parseCombos combos))) (o.combosProd (o.sortByName (o.parseCombos combos)))
        (o.casesTruthy (o.parseCases cases none)) (o.casesLen (o.parseCases cases none))
        (headAttr bsArg bs) (headAttr nbArg nb) rem = .error e) :
    (sowCombosLc o fails combos cases constants shArg bsArg nbArg saveFn fIN hasRunner rc rr bs nb rem sh sc0 trace).2 ≠ none ∧
    ∀ x ∈ (sowCombosLc o fails combos cases constants shArg bsArg nbArg saveFn fIN hasRunner rc rr bs nb rem sh sc0 trace).1.1,
      x ∈ trace ∨ isWrite x = false := by
  constructor
  · intro h
    obtain ⟨bs', nb', rem', hc, _⟩ :=
      c04_lc_sow_combos_ok o fails combos cases constants shArg bsArg nbArg saveFn fIN hasRunner rc rr bs nb rem sh sc0 trace h
    rw [sowCombos_refines] at h
    unfold sowCombosSpec at h
    obtain ⟨hall, _⟩ := thenK_none fails _ trace _ _ h
    rcases hfail with ⟨p, hp, hf⟩ | ⟨e, he⟩
    · simp only [List.mem_cons, List.mem_nil_iff, or_false] at hp
      rcases hp with rfl | rfl | rfl <;> simp [hall] at hf
    · rw [hc] at he; cases he
  · rw [sowCombos_refines]
    intro x hx
    unfold sowCombosSpec at hx
    rcases hfail with ⟨p, hp, hf⟩ | ⟨e, he⟩
    · have hne : (attempt fails [LEff.parse .combos, .parse .cases, .parse .constants] trace).2 ≠ none := by
        intro hn
        have := (attempt_ok_iff fails _ trace).mp hn
        simp only [List.mem_cons, List.mem_nil_iff, or_false] at hp
        rcases hp with rfl | rfl | rfl <;> simp [this] at hf
      obtain ⟨n, _, htr, _, _⟩ := attempt_prefix fails [LEff.parse .combos, .parse .cases, .parse .constants] trace
      cases hr : attempt fails [LEff.parse .combos, .parse .cases, .parse .constants] trace with
      | mk t' e' =>
        rw [hr] at hne htr hx
        cases e' with
        | none => exact absurd rfl hne
        | some e' =>
          simp only [thenK] at hx
          simp only at htr
          rw [htr, List.mem_append] at hx
          rcases hx with hx | hx
          · exact Or.inl hx
          · right
            have := List.mem_of_mem_take hx
            simp only [List.mem_cons, List.mem_nil_iff, or_false] at this
            rcases this with rfl | rfl | rfl <;> rfl
    · rw [he] at hx
      have := thenK_trace_mem fails _ trace _ _ x False (fun t' h' => Or.inl (by simpa [sowTail_error_trace] using h')) hx
      rcases this with h' | h' | h'
      · exact Or.inl h'
      · right
        simp only [List.mem_cons, List.mem_nil_iff, or_false] at h'
        rcases h' with rfl | rfl | rfl <;> rfl
      · exact h'.elim

/-- not an effect that writes a batch file -/
def noBatch (x : LEff C K A V) : Prop := (∀ a, x ≠ .runSower a) ∧ x ≠ .exitSower

theorem stop_at_info {O : Type} (fails : LEff C K A V → Bool) (hinfo : ∀ i, fails (.writeInfo i) = true)
    (pre : List (LEff C K A V)) (i : InfoRec C K A V) (post t : List (LEff C K A V)) (x : LEff C K A V) (obj : O) (k)
    (hpre : ∀ y ∈ pre, noBatch y)
    (hmem : x ∈ (thenK (attempt fails (pre ++ LEff.writeInfo i :: post) t) obj k).1.1) : x ∈ t ∨ noBatch x := by
  rw [attempt_stops fails pre post t _ (hinfo i)] at hmem
  have hne : (attempt fails (pre ++ [LEff.writeInfo i]) t).2 ≠ none := by
    intro hn
    have := (attempt_ok_iff fails _ t).mp hn (.writeInfo i) (by simp)
    rw [hinfo i] at this; cases this
  obtain ⟨n, _, htr, _, _⟩ := attempt_prefix fails (pre ++ [LEff.writeInfo i]) t
  cases hr : attempt fails (pre ++ [LEff.writeInfo i]) t with
  | mk t2 e2 =>
    rw [hr] at hne htr hmem
    cases e2 with
    | none => exact absurd rfl hne
    | some e2 =>
      simp only [thenK] at hmem
      simp only at htr
      rw [htr, List.mem_append] at hmem
      rcases hmem with hm | hm
      · exact Or.inl hm
      · right
        have := List.mem_of_mem_take hm
        rw [List.mem_append] at this
        rcases this with hp | hp
        · exact hpre x hp
        · simp only [List.mem_cons, List.mem_nil_iff, or_false] at hp
          subst hp
          exact ⟨fun a => by simp, by simp⟩

theorem sowTail_no_batch (fails : LEff C K A V → Bool) (hinfo : ∀ i, fails (.writeInfo i) = true) (saveFn fIN : Bool) (pc : C) (pk : K)
    (fa : A) (run : RunArgs C K A V) (bs nb rem sh : Option Int) (sc : Dict V) (choice) (t) (x)
    (hx : x ∈ (sowTail fails saveFn fIN pc pk fa run bs nb rem sh sc choice t).1.1) : x ∈ t ∨ noBatch x := by
  unfold sowTail at hx
  split at hx
  · exact Or.inl hx
  · cases saveFn <;> cases fIN <;>
      simp only [prepareEffs, saveInfoEffs, List.cons_append, List.nil_append, List.append_nil, Bool.false_eq_true, if_false, if_true] at hx
    · exact stop_at_info fails hinfo [.mkDir .batches true, .mkDir .results true, .pickleFarmer true] _ _ _ _ _ _ (by simp [noBatch]) hx
    · exact stop_at_info fails hinfo [.mkDir .batches true, .mkDir .results true] _ _ _ _ _ _ (by simp [noBatch]) hx
    · exact stop_at_info fails hinfo [.mkDir .batches true, .mkDir .results true, .pickleFn, .writeFn, .pickleFarmer true] _ _ _ _ _ _
        (by simp [noBatch]) hx
    · exact stop_at_info fails hinfo [.mkDir .batches true, .mkDir .results true, .pickleFn, .writeFn] _ _ _ _ _ _ (by simp [noBatch]) hx

/-- **no batch file without the info file** (translated bodies of `sow_combos` / `sow_cases`): if writing the info file
raises (whatever would be written), the Sower is never driven -/
theorem c04_lc_no_batch_without_info (o : LcOps C K A V) (fails) (combos : C) (cases : K) (constants : Dict V)
    (shArg bsArg nbArg : Option Int) (saveFn fIN hasRunner : Bool) (rc rr : Dict V)
    (bs nb rem sh : Option Int) (sc0 : Option (Dict V)) (trace)
    (hinfo : ∀ i, fails (.writeInfo i) = true) :
    ∀ x ∈ (sowCombosLc o fails combos cases constants shArg bsArg nbArg saveFn fIN hasRunner rc rr bs nb rem sh sc0 trace).1.1,
      x ∈ trace ∨ noBatch x := by
  rw [sowCombos_refines]
  intro x hx
  unfold sowCombosSpec at hx
  rcases thenK_trace_mem fails _ trace _ _ x (noBatch x) (fun t' h' => sowTail_no_batch fails hinfo _ _ _ _ _ _ _ _ _ _ _ _ t' x h') hx
    with h | h | h
  · exact Or.inl h
  · right
    simp only [List.mem_cons, List.mem_nil_iff, or_false] at h
    rcases h with rfl | rfl | rfl <;> exact ⟨fun a => by simp, by simp⟩
  · exact Or.inr h

theorem c04_lc_no_batch_without_info_cases (o : LcOps C K A V) (fails) (fnArgs : A) (cases : K) (combos : C) (constants : Dict V)
    (bsArg nbArg : Option Int) (saveFn fIN hasRunner : Bool) (rc rr : Dict V)
    (bs nb rem sh : Option Int) (sc0 : Option (Dict V)) (trace)
    (hinfo : ∀ i, fails (.writeInfo i) = true) :
    ∀ x ∈ (sowCasesLc o fails fnArgs cases combos constants bsArg nbArg saveFn fIN hasRunner rc rr bs nb rem sh sc0 trace).1.1,
      x ∈ trace ∨ noBatch x := by
  rw [sowCases_refines]
  intro x hx
  unfold sowCasesSpec at hx
  rcases thenK_trace_mem fails _ trace _ _ x (noBatch x) (fun t' h' => sowTail_no_batch fails hinfo _ _ _ _ _ _ _ _ _ _ _ _ t' x h') hx
    with h | h | h
  · exact Or.inl h
  · right
    simp only [List.mem_cons, List.mem_nil_iff, or_false] at h
    rcases h with rfl | rfl | rfl <;> exact ⟨fun a => by simp, by simp⟩
  · exact Or.inr h

/-! ### non-vacuity: a concrete instance (combos as (name, values) pairs, cases as rows, constants as numbers) -/

def exIns (x : String × List Nat) : List (String × List Nat) → List (String × List Nat)
  | [] => [x]
  | y :: ys => if x.1 < y.1 then x :: y :: ys else y :: exIns x ys

def exOps : LcOps (List (String × List Nat)) (List (List Nat)) (List String) Nat where
  noneC := []
  noneK := []
  noneA := []
  parseCombos := id
  parseCases := fun k _ => k
  parseFnArgs := id
  parseConstants := id
  sortByName := fun c => c.foldl (fun acc x => exIns x acc) []
  combosTruthy := fun c => !c.isEmpty
  combosProd := fun c => (c.map (fun x => (x.2.length : Int))).foldl (· * ·) 1
  casesTruthy := fun k => !k.isEmpty
  casesLen := fun k => k.length
  genFnArgs := fun _ _ => ["a"]
  genCases := fun n _ => (List.range n.toNat).map fun i => [i]

/-- 2 × 3 combos given in the order b, a; batchsize 4 asked for at the call; a runner with constants; nothing fails -/
def exSow (fails : LEff (List (String × List Nat)) (List (List Nat)) (List String) Nat → Bool) :=
  sowCombosLc exOps fails [("b", [0, 1, 2]), ("a", [0, 1])] [] [("t", 7)] (some 3) (some 4) none true false true
    [("t", 1), ("u", 2)] [("r", 9)] none none none (some 0) none []

-- the sow returns; 3 parser calls + 2 directories + 2 for the function + pickled farmer + info + Sower run + exit
example : (exSow fun _ => false).2 = none := by decide
example : (exSow fun _ => false).1.1.length = 11 := by decide
-- the object is left with batchsize 4, 2 batches, remainder 0, shuffle 3, and remembers the sow-time constants
example : (exSow fun _ => false).1.2 = (some 4, some 2, some 0, some 3, some [("t", 7)]) := by rfl
-- the info file (9th effect) holds the combos in name order, the chosen settings, the shuffle and the constants
example : (match (exSow fun _ => false).1.1[8]? with
    | some (LEff.writeInfo i) => i.combos == some [("a", [0, 1]), ("b", [0, 1, 2])] && i.batchsize == some (some 4) &&
        i.numBatches == some (some 2) && i.remainder == some (some 0) && i.shuffle == some (some 3) &&
        i.constants == some [("t", 7)] && i.farmer == some (.pickled true)
    | _ => false) = true := by decide
-- the Sower is driven (10th effect) with the same combos and shuffle, the sow-time constant t = 7 overriding the runner's t = 1
example : (match (exSow fun _ => false).1.1[9]? with
    | some (LEff.runSower a) => a.combos == [("a", [0, 1]), ("b", [0, 1, 2])] && a.shuffle == some 3 &&
        dictGet a.constants "t" == some 7 && dictGet a.constants "u" == some 2 && dictGet a.constants "r" == some 9
    | _ => false) = true := by decide
-- batchsize 4 and num_batches 5 do not fit 6 settings: ValueError, and only the three parser calls were attempted
example : (sowCombosLc exOps (fun _ => false) [("b", [0, 1, 2]), ("a", [0, 1])] [] [] none (some 4) (some 5) true true false
    [] [] none none none none none []).2 = some .valueError := by decide
example : (sowCombosLc exOps (fun _ => false) [("b", [0, 1, 2]), ("a", [0, 1])] [] [] none (some 4) (some 5) true true false
    [] [] none none none none none []).1.1.length = 3 := by decide
-- the info file cannot be written: 9 effects attempted, the Sower never driven
example : (exSow fun e => match e with | .writeInfo _ => true | _ => false).1.1.length = 9 := by decide
-- reading that info file back: reap_runner builds the Reaper with 2 batches, replays shuffle 3, labels t = 7 (not 1), u = 2
example : (match (reapRunnerLc exOps (fun _ => false)
      (infoOf [("a", [0, 1]), ("b", [0, 1, 2])] [] [] (some 4) (some 2) (some 0) (some 3) (some [("t", 7)]) (.pickled true))
      false none false none none none (some 99) [("t", 1), ("u", 2)] false []).1[3]? with
    | some (LEff.gather a) => a.numBatches == some 2 && a.shuffle == some 3 && a.combos == [("a", [0, 1]), ("b", [0, 1, 2])] &&
        dictGet a.constants "t" == some 7 && dictGet a.constants "u" == some 2 && a.parse == false
    | _ => false) = true := by decide
-- an info file without the `_batch_remainder` / `num_batches` keys: KeyError for the latter
example : (reapCombosLc exOps (fun _ => false) ({ combos := some [], cases := some [] } : InfoRec _ _ _ Nat)
    false none false none none none none []).2 = some .keyError := by decide

end Lc
