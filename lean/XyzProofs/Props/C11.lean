import XyzModel.CropFS
/-!
# C11 — concurrent growers and a waiting reaper always agree, under every interleaving

Any number of growers (distinct batches or the same batch several times), one waiting reaper, one progress poller;
the schedule is an arbitrary list of process steps (so it also covers processes that stop for ever: crashes).
-/
namespace Conc
open List

def Inv (s : Sys) : Prop :=
  s.mode = .tmpRename ∧
  (∀ i d, s.res i = some d → d = s.payload i) ∧
  (∀ (g : Nat) (gr : Grower), s.growers[g]? = some gr →
      match gr.pc with
      | GPc.start => True
      | GPc.writing d => s.tmp g = some ((s.payload gr.batch).take d)
      | GPc.closed => s.tmp g = some (s.payload gr.batch)
      | GPc.finished => True) ∧
  s.reaper.failed = false ∧
  s.reaper.acc = (List.range s.reaper.next).map s.payload ∧
  (∀ c ∈ s.counted, ∀ x ∈ c, x.2 = s.payload x.1)

theorem stepReaper_inv (s : Sys) (h : Inv s) : Inv (stepReaper s) := by
  obtain ⟨h0, h1, h2, h3, h4, h5⟩ := h
  unfold stepReaper
  split
  · exact ⟨h0, h1, h2, h3, h4, h5⟩
  · split
    · exact ⟨h0, h1, h2, h3, h4, h5⟩
    · rename_i data hd
      have := h1 _ _ hd
      simp [this]
      refine ⟨h0, h1, h2, h3, ?_, h5⟩
      simp [h4, List.range_succ]

theorem stepPoller_inv (s : Sys) (h : Inv s) : Inv (stepPoller s) := by
  obtain ⟨h0, h1, h2, h3, h4, h5⟩ := h
  refine ⟨h0, h1, h2, h3, h4, ?_⟩
  intro c hc x hx
  simp only [stepPoller, List.mem_cons] at hc
  rcases hc with rfl | hc
  · simp only [List.mem_filterMap, List.mem_range, Option.map_eq_some_iff] at hx
    obtain ⟨i, _, d, hd, rfl⟩ := hx
    exact h1 i d hd
  · exact h5 c hc x hx

theorem stepGrower_inv (s : Sys) (g : Nat) (h : Inv s) : Inv (stepGrower s g) := by
  obtain ⟨h0, h1, h2, h3, h4, h5⟩ := h
  unfold stepGrower
  split
  · exact ⟨h0, h1, h2, h3, h4, h5⟩
  · rename_i gr hg
    have hgr := h2 g gr hg
    have hlt : g < s.growers.length := (List.getElem?_eq_some_iff.mp hg).1
    rw [h0]
    -- helper: updating the pc of grower g and possibly its own tmp keeps the other growers' facts
    split
    all_goals (try (rename_i hm hpc; first | cases hm | skip))
    all_goals (try rw [‹gr.pc = _›] at hgr)
    · -- tmpRename, start
      refine ⟨(by first | rfl | exact h0), h1, ?_, h3, h4, h5⟩
      intro g' gr' hg'
      by_cases e : g' = g
      · subst e
        simp [List.getElem?_set, hlt] at hg'
        subst hg'; simp [setFn]
      · simp [List.getElem?_set, Ne.symm e] at hg'
        have := h2 g' gr' hg'
        simp [setFn, e]; exact this
    · -- tmpRename, writing
      dsimp only
      split
      · refine ⟨(by first | rfl | exact h0), h1, ?_, h3, h4, h5⟩
        intro g' gr' hg'
        by_cases e : g' = g
        · subst e
          simp [List.getElem?_set, hlt] at hg'
          subst hg'; simp [setFn]
        · simp [List.getElem?_set, Ne.symm e] at hg'
          have := h2 g' gr' hg'
          simp [setFn, e]; exact this
      · rename_i hd
        refine ⟨(by first | rfl | exact h0), h1, ?_, h3, h4, h5⟩
        intro g' gr' hg'
        by_cases e : g' = g
        · subst e
          simp [List.getElem?_set, hlt] at hg'
          subst hg'; simp
          rw [hgr, List.take_of_length_le (by omega)]
        · simp [List.getElem?_set, Ne.symm e] at hg'
          exact h2 g' gr' hg'
    · -- tmpRename, closed: the rename publishes the complete temporary
      refine ⟨(by first | rfl | exact h0), ?_, ?_, h3, h4, h5⟩
      · intro i d hi
        by_cases e : i = gr.batch
        · subst e; simp [setFn, hgr] at hi; exact hi.symm
        · simp [setFn, e] at hi; exact h1 i d hi
      · intro g' gr' hg'
        by_cases e : g' = g
        · subst e
          simp [List.getElem?_set, hlt] at hg'
          subst hg'; simp
        · simp [List.getElem?_set, Ne.symm e] at hg'
          have := h2 g' gr' hg'
          simp [setFn, e]; exact this
    all_goals (first | exact ⟨h0, h1, h2, h3, h4, h5⟩ | exact ⟨rfl, h1, h2, h3, h4, h5⟩ | skip)

theorem run_inv (s : Sys) (h : Inv s) (sched : List Act) : Inv (run s sched) := by
  unfold run
  induction sched generalizing s with
  | nil => exact h
  | cons a t ih =>
    apply ih
    cases a with
    | grow g => exact stepGrower_inv s g h
    | reap => exact stepReaper_inv s h
    | poll => exact stepPoller_inv s h

theorem step_nb_payload (s : Sys) (a : Act) : (step s a).nb = s.nb ∧ (step s a).payload = s.payload := by
  cases a with
  | grow g =>
    simp only [step, stepGrower]
    split
    · exact ⟨rfl, rfl⟩
    · split <;> (try split) <;> exact ⟨rfl, rfl⟩
  | reap =>
    simp only [step, stepReaper]
    split
    · exact ⟨rfl, rfl⟩
    · split
      · exact ⟨rfl, rfl⟩
      · split <;> exact ⟨rfl, rfl⟩
  | poll => exact ⟨rfl, rfl⟩

theorem run_nb_payload (s : Sys) (sched : List Act) : (run s sched).nb = s.nb ∧ (run s sched).payload = s.payload := by
  unfold run
  induction sched generalizing s with
  | nil => exact ⟨rfl, rfl⟩
  | cons a t ih =>
    simp only [List.foldl_cons]
    obtain ⟨h1, h2⟩ := ih (step s a)
    obtain ⟨h3, h4⟩ := step_nb_payload s a
    exact ⟨h1.trans h3, h2.trans h4⟩

theorem init_inv (nb : Nat) (payload : Nat → Payload) (batches : List Nat) :
    Inv (init .tmpRename nb payload batches) := by
  refine ⟨rfl, by simp [init], ?_, rfl, by simp [init], by simp [init]⟩
  intro g gr hg
  simp only [init, List.getElem?_map, Option.map_eq_some_iff] at hg
  obtain ⟨b, _, rfl⟩ := hg
  trivial

/-- **the waiting reaper is safe under every interleaving**: whatever the number of growers, the batches they grow
(including the same batch several times) and the schedule — including schedules in which some processes never run again —
the reaper never fails on, and never uses, a partly written result; once it has read every batch it holds exactly the
true results in order (which C04 turns into "reap = direct run") -/
theorem c11_reaper_safe (nb : Nat) (payload : Nat → Payload) (batches : List Nat) (sched : List Act) :
    let s' := run (init .tmpRename nb payload batches) sched
    s'.reaper.failed = false ∧ (s'.reaper.next = nb → s'.reaper.acc = (List.range nb).map payload) := by
  have := run_inv _ (init_inv nb payload batches) sched
  obtain ⟨_, _, _, h3, h4, _⟩ := this
  have hnb : (run (init .tmpRename nb payload batches) sched).nb = nb := (run_nb_payload _ sched).1
  have hpay : (run (init .tmpRename nb payload batches) sched).payload = payload := (run_nb_payload _ sched).2
  exact ⟨h3, fun e => by rw [h4, e, hpay]⟩

/-- **progress queries never count a partly written result**: every result file any process can see, at any instant of
any schedule, is complete — in particular everything a poller counted -/
theorem c11_poller_safe (nb : Nat) (payload : Nat → Payload) (batches : List Nat) (sched : List Act) :
    let s' := run (init .tmpRename nb payload batches) sched
    (∀ i d, s'.res i = some d → d = s'.payload i) ∧ (∀ c ∈ s'.counted, ∀ x ∈ c, x.2 = s'.payload x.1) := by
  have := run_inv _ (init_inv nb payload batches) sched
  exact ⟨this.2.1, this.2.2.2.2.2⟩

/-- **the same batch grown twice at the same time** is an instance: two growers of batch 0 -/
theorem c11_same_batch_twice (payload : Nat → Payload) (sched : List Act) :
    (run (init .tmpRename 1 payload [0, 0]) sched).reaper.failed = false :=
  (c11_reaper_safe 1 payload [0, 0] sched).1

/-- **the old publication order is not safe**: create the final name, then write — a reaper that polls between the two
fails (this schedule was reproduced on the code before the `fix:` of `write_to_disk`) -/
theorem c11_direct_mode_counterexample :
    (run (init .direct 1 (fun _ => [7, 8]) [0]) [.grow 0, .reap]).reaper.failed = true := by decide

/-- …and a progress query at that instant counts the partly written file as finished -/
theorem c11_direct_mode_poller_counterexample :
    (run (init .direct 1 (fun _ => [7, 8]) [0]) [.grow 0, .grow 0, .poll]).counted = [[(0, [7])]] := by decide

/-- **the source implements the protocol the theorems are about**: `write_to_disk` (as extracted from the current
source) writes a fresh, hidden temporary and renames it into place -/
theorem c11_source_mode : sourceMode = .tmpRename := by decide

/-- `c11_reaper_safe` and `c11_poller_safe` for the mode the source implements -/
theorem c11_safe_source (nb : Nat) (payload : Nat → Payload) (batches : List Nat) (sched : List Act) :
    let s' := run (init sourceMode nb payload batches) sched
    s'.reaper.failed = false ∧ (s'.reaper.next = nb → s'.reaper.acc = (List.range nb).map payload) ∧
    (∀ i d, s'.res i = some d → d = s'.payload i) ∧ (∀ c ∈ s'.counted, ∀ x ∈ c, x.2 = s'.payload x.1) := by
  rw [c11_source_mode]
  exact ⟨(c11_reaper_safe nb payload batches sched).1, (c11_reaper_safe nb payload batches sched).2,
    (c11_poller_safe nb payload batches sched).1, (c11_poller_safe nb payload batches sched).2⟩

end Conc
