import XyzProofs.Lemmas.Crop
import XyzProofs.Props.C07
import XyzProofs.Props.C01
/-!
# C04 — sow, grow, reap returns exactly what running directly would have

`P seed n` is the permutation `random.shuffle` yields for `(seed, n)`; the only assumption on it is that it is a
permutation of `0..n-1`.  The direct run is `Core.core f nl sweep .seq` on the sweep the crop stores (combos in
name order).  Readiness of a fully grown crop is C08's theorem (`c08_all_grown_ready`); here it is a hypothesis.
-/
namespace Crop
open Core List

variable {β : Type}

/-- the batch files a sow with configuration `c` writes for the stored sweep -/
abbrev sownBatches (P : Perms) (c : Batch.Cfg) (sw : Sweep) (seed : Nat) : List (List (List Nat)) :=
  Batch.sow c (sowStream P sw seed)

/-- **batches cover the (shuffled) settings**: concatenating the batch files gives exactly the stream the Sower was fed,
which is a permutation of the direct run's settings -/
theorem c04_batches_cover (P : Perms) (c : Batch.Cfg) (sw : Sweep) (seed : Nat)
    (hperm : seed = 0 ∨ P seed sw.locs.length ~ List.range sw.locs.length) :
    (sownBatches P c sw seed).flatten = sowStream P sw seed ∧ sowStream P sw seed ~ sw.locs := by
  refine ⟨Batch.c07_partition c _, ?_⟩
  unfold sowStream seedStrategy
  by_cases h0 : seed = 0
  · simp [h0, runLinear]
  · simp only [h0, if_false, runLinear]
    rcases hperm with h | h
    · exact absurd h h0
    · exact applyPerm_perm _ _ _ h

/-- **the order sown is the order recorded**: the shuffle setting handed to the runner that drives the Sower (as the
two sow methods pass it in the source) is the setting saved in the crop's info file, for every way of making the call
(`shuffle` given, left at its default, or `None`; `sow_cases`). -/
theorem runnerShuffle_eq_recorded (o : Obj) (combos : Bool) (shArg : Option Nat) (bs nb : Option Nat) :
    runnerShuffle combos shArg (sowAttrs o combos shArg bs nb) = (sowAttrs o combos shArg bs nb).shuffle := by
  cases combos <;> cases shArg <;>
    simp [runnerShuffle, Gen.sowCombosRunnerShuffle, Gen.Default.sowCombosRunnerShuffle,
      Gen.sowCasesRunnerShuffle, Gen.Default.sowCasesRunnerShuffle]

/-- what `opSow` on a fresh directory leaves on disk -/
theorem opSow_fresh (P : Perms) (s s' : St β) (sw : Sweep) (combos : Bool) (shArg : Option Nat) (bs nb : Option Nat)
    (hfresh : s.dir = none) (h : opSow P s sw combos shArg bs nb = .ok s') :
    ∃ (c : Batch.Cfg) (info : Info) (d : Dir β),
      s'.dir = some d ∧ d.info = some info ∧ d.results = [] ∧
      info.bs = c.batchsize ∧ info.nb = c.numBatches ∧ info.rem = c.remainder ∧
      info.sweep = (if combos then sortByName sw else sw) ∧
      info.shuffle = (sowAttrs s.obj combos shArg bs nb).shuffle ∧
      Batch.chooseBatch info.sweep.locs.length (sowAttrs s.obj combos shArg bs nb).bs (sowAttrs s.obj combos shArg bs nb).nb
        (sowAttrs s.obj combos shArg bs nb).rem = .ok c ∧
      s'.obj.bs = some c.batchsize ∧ s'.obj.nb = some c.numBatches ∧ s'.obj.rem = some c.remainder ∧
      (∀ k, lookup d.batches k =
        if hk : 1 ≤ k ∧ k ≤ (sownBatches P c info.sweep info.shuffle).length
        then some ((sownBatches P c info.sweep info.shuffle)[k - 1]'(by omega)) else none) := by
  unfold opSow at h
  simp only [hfresh, Option.getD_none] at h
  split at h
  · cases h
  · rename_i c hc
    cases h
    refine ⟨c, _, _, rfl, rfl, rfl, rfl, rfl, rfl, rfl, rfl, hc, rfl, rfl, rfl, ?_⟩
    intro k
    simp only [sownBatches, runnerShuffle_eq_recorded]
    rw [lookup_foldl_insert_enum]
    split <;> rfl

/-- **growing is exact and local**: a successful grow of batch `i` writes `(batch i).map f` as result `i` and touches
nothing else -/
theorem c04_grow_correct (f : List Nat → β) (fails : List Nat → Bool) (d d' : Dir β) (i : Nat)
    (h : growOne f fails d i = .ok d') :
    ∃ b, lookup d.batches i = some b ∧ b ≠ [] ∧ b.any fails = false ∧
      lookup d'.results i = some (.good (b.map f)) ∧
      (∀ k, k ≠ i → lookup d'.results k = lookup d.results k) ∧ d'.batches = d.batches ∧ d'.info = d.info := by
  unfold growOne at h
  split at h
  · cases h
  · rename_i b hb
    split at h
    · cases h
    · rename_i hne
      split at h
      · cases h
      · rename_i hf
        cases h
        refine ⟨b, hb, ?_, by simpa using hf, lookup_insert_self _ _ _, fun k hk => lookup_insert_ne _ _ _ _ hk, rfl, rfl⟩
        intro hb0; subst hb0; simp at hne

/-- the Reaper's stream over a fully and correctly grown crop is the function mapped over the concatenated batches -/
theorem c04_stream_full (f : List Nat → β) (o : Obj) (d : Dir β) (bsl : List (List (List Nat))) (dflt : Option β)
    (hne : ∀ b ∈ bsl, b ≠ [])
    (hr : ∀ j (hj : j < bsl.length), lookup d.results (j + 1) = some (.good (bsl[j].map f))) :
    reapStream o d bsl.length dflt = .ok (bsl.flatten.map f) := by
  unfold reapStream
  suffices h : ∀ m, m ≤ bsl.length →
      (List.range m).foldl (reapStep o d dflt) (Except.ok []) =
        (Except.ok (((bsl.take m).flatten).map f) : Except Err (List β)) by
    have := h bsl.length (Nat.le_refl _)
    simpa using this
  intro m
  induction m with
  | zero => intro _; simp
  | succ k ih =>
    intro hk
    have hk' : k < bsl.length := by omega
    rw [List.range_succ, List.foldl_append, ih (by omega)]
    simp only [List.foldl_cons, List.foldl_nil, reapStep]
    rw [hr k hk']
    have hnek : bsl[k] ≠ [] := hne _ (List.getElem_mem hk')
    have : (bsl[k].map f).isEmpty = false := by
      cases hb : bsl[k] with
      | nil => exact absurd hb hnek
      | cons a t => rfl
    simp only [this, Bool.false_eq_true, if_false]
    congr 1
    simp only [List.take_succ_eq_append_getElem hk', List.flatten_append, List.map_append, List.flatten_cons,
      List.flatten_nil, List.append_nil]

theorem syncFromDisk_dir (s : St β) : (syncFromDisk s).dir = s.dir := by
  unfold syncFromDisk
  split <;> rfl

theorem calcProgress_dir (s : St β) : (calcProgress s).1.dir = s.dir := by
  unfold calcProgress
  split
  · split
    · exact syncFromDisk_dir s
    · rfl
  · rfl

theorem readyGate_dir (s : St β) (a w : Bool) : (readyGate s a w).1.dir = s.dir := by
  unfold readyGate
  split
  · rfl
  · unfold isReady
    exact calcProgress_dir s

/-- the linear (enumeration-order) results of reaping a fully and correctly grown crop are `f` mapped over the
settings, for every batch configuration and every permutation the shuffle may be -/
theorem c04_reapLinear_full (P : Perms) (f : List Nat → β) (nl : β → β) (s : St β) (d : Dir β) (info : Info)
    (c : Batch.Cfg) (o : ReapOpts)
    (hd : s.dir = some d) (hinfo : d.info = some info)
    (hnb : info.nb = (sownBatches P c info.sweep info.shuffle).length)
    (hr : ∀ j (hj : j < (sownBatches P c info.sweep info.shuffle).length),
        lookup d.results (j + 1) = some (.good ((sownBatches P c info.sweep info.shuffle)[j].map f)))
    (hperm : info.shuffle = 0 ∨ P info.shuffle info.sweep.locs.length ~ List.range info.sweep.locs.length)
    (hai : o.allowIncomplete = false)
    (hgate : (readyGate s false o.wait).2 = true) :
    reapLinear P nl s o = .ok ((readyGate s false o.wait).1, info, info.sweep.locs.map f) := by
  have hdir := readyGate_dir s false o.wait
  have hcover := c04_batches_cover P c info.sweep info.shuffle hperm
  unfold sownBatches at hcover hnb hr
  have hstream := c04_stream_full f (readyGate s false o.wait).1.obj d _ (if o.wait then none else none)
    (Batch.c07_nonempty c _) hr
  rw [← hnb] at hstream
  unfold reapLinear
  simp only [hai, hgate, Bool.not_true, Bool.false_eq_true, if_false, hdir, hd, hinfo]
  have hnone : (if o.wait = true then (none : Option β) else none) = none := by split <;> rfl
  rw [hnone] at hstream
  simp only [hnone, hstream]
  have hlen : ((Batch.sow c (sowStream P info.sweep info.shuffle)).flatten.map f).length = info.sweep.locs.length := by
    rw [List.length_map, hcover.1]; exact hcover.2.length_eq
  unfold reorder
  simp only [hlen, Nat.lt_irrefl, if_false]
  rw [hcover.1]
  by_cases h0 : info.shuffle = 0
  · simp only [h0, if_true]
    simp [sowStream, seedStrategy, runLinear]
  · simp only [h0, if_false]
    rcases hperm with h | h
    · exact absurd h h0
    · have hs : sowStream P info.sweep info.shuffle = applyPerm (P info.shuffle info.sweep.locs.length) info.sweep.locs [] := by
        simp [sowStream, seedStrategy, h0, runLinear]
      rw [hs]
      have := runShuffled_eq f info.sweep.locs (P info.shuffle info.sweep.locs.length) [] h
      unfold runShuffled at this
      rw [this]

/-- **reap = direct run.**  A crop whose info file describes sweep `info.sweep` under shuffle seed `info.shuffle`, whose
result files hold `f` mapped over the batch files written by the Sower for that stream, reaps to exactly the nested
output of a direct sequential `combo_runner_core` on the same sweep — for every batch configuration and every
permutation the shuffle may be. -/
theorem c04_reap_eq_direct (P : Perms) (f : List Nat → β) (nl : β → β) (s : St β) (d : Dir β) (info : Info)
    (c : Batch.Cfg) (o : ReapOpts)
    (hd : s.dir = some d) (hinfo : d.info = some info)
    (hov : info.sweep.overlap = false)
    (hnb : info.nb = (sownBatches P c info.sweep info.shuffle).length)
    (hr : ∀ j (hj : j < (sownBatches P c info.sweep info.shuffle).length),
        lookup d.results (j + 1) = some (.good ((sownBatches P c info.sweep info.shuffle)[j].map f)))
    (hperm : info.shuffle = 0 ∨ P info.shuffle info.sweep.locs.length ~ List.range info.sweep.locs.length)
    (hai : o.allowIncomplete = false)
    (hne : info.sweep.locs ≠ [])
    (hgate : (readyGate s false o.wait).2 = true) :
    ∃ s' r, core f nl info.sweep .seq = .ok r ∧ reapRaw P nl s o = .ok (s', r.nested) ∧
      s'.dir = (if cleanUpResolved o.cleanUp false then none else some d) := by
  obtain ⟨r, hcore, _, hflat, hnested⟩ := core_ok f nl info.sweep .seq hov trivial
  have hdir := readyGate_dir s false o.wait
  have hlin := c04_reapLinear_full P f nl s d info c o hd hinfo hnb hr hperm hai hgate
  cases hl : info.sweep.locs with
  | nil => exact absurd hl hne
  | cons l rest =>
    have hraw : reapRaw P nl s o = .ok
        (if cleanUpResolved o.cleanUp o.allowIncomplete then { (readyGate s false o.wait).1 with dir := none }
          else (readyGate s false o.wait).1, r.nested) := by
      unfold reapRaw
      rw [hlin, hnested]
      simp only [hl, List.map_cons]
    refine ⟨_, r, hcore, hraw, ?_⟩
    rw [hai]
    split
    · rfl
    · rw [hdir, hd]

/-! ### histories of grow operations -/

/-- the operations between sow and reap: growing any ids (in any order, grouping, repetition — `Crop.grow`, `grow()`,
`grow_missing` all reduce to this), re-creating the Crop object from disk, and progress queries -/
inductive HOp where
  | grow (ids : List Nat)
  | reload
  | query

def hstep (f : List Nat → β) (s : St β) : HOp → St β
  | .grow ids =>
    match s.dir with
    | none => s
    | some d => { s with dir := some (growMany f (fun _ => false) d ids).1 }
  | .reload => opNew s none none 0
  | .query => (missingResults (isReady s).1).1

def grownIds : List HOp → List Nat
  | [] => []
  | .grow ids :: rest => ids ++ grownIds rest
  | _ :: rest => grownIds rest

/-- the directory holds the sown batches `bsl` and every result present is the exact image of its batch -/
structure Good (f : List Nat → β) (d : Dir β) (info : Info) (bsl : List (List (List Nat))) : Prop where
  hinfo : d.info = some info
  hb : ∀ j (hj : j < bsl.length), lookup d.batches (j + 1) = some bsl[j]
  hr : ∀ j (hj : j < bsl.length) r, lookup d.results (j + 1) = some r → r = .good (bsl[j].map f)

theorem growMany_good (f : List Nat → β) (info : Info) (bsl : List (List (List Nat)))
    (hne : ∀ b ∈ bsl, b ≠ []) (ids : List Nat) (d : Dir β) (hg : Good f d info bsl)
    (hids : ∀ i ∈ ids, 1 ≤ i ∧ i ≤ bsl.length) :
    Good f (growMany f (fun _ => false) d ids).1 info bsl ∧
    (∀ i ∈ ids, ∀ (h : i - 1 < bsl.length), lookup (growMany f (fun _ => false) d ids).1.results i = some (.good (bsl[i - 1].map f))) ∧
    (∀ k r, lookup d.results k = some r → (∀ j (hj : j < bsl.length), k = j + 1 → r = .good (bsl[j].map f)) →
        lookup (growMany f (fun _ => false) d ids).1.results k = some r) := by
  induction ids generalizing d with
  | nil => exact ⟨hg, by simp, fun k r h _ => h⟩
  | cons i is ih =>
    obtain ⟨hi1, hi2⟩ := hids i List.mem_cons_self
    have hj : i - 1 < bsl.length := by omega
    have hbi : lookup d.batches i = some bsl[i - 1] := by
      have := hg.hb (i - 1) hj
      rwa [show i - 1 + 1 = i by omega] at this
    have hnei : bsl[i - 1] ≠ [] := hne _ (List.getElem_mem hj)
    have hgo : growOne f (fun _ => false) d i = .ok { d with results := insert d.results i (.good (bsl[i - 1].map f)) } := by
      unfold growOne
      rw [hbi]
      have : bsl[i - 1].isEmpty = false := by
        cases hb : bsl[i - 1] with
        | nil => exact absurd hb hnei
        | cons a t => rfl
      simp [this]
    have hg' : Good f { d with results := insert d.results i (.good (bsl[i - 1].map f)) } info bsl := by
      refine ⟨hg.hinfo, hg.hb, ?_⟩
      intro j hj' r hr
      by_cases hji : j + 1 = i
      · subst hji
        rw [lookup_insert_self] at hr
        simp at hr; subst hr; simp
      · rw [lookup_insert_ne _ _ _ _ hji] at hr
        exact hg.hr j hj' r hr
    simp only [growMany, hgo]
    obtain ⟨h1, h2, h3⟩ := ih _ hg' (fun i' hi' => hids i' (List.mem_cons_of_mem _ hi'))
    refine ⟨h1, ?_, ?_⟩
    · intro i' hi' hb'
      rcases List.mem_cons.mp hi' with rfl | hi'
      · apply h3 i' _ (lookup_insert_self _ _ _)
        intro j hj' hij
        have : j = i' - 1 := by omega
        subst this; rfl
      · exact h2 i' hi' hb'
    · intro k r hk hcorrect
      apply h3 k r _ hcorrect
      by_cases hki : k = i
      · subst hki
        rw [lookup_insert_self]
        have := hcorrect (k - 1) hj (by omega)
        rw [this]
      · rw [lookup_insert_ne _ _ _ _ hki]; exact hk

theorem opNew_dir (s : St β) (bs nb : Option Nat) (sh : Nat) : (opNew s bs nb sh).dir = s.dir := by
  unfold opNew
  rw [syncFromDisk_dir]

theorem missingResults_dir (s : St β) : (missingResults s).1.dir = s.dir := by
  unfold missingResults
  have h := calcProgress_dir s
  generalize calcProgress s = cp at h ⊢
  obtain ⟨s', p⟩ := cp
  simp only at h ⊢
  split <;> exact h

theorem isReady_dir (s : St β) : (isReady s).1.dir = s.dir := calcProgress_dir s

/-- **any history of grows**: after any sequence of grow / reload / query operations on a sown crop, every batch that
was named in some grow holds the exact image of its batch file, and nothing else about the crop changed -/
theorem c04_grow_history (f : List Nat → β) (info : Info) (bsl : List (List (List Nat)))
    (hne : ∀ b ∈ bsl, b ≠ []) (ops : List HOp) (s : St β) (d : Dir β)
    (hd : s.dir = some d) (hg : Good f d info bsl)
    (hids : ∀ i ∈ grownIds ops, 1 ≤ i ∧ i ≤ bsl.length) :
    ∃ d', (ops.foldl (hstep f) s).dir = some d' ∧ Good f d' info bsl ∧
      (∀ i ∈ grownIds ops, ∀ (h : i - 1 < bsl.length), lookup d'.results i = some (.good (bsl[i - 1].map f))) ∧
      (∀ j (hj : j < bsl.length) r, lookup d.results (j + 1) = some r → lookup d'.results (j + 1) = some r) := by
  induction ops generalizing s d with
  | nil => exact ⟨d, hd, hg, by simp [grownIds], fun _ _ _ h => h⟩
  | cons op rest ih =>
    cases op with
    | grow ids =>
      have hids1 : ∀ i ∈ ids, 1 ≤ i ∧ i ≤ bsl.length := fun i hi => hids i (by simp [grownIds, hi])
      have hids2 : ∀ i ∈ grownIds rest, 1 ≤ i ∧ i ≤ bsl.length := fun i hi => hids i (by simp [grownIds, hi])
      obtain ⟨g1, g2, g3⟩ := growMany_good f info bsl hne ids d hg hids1
      have hd1 : (hstep f s (.grow ids)).dir = some (growMany f (fun _ => false) d ids).1 := by
        simp [hstep, hd]
      obtain ⟨d', e1, e2, e3, e4⟩ := ih _ _ hd1 g1 hids2
      refine ⟨d', by simpa [List.foldl_cons] using e1, e2, ?_, ?_⟩
      · intro i hi hb'
        simp only [grownIds, List.mem_append] at hi
        rcases hi with hi | hi
        · obtain ⟨hi1, hi2⟩ := hids1 i hi
          have := e4 (i - 1) (by omega) _ (by rw [show i - 1 + 1 = i by omega]; exact g2 i hi hb')
          rwa [show i - 1 + 1 = i by omega] at this
        · exact e3 i hi hb'
      · intro j hj r hr
        apply e4 j hj r
        apply g3 _ _ hr
        intro j' hj' hjj'
        have : j = j' := by omega
        subst this
        exact hg.hr j hj r hr
    | reload =>
      have hd1 : (hstep f s .reload).dir = some d := by simp [hstep, opNew_dir, hd]
      obtain ⟨d', e1, e2, e3, e4⟩ := ih _ _ hd1 hg (fun i hi => hids i (by simpa [grownIds] using hi))
      exact ⟨d', by simpa [List.foldl_cons] using e1, e2, by simpa [grownIds] using e3, e4⟩
    | query =>
      have hd1 : (hstep f s .query).dir = some d := by simp [hstep, missingResults_dir, isReady_dir, hd]
      obtain ⟨d', e1, e2, e3, e4⟩ := ih _ _ hd1 hg (fun i hi => hids i (by simpa [grownIds] using hi))
      exact ⟨d', by simpa [List.foldl_cons] using e1, e2, by simpa [grownIds] using e3, e4⟩

/-- **sow, grow by any history that covers every batch, reap = direct run** (for every batch configuration, every
shuffle seed, every order / grouping / repetition of grows, with reloads and queries anywhere). -/
theorem c04_history_reap_eq_direct (P : Perms) (f : List Nat → β) (nl : β → β) (info : Info) (c : Batch.Cfg)
    (ops : List HOp) (s : St β) (d : Dir β) (o : ReapOpts)
    (hd : s.dir = some d) (hg : Good f d info (sownBatches P c info.sweep info.shuffle))
    (hnb : info.nb = (sownBatches P c info.sweep info.shuffle).length)
    (hov : info.sweep.overlap = false) (hne : info.sweep.locs ≠ [])
    (hperm : info.shuffle = 0 ∨ P info.shuffle info.sweep.locs.length ~ List.range info.sweep.locs.length)
    (hids : ∀ i ∈ grownIds ops, 1 ≤ i ∧ i ≤ info.nb)
    (hcover : ∀ i, 1 ≤ i → i ≤ info.nb → i ∈ grownIds ops)
    (hai : o.allowIncomplete = false)
    (hgate : (readyGate (ops.foldl (hstep f) s) false o.wait).2 = true) :
    ∃ s' r, core f nl info.sweep .seq = .ok r ∧ reapRaw P nl (ops.foldl (hstep f) s) o = .ok (s', r.nested) := by
  obtain ⟨d', e1, e2, e3, _⟩ := c04_grow_history f info _ (Batch.c07_nonempty c _) ops s d hd hg
    (fun i hi => by rw [← hnb]; exact hids i hi)
  have hr : ∀ j (hj : j < (sownBatches P c info.sweep info.shuffle).length),
      lookup d'.results (j + 1) = some (.good ((sownBatches P c info.sweep info.shuffle)[j].map f)) := by
    intro j hj
    have := e3 (j + 1) (hcover (j + 1) (by omega) (by omega)) (by simpa using hj)
    simpa using this
  obtain ⟨s', r, h1, h2, _⟩ := c04_reap_eq_direct P f nl _ d' info c o e1 e2.hinfo hov hnb hr hperm hai hne hgate
  exact ⟨s', r, h1, h2⟩

/-- **reload is irrelevant**: re-creating the Crop object from name and directory changes nothing on disk (so every
later grow and reap sees the same files) -/
theorem c04_reload_irrelevant (s : St β) : (opNew s none none 0).dir = s.dir := opNew_dir s none none 0

/-! Non-vacuity: 6 settings in 4 batches under a shuffle; the hypotheses of `c04_history_reap_eq_direct` are met by
the state `opSow` produces followed by grows of `[3,1]`, a reload, `[4,2,1]`. -/
def exP : Perms := fun _ _ => [4, 0, 3, 1, 5, 2]
def exSw : Sweep := { comboArgs := ["a", "b"], comboVals := [[0, 1], [0, 1, 2]] }
example : sownBatches exP ⟨1, 4, 2⟩ exSw 3 = [[[1, 1], [0, 0]], [[1, 0], [0, 1]], [[1, 2]], [[0, 2]]] := by decide
example : ∀ i, 1 ≤ i → i ≤ 4 → i ∈ grownIds [.grow [3, 1], .reload, .grow [4, 2, 1]] := by
  intro i h1 h2
  have : i = 1 ∨ i = 2 ∨ i = 3 ∨ i = 4 := by omega
  rcases this with rfl | rfl | rfl | rfl <;> decide

end Crop
