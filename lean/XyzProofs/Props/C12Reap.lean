import XyzProofs.Props.C12Skel
/-!
# C12 at the public entry point: the dispatch of `Crop.reap`

`Gen.reapDispatch` is the body of `Crop.reap(wait, sync, overwrite, clean_up, allow_incomplete)` translated on every run
(harness/anchors_checkbad.py): for each type of `self.farmer`, the method the call is handed on to and the value every
parameter of that method receives (the keyword dict `opts` is followed symbolically; defaults are read off the callee's
signature).  `Gen.reapDefaults` are the defaults of reap's own parameters, `Gen.deleteAllRemoves` says that `delete_all`
removes the crop directory itself.

* `reapDispatch_faithful` — total and faithful: no farmer → `reap_combos`, Runner → `reap_runner`, Harvester →
  `reap_harvest`, Sampler → `reap_samples`; the farmer is handed over; `wait`, `clean_up`, `allow_incomplete` reach every
  method unchanged, `sync` reaches `reap_harvest` / `reap_samples` unchanged, `overwrite` reaches `reap_harvest` unchanged.
* `reapSk` is the effect skeleton of the entry point: the skeleton of the chosen method run with the arguments as
  passed.  The C12 skeleton theorems are restated for it, for every farmer kind at once: `c12_reap_deletes_iff`,
  `c12_reap_deleteLast`, `c12_reap_errorKeeps`, `c12_reap_sync_before_delete`.
-/
set_option linter.unusedSimpArgs false
namespace Skel
open Gen

/-- the method each farmer kind belongs to -/
def targetOf : Farmer → ReapTarget
  | .none => .combos
  | .runner => .runner
  | .harvester => .harvest
  | .sampler => .samples

/-- **the dispatch is total and faithful**: every farmer kind goes to its own method, with the farmer, and every option
the method has reaches it unchanged (a parameter the method does not have is recorded as `false` / `none`; `to_df` is
left at `reap_runner`'s default) -/
theorem reapDispatch_faithful (farmer : Farmer) (wait sync : Bool) (overwrite cleanUp : Option Bool) (ai : Bool) :
    Gen.reapDispatch farmer wait sync overwrite cleanUp ai =
      { target := targetOf farmer,
        farmerPassed := farmer != .none,
        wait := wait,
        sync := (farmer == .harvester || farmer == .sampler) && sync,
        overwrite := if farmer = .harvester then overwrite else none,
        cleanUp := cleanUp,
        allowIncomplete := ai,
        toDf := false } := by
  cases farmer <;> simp [Gen.reapDispatch, Gen.Default.reapDispatch, targetOf]

/-- a call that leaves every option out means `wait=False, sync=True, overwrite=None, clean_up=None, allow_incomplete=False` -/
theorem reapDefaults_spec : Gen.reapDefaults = (false, true, none, none, false) := by
  simp [Gen.reapDefaults, Gen.Default.reapDefaults]

/-- `delete_all` removes the crop directory itself (`shutil.rmtree(self.location)`, errors not ignored) -/
theorem deleteAll_removes_location : Gen.deleteAllRemoves = true := by
  simp [Gen.deleteAllRemoves, Gen.Default.deleteAllRemoves]

/-- run the call `reap` makes, on the effect skeletons of the four methods -/
def runCall (fails : Eff → Bool) (c : ReapCall) (trace : List Eff) : List Eff × Option PyErr :=
  match c.target with
  | .combos => reapCombosSk fails c.wait c.cleanUp c.allowIncomplete trace
  | .runner => reapRunnerSk fails c.wait c.cleanUp c.allowIncomplete c.toDf trace
  | .harvest => reapHarvestSk fails c.wait c.sync c.cleanUp c.allowIncomplete trace
  | .samples => reapSamplesSk fails c.wait c.sync c.cleanUp c.allowIncomplete trace

/-- the effect skeleton of `Crop.reap` -/
def reapSk (fails : Eff → Bool) (farmer : Farmer) (wait sync : Bool) (overwrite cleanUp : Option Bool) (ai : Bool)
    (trace : List Eff) : List Eff × Option PyErr :=
  runCall fails (Gen.reapDispatch farmer wait sync overwrite cleanUp ai) trace

theorem reapSk_eq (fails : Eff → Bool) (farmer : Farmer) (wait sync : Bool) (overwrite cleanUp : Option Bool) (ai : Bool)
    (trace : List Eff) :
    reapSk fails farmer wait sync overwrite cleanUp ai trace =
      match farmer with
      | .none => reapCombosSk fails wait cleanUp ai trace
      | .runner => reapRunnerSk fails wait cleanUp ai false trace
      | .harvester => reapHarvestSk fails wait sync cleanUp ai trace
      | .sampler => reapSamplesSk fails wait sync cleanUp ai trace := by
  cases farmer <;> simp [reapSk, reapDispatch_faithful, runCall, targetOf]

/-- **`Crop.reap`, whatever the farmer: after a reap that returned normally the crop was deleted iff the resolved
`clean_up` says so** — the caller's `clean_up` and `allow_incomplete` are the ones that decide -/
theorem c12_reap_deletes_iff (fails : Eff → Bool) (farmer : Farmer) (wait sync : Bool) (overwrite cu : Option Bool) (ai : Bool)
    (h : (reapSk fails farmer wait sync overwrite cu ai []).2 = none) :
    (Eff.deleteAll ∈ (reapSk fails farmer wait sync overwrite cu ai []).1 ↔ Crop.cleanUpResolved cu ai = true) := by
  rw [reapSk_eq] at h ⊢
  cases farmer
  · exact reapCombos_deletes_iff fails wait cu ai h
  · exact reapRunner_deletes_iff fails wait cu ai false h
  · exact reapHarvest_deletes_iff fails wait sync cu ai h
  · exact reapSamples_deletes_iff fails wait sync cu ai h

/-- deletion is the last effect of `Crop.reap` and everything before it went through (for a Runner crop the inner reap
deletes and the runner then records its last result: `reapRunner_deleteLast_partial`) -/
theorem c12_reap_deleteLast (fails : Eff → Bool) (farmer : Farmer) (wait sync : Bool) (overwrite cu : Option Bool) (ai : Bool)
    (hf : farmer ≠ .runner) :
    DeleteLast fails (reapSk fails farmer wait sync overwrite cu ai []).1 := by
  rw [reapSk_eq]
  cases farmer
  · exact reapCombos_deleteLast fails wait cu ai
  · exact absurd rfl hf
  · exact reapHarvest_deleteLast fails wait sync cu ai
  · exact reapSamples_deleteLast fails wait sync cu ai

/-- a `Crop.reap` that raised has removed nothing (unless the removal itself is what raised) -/
theorem c12_reap_errorKeeps (fails : Eff → Bool) (farmer : Farmer) (wait sync : Bool) (overwrite cu : Option Bool) (ai : Bool)
    (hf : farmer ≠ .runner) :
    ErrorKeeps fails (reapSk fails farmer wait sync overwrite cu ai []) := by
  rw [reapSk_eq]
  cases farmer
  · exact reapCombos_errorKeeps fails wait cu ai
  · exact absurd rfl hf
  · exact reapHarvest_errorKeeps fails wait sync cu ai
  · exact reapSamples_errorKeeps fails wait sync cu ai

/-- **through `Crop.reap`, a Harvester / Sampler crop is deleted only after the data was merged and saved** -/
theorem c12_reap_sync_before_delete (fails : Eff → Bool) (farmer : Farmer) (wait : Bool) (overwrite cu : Option Bool) (ai : Bool)
    (hf : farmer = .harvester ∨ farmer = .sampler) :
    Before [.checkReady, .gather, .label, .reaperExit, .setLast, .sync] (reapSk fails farmer wait true overwrite cu ai []).1 := by
  rw [reapSk_eq]
  rcases hf with rfl | rfl
  · exact reapHarvest_sync_before_delete fails wait cu ai
  · exact reapSamples_sync_before_delete fails wait cu ai

/-! Non-vacuity: the default call on a Sampler crop delivers, then deletes; `clean_up=False` reaches the method. -/
example : (reapSk (fun _ => false) .sampler false true none none false []).1
    = [.loadInfo, .checkReady, .loadInfo, .gather, .label, .reaperExit, .setLast, .setLast, .sync, .deleteAll] := by
  rw [reapSk_eq]; sk_unfold; simp
example : Eff.deleteAll ∉ (reapSk (fun _ => false) .harvester false true none (some false) false []).1 := by
  rw [reapSk_eq]; sk_unfold; simp
example : (Gen.reapDispatch .harvester true false (some true) (some false) true) =
    { target := .harvest, farmerPassed := true, wait := true, sync := false, overwrite := some true, cleanUp := some false,
      allowIncomplete := true, toDf := false } := by
  rw [reapDispatch_faithful]; rfl

end Skel
