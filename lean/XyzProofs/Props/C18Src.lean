import XyzProofs.Props.C18
import XyzProofs.Refine.Infini
/-!
# C18 — the property theorems stated on the functions TRANSLATED from xyzpy/plot/infiniplot.py

`Props/C18.lean` proves the property on the hand-written model; `Refine/Infini.lean` proves that the model's
`initMappedDim`, enumeration of slices, panel / style indices and histogram are the translated `init_mapped_dim`, loop
of `plot_lines` and re-binning call (`Gen.infInitMapped`, `Gen.infIter`, `Gen.infRanges`, `Gen.infLineIdx`,
`Gen.infHistCall`; harness/anchors_infini.py).  Here the two are combined.
-/
namespace Infini
open List PlotPrep

/-- **order of `init_mapped_dim`** (translated body, at the model's operations): select / order → drop the all-NaN
coordinates → record the domain → record the size → assign the style values.  The state reached is the model's; the
domain recorded for the property is the list of coordinates that are left in the working dataset (in particular none
that was dropped), its size is their number, and as many default style values are generated and kept -/
theorem c18_init_order_src (prop : String) (m : Mapping) (custom : Bool) (ps : PState) (hv : Valid ps.st m) :
    ∃ ps', Gen.infInitMapped (mapOps prop m custom) ps = .ok ps' ∧
      ps'.st = initMappedDim ps.st prop m ∧
      lookupLast ps'.domains prop = some (((ps'.st.md? (dimName m)).map (·.entries)).getD []) ∧
      lookupLast ps'.sizes prop = some (((ps'.st.md? (dimName m)).map (·.entries)).getD []).length ∧
      (custom = false →
        lookupLast ps'.nvals prop = some (((ps'.st.md? (dimName m)).map (·.entries)).getD []).length ∧
        ps'.ndefaults = some (((ps'.st.md? (dimName m)).map (·.entries)).getD []).length) ∧
      lookupLast ps'.attrs prop = some (some (dimName m)) ∧ ps'.consts = ps.consts := by
  refine ⟨_, infInitMapped_spec prop m custom ps hv, rfl, ?_, ?_, ?_, ?_, rfl⟩
  · simp only [expected, lookupLast_append_self]
  · simp only [expected, lookupLast_append_self]
  · intro hc; subst hc
    simp only [expected, lookupLast_append_self, Bool.false_eq_true, if_false, and_self]
  · simp only [expected, lookupLast_append_self]

/-- **each slice once** (translated iteration): the drawn lines are, in the order of the product the source iterates
(`itertools.product(*self.ranges)`, `self.ranges` = one range per iterated dimension), exactly its elements that have
data — each once -/
theorem c18_each_slice_once_src (f : Final) :
    f.lines.map (·.loc) = (Gen.infIter (Gen.infRanges (f.remaining.map (·.entries.length)))).filter
      (fun ch => (f.mask ch).any id) ∧
    (f.lines.map (·.loc)).Nodup ∧
    (∀ ch, ch ∈ Gen.infIter (Gen.infRanges (f.remaining.map (·.entries.length))) → (f.mask ch).any id = true →
      (f.lines.filter (fun l => l.loc == ch)).length = 1) := by
  rw [← choices_refines]
  exact ⟨(c18_each_slice_once f).1, (c18_each_slice_once f).2.1, (c18_each_slice_once f).2.2.2⟩

/-- **panel** (translated loop body): a line is drawn in the axes `self.axs[i, j]` the source picks for its
coordinates, and those exist in the grid -/
theorem c18_panel_src (f : Final) :
    ∀ l ∈ f.lines, l.i = (Gen.infLineIdx f.remNames f.attr l.loc).i ∧ l.j = (Gen.infLineIdx f.remNames f.attr l.loc).j ∧
      (Gen.infLineIdx f.remNames f.attr l.loc).i < f.nrows ∧ (Gen.infLineIdx f.remNames f.attr l.loc).j < f.ncols ∧
      (Gen.infLineIdx f.remNames f.attr l.loc).isel = f.remNames.zip l.loc := by
  intro l hl
  obtain ⟨hi, hj, hr, hc⟩ := c18_panel f l hl
  obtain ⟨pi, pj, ps⟩ := lineIdx_panel f l.loc
  rw [pi, pj]
  exact ⟨hi, hj, hi ▸ hr, hj ▸ hc, ps⟩

/-- **style** (translated loop body): the style a slice gets is determined by the indices the source reads from `loc`:
the same index is used into the domain and into the style values of a property, it is the coordinate index of the
dimension mapped to the property, and the model's style is computed from exactly these indices -/
theorem c18_style_src (f : Final) (ch : List Nat)
    (hrem : ∀ p ∈ PROPS, (f.propPos p).isSome = (f.attr p).isSome) :
    (f.style ch).color = idxOf (Gen.infLineIdx f.remNames f.attr ch).vals "color" ∧
    (f.style ch).marker = (idxOf (Gen.infLineIdx f.remNames f.attr ch).vals "marker").map markerOf ∧
    (f.style ch).linestyle = (idxOf (Gen.infLineIdx f.remNames f.attr ch).vals "linestyle").map linestyleOf ∧
    (f.style ch).markersize =
      (idxOf (Gen.infLineIdx f.remNames f.attr ch).vals "markersize").map (linspace 3 9 (f.propSize "markersize")) ∧
    (f.style ch).linewidth =
      (idxOf (Gen.infLineIdx f.remNames f.attr ch).vals "linewidth").map (linspace 1 3 (f.propSize "linewidth")) ∧
    (∀ p ∈ ["color", "marker", "markersize", "markeredgecolor", "linewidth", "linestyle"],
      idxOf (Gen.infLineIdx f.remNames f.attr ch).doms p = idxOf (Gen.infLineIdx f.remNames f.attr ch).vals p) := by
  refine ⟨?_, ?_, ?_, ?_, ?_, fun p hp => (lineIdx_style f ch p hp).2⟩ <;>
    simp only [Final.style] <;> rw [propIdx_refines f ch _ (by simp) (hrem _ (by simp [PROPS]))]

/-- **default style values** (translated calls of `__init__`): marker and line style cycle through the default tables,
marker size and line width are `np.linspace(a, b, N)` with the end points of the source, `N` the number of surviving
coordinates — which is what the model's style uses; and the properties are initialised in the model's order -/
theorem c18_style_defaults_src (f : Final) (ch : List Nat) :
    Gen.infInitCalls.map (·.1) = PROPS ∧
    defaultOf "marker" = some (.cycle "_MARKERS_DEFAULT") ∧ defaultOf "linestyle" = some (.cycle "_LINESTYLES_DEFAULT") ∧
    (∀ a b, defaultOf "markersize" = some (.linspace a b) →
      (f.style ch).markersize = (f.propIdx "markersize" ch).map (linspace a b (f.propSize "markersize"))) ∧
    (∀ a b, defaultOf "linewidth" = some (.linspace a b) →
      (f.style ch).linewidth = (f.propIdx "linewidth" ch).map (linspace a b (f.propSize "linewidth"))) := by
  obtain ⟨h1, h2, h3, h4⟩ := styleDefaults_refines
  refine ⟨initOrder_refines, h1, h2, ?_, ?_⟩
  · intro a b h
    rw [h3] at h
    injection h with h; injection h with ha hb
    subst ha; subst hb
    simp [Final.style]
  · intro a b h
    rw [h4] at h
    injection h with h; injection h with ha hb
    subst ha; subst hb
    simp [Final.style]

/-- **histogram** (translated call): what the source's `np.histogram(x, bins=self.bins, density=self.bins_density)[0]`
yields for the finite values of a slice is the model's `histY`, whose counts and normalisation are `c18_hist_counts` /
`c18_hist_total`: the divisor of a density is the number of values COUNTED (those inside the bin range) times the width -/
theorem c18_hist_src (flag : Bool) (edges vals : List Rat) :
    histOf Gen.infHistCall flag edges vals = histY flag edges vals ∧
    (histOf Gen.infHistCall false edges vals = (counts edges vals).map .count) ∧
    ((counts edges vals).sum ≠ 0 →
      histOf Gen.infHistCall true edges vals = List.zipWith (fun (c : Nat) (w : Rat) =>
        YVal.dens ((c : Rat) / (((counts edges vals).sum : Nat) * w))) (counts edges vals) (widths edges)) := by
  refine ⟨histCall_refines flag edges vals, ?_, ?_⟩
  · rw [histCall_refines]; exact (c18_hist_counts edges vals).2.2.2.1
  · intro h; rw [histCall_refines]; exact (c18_hist_counts edges vals).2.2.2.2 h

/-! ### Non-vacuity -/

def exPS : PState := { st := initState exDS exReq }

example : Valid exPS.st { dims := ["a"] } := by unfold Valid; decide

-- the all-NaN coordinate "r" of `exDS` is not in the recorded domain; 2 marker values are generated
example : (Gen.infInitMapped (mapOps "marker" { dims := ["a"] } false) exPS).toOption.map
    (fun ps => (ps.domains, ps.sizes, ps.nvals)) = some ([("marker", [[0], [1]])], [("marker", 2)], [("marker", 2)]) := by
  decide

example : Gen.infIter (Gen.infRanges [2, 3]) = [[0, 0], [0, 1], [0, 2], [1, 0], [1, 1], [1, 2]] := by decide

example : (fun r : Gen.LineIdx => (r.i, r.j, r.vals)) (Gen.infLineIdx ["a", "b", "c"]
    (fun p => if p == "row" then some "b" else if p == "col" then some "a" else if p == "marker" then some "c" else none)
    [4, 5, 6]) = (5, 4, [("marker", 6)]) := by decide

-- the hypothesis of `c18_style_src` holds for the example, and the second line gets the second marker
example : ∀ p ∈ PROPS, ((finalOf exDS exReq).propPos p).isSome = ((finalOf exDS exReq).attr p).isSome := by decide

example : idxOf (Gen.infLineIdx (finalOf exDS exReq).remNames (finalOf exDS exReq).attr [1]).vals "marker" = some 1 ∧
    ((finalOf exDS exReq).style [1]).marker = some 1 := by decide

example : defaultOf "markersize" = some (.linspace 3 9) := by
  simp only [defaultOf, Gen.infInitCalls, Gen.Default.infInitCalls]; decide

example : histOf Gen.infHistCall false [0, 1, 2] [0, 1 / 2, 1, 2, 3] = [.count 2, .count 2] := by decide +kernel

end Infini
