import XyzProofs.Props.C05
/-!
# C14 — saving and loading a dataset gives the same dataset back (partial)

What is proved here is the *path and attribute logic* of `xyzpy/manage.py` as modelled in `XyzModel/StoreIO.lean`,
over the extracted extension table / rule / coercion strings.  The engines' encoders and decoders (HDF5, pickle) are
NOT modelled: `c14_roundtrip_modulo_attrs` carries the explicit hypothesis `Codec.Inverse` (reading inverts writing on
canonical datasets), which the correspondence check exercises with real round trips.
-/
namespace StoreIO
open DS

/-! ### the extension rule -/

theorem isPrefixOf_self_append (p s : List Char) : p.isPrefixOf (p ++ s) = true :=
  List.isPrefixOf_iff_prefix.mpr (List.prefix_append p s)

theorem isInfix_append_self (p s : List Char) : isInfix p (s ++ p) = true := by
  induction s with
  | nil =>
    cases p with
    | nil => rfl
    | cons c r =>
      have := isPrefixOf_self_append (c :: r) []
      simp only [List.append_nil] at this
      simp [isInfix, this]
  | cons c r ih => simp [isInfix, ih]

theorem isSuffix_append_self (p s : List Char) : isSuffix p (s ++ p) = true := by
  unfold isSuffix
  rw [List.reverse_append]
  exact isPrefixOf_self_append _ _

theorem appendN_one (s ext : String) : appendN s ext 1 = s ++ ext := rfl

/-- the count of appended extensions is one -/
theorem extAppendCount_eq : Gen.extAppendCount = 1 := by
  simp only [Gen.extAppendCount, Gen.Default.extAppendCount]

/-- a name that just received a table extension is recognised as extended -/
theorem hasKnownExt_append (name ext : String) (k : String) (h : (k, ext) ∈ Gen.engineExt) :
    hasKnownExt (name ++ ext) = true := by
  unfold hasKnownExt
  rw [List.any_eq_true]
  refine ⟨(k, ext), h, ?_⟩
  cases Gen.extRuleSubstring
  · simp [String.toList_append, isSuffix_append_self]
  · simp [String.toList_append, isInfix_append_self]

/-- **the file-name rule**: the name itself when it already carries a known extension, else the name followed by the
engine's extension — once -/
theorem c14_path_rule (name : String) (e : Engine) (ext : String) (he : extOf e = some ext) :
    autoAddExt name e = if hasKnownExt name then name else name ++ ext := by
  unfold autoAddExt
  rw [extAppendCount_eq, he]
  rfl

/-- every engine has its extension in the (extracted) table, the documented one -/
theorem c14_ext_table :
    extOf .h5netcdf = some ".h5" ∧ extOf .netcdf4 = some ".nc" ∧ extOf .joblib = some ".dmp" ∧ extOf .zarr = some ".zarr" := by
  simp [extOf, Engine.key, Gen.engineExt, Gen.Default.engineExt, alookup]

theorem extOf_isSome (e : Engine) : ∃ ext, extOf e = some ext := by
  obtain ⟨h1, h2, h3, h4⟩ := c14_ext_table
  cases e
  · exact ⟨_, h1⟩
  · exact ⟨_, h2⟩
  · exact ⟨_, h3⟩
  · exact ⟨_, h4⟩

/-- **adding the extension is idempotent** — and after it no engine's extension is ever added again, so saving,
loading, merging and deleting may each apply the rule without drifting apart -/
theorem c14_ext_idempotent (name : String) (e e' : Engine) :
    autoAddExt (autoAddExt name e) e' = autoAddExt name e := by
  obtain ⟨ext, he⟩ := extOf_isSome e
  have hmem : (e.key, ext) ∈ Gen.engineExt := alookup_mem _ _ _ he
  by_cases h : hasKnownExt name = true
  · have h1 : autoAddExt name e = name := by simp [autoAddExt, h]
    rw [h1]; simp [autoAddExt, h]
  · have h1 : autoAddExt name e = name ++ ext := by
      rw [c14_path_rule name e ext he]; simp [h]
    rw [h1]
    simp [autoAddExt, hasKnownExt_append name ext e.key hmem]

/-- **one path for save, load, merge and delete**: for every name and engine `load_ds` reads the path `save_ds`
writes; `save_merge_ds` probes that path, loads from it with the same engine and writes to it; `Harvester.delete_ds`
removes it -/
theorem c14_same_path (name : String) (e : Engine) :
    loadPath name e = savePath name e ∧
    smExistsPath name e = savePath name e ∧ smLoadEngine e = e ∧ smLoadPath name e = savePath name e ∧
    hvDeletePath name e = savePath name e ∧
    savePath (savePath name e) e = savePath name e := by
  obtain ⟨h1, h2, _, _, _, _, h7, h8, h9, h10⟩ := Harvest.c05_name_consistent name e
  obtain ⟨h1', _⟩ := Harvest.c05_name_consistent (autoAddExt name e) e
  refine ⟨by rw [h1, h2], by rw [h8, h1], h9, by rw [h10, h1], by rw [h7, h1], ?_⟩
  rw [h1, h1', c14_ext_idempotent]

/-! ### attributes -/

/-- **the attribute rule**: the netCDF engines rewrite exactly `None` / `True` / `False` to the strings `"None"` /
`"True"` / `"False"` and leave every other attribute, all coordinates and all variables as they are; joblib and zarr
rewrite nothing -/
theorem c14_attr_rule :
    (coercesAttrs .h5netcdf = true ∧ coercesAttrs .netcdf4 = true ∧ coercesAttrs .joblib = false ∧
      coercesAttrs .zarr = false) ∧
    (coerceAttr .none = .str "None" ∧ coerceAttr (.bool true) = .str "True" ∧ coerceAttr (.bool false) = .str "False" ∧
      (∀ s, coerceAttr (.str s) = .str s) ∧ (∀ i, coerceAttr (.int i) = .int i) ∧ (∀ r, coerceAttr (.num r) = .num r)) ∧
    (∀ e d, (coerceAttrs e d).coords = d.coords ∧ (coerceAttrs e d).vars = d.vars ∧
      (coerceAttrs e d).attrs = if coercesAttrs e then d.attrs.map (fun kv => (kv.1, coerceAttr kv.2)) else d.attrs) := by
  refine ⟨?_, ?_, ?_⟩
  · simp [coercesAttrs, Engine.key, Gen.attrExempt, Gen.Default.attrExempt]
  · simp [coerceAttr, Gen.attrNoneStr, Gen.Default.attrNoneStr, Gen.attrTrueStr, Gen.Default.attrTrueStr,
      Gen.attrFalseStr, Gen.Default.attrFalseStr]
  · intro e d
    refine ⟨coords_coerceAttrs e d, vars_coerceAttrs e d, ?_⟩
    unfold coerceAttrs
    split <;> rfl

/-! ### the round trip, under the codec assumption -/

/-- **round trip modulo attributes**: ASSUMING the engine's reader inverts its writer (`Codec.Inverse`), loading what
was saved under the same name and engine returns the dataset with its attributes rewritten by the attribute rule —
dimensions, coordinates, variables and values unchanged —, and saving touches no other path -/
theorem c14_roundtrip_modulo_attrs {β : Type} (c : Codec β) (hinv : c.Inverse) (s : GStore β) (name : String)
    (e : Engine) (d : Dataset) :
    loadVia c (saveVia c s name e d) name e = .ok (coerceAttrs e d) ∧
    (coerceAttrs e d).coords = d.coords ∧ (coerceAttrs e d).vars = d.vars ∧
    ∀ k, k ≠ savePath name e → alookup (saveVia c s name e d) k = alookup s k := by
  obtain ⟨h, _⟩ := c14_same_path name e
  refine ⟨?_, coords_coerceAttrs e d, vars_coerceAttrs e d, ?_⟩
  · simp [loadVia, saveVia, h, alookup_sset, hinv e]
  · intro k hk
    have : ¬ savePath name e = k := fun x => hk x.symm
    simp [saveVia, alookup_sset, this]

/-- the executable model's codec (dataset tagged with its engine) satisfies the assumption, so the assumption is
consistent; reading with another engine fails -/
theorem tagCodec_inverse : tagCodec.Inverse := by
  intro e d; simp [tagCodec]

/-! ### Non-vacuity -/

example : autoAddExt "h1" .h5netcdf = "h1.h5" := by
  rw [c14_path_rule "h1" .h5netcdf ".h5" c14_ext_table.1]
  decide
example : autoAddExt "dir.h5x/run" .joblib = "dir.h5x/run" := by
  rw [c14_path_rule "dir.h5x/run" .joblib ".dmp" c14_ext_table.2.2.1]
  decide
example : coerceAttrs .h5netcdf { attrs := [("a", .none), ("b", .int 3)] } = { attrs := [("a", .str "None"), ("b", .int 3)] } := by
  simp [coerceAttrs, c14_attr_rule.1.1, c14_attr_rule.2.1.1, coerceAttr, Gen.attrNoneStr, Gen.Default.attrNoneStr]
example : coerceAttrs .joblib { attrs := [("a", .none)] } = { attrs := [("a", .none)] } := by
  simp [coerceAttrs, c14_attr_rule.1.2.2.1]

end StoreIO
