import XyzProofs.Lemmas.Stats
/-!
# C19 — running statistics equal the statistics of the whole sample

Exact arithmetic (`ℚ`); every list of samples, every chunking, every permutation, every sample stream and
every choice of `(rtol, tol_scale, min_samples, max_samples ≥ 1)`.  The update bodies and the loop guards that
the theorems unfold (`Gen.*`) are regenerated from `xyzpy/utils.py` on every run.  Floating point is *not*
reasoned about here: the gap between the real floats and these exact values is a run-time-checked tolerance
(harness/props/c19.py).

Whole-sample quantities: `l.sum`, `sumSq l = Σx²`, `sumX/sumY/sumXY` of a list of pairs.
-/
namespace Stats
open List

/-- count and mean: `count = n`, `mean · n = Σx` -/
theorem c19_mean (l : List ℚ) :
    (run l).count = (l.length : ℤ) ∧ (run l).mean * (l.length : ℚ) = l.sum :=
  ⟨(inv_run l).count, (inv_run l).mean⟩

example : (run [1, 2, 6]).mean = 3 := by decide +kernel
example : (run [1, 2, 6]).count = 3 := by decide +kernel

/-- second moment: `M2 · n = n · Σx² − (Σx)²` -/
theorem c19_M2 (l : List ℚ) :
    (run l).M2 * (l.length : ℚ) = (l.length : ℚ) * sumSq l - l.sum ^ 2 := by
  rw [(inv_run l).m2]; ring

example : (run [1, 2, 6]).M2 = 14 := by decide +kernel

/-- hence variance, (squared) standard deviation and (squared) standard error are those of the whole sample:
`var = Σx²/n − (Σx/n)²`, `err² = var / n` (`std = var ** 0.5`, `err = std / n ** 0.5` in the code) -/
theorem c19_var (l : List ℚ) (hl : l ≠ []) :
    (run l).var = sumSq l / (l.length : ℚ) - (l.sum / (l.length : ℚ)) ^ 2 ∧
    (run l).errSq = (sumSq l / (l.length : ℚ) - (l.sum / (l.length : ℚ)) ^ 2) / (l.length : ℚ) := by
  have hn : (l.length : ℚ) ≠ 0 := by
    have : l.length ≠ 0 := fun h => hl (List.length_eq_zero_iff.mp h)
    exact_mod_cast this
  have hc : (((run l).count : ℤ) : ℚ) = (l.length : ℚ) := by rw [(inv_run l).count]; simp
  have hv : (run l).var = sumSq l / (l.length : ℚ) - (l.sum / (l.length : ℚ)) ^ 2 := by
    simp only [RS.var, Gen.statVar, Gen.Default.statVar, hc]
    have h := c19_M2 l
    field_simp
    linarith
  refine ⟨hv, ?_⟩
  simp only [RS.errSq, hv, hc]

example : (run [1, 2, 6]).var = 14 / 3 := by decide +kernel

/-- covariance: `count = n`, `xmean · n = Σx`, `ymean · n = Σy`, `C · n = n · Σxy − Σx · Σy` -/
theorem c19_cov (l : List (ℚ × ℚ)) :
    (runCov l).count = (l.length : ℤ) ∧
    (runCov l).xmean * (l.length : ℚ) = sumX l ∧ (runCov l).ymean * (l.length : ℚ) = sumY l ∧
    (runCov l).C * (l.length : ℚ) = (l.length : ℚ) * sumXY l - sumX l * sumY l :=
  ⟨(invC_run l).count, (invC_run l).xmean, (invC_run l).ymean, (invC_run l).c⟩

example : (runCov [(1, 2), (3, 6), (2, 4)]).C = 4 ∧ (runCov [(1, 2), (3, 6), (2, 4)]).xmean = 2 := by decide +kernel

/-- the reported covariance is the whole-sample covariance `Σxy/n − (Σx/n)(Σy/n)`; with Bessel's correction
`(n·Σxy − Σx·Σy) / (n·(n−1))` -/
theorem c19_covar (l : List (ℚ × ℚ)) (hl : l ≠ []) :
    (runCov l).covar = sumXY l / (l.length : ℚ) - (sumX l / (l.length : ℚ)) * (sumY l / (l.length : ℚ)) ∧
    (2 ≤ l.length → (runCov l).sampleCovar =
      ((l.length : ℚ) * sumXY l - sumX l * sumY l) / ((l.length : ℚ) * ((l.length : ℚ) - 1))) := by
  have hn : (l.length : ℚ) ≠ 0 := by
    have : l.length ≠ 0 := fun h => hl (List.length_eq_zero_iff.mp h)
    exact_mod_cast this
  have hc : (((runCov l).count : ℤ) : ℚ) = (l.length : ℚ) := by rw [(invC_run l).count]; simp
  have h := (invC_run l).c
  constructor
  · simp only [RC.covar, Gen.covCovar, Gen.Default.covCovar, hc]
    field_simp
    linarith
  · intro h2
    have hn1 : (l.length : ℚ) - 1 ≠ 0 := by
      have : (2 : ℚ) ≤ (l.length : ℚ) := by exact_mod_cast h2
      intro h0; linarith
    simp only [RC.sampleCovar, Gen.covSample, Gen.Default.covSample, hc]
    field_simp
    linarith

example : (runCov [(1, 2), (3, 6), (2, 4)]).covar = 4 / 3 := by decide +kernel
example : (runCov [(1, 2), (3, 6), (2, 4)]).sampleCovar = 2 := by decide +kernel

/-- covariance matrix: after any sequence of feeding steps (`update(*x)` row by row and/or
`update_from_it(*cols)`), entry `(i, j)` is the running covariance of the pairs that were fed for the stored
pair `key i j`, and the matrix is symmetric -/
theorem c19_cov_matrix (n : ℕ) (steps : List Step) (i j : ℕ) (hi : i < n) (hj : j < n) :
    (steps.foldl Mat.apply (Mat.init n)).get i j = runCov (steps.flatMap (stepPairs (key i j))) ∧
    (steps.foldl Mat.apply (Mat.init n)).covar i j = (steps.foldl Mat.apply (Mat.init n)).covar j i ∧
    (steps.foldl Mat.apply (Mat.init n)).sampleCovar i j = (steps.foldl Mat.apply (Mat.init n)).sampleCovar j i := by
  refine ⟨?_, ?_, ?_⟩
  · rw [init_tab, steps_tab, Mat.get, lookup_tab _ _ _ (key_mem n i j hi hj)]
    rfl
  · simp only [Mat.covar, Mat.get, key_symm i j]
  · simp only [Mat.sampleCovar, Mat.get, key_symm i j]

example : (([Step.rows [[1, 2], [3, 6]], Step.cols [[2], [4]]].foldl Mat.apply (Mat.init 2)).covar 1 0) = 4 / 3 := by
  decide +kernel

/-- chunking: feeding the sample in any chunks (`update_from_it` per chunk; a one-element chunk is `update`)
gives the same final state as feeding the concatenation to a fresh object — for statistics and covariance -/
theorem c19_chunking (chunks : List (List ℚ)) (cchunks : List (List (ℚ × ℚ))) :
    chunks.foldl RS.updateFromIt RS.init = run chunks.flatten ∧
    cchunks.foldl RC.updateFromIt RC.init = runCov cchunks.flatten :=
  ⟨rs_chunks _ _, rc_chunks _ _⟩

example : [[1, 2], [], [6]].foldl RS.updateFromIt RS.init = run [1, 2, 6] := by decide +kernel

/-- permutation: the final state (count, mean, M2 — resp. count, xmean, ymean, C) does not depend on the
order in which the samples arrive -/
theorem c19_permutation :
    (∀ l₁ l₂ : List ℚ, l₁.Perm l₂ → run l₁ = run l₂) ∧
    (∀ l₁ l₂ : List (ℚ × ℚ), l₁.Perm l₂ → runCov l₁ = runCov l₂) := by
  constructor
  · intro l₁ l₂ h
    have h1 := inv_run l₁
    have h2 := inv_run l₂
    have hlen : l₁.length = l₂.length := h.length_eq
    have hsum : l₁.sum = l₂.sum := h.sum_eq
    have hsq : sumSq l₁ = sumSq l₂ := sumSq_perm h
    by_cases hz : l₁ = []
    · subst hz
      have : l₂ = [] := by simpa using h.symm
      subst this; rfl
    · have hn : (l₁.length : ℚ) ≠ 0 := by
        have : l₁.length ≠ 0 := fun h => hz (List.length_eq_zero_iff.mp h)
        exact_mod_cast this
      have hc : (run l₁).count = (run l₂).count := by rw [h1.count, h2.count, hlen]
      have hm : (run l₁).mean = (run l₂).mean := by
        have e1 := h1.mean
        have e2 := h2.mean
        rw [← hlen, ← hsum] at e2
        exact mul_right_cancel₀ hn (e1.trans e2.symm)
      have hM : (run l₁).M2 = (run l₂).M2 := by
        have e1 := h1.m2
        have e2 := h2.m2
        rw [← hlen, ← hsum, ← hsq] at e2
        exact mul_right_cancel₀ hn (e1.trans e2.symm)
      cases hr1 : run l₁; cases hr2 : run l₂
      simp only [hr1, hr2] at hc hm hM
      subst hc; subst hm; subst hM; rfl
  · intro l₁ l₂ h
    have h1 := invC_run l₁
    have h2 := invC_run l₂
    have hlen : l₁.length = l₂.length := h.length_eq
    have hx : sumX l₁ = sumX l₂ := sumX_perm h
    have hy : sumY l₁ = sumY l₂ := sumY_perm h
    have hxy : sumXY l₁ = sumXY l₂ := sumXY_perm h
    by_cases hz : l₁ = []
    · subst hz
      have : l₂ = [] := by simpa using h.symm
      subst this; rfl
    · have hn : (l₁.length : ℚ) ≠ 0 := by
        have : l₁.length ≠ 0 := fun h => hz (List.length_eq_zero_iff.mp h)
        exact_mod_cast this
      have hc : (runCov l₁).count = (runCov l₂).count := by rw [h1.count, h2.count, hlen]
      have hmx : (runCov l₁).xmean = (runCov l₂).xmean := by
        have e1 := h1.xmean
        have e2 := h2.xmean
        rw [← hlen, ← hx] at e2
        exact mul_right_cancel₀ hn (e1.trans e2.symm)
      have hmy : (runCov l₁).ymean = (runCov l₂).ymean := by
        have e1 := h1.ymean
        have e2 := h2.ymean
        rw [← hlen, ← hy] at e2
        exact mul_right_cancel₀ hn (e1.trans e2.symm)
      have hC : (runCov l₁).C = (runCov l₂).C := by
        have e1 := h1.c
        have e2 := h2.c
        rw [← hlen, ← hx, ← hy, ← hxy] at e2
        exact mul_right_cancel₀ hn (e1.trans e2.symm)
      cases hr1 : runCov l₁; cases hr2 : runCov l₂
      simp only [hr1, hr2] at hc hmx hmy hC
      subst hc; subst hmx; subst hmy; subst hC; rfl

example : run [6, 1, 2] = run [1, 2, 6] := by decide +kernel

/-- stopping rule of `estimate_from_repeats`, for `max_samples ≥ 1` (with `max_samples ≤ 0` the real loop still
draws one sample — a domain restriction, visible as the hypothesis `hmax`).  There is an iteration index `k` with:
* `k < max_samples`, so the number of samples drawn, `k + 1`, never exceeds `max_samples`;
* the returned statistics are exactly those of the first `k + 1` samples of the stream (`count = k + 1`);
* the rule allows stopping at `k`: (`k > min_samples` and the statistics of those samples have converged for
  `(rtol, tol_scale · rtol)`) or `k ≥ max_samples − 1`;
* at no earlier iteration did the rule allow stopping. -/
theorem c19_stop (f : ℕ → ℚ) (P : Params) (hmax : 1 ≤ P.maxSamples) :
    ∃ k : ℕ, (k : ℤ) < P.maxSamples ∧
      estimate f P = run (pre f (k + 1)) ∧ (estimate f P).count = (k : ℤ) + 1 ∧
      ((P.minSamples < (k : ℤ) ∧ (run (pre f (k + 1))).converged P.rtol (P.tolScale * P.rtol) = true)
          ∨ P.maxSamples - 1 ≤ (k : ℤ)) ∧
      ∀ j : ℕ, j < k →
        ¬ ((P.minSamples < (j : ℤ) ∧ (run (pre f (j + 1))).converged P.rtol (P.tolScale * P.rtol) = true)
            ∨ P.maxSamples - 1 ≤ (j : ℤ)) := by
  have hspec : ∀ j : ℕ, stops f P j = true ↔
      ((P.minSamples < (j : ℤ) ∧ (run (pre f (j + 1))).converged P.rtol (P.tolScale * P.rtol) = true)
          ∨ P.maxSamples - 1 ≤ (j : ℤ)) := by
    intro j
    simp only [stops, stopNow, Gen.repCheck, Gen.Default.repCheck, Gen.repHitMax, Gen.Default.repHitMax,
      Gen.repRtol, Gen.Default.repRtol, Gen.repAtol, Gen.Default.repAtol,
      Bool.or_eq_true, Bool.and_eq_true, decide_eq_true_eq, gt_iff_lt, ge_iff_le]
    -- an equivalent spelling of the two integer tests (`i + 1 >= max_samples`, …) is settled by arithmetic
    try (constructor <;> (intro h; rcases h with ⟨h1, h2⟩ | h) <;>
      first | (left; exact ⟨by omega, h2⟩) | (right; omega))
  have hfuel : max 1 P.maxSamples.toNat = P.maxSamples.toNat := by omega
  have hlast : stops f P (P.maxSamples.toNat - 1) = true := by
    rw [hspec]; right; omega
  obtain ⟨k, _, hk2, hk3, hk4, hk5⟩ := loop_first_stop f P P.maxSamples.toNat 0 (by intro j hj; omega)
    ⟨P.maxSamples.toNat - 1, by omega, by omega, hlast⟩
  have hest : estimate f P = run (pre f (k + 1)) := by
    unfold estimate
    rw [hfuel]
    exact hk3
  refine ⟨k, by omega, hest, ?_, (hspec k).mp hk4, ?_⟩
  · rw [hest, (inv_run _).count]
    simp [pre]
  · intro j hj hcon
    have := hk5 j hj
    rw [(hspec j).mpr hcon] at this
    exact Bool.noConfusion this

/-- non-vacuity: a constant stream converges as soon as the rule looks (iteration `min_samples + 1`), and a
limit of 3 cuts a non-converging stream after exactly 3 samples -/
example : (estimate (fun _ => 1) ⟨1 / 50, 1, 5, 100⟩).count = 7 := by decide +kernel
example : (estimate (fun i => (i : ℚ) * (i : ℚ)) ⟨1 / 1000, 1, 0, 3⟩).count = 3 := by decide +kernel

end Stats
