import XyzProofs.Props.C09
/-!
# C12 — a crop is deleted only after its data is safely delivered

`reapFarmer` returns the state *after* the attempt even when the attempt fails, so "an error leaves every crop file in
place" is a real statement about the order of effects (which, for Harvester and Sampler crops, is read off the source
by the extracted `Gen.harvestDefersCleanup` / `Gen.samplesDefersCleanup`).
-/
namespace Crop
open Core List

variable {β : Type}

theorem reapLinear_dir (P : Perms) (nl : β → β) (s s1 : St β) (o : ReapOpts) (info : Info) (r : List β)
    (h : reapLinear P nl s o = .ok (s1, info, r)) : s1.dir = s.dir := by
  unfold reapLinear at h
  have hg := readyGate_dir s o.allowIncomplete o.wait
  generalize readyGate s o.allowIncomplete o.wait = g at h hg
  obtain ⟨g1, g2⟩ := g
  simp only at h hg
  split at h
  · cases h
  · split at h
    · cases h
    · split at h
      · cases h
      · split at h
        · cases h
        · split at h
          · cases h
          · split at h
            · cases h
            · cases h; exact hg

theorem cleanUp_some_false (a : Bool) : cleanUpResolved (some false) a = false := c09_explicit_clean_up false a

theorem defers_eval : defers .raw = false ∧ defers .runner = false ∧ defers .harvester = true ∧ defers .sampler = true := by
  simp [defers, Gen.harvestDefersCleanup, Gen.Default.harvestDefersCleanup, Gen.samplesDefersCleanup,
    Gen.Default.samplesDefersCleanup]

/-- **an error leaves every crop file in place**, at whichever stage it occurs (results not ready or unreadable, output
description not matching, merge conflict or save error in the farmer's sync), for every farmer kind and option set;
whatever other processes did to the directory while the farmer was syncing (`late`) is all that can have changed -/
theorem c12_err_leaves_crop (P : Perms) (nl : β → β) (k : FarmerKind) (env : Env) (s : St β) (o : ReapOpts) (e : FErr)
    (late : Option (Dir β) → Option (Dir β))
    (h : (reapFarmer P nl k env s o late).res = .error e) :
    (reapFarmer P nl k env s o late).st.dir = s.dir ∨
      (e = .deliver ∧ (reapFarmer P nl k env s o late).st.dir = late s.dir) := by
  obtain ⟨d1, d2, d3, d4⟩ := defers_eval
  unfold reapFarmer at h ⊢
  cases k <;> simp only [d1, d2, d3, d4, Bool.false_eq_true, if_false, if_true, Bool.false_and, Bool.true_and] at h ⊢
  all_goals
    split
    · exact Or.inl rfl
    · rename_i s1 info results hlin
      have hdir := reapLinear_dir P nl s s1 _ info results hlin
      simp only [hlin] at h
      cases hlf : env.labelFails <;> cases hdf : env.deliverFails <;>
        cases hcu : cleanUpResolved o.cleanUp o.allowIncomplete <;>
        simp_all [removeDir, cleanUp_some_false]

/-- the same without interference: the directory is exactly as it was -/
theorem c12_err_leaves_crop_alone (P : Perms) (nl : β → β) (k : FarmerKind) (env : Env) (s : St β) (o : ReapOpts) (e : FErr)
    (h : (reapFarmer P nl k env s o).res = .error e) :
    (reapFarmer P nl k env s o).st.dir = s.dir := by
  rcases c12_err_leaves_crop P nl k env s o e id h with h1 | ⟨_, h2⟩
  · exact h1
  · simpa using h2

/-- **deleted iff delivered and clean-up resolved**: after a successful reap of an existing crop the directory is gone
exactly when the resolved `clean_up` is true, and for Runner / Harvester / Sampler crops the data was delivered (set as
the runner's last result; merged and saved for a harvester / sampler) — the deletion comes after that in the order of
effects.  This holds whatever other processes do to the directory during the sync (`late`), as long as they do not
remove it themselves: in particular growers that complete the crop *while* a partial reap is syncing do not cause it
to be deleted. -/
theorem c12_deleted_iff (P : Perms) (nl : β → β) (k : FarmerKind) (env : Env) (s : St β) (o : ReapOpts) (d : Dir β)
    (late : Option (Dir β) → Option (Dir β)) (hlate : ∀ x, late (some x) ≠ none)
    (r : List β) (hd : s.dir = some d) (h : (reapFarmer P nl k env s o late).res = .ok r) :
    ((reapFarmer P nl k env s o late).st.dir = none ↔ cleanUpResolved o.cleanUp o.allowIncomplete = true) ∧
    (k ≠ .raw → (reapFarmer P nl k env s o late).delivered = true) := by
  obtain ⟨d1, d2, d3, d4⟩ := defers_eval
  have hl := hlate d
  unfold reapFarmer at h ⊢
  cases k <;> simp only [d1, d2, d3, d4, Bool.false_eq_true, if_false, if_true, Bool.false_and, Bool.true_and] at h ⊢
  all_goals
    split
    · rename_i e hlin; simp [hlin] at h
    · rename_i s1 info results hlin
      have hdir := reapLinear_dir P nl s s1 _ info results hlin
      rw [hd] at hdir
      simp only [hlin] at h
      cases hlf : env.labelFails <;> cases hdf : env.deliverFails <;>
        cases hcu : cleanUpResolved o.cleanUp o.allowIncomplete <;>
        simp_all [removeDir, cleanUp_some_false]

/-- a reap only looks at the directory: two states with the same directory gather the same results -/
theorem reapLinear_congr (P : Perms) (nl : β → β) (s s' : St β) (o : ReapOpts) (h : s'.dir = s.dir) :
    (reapLinear P nl s' o).map (fun x => (x.2.1.sweep.locs.length, x.2.2)) =
      (reapLinear P nl s o).map (fun x => (x.2.1.sweep.locs.length, x.2.2)) := by
  have hready : (readyGate s' o.allowIncomplete o.wait).2 = (readyGate s o.allowIncomplete o.wait).2 := by
    unfold readyGate
    split
    · rfl
    · unfold isReady calcProgress
      rw [h]
      cases s.dir with
      | none => rfl
      | some d => simp only; split <;> rfl
  have hd' := readyGate_dir s' o.allowIncomplete o.wait
  have hd := readyGate_dir s o.allowIncomplete o.wait
  unfold reapLinear
  generalize readyGate s' o.allowIncomplete o.wait = g' at hready hd'
  generalize readyGate s o.allowIncomplete o.wait = g at hready hd
  obtain ⟨a', b'⟩ := g'
  obtain ⟨a, b⟩ := g
  simp only at hready hd hd' ⊢
  subst hready
  rw [hd', h, hd]
  cases b' with
  | false => rfl
  | true =>
    simp only [Bool.not_true, Bool.false_eq_true, if_false]
    cases s.dir with
    | none => rfl
    | some d =>
      simp only
      cases (if o.allowIncomplete = true then Except.map some (allNanResult nl d) else Except.ok none) with
      | error e => rfl
      | ok dflt =>
        simp only
        cases d.info with
        | none => rfl
        | some info =>
          simp only
          have : reapStream a'.obj d info.nb (if o.wait = true then none else dflt) =
              reapStream a.obj d info.nb (if o.wait = true then none else dflt) := by
            unfold reapStream
            congr 1
          rw [this]
          cases reapStream a.obj d info.nb (if o.wait = true then none else dflt) with
          | error e => rfl
          | ok stream =>
            simp only
            cases reorder P info.shuffle info.sweep.locs.length stream <;> rfl

/-- **retry is exact**: a failed attempt left the directory as it was, so once the cause is corrected the next attempt
gathers exactly what a first attempt without the failure would have gathered -/
theorem c12_retry_exact (P : Perms) (nl : β → β) (k : FarmerKind) (env : Env) (s : St β) (o o' : ReapOpts) (e : FErr)
    (h : (reapFarmer P nl k env s o).res = .error e) :
    (reapLinear P nl (reapFarmer P nl k env s o).st o').map (fun x => (x.2.1.sweep.locs.length, x.2.2)) =
      (reapLinear P nl s o').map (fun x => (x.2.1.sweep.locs.length, x.2.2)) :=
  reapLinear_congr P nl s _ o' (c12_err_leaves_crop_alone P nl k env s o e h)

/-- **options**: `clean_up=None` means `not allow_incomplete`; explicit values are honoured -/
theorem c12_options (a b : Bool) :
    cleanUpResolved none a = !a ∧ cleanUpResolved (some b) a = b := by
  simp [cleanUpResolved, Gen.cleanUpDefault, Gen.Default.cleanUpDefault]

end Crop
