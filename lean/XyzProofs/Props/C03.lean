import XyzProofs.Props.C02
import XyzModel.ToDs
/-!
# C03 — labelled outputs name every number correctly (Dataset and DataFrame)
-/
namespace Core
open List
variable {β : Type}

theorem coords_grid (s : Sweep) (h : s.caseRows = none) : s.coords = s.comboVals := by
  simp [Sweep.coords, Sweep.caseCoords, h]

/-- the nested output, read at any index path of the coordinate grid -/
theorem processNested_get (s : Sweep) (g : List Nat → β) (ph : β) (idx p : List Nat)
    (hp : pick s.coords idx = some p) :
    (processNested s (s.locs.map g) ph).get idx = some (.leaf (if p ∈ s.locs then g p else ph)) := by
  unfold processNested
  cases hr : s.caseRows with
  | none =>
    rw [coords_grid s hr] at hp
    simp only
    rw [unflatten_eq, nest_get _ _ _ _ hp]
    have hmem : p ∈ s.locs := by rw [locs_grid s hr]; exact mem_product_of_pick _ _ _ hp
    rw [lookup_zip_map g s.locs p hmem]
    simp [hmem]
  | some rows =>
    simp only
    rw [unflatten_eq, nest_get _ _ _ _ hp]
    by_cases hmem : p ∈ s.locs
    · rw [lookup_zip_map g s.locs p hmem]; simp [hmem]
    · rw [lookup_zip_map_none g s.locs p hmem]; simp [hmem]

end Core

namespace ToDs
open Core List
variable {β : Type}

/-- **dimensions and coordinates**: each swept argument is a dimension whose coordinate is exactly the values swept
(given order for grids, sorted union for cases — `Sweep.coords`, see `c02_coords_union`), and every variable carries
the swept dimensions followed by its declared internal dimensions -/
theorem c03_dims_coords (d : Desc) (s : Sweep) (arrays : List (Nest β)) :
    (resultsToDs d s arrays).dims = s.fnArgs.zip s.coords ∧
    ∀ v ∈ (resultsToDs d s arrays).vars, ∃ o ∈ d.outputs, v.name = o.1 ∧ v.dims = s.fnArgs ++ o.2 := by
  refine ⟨rfl, ?_⟩
  intro v hv
  simp only [resultsToDs, List.mem_map] at hv
  obtain ⟨⟨o, a⟩, hmem, rfl⟩ := hv
  exact ⟨o, (List.of_mem_zip hmem).1, rfl, rfl⟩

/-- **selecting by label returns what the function returned there**: variable `j` of the dataset, read at the index
path that picks the coordinate values `p`, is output `j` of `f` at `p` if `p` was evaluated, else the placeholder -/
theorem c03_sel (d : Desc) (f : List Nat → List β) (dfl : β) (nl : β → β) (s : Sweep) (st : Strategy)
    (hov : s.overlap = false) (hwf : st.WF s.locs.length)
    (first : List Nat) (rest : List (List Nat)) (hne : s.locs = first :: rest)
    (j : Nat) (o : String × List String) (ho : d.outputs[j]? = some o)
    (idx p : List Nat) (hp : pick s.coords idx = some p) :
    ∃ ds v, toDs d f dfl nl s st = .ok ds ∧ ds.vars[j]? = some v ∧ v.name = o.1 ∧ v.dims = s.fnArgs ++ o.2 ∧
      v.data.get idx = some (.leaf (if p ∈ s.locs then (f p).getD j dfl else nl ((f first).getD j dfl))) := by
  have hjk : j < d.outputs.length := by
    rcases List.getElem?_eq_some_iff.mp ho with ⟨h, _⟩; exact h
  -- every component run
  have hall : ∀ j', ∃ r, core (fun loc => (f loc).getD j' dfl) nl s st = .ok r ∧
      r.nested = processNested s (s.locs.map fun loc => (f loc).getD j' dfl) (nl ((f first).getD j' dfl)) := by
    intro j'
    obtain ⟨r, h1, _, _, h4⟩ := core_ok (fun loc => (f loc).getD j' dfl) nl s st hov hwf
    refine ⟨r, h1, ?_⟩
    rw [h4, hne]
  let g : Nat → Run β := fun j' => Classical.choose (hall j')
  have hg : ∀ j', core (fun loc => (f loc).getD j' dfl) nl s st = .ok (g j') := fun j' => (Classical.choose_spec (hall j')).1
  have hfun : (fun j' => core (fun loc => (f loc).getD j' dfl) nl s st) = fun j' => Except.ok (g j') := funext hg
  have hsplit : coreSplit d.outputs.length f dfl nl s st = .ok ((List.range d.outputs.length).map g) := by
    unfold coreSplit
    rw [hfun]; exact mapM_ok g _
  refine ⟨resultsToDs d s (((List.range d.outputs.length).map g).map (·.nested)),
    { name := o.1, dims := s.fnArgs ++ o.2, data := (g j).nested }, ?_, ?_, rfl, rfl, ?_⟩
  · unfold toDs
    simp only [hsplit]
  · simp only [resultsToDs, List.map_map]
    rw [List.getElem?_map, (List.getElem?_zip_eq_some (z := (o, (g j).nested))).mpr ⟨ho, by simp [hjk]⟩]
    rfl
  · show (g j).nested.get idx = _
    rw [(Classical.choose_spec (hall j)).2]
    exact processNested_get s _ _ idx p hp

/-- **constants, resources, attributes**: a constant is a coordinate if it names a dimension, else an attribute;
extra attributes are kept; a resource (that is not also given as constant/attribute/coordinate) is recorded nowhere -/
theorem c03_constants_resources_attrs (d : Desc) (s : Sweep) (arrays : List (Nest β)) (k : String) :
    (k ∈ (resultsToDs d s arrays).attrs ↔ k ∈ d.attrs ∨ (k ∈ d.constants ∧ isDim d s k = false)) ∧
    (k ∈ (resultsToDs d s arrays).extraCoords ↔ k ∈ d.varCoords ∨ (k ∈ d.constants ∧ isDim d s k = true)) ∧
    (k ∈ d.resources → k ∉ d.constants → k ∉ d.attrs → k ∉ d.varCoords →
      k ∉ (resultsToDs d s arrays).attrs ∧ k ∉ (resultsToDs d s arrays).extraCoords) := by
  refine ⟨?_, ?_, ?_⟩
  · simp [resultsToDs, List.mem_filter]
  · simp [resultsToDs, List.mem_filter]
  · intro _ h1 h2 h3
    simp [resultsToDs, List.mem_filter, h1, h2, h3]

/-- **DataFrame rows**: one row per evaluated setting, in enumeration order; row `i` pairs setting `i`'s argument
values with setting `i`'s own outputs — for every shuffle permutation and executor order -/
theorem c03_df_rows (d : Desc) (f : List Nat → List β) (nl : List β → List β) (s : Sweep) (st : Strategy)
    (hov : s.overlap = false) (hwf : st.WF s.locs.length) :
    ∃ rows, toDf d f nl s st = .ok rows ∧ rows.length = s.locs.length ∧
      ∀ i (hi : i < s.locs.length), ∃ row, rows[i]? = some row ∧ row.loc = s.locs[i] ∧ row.outputs = f s.locs[i] ∧
        row.extra = d.constants ++ d.attrs := by
  obtain ⟨r, h1, _, h3, _⟩ := core_ok f nl s st hov hwf
  refine ⟨_, by unfold toDf; rw [h1], ?_, ?_⟩
  · simp [h3]
  · intro i hi
    refine ⟨{ loc := s.locs[i], extra := d.constants ++ d.attrs, outputs := f s.locs[i] }, ?_, rfl, rfl, rfl⟩
    rw [h3, List.getElem?_map,
      (List.getElem?_zip_eq_some (z := (s.locs[i], f s.locs[i]))).mpr ⟨List.getElem?_eq_getElem hi, by simp [hi]⟩]
    rfl

/-! Non-vacuity -/
def exDesc : Desc := { varNames := ["u", "v"], varDims := [[], ["t"]], varCoords := [], constants := ["t", "k"],
                       resources := ["big"], attrs := ["note"] }
example : isDim exDesc Core.exSweep "t" = true ∧ isDim exDesc Core.exSweep "k" = false := by decide
example : (resultsToDs exDesc Core.exSweep ([] : List (Nest Nat))).attrs = ["note", "k"] := by decide

end ToDs
