import XyzProofs.Refine.Num
import XyzProofs.Props.C19
import Mathlib.Analysis.Real.Sqrt
/-!
# C19 — the statements of `Props/C19.lean`, on the *translated source*

`Gen.rsUpdateFromIt`, `Gen.rsVar`, `Gen.rsErr`, `Gen.rsConverged`, `Gen.estimateFromRepeats` are the bodies of the
methods of `RunningStatistics` and of `estimate_from_repeats` in xyzpy/utils.py, translated statement by statement on
every run (harness/anchors_numfn.py).  `K` is any ordered field with square roots (`IsSqrt sqrt`), `inf` (what `np.inf`
stands for) is arbitrary, samples are rationals embedded in `K`.  `fn` is the stream `f 0, f 1, …` (its `n`-th call
returns `f n`); the second component of the result of `Gen.estimateFromRepeats` is the number of times `fn` was called.
-/
namespace Stats
open List

theorem isSqrt_real : IsSqrt (K := ℝ) Real.sqrt := fun a h => ⟨Real.sqrt_nonneg a, Real.mul_self_sqrt h⟩

section generic
variable {K : Type} [Field K] [LinearOrder K] [IsStrictOrderedRing K]

/-- **variance / standard error of the translated methods** — a fresh object (`__init__`) fed a non-empty list through the
translated `update_from_it` reports, through the translated properties `var` and `err`, the whole-sample variance
`Σx²/n − (Σx/n)²` and a non-negative `err` whose square is `var / n` -/
theorem c19_src_var (abs sqrt : K → K) (hsqrt : IsSqrt sqrt) (inf : K) (l : List ℚ) (hl : l ≠ []) :
    let st := Gen.rsUpdateFromIt (Gen.rsInit (K := K)).1 (Gen.rsInit (K := K)).2.1 (Gen.rsInit (K := K)).2.2
      (l.map (Rat.cast : ℚ → K))
    st.1 = ((l.length : ℕ) : K) ∧
    Gen.rsVar abs sqrt inf st.1 st.2.1 st.2.2 = ((sumSq l / (l.length : ℚ) - (l.sum / (l.length : ℚ)) ^ 2 : ℚ) : K) ∧
    0 ≤ Gen.rsErr abs sqrt inf st.1 st.2.1 st.2.2 ∧
    Gen.rsErr abs sqrt inf st.1 st.2.1 st.2.2 * Gen.rsErr abs sqrt inf st.1 st.2.1 st.2.2
      = (((sumSq l / (l.length : ℚ) - (l.sum / (l.length : ℚ)) ^ 2) / (l.length : ℚ) : ℚ) : K) := by
  have hinit : Gen.rsInit (K := K) = RS.init.toK := rsInit_refines
  have h := rsUpdateFromIt_refines (K := K) RS.init l
  simp only [RS.toK] at hinit h
  simp only [hinit]
  rw [h]
  have hrun : RS.init.updateFromIt l = run l := rfl
  rw [hrun]
  have hc : (run l).count = (l.length : ℤ) := count_run l
  have hpos : 0 < (run l).count := by
    rw [hc]
    have : 0 < l.length := List.length_pos_iff.mpr hl
    exact_mod_cast this
  obtain ⟨hv, he⟩ := c19_var l hl
  obtain ⟨e0, esq⟩ := rsErr_sq abs sqrt hsqrt inf (run l) hpos (M2_nonneg l)
  refine ⟨by simp [hc], ?_, e0, ?_⟩
  · rw [rsVar_refines abs sqrt inf (run l) hpos.ne', hv]
  · rw [esq, he]

/-- non-vacuity: over `ℝ` with the real square root; and the translated methods *computed* over `ℚ` on `[1, 2, 6]` -/
example : Gen.rsVar (K := ℚ) id id 0 (Gen.rsUpdateFromIt (K := ℚ) 0 0 0 [1, 2, 6]).1
    (Gen.rsUpdateFromIt (K := ℚ) 0 0 0 [1, 2, 6]).2.1 (Gen.rsUpdateFromIt (K := ℚ) 0 0 0 [1, 2, 6]).2.2 = 14 / 3 := by
  decide +kernel
example := c19_src_var (K := ℝ) (fun a => |a|) Real.sqrt isSqrt_real 0 [1, 2, 6] (by simp)

/-- **covariance of the translated `RunningCovariance`** — a fresh object fed two columns through the translated
`update_from_it` (`zip` stops at the shorter one) reports the whole-sample covariance of the pairs -/
theorem c19_src_covar (xs ys : List ℚ) (hl : xs.zip ys ≠ []) :
    let i := Gen.rcInit (K := K)
    let st := Gen.rcUpdateFromIt i.1 i.2.1 i.2.2.1 i.2.2.2 (xs.map (Rat.cast : ℚ → K)) (ys.map (Rat.cast : ℚ → K))
    let l := xs.zip ys
    st.1 = ((l.length : ℕ) : K) ∧
    Gen.rcCovar st.1 st.2.1 st.2.2.1 st.2.2.2
      = ((sumXY l / (l.length : ℚ) - (sumX l / (l.length : ℚ)) * (sumY l / (l.length : ℚ)) : ℚ) : K) := by
  have hinit : Gen.rcInit (K := K) = RC.init.toK := rcInit_refines
  have h := rcUpdateFromIt_refines (K := K) RC.init xs ys
  simp only [RC.toK] at hinit h
  simp only [hinit]
  rw [h]
  have hrun : RC.init.updateFromIt (xs.zip ys) = runCov (xs.zip ys) := rfl
  rw [hrun]
  have hc : (runCov (xs.zip ys)).count = ((xs.zip ys).length : ℤ) := (invC_run _).count
  refine ⟨by simp [hc], ?_⟩
  rw [(rcCovar_refines (K := K) (runCov (xs.zip ys))).1, (c19_covar _ hl).1]

example : Gen.rcCovar (K := ℚ) (Gen.rcUpdateFromIt (K := ℚ) 0 0 0 0 [1, 3, 2] [2, 6, 4]).1
    (Gen.rcUpdateFromIt (K := ℚ) 0 0 0 0 [1, 3, 2] [2, 6, 4]).2.1 (Gen.rcUpdateFromIt (K := ℚ) 0 0 0 0 [1, 3, 2] [2, 6, 4]).2.2.1
    (Gen.rcUpdateFromIt (K := ℚ) 0 0 0 0 [1, 3, 2] [2, 6, 4]).2.2.2 = 4 / 3 := by decide +kernel

/-- **stopping rule of the translated `estimate_from_repeats`**, `max_samples ≥ 1`, every `get=` mode.  There is an
iteration index `k` such that
* the function returns exactly what the statistics of the first `k + 1` samples give (`estResult`), and `fn` was called
  exactly `k + 1` times — never more than `max_samples`;
* the source's tests allow stopping at `k`: (`k > min_samples` and `converged(rtol, tol_scale * rtol)`) or `k ≥ max_samples − 1`;
* at no earlier iteration did they. -/
theorem c19_src_stop (sqrt : K → K) (hsqrt : IsSqrt sqrt) (inf : K) (f : ℕ → ℚ) (P : Params) (gs gm : Bool)
    (hmax : 1 ≤ P.maxSamples) :
    ∃ k : ℕ, (k : ℤ) < P.maxSamples ∧
      Gen.estimateFromRepeats (fun a => |a|) sqrt inf (fun n => ((f n : ℚ) : K)) (max 1 P.maxSamples.toNat)
          (P.rtol : K) (P.tolScale : K) gs gm P.minSamples P.maxSamples
        = estResult gs gm f (run (pre f (k + 1))) ∧
      (estResult (K := K) gs gm f (run (pre f (k + 1)))).2 = k + 1 ∧
      ((P.minSamples < (k : ℤ) ∧ (run (pre f (k + 1))).converged P.rtol (P.tolScale * P.rtol) = true)
          ∨ P.maxSamples - 1 ≤ (k : ℤ)) ∧
      ∀ j : ℕ, j < k →
        ¬ ((P.minSamples < (j : ℤ) ∧ (run (pre f (j + 1))).converged P.rtol (P.tolScale * P.rtol) = true)
            ∨ P.maxSamples - 1 ≤ (j : ℤ)) := by
  obtain ⟨k, hk, hest, _, hstop, hbefore⟩ := c19_stop f P hmax
  refine ⟨k, hk, ?_, ?_, hstop, hbefore⟩
  · rw [estimateFromRepeats_refines sqrt hsqrt inf f P gs gm, hest]
  · simp [estResult, count_run_pre]

/-- **how many samples are drawn** (`n` = number of calls of `fn`), exactly as the source's two tests imply:
`1 ≤ n ≤ max_samples`; the loop never stops for convergence before `i > min_samples`, i.e. a run that ends before
`max_samples` has drawn at least `min_samples + 2` samples and has converged on them; and a run whose statistics never
converge draws exactly `max_samples` (it always stops at `i = max_samples − 1`). -/
theorem c19_src_sample_count (sqrt : K → K) (hsqrt : IsSqrt sqrt) (inf : K) (f : ℕ → ℚ) (P : Params) (gs gm : Bool)
    (hmax : 1 ≤ P.maxSamples) :
    let n := (Gen.estimateFromRepeats (fun a => |a|) sqrt inf (fun n => ((f n : ℚ) : K)) (max 1 P.maxSamples.toNat)
          (P.rtol : K) (P.tolScale : K) gs gm P.minSamples P.maxSamples).2
    1 ≤ n ∧ (n : ℤ) ≤ P.maxSamples ∧
    ((n : ℤ) < P.maxSamples → P.minSamples + 2 ≤ (n : ℤ) ∧
        (run (pre f n)).converged P.rtol (P.tolScale * P.rtol) = true) ∧
    ((∀ j : ℕ, P.minSamples < (j : ℤ) → (run (pre f (j + 1))).converged P.rtol (P.tolScale * P.rtol) = false) →
        (n : ℤ) = P.maxSamples) := by
  obtain ⟨k, hk, hres, hn, hstop, hbefore⟩ := c19_src_stop sqrt hsqrt inf f P gs gm hmax
  simp only
  rw [hres, hn]
  refine ⟨by omega, by omega, ?_, ?_⟩
  · intro hlt
    rcases hstop with ⟨h1, h2⟩ | h
    · exact ⟨by omega, h2⟩
    · push_cast at hlt; omega
  · intro hnever
    rcases hstop with ⟨h1, h2⟩ | h
    · rw [hnever k h1] at h2; exact Bool.noConfusion h2
    · push_cast; omega

/-- non-vacuity over `ℝ`: a constant stream converges as soon as the rule looks (7 calls of `fn` for `min_samples = 5`);
a limit of 3 cuts a non-converging stream after exactly 3 calls -/
example : (Gen.estimateFromRepeats (fun a => |a|) Real.sqrt 0 (fun _ => (((1 : ℚ) : ℚ) : ℝ)) (max 1 (100 : ℤ).toNat)
    (((1 / 50 : ℚ) : ℚ) : ℝ) ((1 : ℚ) : ℝ) false false 5 100).2 = 7 := by
  rw [estimateFromRepeats_refines Real.sqrt isSqrt_real 0 (fun _ => 1) ⟨1 / 50, 1, 5, 100⟩ false false]
  have : (estimate (fun _ => 1) ⟨1 / 50, 1, 5, 100⟩).count = 7 := by decide +kernel
  simp only [estResult]
  rw [this]; rfl
example : (Gen.estimateFromRepeats (fun a => |a|) Real.sqrt 0 (fun i => (((i : ℚ) * (i : ℚ) : ℚ) : ℝ)) (max 1 (3 : ℤ).toNat)
    (((1 / 1000 : ℚ) : ℚ) : ℝ) ((1 : ℚ) : ℝ) true false 0 3).2 = 3 := by
  rw [estimateFromRepeats_refines Real.sqrt isSqrt_real 0 (fun i => (i : ℚ) * (i : ℚ)) ⟨1 / 1000, 1, 0, 3⟩ true false]
  have : (estimate (fun i => (i : ℚ) * (i : ℚ)) ⟨1 / 1000, 1, 0, 3⟩).count = 3 := by decide +kernel
  simp only [estResult]
  rw [this]; rfl

end generic
end Stats
