import XyzProofs.Lemmas.Script
import Mathlib.Tactic.SplitIfs
/-!
# C16 — the grow command line (`xyzpy-grow`, xyzpy/gen/xyzpy_grow_cli.py `main`)

Stated on `Gen.cliSk`, the effect skeleton translated from the source of `main` on every run
(harness/anchors_scriptopts.py): the effects it attempts, in order, for every way they can fail (`fails` arbitrary),
with or without `--ray`, on a sown (`prepared`) or unsown crop.

* `c16_cli_unsown_raises`: on a crop that is not sown the command raises and `grow_missing` is never attempted;
* `c16_cli_grow_guarded`: whenever `grow_missing` is attempted, the crop was built from the command line's name and
  parent directory, `is_prepared()` was asked right before and answered yes, and the call gets the command line's
  `num_workers` and `verbosity`; it is the last effect and the only `grow_missing`;
* `c16_cli_grows_missing`: if nothing fails on a sown crop, the command returns normally after exactly one `grow_missing`;
* `c16_cli_exact`: hence (`cliRun`, what the driver answers) it grows exactly the ids in `1..B` without a result, each
  once, and nothing — with an error — on an unsown crop.

What `grow_missing` does to the crop directory is C08's theorem (`c08_grow_missing`) and validated here by running the
command in a child process.
-/
namespace Scr
open Gen

def isGrow : CliEff → Bool
  | .growMissing _ _ => true
  | _ => false

theorem c16_cli_unsown_raises (fails : CliEff → Bool) (ray gpusNone : Bool) :
    (cliSk fails ray gpusNone false []).2.isSome = true ∧
    ∀ e ∈ (cliSk fails ray gpusNone false []).1, isGrow e = false := by
  simp only [cliSk, Gen.Default.cliSk]
  cases ray <;> cases gpusNone <;> grind [isGrow]

/-- on an unsown crop, when nothing fails on its own, the command stops right after asking `is_prepared()` -/
theorem c16_cli_unsown_trace (gpusNone : Bool) :
    (cliSk (fun _ => false) false gpusNone false []).1 = [.parseArgs, .mkCrop true true, .isPrepared] ∧
    (cliSk (fun _ => false) false gpusNone false []).2.isSome = true := by
  simp only [cliSk, Gen.Default.cliSk]
  cases gpusNone <;> simp

theorem c16_cli_grow_guarded (fails : CliEff → Bool) (ray gpusNone prepared : Bool) (e : CliEff)
    (he : e ∈ (cliSk fails ray gpusNone prepared []).1) (hg : isGrow e = true) :
    prepared = true ∧ e = .growMissing true true ∧
    (cliSk fails ray gpusNone prepared []).1.reverse.take 3 = [.growMissing true true, .isPrepared, .mkCrop true true] ∧
    (cliSk fails ray gpusNone prepared []).1.filter isGrow = [.growMissing true true] := by
  revert he
  simp only [cliSk, Gen.Default.cliSk]
  cases ray <;> cases gpusNone <;> cases prepared <;>
    simp only [Bool.not_true, Bool.not_false, Bool.false_eq_true, if_false, if_true, List.nil_append, List.cons_append] <;>
    split_ifs <;> intro he <;> simp at he <;>
    (try (rcases he with rfl | rfl | rfl | rfl | rfl <;> simp [isGrow] at hg)) <;> simp [isGrow] <;> decide

theorem c16_cli_grows_missing (ray gpusNone : Bool) :
    (cliSk (fun _ => false) ray gpusNone true []).2 = none ∧
    ((cliSk (fun _ => false) ray gpusNone true []).1.filter isGrow) = [.growMissing true true] := by
  simp only [cliSk, Gen.Default.cliSk]
  cases ray <;> cases gpusNone <;> simp [isGrow] <;> decide

/-- **the CLI grows exactly the missing batches of the named crop, and nothing when the crop is not sown (it raises)** -/
theorem c16_cli_exact (B : Nat) (done : List Nat) :
    cliRun true B done = (missing B done, false) ∧ cliRun false B done = ([], true) ∧
    (missing B done).Nodup ∧ ∀ i, i ∈ missing B done ↔ 1 ≤ i ∧ i ≤ B ∧ i ∉ done := by
  refine ⟨?_, ?_, nodup_missing B done, fun i => mem_missing⟩
  · simp [cliRun, cliSk, Gen.Default.cliSk]
  · simp [cliRun, cliSk, Gen.Default.cliSk]

example : cliRun true 5 [2, 4] = ([1, 3, 5], false) := by decide +kernel
example : cliRun false 5 [2, 4] = ([], true) := by decide +kernel
example : (cliSk (fun _ => false) false true true []).1 =
    [.parseArgs, .mkCrop true true, .isPrepared, .growMissing true true] := by decide +kernel
example : (cliSk (fun e => e == .isPrepared) false true true []) =
    ([.parseArgs, .mkCrop true true, .isPrepared], some .other) := by decide +kernel

end Scr
