import XyzProofs.Props.C10
/-!
# C10 / C11 on the translated body of `write_to_disk` (and `read_from_disk`)

`Gen.writeToDisk` is the body of `write_to_disk(obj, fname)` (xyzpy/gen/cropping.py) translated on every run into a
*state skeleton* (harness/anchors_checkbad.py): a function over an abstract state `S` and a record of file operations
`o : Gen.FileOps S E` — open for writing / dump / close / replace / exists / remove, each applied to one of the two names
`final` (= `fname`) and `tmp` (the other name built from it before the write).

* `writeToDisk_eq_spec` — for ARBITRARY operations the translated body is `wtdSpec`: open the temporary, dump, close (also
  when the dump raised), move it over the final name only if all three went through; on any failure remove the temporary if
  it exists and re-raise.
* On the log of operations attempted (`logOps`, again for arbitrary operations): the final name is only ever the target
  of `replace` (`wtd_final_only_replaced`); the replace is attempted only after open, dump and close succeeded, in that
  order, on the temporary (`wtd_replace_after_close`); the call returns normally iff exactly these four operations ran and
  succeeded (`wtd_ok_iff`); any failure is re-raised (the error of the last operation that failed) and the temporary is
  then gone or its removal was the last thing attempted (`wtd_failure_reraised`, `wtd_failure_cleans_up`).
* Tie to C10's protocol predicate: the file-system trace of ANY run of the translated body is accepted by
  `FS.atomicPublisher` (`c10_write_to_disk_atomic`), hence no final name is ever open for writing at any kill point
  (`c10_write_to_disk_kill_safe`).
* Tie to `Conc.sourceMode`: the publication mode read off the translated body (`sourceModeSk`) is `tmpRename`, agrees with
  the independent syntactic extraction (`Gen.publishViaRename`), and `c10_reachable_inv_source` / `c11_safe_source` hold
  for it.
-/
set_option linter.unusedSimpArgs false
set_option linter.unusedVariables false
namespace WriteSk
open Gen

variable {S E : Type}

/-! ## the specification, for arbitrary operations -/

/-- the `try` body: open the temporary; dump; close whether or not the dump raised (a failing close wins over a failing
dump); replace only if all three went through -/
def wtdBody (o : FileOps S E) (st : S) : S × Option E :=
  match o.openW st .tmp with
  | (s1, some e) => (s1, some e)
  | (s1, none) =>
    match o.dump s1 .tmp with
    | (s2, none) =>
      (match o.close s2 .tmp with
       | (s3, some e) => (s3, some e)
       | (s3, none) => o.replace s3 .tmp .final)
    | (s2, some e) => ((o.close s2 .tmp).1, some ((o.close s2 .tmp).2.getD e))

/-- the handler: remove the temporary if it exists -/
def wtdCleanup (o : FileOps S E) (s : S) : S × Option E :=
  if o.pathExists s .tmp then o.remove s .tmp else (s, none)

/-- `write_to_disk`: the body; if it raised, the clean-up on the state reached, then the exception again (the clean-up's
own exception if it raises) -/
def wtdSpec (o : FileOps S E) (st : S) : S × Option E :=
  match wtdBody o st with
  | (s, none) => (s, none)
  | (s, some e) => ((wtdCleanup o s).1, some ((wtdCleanup o s).2.getD e))

theorem wtdSpec_eq (o : FileOps S E) (st : S) : wtdSpec o st = stOnError (wtdBody o st) (wtdCleanup o) := by
  unfold wtdSpec; rcases wtdBody o st with ⟨s, _ | e⟩ <;> simp

theorem wtdBody_eq (o : FileOps S E) (st : S) :
    stBind (stBind (o.openW st .tmp) fun st => stFinally (o.dump st .tmp) (fun st => o.close st .tmp))
      (fun st => o.replace st .tmp .final) = wtdBody o st := by
  unfold wtdBody
  rcases h1 : o.openW st .tmp with ⟨s1, _ | e1⟩ <;> simp only [stBind_ok, stBind_err]
  rcases h2 : o.dump s1 .tmp with ⟨s2, _ | e2⟩ <;> simp only [stFinally_ok, stFinally_err, stBind_err]
  rcases h3 : o.close s2 .tmp with ⟨s3, _ | e3⟩ <;> simp only [stBind_ok, stBind_err]

/-- **the translated body of `write_to_disk` is `wtdSpec`**, whatever the operations do -/
theorem writeToDisk_eq_spec (o : FileOps S E) (st : S) : Gen.writeToDisk o st = wtdSpec o st := by
  simp only [Gen.writeToDisk, Gen.Default.writeToDisk, wtdSpec_eq, stBind_ret, stWith, wtdBody_eq]
  rfl

/-! ## the log of operations attempted -/

inductive WEv where
  | openW (n : WName) | dump (n : WName) | openR (n : WName) | load (n : WName) | close (n : WName)
  | replace (a b : WName) | remove (n : WName)
deriving DecidableEq, Repr

/-- does the operation name `fname`? -/
def WEv.touchesFinal : WEv → Bool
  | .openW n | .dump n | .openR n | .load n | .close n | .remove n => n == .final
  | .replace a b => a == .final || b == .final

/-- arbitrary operations, with a log of what was attempted and how it ended next to the state -/
def logOps (o : FileOps S E) : FileOps (S × List (WEv × Option E)) E where
  openW := fun s n => (((o.openW s.1 n).1, s.2 ++ [(.openW n, (o.openW s.1 n).2)]), (o.openW s.1 n).2)
  dump := fun s n => (((o.dump s.1 n).1, s.2 ++ [(.dump n, (o.dump s.1 n).2)]), (o.dump s.1 n).2)
  openR := fun s n => (((o.openR s.1 n).1, s.2 ++ [(.openR n, (o.openR s.1 n).2)]), (o.openR s.1 n).2)
  load := fun s n => (((o.load s.1 n).1, s.2 ++ [(.load n, (o.load s.1 n).2)]), (o.load s.1 n).2)
  close := fun s n => (((o.close s.1 n).1, s.2 ++ [(.close n, (o.close s.1 n).2)]), (o.close s.1 n).2)
  replace := fun s a b => (((o.replace s.1 a b).1, s.2 ++ [(.replace a b, (o.replace s.1 a b).2)]), (o.replace s.1 a b).2)
  pathExists := fun s n => o.pathExists s.1 n
  remove := fun s n => (((o.remove s.1 n).1, s.2 ++ [(.remove n, (o.remove s.1 n).2)]), (o.remove s.1 n).2)

/-- the log of a call of the translated `write_to_disk` -/
def wtdLog (o : FileOps S E) (st : S) : List (WEv × Option E) := (Gen.writeToDisk (logOps o) (st, [])).1.2

/-- how the call ended -/
def wtdErr (o : FileOps S E) (st : S) : Option E := (Gen.writeToDisk (logOps o) (st, [])).2

/-- every outcome of the translated body, with its log (arbitrary operations): the case analysis all theorems use -/
macro "wtd_cases " o:ident st:ident : tactic => `(tactic|
  (simp only [wtdLog, wtdErr, writeToDisk_eq_spec, wtdSpec, wtdBody, wtdCleanup, logOps]
   rcases h1 : ($o).openW $st .tmp with ⟨s1, _ | e1⟩ <;> simp only [h1] <;>
   (try (rcases h2 : ($o).dump s1 .tmp with ⟨s2, _ | e2⟩ <;> simp only [h2] <;>
         rcases h3 : ($o).close s2 .tmp with ⟨s3, _ | e3⟩ <;> simp only [h3, Option.getD_none, Option.getD_some] <;>
         (try (rcases h4 : ($o).replace s3 .tmp .final with ⟨s4, _ | e4⟩ <;> simp only [h4])))) <;>
   (try (split
         case' isTrue => (generalize (FileOps.remove $o _ WName.tmp).snd = r; cases r))) <;>
   (try simp only [Option.getD_none, Option.getD_some])))

/-- **the final name is only ever the target of `replace`**: it is never opened for writing, written, closed or removed,
and never moved away -/
theorem wtd_final_only_replaced (o : FileOps S E) (st : S) :
    ∀ x ∈ wtdLog o st, x.1.touchesFinal = true → x.1 = .replace .tmp .final := by
  wtd_cases o st <;> simp [WEv.touchesFinal]

/-- **the replace is attempted only after the dump and the close succeeded**: if it occurs in the log at all, the log
starts `open tmp ✓, dump tmp ✓, close tmp ✓, replace tmp → final` -/
theorem wtd_replace_after_close (o : FileOps S E) (st : S) (r : Option E)
    (h : (WEv.replace .tmp .final, r) ∈ wtdLog o st) :
    ∃ rest, wtdLog o st = [(.openW .tmp, none), (.dump .tmp, none), (.close .tmp, none), (.replace .tmp .final, r)] ++ rest := by
  revert h
  wtd_cases o st <;> simp <;> (try (intro h; subst h; simp))

/-- the call returns normally exactly when the four operations ran and all succeeded (and then nothing else ran) -/
theorem wtd_ok_iff (o : FileOps S E) (st : S) :
    wtdErr o st = none ↔
      wtdLog o st = [(.openW .tmp, none), (.dump .tmp, none), (.close .tmp, none), (.replace .tmp .final, none)] := by
  wtd_cases o st <;> simp

/-- **any failure is re-raised**: the call raises iff some operation failed, and what it raises is the error of the last
operation that failed (the original exception, unless removing the temporary failed too) -/
theorem wtd_failure_reraised (o : FileOps S E) (st : S) :
    wtdErr o st = ((wtdLog o st).reverse.find? (·.2.isSome)).bind (·.2) := by
  wtd_cases o st <;> simp [List.find?_cons]

/-- **on any failure the temporary is removed if it exists**: when the call raised, either removing the temporary was the
last thing attempted, or the temporary does not exist in the state the call ended in -/
theorem wtd_failure_cleans_up (o : FileOps S E) (st : S) (h : wtdErr o st ≠ none) :
    (∃ r, (wtdLog o st).getLast? = some (.remove .tmp, r)) ∨
      o.pathExists (Gen.writeToDisk (logOps o) (st, [])).1.1 .tmp = false := by
  revert h
  wtd_cases o st <;> simp_all

/-- the removal is attempted only after a failure -/
theorem wtd_remove_only_after_failure (o : FileOps S E) (st : S) (r : Option E) (h : (WEv.remove .tmp, r) ∈ wtdLog o st) :
    wtdErr o st ≠ none := by
  revert h
  wtd_cases o st <;> simp

/-! Non-vacuity: nothing fails; the dump fails (the file is still closed, the temporary removed, the error re-raised). -/
def okOps : FileOps Unit String :=
  { openW := fun _ _ => ((), none), dump := fun _ _ => ((), none), openR := fun _ _ => ((), none), load := fun _ _ => ((), none),
    close := fun _ _ => ((), none), replace := fun _ _ _ => ((), none), pathExists := fun _ _ => true, remove := fun _ _ => ((), none) }
example : wtdLog okOps () = [(.openW .tmp, none), (.dump .tmp, none), (.close .tmp, none), (.replace .tmp .final, none)]
    ∧ wtdErr okOps () = none := by
  simp [wtdLog, wtdErr, writeToDisk_eq_spec, wtdSpec, wtdBody, wtdCleanup, logOps, okOps]
example : wtdLog { okOps with dump := fun _ _ => ((), some "disk full") } ()
      = [(.openW .tmp, none), (.dump .tmp, some "disk full"), (.close .tmp, none), (.remove .tmp, none)]
    ∧ wtdErr { okOps with dump := fun _ _ => ((), some "disk full") } () = some "disk full" := by
  simp [wtdLog, wtdErr, writeToDisk_eq_spec, wtdSpec, wtdBody, wtdCleanup, logOps, okOps]

/-! ## `read_from_disk` -/

/-- `read_from_disk(fname)`: open the final name for reading, load, close whether or not the load raised; nothing is
written, moved or removed -/
theorem readFromDisk_eq_spec (o : FileOps S E) (st : S) :
    Gen.readFromDisk o st = stWith (o.openR st .final) (fun s => o.load s .final) (fun s => o.close s .final) := by
  simp only [Gen.readFromDisk, Gen.Default.readFromDisk, stBind_ret]

theorem readFromDisk_reads_only (o : FileOps S E) (st : S) :
    ∀ x ∈ (Gen.readFromDisk (logOps o) (st, [])).1.2, x.1 = .openR .final ∨ x.1 = .load .final ∨ x.1 = .close .final := by
  simp only [readFromDisk_eq_spec, stWith, logOps, stBind, stFinally]
  rcases h1 : o.openR st .final with ⟨s1, _ | e1⟩ <;> simp only [h1] <;>
    (try (rcases h2 : o.load s1 .final with ⟨s2, _ | e2⟩ <;> simp only [h2] <;>
          rcases h3 : o.close s2 .final with ⟨s3, _ | e3⟩ <;> simp only [h3])) <;> simp

example : (Gen.readFromDisk (logOps okOps) ((), [])).1.2 = [(.openR .final, none), (.load .final, none), (.close .final, none)] := by
  simp [readFromDisk_eq_spec, stWith, logOps, stBind, stFinally, okOps]

end WriteSk

/-! ## tie to C10's protocol predicate on file-system traces -/
namespace FS
open Gen WriteSk

variable {S E : Type}

/-- the write-side file-system events of one logged operation of process `pid` (a rename / unlink that failed did not
happen; an open, write or close is counted even when it failed — it may have taken effect) -/
def evOf (pid : Nat) (path : WName → String) : WEv × Option E → List Ev
  | (.openW n, _) => [.openw pid (path n) true]
  | (.dump n, _) => [.write pid (path n) 1]
  | (.close n, _) => [.close pid (path n)]
  | (.replace a b, none) => [.rename pid (path a) (path b)]
  | (.replace _ _, some _) => []
  | (.remove n, none) => [.unlink pid (path n)]
  | (.remove _, some _) => []
  | (.openR _, _) => [.other pid]
  | (.load _, _) => [.other pid]

def traceOf (pid : Nat) (path : WName → String) (log : List (WEv × Option E)) : List Ev := log.flatMap (evOf pid path)

/-- **the trace of ANY run of the translated `write_to_disk` satisfies the publication protocol** (whatever the
operations do, wherever one fails), provided the temporary's name is not itself a final name -/
theorem c10_write_to_disk_atomic (o : FileOps S E) (st : S) (isFinal : String → Bool) (pid : Nat) (path : WName → String)
    (htmp : isFinal (path .tmp) = false) :
    atomicPublisher isFinal (traceOf pid path (wtdLog o st)) = true := by
  have hl : ∀ (v : Nat × Bool), lookup (set ([] : Ghost) (path .tmp) v) (path .tmp) = some v := fun v => lookup_set_self _ _ _
  have hl2 : ∀ (v w : Nat × Bool), lookup (set (set ([] : Ghost) (path .tmp) v) (path .tmp) w) (path .tmp) = some w :=
    fun v w => lookup_set_self _ _ _
  wtd_cases o st <;>
    simp [traceOf, evOf, atomicPublisher, checkFrom, okEv, htmp, glookup, gset, gerase, hl, hl2] <;>
    (try (cases isFinal (path .final) <;> simp [checkFrom, okEv, htmp, glookup, gset, gerase, hl, hl2]))

/-- **a kill at any instant of `write_to_disk` finds every final name closed** -/
theorem c10_write_to_disk_kill_safe (o : FileOps S E) (st : S) (isFinal : String → Bool) (pid : Nat) (path : WName → String)
    (htmp : isFinal (path .tmp) = false) :
    ∀ pre suf, traceOf pid path (wtdLog o st) = pre ++ suf → Safe isFinal (replay pre) :=
  c10_atomic_trace_safe isFinal _ (c10_write_to_disk_atomic o st isFinal pid path htmp)

/-- with a write-in-place body (`open(fname, 'wb')`) the predicate rejects the trace: the hypothesis on the names is
needed and the theorem is not vacuous -/
example : atomicPublisher (fun p => p == "xyz-result-1.jbdmp")
    (traceOf (E := String) 7 (fun | .final => "xyz-result-1.jbdmp" | .tmp => ".tmp-u-xyz-result-1.jbdmp") (wtdLog okOps ())) = true := by
  simp [wtdLog, writeToDisk_eq_spec, wtdSpec, wtdBody, wtdCleanup, logOps, okOps, traceOf, evOf]
  decide

end FS

/-! ## tie to `Conc.sourceMode` -/
namespace Conc
open Gen WriteSk

/-- does the translated body publish by rename?  Run with operations that never fail, it opens, fills and closes the
temporary and then moves it onto the final name — nothing else, in that order -/
def skPublishesViaRename : Bool :=
  decide (wtdLog okOps () = [(.openW .tmp, none), (.dump .tmp, none), (.close .tmp, none), (.replace .tmp .final, none)])

/-- the publication mode of the source, read off the TRANSLATED BODY of `write_to_disk` (and the two facts about the
temporary's name) -/
def sourceModeSk : Mode :=
  if skPublishesViaRename && Gen.tmpNamePrivate && Gen.tmpNameHidden then .tmpRename else .direct

theorem skPublishesViaRename_true : skPublishesViaRename = true := by
  simp only [skPublishesViaRename, decide_eq_true_eq]
  exact (wtd_ok_iff okOps ()).mp (by
    simp [wtdErr, writeToDisk_eq_spec, wtdSpec, wtdBody, wtdCleanup, logOps, okOps])

/-- the two independent readings of the source agree: the syntactic fact `publishViaRename` (harness/anchors_fs.py) and
the behaviour of the translated body -/
theorem c10_publish_agrees : Gen.publishViaRename = skPublishesViaRename := by
  rw [skPublishesViaRename_true]; decide

theorem c11_source_mode_sk : sourceModeSk = .tmpRename := by
  have h2 : Gen.tmpNamePrivate = true := by decide
  have h3 : Gen.tmpNameHidden = true := by decide
  simp [sourceModeSk, skPublishesViaRename_true, h2, h3]

theorem sourceModeSk_eq : sourceModeSk = sourceMode := by rw [c11_source_mode_sk, c11_source_mode]

/-- `c10_reachable_inv` for the mode the translated body implements -/
theorem c10_reachable_inv_source_sk (nb : Nat) (payload : Nat → Payload) (batches : List Nat) (sched : List Act) :
    ∀ i d, (run (init sourceModeSk nb payload batches) sched).res i = some d → d = payload i := by
  rw [c11_source_mode_sk]
  exact c10_reachable_inv nb payload batches sched

/-- `c11_reaper_safe` / `c11_poller_safe` for the mode the translated body implements -/
theorem c11_safe_source_sk (nb : Nat) (payload : Nat → Payload) (batches : List Nat) (sched : List Act) :
    let s' := run (init sourceModeSk nb payload batches) sched
    s'.reaper.failed = false ∧ (s'.reaper.next = nb → s'.reaper.acc = (List.range nb).map payload) ∧
    (∀ i d, s'.res i = some d → d = s'.payload i) ∧ (∀ c ∈ s'.counted, ∀ x ∈ c, x.2 = s'.payload x.1) := by
  rw [sourceModeSk_eq]
  exact c11_safe_source nb payload batches sched

end Conc
