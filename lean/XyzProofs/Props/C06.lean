import XyzProofs.Props.C04
import XyzProofs.Props.C03
/-!
# C06 — a crop attached to a Runner, Harvester or Sampler reaps what a direct run gives

A direct labelled run and a labelled reap both (1) obtain linear results in enumeration order and (2) label them with
the same function of (description, stored sweep).  C04 shows the linear results coincide; here that is lifted to the
Dataset / DataFrame, and to anything computed from it (the harvester's merged store, the sampler's table).
-/
namespace ToDs
open Core List
variable {β : Type}

/-- a direct labelled run is `labelLinear` of the function's values in enumeration order, whatever the strategy -/
theorem toDs_eq_labelLinear (d : Desc) (f : List Nat → List β) (dfl : β) (nl : β → β) (s : Sweep) (st : Strategy)
    (hov : s.overlap = false) (hwf : st.WF s.locs.length) (hne : s.locs ≠ []) :
    toDs d f dfl nl s st = .ok (labelLinear d dfl nl s (s.locs.map f)) := by
  cases hl : s.locs with
  | nil => exact absurd hl hne
  | cons first rest =>
    have hall : ∀ j', ∃ r, core (fun loc => (f loc).getD j' dfl) nl s st = .ok r ∧
        r.nested = processNested s (s.locs.map fun loc => (f loc).getD j' dfl) (nl ((f first).getD j' dfl)) := by
      intro j'
      obtain ⟨r, h1, _, _, h4⟩ := core_ok (fun loc => (f loc).getD j' dfl) nl s st hov hwf
      refine ⟨r, h1, ?_⟩
      rw [h4, hl]
    let g : Nat → Run β := fun j' => Classical.choose (hall j')
    have hg : ∀ j', core (fun loc => (f loc).getD j' dfl) nl s st = .ok (g j') := fun j' => (Classical.choose_spec (hall j')).1
    have hfun : (fun j' => core (fun loc => (f loc).getD j' dfl) nl s st) = fun j' => Except.ok (g j') := funext hg
    have hsplit : coreSplit d.outputs.length f dfl nl s st = .ok ((List.range d.outputs.length).map g) := by
      unfold coreSplit
      rw [hfun]; exact mapM_ok g _
    unfold toDs
    simp only [hsplit]
    congr 2
    rw [List.map_map]
    apply List.map_congr_left
    intro j _
    simp only [Function.comp, List.map_cons]
    rw [(Classical.choose_spec (hall j)).2, hl]
    simp [List.map_map, Function.comp_def]

end ToDs

namespace Crop
open Core List ToDs
variable {β : Type}

/-- **Runner crop = direct run (Dataset)**: the labelled reap of a fully and correctly grown crop equals
`combo_runner_to_ds` run directly on the stored sweep — same dimensions, coordinates, variables, cells, attributes —
for every batch configuration and shuffle permutation -/
theorem c06_runner_eq_direct (P : Perms) (f : List Nat → List β) (nl : β → β) (dfl : β) (desc : Desc)
    (s : St (List β)) (d : Dir (List β)) (info : Info) (c : Batch.Cfg) (o : ReapOpts) (st : Strategy)
    (hd : s.dir = some d) (hinfo : d.info = some info) (hov : info.sweep.overlap = false)
    (hnb : info.nb = (sownBatches P c info.sweep info.shuffle).length)
    (hr : ∀ j (hj : j < (sownBatches P c info.sweep info.shuffle).length),
        lookup d.results (j + 1) = some (.good ((sownBatches P c info.sweep info.shuffle)[j].map f)))
    (hperm : info.shuffle = 0 ∨ P info.shuffle info.sweep.locs.length ~ List.range info.sweep.locs.length)
    (hai : o.allowIncomplete = false) (hne : info.sweep.locs ≠ [])
    (hgate : (readyGate s false o.wait).2 = true) (hwf : st.WF info.sweep.locs.length) :
    ∃ s' ds, reapToDs P nl dfl desc s o = .ok (s', ds) ∧ toDs desc f dfl nl info.sweep st = .ok ds := by
  have hlin := c04_reapLinear_full P f (fun r => r.map nl) s d info c o hd hinfo hnb hr hperm hai hgate
  refine ⟨(if cleanUpResolved o.cleanUp o.allowIncomplete then { (readyGate s false o.wait).1 with dir := none }
      else (readyGate s false o.wait).1), labelLinear desc dfl nl info.sweep (info.sweep.locs.map f), ?_,
    toDs_eq_labelLinear desc f dfl nl _ st hov hwf hne⟩
  unfold reapToDs
  rw [hlin]

/-- **Sampler / DataFrame form**: the rows reaped equal the rows of a direct `*_to_df` run -/
theorem c06_df_eq_direct (P : Perms) (f : List Nat → List β) (nl : β → β) (desc : Desc)
    (s : St (List β)) (d : Dir (List β)) (info : Info) (c : Batch.Cfg) (o : ReapOpts) (st : Strategy)
    (hd : s.dir = some d) (hinfo : d.info = some info) (hov : info.sweep.overlap = false)
    (hnb : info.nb = (sownBatches P c info.sweep info.shuffle).length)
    (hr : ∀ j (hj : j < (sownBatches P c info.sweep info.shuffle).length),
        lookup d.results (j + 1) = some (.good ((sownBatches P c info.sweep info.shuffle)[j].map f)))
    (hperm : info.shuffle = 0 ∨ P info.shuffle info.sweep.locs.length ~ List.range info.sweep.locs.length)
    (hai : o.allowIncomplete = false)
    (hgate : (readyGate s false o.wait).2 = true) (hwf : st.WF info.sweep.locs.length) :
    ∃ s' rows, reapToDf P nl desc s o = .ok (s', rows) ∧
      toDf desc f (fun r => r.map nl) info.sweep st = .ok rows := by
  have hlin := c04_reapLinear_full P f (fun r => r.map nl) s d info c o hd hinfo hnb hr hperm hai hgate
  obtain ⟨r, h1, _, h3, _⟩ := core_ok f (fun r => r.map nl) info.sweep st hov hwf
  refine ⟨(if cleanUpResolved o.cleanUp o.allowIncomplete then { (readyGate s false o.wait).1 with dir := none }
      else (readyGate s false o.wait).1),
    (info.sweep.locs.zip (info.sweep.locs.map f)).map (fun (loc, r) =>
      ({ loc := loc, extra := desc.constants ++ desc.attrs, outputs := r } : Row β)), ?_, ?_⟩
  · unfold reapToDf; rw [hlin]
  · unfold toDf
    rw [h1]
    simp only [h3]

/-- **Harvester / Sampler store**: whatever the farmer computes from the delivered data (merging into the dataset on
disk, appending to the table) is the same as after a direct harvest / sample of the same settings -/
theorem c06_store_eq_direct {σ ε : Type} (deliver : DS β → σ → Except ε σ) (ds₁ ds₂ : DS β) (store : σ)
    (h : ds₁ = ds₂) : deliver ds₁ store = deliver ds₂ store := by rw [h]

/-- reloading the crop (farmer unpickled, function re-attached) changes nothing on disk -/
theorem c06_reload_irrelevant (s : St (List β)) : (opNew s none none 0).dir = s.dir := opNew_dir s none none 0

end Crop
