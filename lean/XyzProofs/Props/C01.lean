import XyzProofs.Lemmas.Core
/-!
# C01 — a grid sweep evaluates every combination exactly once, in its own slot

For every swept function `f`, every grid (`comboVals`, any number of arguments and values), every permutation
`σ` a shuffle could produce, every execution order `π` of an executor, flat/nested/split.
Constants are the same for every call and are not part of a location; the harness checks them in the call log.
-/
namespace Core
open List

variable {β : Type}

/-- a strategy is well formed for `n` settings when its permutations are permutations of `0..n-1` -/
def Strategy.WF (n : Nat) : Strategy → Prop
  | .seq => True
  | .shuffled σ => σ ~ List.range n
  | .executor π => π ~ List.range n
  | .shuffledExecutor σ π => σ ~ List.range n ∧ π ~ List.range n

theorem locs_grid (s : Sweep) (h : s.caseRows = none) : s.locs = product s.comboVals := by
  simp [Sweep.locs, h]

theorem runLinear_results (f : List Nat → β) (locs : List (List Nat)) (st : Strategy) (h : st.WF locs.length) :
    (runLinear f locs st).2 = locs.map f := by
  cases st with
  | seq => rfl
  | shuffled σ => exact runShuffled_eq f locs σ [] h
  | executor π => rfl
  | shuffledExecutor σ π => exact runShuffled_eq f locs σ [] h.1

theorem runLinear_log (f : List Nat → β) (locs : List (List Nat)) (st : Strategy) (h : st.WF locs.length) :
    (runLinear f locs st).1 ~ locs := by
  cases st with
  | seq => exact Perm.refl _
  | shuffled σ => exact applyPerm_perm σ locs [] h
  | executor π => exact applyPerm_perm π locs [] h
  | shuffledExecutor σ π =>
    obtain ⟨hσ, hπ⟩ := h
    have h1 := applyPerm_perm σ locs [] hσ
    have hl : (applyPerm σ locs []).length = locs.length := h1.length_eq
    exact (applyPerm_perm π (applyPerm σ locs []) [] (by rw [hl]; exact hπ)).trans h1

/-- what `core` returns on a well-formed request -/
theorem core_ok (f : List Nat → β) (nl : β → β) (s : Sweep) (st : Strategy)
    (hov : s.overlap = false) (hwf : st.WF s.locs.length) :
    ∃ r, core f nl s st = .ok r ∧ r.log ~ s.locs ∧ r.flat = s.locs.map f ∧
      r.nested = processNested s (s.locs.map f) (nl (match s.locs with | [] => f [] | l :: _ => f l)) := by
  have hres := runLinear_results f s.locs st hwf
  have hlog := runLinear_log f s.locs st hwf
  unfold core
  simp only [hov, Bool.false_eq_true, if_false]
  generalize hrl : runLinear f s.locs st = rl at hres hlog
  obtain ⟨log, results⟩ := rl
  simp only at hres hlog
  subst hres
  cases hl : s.locs with
  | nil =>
    simp only [hl, List.map_nil] at hlog ⊢
    exact ⟨_, rfl, hlog, rfl, rfl⟩
  | cons l rest =>
    simp only [hl, List.map_cons] at hlog ⊢
    exact ⟨_, rfl, hlog, rfl, rfl⟩

/-- **exactly once**: the call log is a permutation of the list of all combinations, under every strategy -/
theorem c01_calls_once (f : List Nat → β) (nl : β → β) (s : Sweep) (st : Strategy)
    (hg : s.caseRows = none) (hov : s.overlap = false) (hwf : st.WF s.locs.length) :
    ∃ r, core f nl s st = .ok r ∧ r.log ~ product s.comboVals := by
  obtain ⟨r, h1, h2, _, _⟩ := core_ok f nl s st hov hwf
  exact ⟨r, h1, by rw [← locs_grid s hg]; exact h2⟩

/-- **flat output**: the function's values in enumeration order, whatever the strategy -/
theorem c01_flat (f : List Nat → β) (nl : β → β) (s : Sweep) (st : Strategy)
    (hg : s.caseRows = none) (hov : s.overlap = false) (hwf : st.WF s.locs.length) :
    ∃ r, core f nl s st = .ok r ∧ r.flat = (product s.comboVals).map f := by
  obtain ⟨r, h1, _, h3, _⟩ := core_ok f nl s st hov hwf
  exact ⟨r, h1, by rw [← locs_grid s hg]; exact h3⟩

/-- **own slot**: the nested output, indexed by the position of each argument's value in the order given, holds
the value returned for precisely that combination -/
theorem c01_slot (f : List Nat → β) (nl : β → β) (s : Sweep) (st : Strategy)
    (hg : s.caseRows = none) (hov : s.overlap = false) (hwf : st.WF s.locs.length)
    (idx : List Nat) (p : List Nat) (hp : pick s.comboVals idx = some p) :
    ∃ r, core f nl s st = .ok r ∧ r.nested.get idx = some (.leaf (f p)) := by
  obtain ⟨r, h1, _, _, h4⟩ := core_ok f nl s st hov hwf
  refine ⟨r, h1, ?_⟩
  rw [h4]
  simp only [processNested, hg]
  rw [unflatten_eq, nest_get _ _ _ _ hp]
  have hmem : p ∈ s.locs := by rw [locs_grid s hg]; exact mem_product_of_pick _ _ _ hp
  rw [lookup_zip_map f s.locs p hmem]
  rfl

/-- **strategy is irrelevant** to what is returned -/
theorem c01_strategy_irrelevant (f : List Nat → β) (nl : β → β) (s : Sweep) (st₁ st₂ : Strategy)
    (hov : s.overlap = false) (h₁ : st₁.WF s.locs.length) (h₂ : st₂.WF s.locs.length) :
    ∃ r₁ r₂, core f nl s st₁ = .ok r₁ ∧ core f nl s st₂ = .ok r₂ ∧ r₁.flat = r₂.flat ∧ r₁.nested = r₂.nested := by
  obtain ⟨r₁, a1, _, a3, a4⟩ := core_ok f nl s st₁ hov h₁
  obtain ⟨r₂, b1, _, b3, b4⟩ := core_ok f nl s st₂ hov h₂
  exact ⟨r₁, r₂, a1, b1, by rw [a3, b3], by rw [a4, b4]⟩

/-- **split outputs**: with `split=True` the `j`-th returned array holds the `j`-th component at every slot -/
theorem c01_split_slot (k : Nat) (f : List Nat → List β) (dfl : β) (nl : β → β) (s : Sweep) (st : Strategy)
    (hg : s.caseRows = none) (hov : s.overlap = false) (hwf : st.WF s.locs.length)
    (j : Nat) (hj : j < k) (idx : List Nat) (p : List Nat) (hp : pick s.comboVals idx = some p) :
    ∃ rs : List (Run β), coreSplit k f dfl nl s st = .ok rs ∧ rs.length = k ∧
      ∃ r, rs[j]? = some r ∧ r.nested.get idx = some (.leaf ((f p).getD j dfl)) ∧
           r.flat = (product s.comboVals).map (fun loc => (f loc).getD j dfl) := by
  unfold coreSplit
  -- every component run succeeds; collect them
  have hall : ∀ j', ∃ r, core (fun loc => (f loc).getD j' dfl) nl s st = .ok r ∧
      r.nested.get idx = some (.leaf ((f p).getD j' dfl)) ∧
      r.flat = (product s.comboVals).map (fun loc => (f loc).getD j' dfl) := by
    intro j'
    obtain ⟨r, h1, h2⟩ := c01_slot (fun loc => (f loc).getD j' dfl) nl s st hg hov hwf idx p hp
    obtain ⟨r', h1', h3⟩ := c01_flat (fun loc => (f loc).getD j' dfl) nl s st hg hov hwf
    rw [h1] at h1'; cases h1'
    exact ⟨r, h1, h2, h3⟩
  let g : Nat → Run β := fun j' => Classical.choose (hall j')
  have hg' : ∀ j', core (fun loc => (f loc).getD j' dfl) nl s st = .ok (g j') := fun j' => (Classical.choose_spec (hall j')).1
  have hfun : (fun j' => core (fun loc => (f loc).getD j' dfl) nl s st) = fun j' => Except.ok (g j') := funext hg'
  have hm : (List.range k).mapM (fun j' => core (fun loc => (f loc).getD j' dfl) nl s st) = .ok ((List.range k).map g) := by
    rw [hfun]; exact mapM_ok g _
  refine ⟨(List.range k).map g, hm, by simp, g j, by simp [hj], ?_, ?_⟩
  · exact (Classical.choose_spec (hall j)).2.1
  · exact (Classical.choose_spec (hall j)).2.2

/-- no duplicate ⇔ `Nodup` -/
theorem firstDup_none_iff (l : List Nat) : firstDup l = none ↔ l.Nodup := by
  induction l with
  | nil => simp [firstDup]
  | cons x xs ih =>
    simp only [firstDup, List.nodup_cons]
    by_cases h : xs.contains x = true
    · simp only [h, if_true]
      constructor
      · intro hh; cases hh
      · intro ⟨hn, _⟩; exact absurd (by simpa using h) hn
    · have hf : xs.contains x = false := by simpa using h
      simp only [hf, Bool.false_eq_true, if_false, ih]
      constructor
      · intro hh; exact ⟨by simpa using h, hh⟩
      · intro hh; exact hh.2

/-- **spellings**: every spelling of one grid is normalised to the same list of (argument, values) pairs, and a grid
with a repeated value for some argument is rejected by the parser — i.e. before the sweep (and hence any call of the
function) starts; an accepted grid has pairwise distinct values per argument -/
theorem c01_spelling (items : List (String × List Nat)) :
    parseCombos (.dict items) = parseCombos (.pairs items) ∧
    (∀ a vs, parseCombos (.single a vs) = parseCombos (.pairs [(a, vs)])) ∧
    (∀ combos, parseCombos (.pairs items) = .ok combos → combos = items ∧ ∀ p ∈ items, p.2.Nodup) ∧
    ((∃ p ∈ items, ¬ p.2.Nodup) → ∃ e, parseCombos (.pairs items) = .error e) := by
  refine ⟨rfl, fun _ _ => rfl, ?_, ?_⟩
  · intro combos h
    simp only [parseCombos] at h
    split at h
    · cases h
    · rename_i hnone
      cases h
      refine ⟨rfl, ?_⟩
      intro p hp
      rw [List.findSome?_eq_none_iff] at hnone
      have := hnone p hp
      rw [← firstDup_none_iff]
      cases hd : firstDup p.2 with
      | none => rfl
      | some v => simp [hd] at this
  · rintro ⟨p, hp, hdup⟩
    simp only [parseCombos]
    split
    · rename_i a v _; exact ⟨_, rfl⟩
    · rename_i hnone
      rw [List.findSome?_eq_none_iff] at hnone
      have := hnone p hp
      have hd : firstDup p.2 = none := by
        cases hd : firstDup p.2 with
        | none => rfl
        | some v => simp [hd] at this
      exact absurd ((firstDup_none_iff _).mp hd) hdup

/-! Non-vacuity: a 2×3 grid run under a 3-cycle-containing shuffle. -/
example : parseCombos (.dict [("a", [1, 2, 1])]) = .error (.duplicate "a" 1) := by rfl
example : parseCombos (.single "a" [1, 2]) = .ok [("a", [1, 2])] := by rfl
def exSweep : Sweep := { comboArgs := ["a", "b"], comboVals := [[0, 1], [0, 1, 2]] }
example : exSweep.caseRows = none ∧ exSweep.overlap = false := by decide
example : (Strategy.shuffled [4, 0, 3, 1, 5, 2]).WF exSweep.locs.length := by
  show [4, 0, 3, 1, 5, 2] ~ List.range 6
  decide
example : pick exSweep.comboVals [1, 2] = some [1, 2] := by decide

end Core
