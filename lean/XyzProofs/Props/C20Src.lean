import XyzProofs.Refine.Fmt
import XyzProofs.Props.C20
/-!
# C20 — the statements of `Props/C20.lean`, on the *translated source*

`Fmt.Src.format i` is the body of `format_number_with_error` (xyzpy/utils.py), translated statement by statement on every
run (`Gen.fmtNumberWithError`, harness/anchors_numfn.py), run on the model's formatting primitives and with the returned
f-string read back into `Out` (`XyzProofs/Refine/Fmt.lean`).  Hypotheses as in `Props/C20.lean`: exact rationals, the two
float divisions enter as data with the slack hypothesis `gapOk`.
-/
namespace Fmt

/-- the translated function answers for every value, every positive error and positive rescaled error, and its f-string
has one of the two shapes `digits(mm)` / `digits(mm)e±kk` -/
theorem c20_src_total (i : Inp) (herr : 0 < i.err) (hax : 0 ≤ i.ax) (herrs : 0 < i.errs) :
    ∃ o, Src.format i = some o := by
  rw [format_refines i herr hax herrs]
  exact c20_format_total i herr hax herrs

/-- **read-back of what the translated function returns**, in terms of the original `x` and `err`: the output denotes an
uncertainty `U = m·10^(E−1)·10^K`, `10 ≤ m ≤ 99`, `E ≤ 1`, within `½·unit + τ·err` of `err`, and a value within
`½·unit + τ·|x|` of `x`, where `unit = 10^(E−1)·10^K` is the weight of the last shown digit of both -/
theorem c20_src_reads_back (i : Inp) (o : Out) (τ : ℚ) (hτ0 : 0 ≤ τ) (hτ : τ ≤ 1) (herr : 0 < i.err) (hax : 0 ≤ i.ax)
    (herrs : 0 < i.errs) (h : Src.format i = some o)
    (hgap : ∀ k, kOf i = some k → hide i k = false → gapOk i k τ = true) :
    ∃ (m E K : ℤ), (10 : ℚ) ≤ m ∧ (m : ℚ) < 100 ∧ E ≤ 1 ∧
      (denote o).2 = (m : ℚ) * ((10 : ℚ) ^ (E - 1) * (10 : ℚ) ^ K) ∧
      |(denote o).2 - i.err| ≤ (1 / 2) * ((10 : ℚ) ^ (E - 1) * (10 : ℚ) ^ K) + τ * i.err ∧
      |(denote o).1 - sign i * i.ax| ≤ (1 / 2) * ((10 : ℚ) ^ (E - 1) * (10 : ℚ) ^ K) + τ * i.ax := by
  rw [format_refines i herr hax herrs] at h
  exact c20_reads_back i o τ hτ0 hτ herr hax h hgap

/-- the printed exponent is hidden exactly when the source's rule says so, and then nothing was rescaled -/
theorem c20_src_suffix (i : Inp) (o : Out) (k : ℤ) (herr : 0 < i.err) (hax : 0 ≤ i.ax) (herrs : 0 < i.errs)
    (h : Src.format i = some o) (hk : kOf i = some k) :
    o.k = if hide i k then none else some k := by
  rw [format_refines i herr hax herrs] at h
  obtain ⟨k', m, E, hk', _, ho⟩ := format_some h
  rw [hk] at hk'
  obtain rfl : k = k' := by simpa using hk'
  rw [ho]

/-! ### non-vacuity: the translated function *computed* on the D13 witness and the docstring examples -/

example : (Src.format ⟨false, 999 / 10, 249 / 25, 999 / 100, 249 / 250, true⟩).map render = some "100(10)" := by
  decide +kernel
example : (Src.format ⟨false, 1542412 / 10000000, 626653 / 10000000, 1542412 / 1000000, 626653 / 1000000, false⟩).map
    render = some "0.154(63)" := by decide +kernel
example : (Src.format ⟨true, 128124123097, 6424, 128124123097 / 100000000000, 6424 / 100000000000, true⟩).map
    render = some "-1.281241231(64)e+11" := by decide +kernel

end Fmt
