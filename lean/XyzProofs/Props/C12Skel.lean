import XyzModel.Crop
/-!
# C12 / C09 on the translated control flow: the order of effects of the five reap methods

`Gen.reapCombosSk`, `Gen.reapCombosToDsSk`, `Gen.reapRunnerSk`, `Gen.reapHarvestSk`, `Gen.reapSamplesSk` are the bodies
of `Crop.reap_combos`, `reap_combos_to_ds`, `reap_runner`, `reap_harvest`, `reap_samples` translated from the
repository source on every run into *effect skeletons* (harness/pysk2lean.py): the list of effects attempted, in
order, for every way the effects can fail (`fails : Eff → Bool` is arbitrary) and every option set.  The inner calls
(`reap_harvest → reap_runner → reap_combos_to_ds`) are calls between the skeletons with the arguments as the source
passes them (`clean_up=False`, `clean_up=clean_up`, …).

The theorems are the property's own words: the crop directory is removed only as the very last effect, after every
other effect went through; after a successful reap it is removed exactly when the resolved `clean_up` says so; for a
Harvester / Sampler the merge-and-save (`sync`) and the recording of the last result come before it; a reap that
raises has removed nothing.
-/
set_option linter.unusedSimpArgs false
namespace Skel
open Gen

/-- split a trace at the first `deleteAll` -/
def splitDel : List Eff → Option (List Eff × List Eff)
  | [] => none
  | e :: es => if e = .deleteAll then some ([], es) else (splitDel es).map (fun p => (e :: p.1, p.2))

/-- what `splitDel` computes: the trace is `pre ++ deleteAll :: suf` with no `deleteAll` in `pre` -/
theorem splitDel_spec (tr pre suf : List Eff) (h : splitDel tr = some (pre, suf)) :
    tr = pre ++ Eff.deleteAll :: suf ∧ Eff.deleteAll ∉ pre := by
  induction tr generalizing pre suf with
  | nil => simp [splitDel] at h
  | cons e es ih =>
    unfold splitDel at h
    split at h
    · rename_i he
      simp only [Option.some.injEq, Prod.mk.injEq] at h
      obtain ⟨rfl, rfl⟩ := h
      simp [he]
    · rename_i he
      cases hs : splitDel es with
      | none => simp [hs] at h
      | some p =>
        simp only [hs, Option.map_some, Option.some.injEq, Prod.mk.injEq] at h
        obtain ⟨rfl, rfl⟩ := h
        obtain ⟨h1, h2⟩ := ih p.1 p.2 (by simp [hs])
        constructor
        · simp [h1]
        · simp only [List.mem_cons, not_or]
          exact ⟨fun hc => he hc.symm, h2⟩

theorem splitDel_none (tr : List Eff) (h : splitDel tr = none) : Eff.deleteAll ∉ tr := by
  induction tr with
  | nil => simp
  | cons e es ih =>
    unfold splitDel at h
    split at h
    · simp at h
    · rename_i he
      cases hs : splitDel es with
      | none => simp only [List.mem_cons, not_or]; exact ⟨fun hc => he hc.symm, ih hs⟩
      | some p => simp [hs] at h

/-- deletion, if it is attempted at all, is the last effect, and every effect before it went through -/
def DeleteLast (fails : Eff → Bool) (tr : List Eff) : Prop :=
  match splitDel tr with
  | none => True
  | some (pre, suf) => suf = [] ∧ pre.all (fun e => !fails e) = true

/-- … and these effects all came before it -/
def Before (needed : List Eff) (tr : List Eff) : Prop :=
  match splitDel tr with
  | none => True
  | some (pre, _) => ∀ e ∈ needed, e ∈ pre

/-- a body that raised has removed nothing, unless the removal itself is what raised -/
def ErrorKeeps (fails : Eff → Bool) (out : List Eff × Option PyErr) : Prop :=
  out.2 ≠ none → (Eff.deleteAll ∉ out.1 ∨ fails .deleteAll = true)

macro "sk_unfold" : tactic => `(tactic|
  simp only [reapCombosSk, Default.reapCombosSk, reapCombosToDsSk, Default.reapCombosToDsSk, reapRunnerSk,
    Default.reapRunnerSk, reapHarvestSk, Default.reapHarvestSk, reapSamplesSk, Default.reapSamplesSk,
    calcCleanUp, Default.calcCleanUp])

macro "sk_simp" : tactic => `(tactic|
  simp_all [DeleteLast, Before, ErrorKeeps, splitDel, Crop.cleanUpResolved, Gen.cleanUpDefault, Gen.Default.cleanUpDefault])

/-- decide effect by effect, in the order they can occur: the branch in which the effect raises ends the body there
and closes at once, so the number of goals stays small -/
macro "sk_step " t:term : tactic => `(tactic|
  all_goals (cases hf : $t <;> first | (sk_simp; done) | sk_simp | skip))

macro "sk_close " f:ident : tactic => `(tactic|
  (sk_step ($f Eff.loadInfo)
   sk_step ($f Eff.checkReady)
   sk_step ($f Eff.allNan)
   sk_step ($f Eff.gather)
   sk_step ($f Eff.label)
   sk_step ($f Eff.reaperExit)
   sk_step ($f Eff.setLast)
   sk_step ($f Eff.sync)
   sk_step ($f Eff.deleteAll)
   all_goals (first | done | sk_simp)))

/-! ## `reap_combos` (crops without a farmer) -/

theorem reapCombos_deleteLast (fails : Eff → Bool) (wait : Bool) (cu : Option Bool) (ai : Bool) :
    DeleteLast fails (reapCombosSk fails wait cu ai []).1 := by
  sk_unfold
  rcases cu with _ | _ | _ <;> cases ai
  sk_close fails

theorem reapCombos_deletes_iff (fails : Eff → Bool) (wait : Bool) (cu : Option Bool) (ai : Bool)
    (h : (reapCombosSk fails wait cu ai []).2 = none) :
    (Eff.deleteAll ∈ (reapCombosSk fails wait cu ai []).1 ↔ Crop.cleanUpResolved cu ai = true) := by
  revert h
  sk_unfold
  rcases cu with _ | _ | _ <;> cases ai
  sk_close fails

theorem reapCombos_errorKeeps (fails : Eff → Bool) (wait : Bool) (cu : Option Bool) (ai : Bool) :
    ErrorKeeps fails (reapCombosSk fails wait cu ai []) := by
  sk_unfold
  rcases cu with _ | _ | _ <;> cases ai 
  sk_close fails

/-- the results are gathered and the Reaper's left-over check has passed before anything is removed -/
theorem reapCombos_before (fails : Eff → Bool) (wait : Bool) (cu : Option Bool) (ai : Bool) :
    Before [.checkReady, .gather, .reaperExit] (reapCombosSk fails wait cu ai []).1 := by
  sk_unfold
  rcases cu with _ | _ | _ <;> cases ai
  sk_close fails

/-! ## `reap_runner` (through `reap_combos_to_ds`) -/

theorem reapRunner_deleteLast_partial (fails : Eff → Bool) (wait : Bool) (cu : Option Bool) (ai toDf : Bool) :
    -- the runner's last result is recorded *after* the inner reap has cleaned up: deletion is the last effect of the
    -- inner `reap_combos_to_ds`, followed only by `setLast`
    DeleteLast fails (reapCombosToDsSk fails wait cu ai toDf false []).1 := by
  sk_unfold
  rcases cu with _ | _ | _ <;> cases ai
  sk_close fails

theorem reapRunner_deletes_iff (fails : Eff → Bool) (wait : Bool) (cu : Option Bool) (ai toDf : Bool)
    (h : (reapRunnerSk fails wait cu ai toDf []).2 = none) :
    (Eff.deleteAll ∈ (reapRunnerSk fails wait cu ai toDf []).1 ↔ Crop.cleanUpResolved cu ai = true) := by
  revert h
  sk_unfold
  rcases cu with _ | _ | _ <;> cases ai
  sk_close fails

theorem reapRunner_before (fails : Eff → Bool) (wait : Bool) (cu : Option Bool) (ai toDf : Bool) :
    Before [.checkReady, .gather, .label, .reaperExit] (reapRunnerSk fails wait cu ai toDf []).1 := by
  sk_unfold
  rcases cu with _ | _ | _ <;> cases ai
  sk_close fails

/-! ## `reap_harvest` / `reap_samples` -/

theorem reapHarvest_deleteLast (fails : Eff → Bool) (wait sync : Bool) (cu : Option Bool) (ai : Bool) :
    DeleteLast fails (reapHarvestSk fails wait sync cu ai []).1 := by
  sk_unfold
  rcases cu with _ | _ | _ <;> cases ai <;> cases sync
  sk_close fails

set_option maxHeartbeats 1600000 in
theorem reapHarvest_deletes_iff (fails : Eff → Bool) (wait sync : Bool) (cu : Option Bool) (ai : Bool)
    (h : (reapHarvestSk fails wait sync cu ai []).2 = none) :
    (Eff.deleteAll ∈ (reapHarvestSk fails wait sync cu ai []).1 ↔ Crop.cleanUpResolved cu ai = true) := by
  revert h
  sk_unfold
  rcases cu with _ | _ | _ <;> cases ai <;> cases sync
  sk_close fails

/-- **the crop is deleted only after the new data was merged and saved** -/
theorem reapHarvest_sync_before_delete (fails : Eff → Bool) (wait : Bool) (cu : Option Bool) (ai : Bool) :
    Before [.checkReady, .gather, .label, .reaperExit, .setLast, .sync] (reapHarvestSk fails wait true cu ai []).1 := by
  sk_unfold
  rcases cu with _ | _ | _ <;> cases ai
  sk_close fails

set_option maxHeartbeats 1600000 in
theorem reapHarvest_errorKeeps (fails : Eff → Bool) (wait sync : Bool) (cu : Option Bool) (ai : Bool) :
    ErrorKeeps fails (reapHarvestSk fails wait sync cu ai []) := by
  sk_unfold
  rcases cu with _ | _ | _ <;> cases ai <;> cases sync 
  sk_close fails

theorem reapSamples_deleteLast (fails : Eff → Bool) (wait sync : Bool) (cu : Option Bool) (ai : Bool) :
    DeleteLast fails (reapSamplesSk fails wait sync cu ai []).1 := by
  sk_unfold
  rcases cu with _ | _ | _ <;> cases ai <;> cases sync
  sk_close fails

set_option maxHeartbeats 1600000 in
theorem reapSamples_deletes_iff (fails : Eff → Bool) (wait sync : Bool) (cu : Option Bool) (ai : Bool)
    (h : (reapSamplesSk fails wait sync cu ai []).2 = none) :
    (Eff.deleteAll ∈ (reapSamplesSk fails wait sync cu ai []).1 ↔ Crop.cleanUpResolved cu ai = true) := by
  revert h
  sk_unfold
  rcases cu with _ | _ | _ <;> cases ai <;> cases sync
  sk_close fails

theorem reapSamples_sync_before_delete (fails : Eff → Bool) (wait : Bool) (cu : Option Bool) (ai : Bool) :
    Before [.checkReady, .gather, .label, .reaperExit, .setLast, .sync] (reapSamplesSk fails wait true cu ai []).1 := by
  sk_unfold
  rcases cu with _ | _ | _ <;> cases ai
  sk_close fails

set_option maxHeartbeats 1600000 in
theorem reapSamples_errorKeeps (fails : Eff → Bool) (wait sync : Bool) (cu : Option Bool) (ai : Bool) :
    ErrorKeeps fails (reapSamplesSk fails wait sync cu ai []) := by
  sk_unfold
  rcases cu with _ | _ | _ <;> cases ai <;> cases sync 
  sk_close fails

/-! Non-vacuity: a run in which everything goes through and the default options delete the crop last. -/
example : (reapHarvestSk (fun _ => false) false true none false []).1
    = [.loadInfo, .checkReady, .loadInfo, .gather, .label, .reaperExit, .setLast, .sync, .deleteAll] := by
  sk_unfold; simp
example : (reapHarvestSk (fun e => e == .sync) false true none false []) =
    ([.loadInfo, .checkReady, .loadInfo, .gather, .label, .reaperExit, .setLast, .sync], some .other) := by
  sk_unfold; simp

end Skel
