import XyzModel.CropFS
import XyzProofs.Props.C08
import XyzProofs.Props.C11
/-!
# C10 — killing a worker at any instant never corrupts what is later reaped

1. (`FS`) A trace of file operations that satisfies the protocol predicate `atomicPublisher` never has a final name
   open for writing, at any prefix — i.e. at any instant a kill may strike.  The predicate is evaluated on the traces of
   the real library on every run.
2. (`Conc`) Under that protocol every result file any later process can see is complete, whichever processes stopped
   for ever (`c11_poller_safe`, re-exported here as `c10_reachable_inv`); the harvester / sampler data file shows the old
   or the new content at every instant.
3. (`Crop`) From a directory in which every present result is complete and correct (`Good`), a reap returns an error or
   the exact direct result, and the documented recovery (re-sow if sown files are missing, check_bad, grow the missing
   batches, reap) returns the exact result.
-/
namespace FS
open List

/-- no final name is open for writing -/
def Safe (isFinal : String → Bool) (s : State) : Prop :=
  ∀ p f, isFinal p = true → lookup s p = some f → f.openW = false

/-- ghost and state agree: a temporary the ghost calls closed is not open for writing -/
def Agree (g : Ghost) (s : State) : Prop :=
  ∀ p pid, glookup g p = some (pid, true) → ∀ f, lookup s p = some f → f.openW = false

theorem lookup_set_self {γ} (s : List (String × γ)) (p : String) (f : γ) : lookup (set s p f) p = some f := by
  unfold set lookup erase
  rw [List.find?_append]
  have : (s.filter (·.1 != p)).find? (fun x => x.1 == p) = none := by
    apply List.find?_eq_none.mpr
    intro x hx
    have := (List.mem_filter.mp hx).2
    simpa using this
  simp [this]

theorem lookup_erase_ne {γ} (s : List (String × γ)) (p q : String) (h : q ≠ p) : lookup (erase s p) q = lookup s q := by
  unfold lookup erase
  congr 1
  induction s with
  | nil => rfl
  | cons x xs ih =>
    by_cases hx : x.1 = p
    · have hf : (x.1 != p) = false := by rw [bne_eq_false_iff_eq]; exact hx
      have hne : (x.1 == q) = false := by rw [beq_eq_false_iff_ne]; intro hh; exact h (hh ▸ hx)
      rw [List.filter_cons_of_neg (by simp [hf]), List.find?_cons_of_neg (by simp [hne])]
      exact ih
    · have hf : (x.1 != p) = true := by rw [bne_iff_ne]; exact hx
      simp only [List.filter_cons, hf, ↓reduceIte]
      by_cases hq : x.1 = q
      · have : (x.1 == q) = true := by rw [beq_iff_eq]; exact hq
        rw [List.find?_cons_of_pos (by exact this), List.find?_cons_of_pos (by exact this)]
      · have : (x.1 == q) = false := by rw [beq_eq_false_iff_ne]; exact hq
        rw [List.find?_cons_of_neg (by simp [this]), List.find?_cons_of_neg (by simp [this])]
        exact ih

theorem lookup_erase_self {γ} (s : List (String × γ)) (p : String) : lookup (erase s p) p = none := by
  unfold lookup erase
  have : (s.filter (·.1 != p)).find? (fun x => x.1 == p) = none := by
    apply List.find?_eq_none.mpr
    intro x hx
    have := (List.mem_filter.mp hx).2
    simpa using this
  rw [this]; rfl

theorem lookup_set_ne {γ} (s : List (String × γ)) (p q : String) (f : γ) (h : q ≠ p) : lookup (set s p f) q = lookup s q := by
  unfold set
  have h1 : lookup (erase s p ++ [(p, f)]) q = lookup (erase s p) q := by
    unfold lookup
    rw [List.find?_append]
    cases hfind : (erase s p).find? (fun x => x.1 == q) with
    | some x => rfl
    | none =>
      have : (p == q) = false := by rw [beq_eq_false_iff_ne]; exact Ne.symm h
      simp [List.find?_cons, this]
  rw [h1, lookup_erase_ne s p q h]

/-- one accepted event keeps every final name closed -/
theorem okEv_safe (isFinal : String → Bool) (g g' : Ghost) (s : State) (e : Ev)
    (hok : okEv isFinal g e = some g') (hs : Safe isFinal s) (ha : Agree g s) :
    Safe isFinal (apply s e) := by
  intro p f hp hl
  cases e with
  | openw pid q trunc =>
    simp only [okEv] at hok
    split at hok
    · cases hok
    · rename_i hq
      have hne : p ≠ q := fun h => hq (h ▸ hp)
      simp only [apply] at hl
      split at hl <;> (rw [lookup_set_ne _ _ _ _ hne] at hl; exact hs p f hp hl)
  | write pid q n =>
    simp only [okEv] at hok
    split at hok
    · cases hok
    · rename_i hq
      have hne : p ≠ q := fun h => hq (h ▸ hp)
      simp only [apply] at hl
      split at hl
      · rw [lookup_set_ne _ _ _ _ hne] at hl; exact hs p f hp hl
      · exact hs p f hp hl
  | close pid q =>
    simp only [apply] at hl
    split at hl
    · rename_i f0 hf0
      by_cases hpq : p = q
      · subst hpq; rw [lookup_set_self] at hl; cases hl; rfl
      · rw [lookup_set_ne _ _ _ _ hpq] at hl; exact hs p f hp hl
    · exact hs p f hp hl
  | rename pid a b =>
    simp only [okEv] at hok
    split at hok
    · cases hok
    · rename_i hafin
      simp only [apply] at hl
      split at hl
      · rename_i fa hfa
        by_cases hpb : p = b
        · subst hpb
          rw [lookup_set_self] at hl; cases hl
          -- b is final: the source was a closed temporary of the same process
          simp only [hp, if_true] at hok
          split at hok
          · rename_i pid' hg
            exact ha a pid' hg f hfa
          · cases hok
        · rw [lookup_set_ne _ _ _ _ hpb] at hl
          have hpa : p ≠ a := fun h => hafin (h ▸ hp)
          rw [lookup_erase_ne _ _ _ hpa] at hl
          exact hs p f hp hl
      · exact hs p f hp hl
  | unlink pid q =>
    simp only [apply] at hl
    by_cases hpq : p = q
    · subst hpq; rw [lookup_erase_self] at hl; cases hl
    · rw [lookup_erase_ne _ _ _ hpq] at hl; exact hs p f hp hl
  | other pid => exact hs p f hp hl

/-- one accepted event keeps ghost and state in agreement -/
theorem okEv_agree (isFinal : String → Bool) (g g' : Ghost) (s : State) (e : Ev)
    (hok : okEv isFinal g e = some g') (ha : Agree g s) : Agree g' (apply s e) := by
  intro p pid hgp f hl
  cases e with
  | openw pid0 q trunc =>
    simp only [okEv] at hok
    split at hok
    · cases hok
    · cases hok
      have hne : p ≠ q := by
        intro h; subst h
        simp [glookup, gset, lookup_set_self] at hgp
      simp only [glookup, gset, lookup_set_ne _ _ _ _ hne] at hgp
      simp only [apply] at hl
      split at hl <;> (rw [lookup_set_ne _ _ _ _ hne] at hl; exact ha p pid hgp f hl)
  | write pid0 q n =>
    simp only [okEv] at hok
    split at hok
    · cases hok
    · cases hok
      simp only [apply] at hl
      split at hl
      · rename_i f0 hf0
        by_cases hpq : p = q
        · subst hpq
          rw [lookup_set_self] at hl; cases hl
          exact ha p pid hgp f0 hf0
        · rw [lookup_set_ne _ _ _ _ hpq] at hl; exact ha p pid hgp f hl
      · exact ha p pid hgp f hl
  | close pid0 q =>
    simp only [apply] at hl
    by_cases hpq : p = q
    · subst hpq
      split at hl
      · rw [lookup_set_self] at hl; cases hl; rfl
      · rename_i hnone; rw [hnone] at hl; cases hl
    · have hg : glookup g p = some (pid, true) := by
        simp only [okEv] at hok
        split at hok
        · split at hok
          · cases hok; simpa [glookup, gset, lookup_set_ne _ _ _ _ hpq] using hgp
          · cases hok; exact hgp
        · cases hok; exact hgp
      split at hl
      · rw [lookup_set_ne _ _ _ _ hpq] at hl; exact ha p pid hg f hl
      · exact ha p pid hg f hl
  | rename pid0 a b =>
    simp only [okEv] at hok
    split at hok
    · cases hok
    · rename_i hafin
      simp only [apply] at hl
      split at hok
      · -- b final: ghost entry of a removed
        split at hok
        · rename_i pid' hga
          split at hok
          · cases hok
            have hpa : p ≠ a := by
              intro h; subst h
              simp [glookup, gerase, lookup_erase_self] at hgp
            simp only [glookup, gerase, lookup_erase_ne _ _ _ hpa] at hgp
            split at hl
            · rename_i fa hfa
              by_cases hpb : p = b
              · subst hpb; rw [lookup_set_self] at hl; cases hl
                exact ha a pid' hga f hfa
              · rw [lookup_set_ne _ _ _ _ hpb, lookup_erase_ne _ _ _ hpa] at hl
                exact ha p pid hgp f hl
            · exact ha p pid hgp f hl
          · cases hok
        · cases hok
      · -- b not final: both names stop being tracked
        cases hok
        have hpb : p ≠ b := by
          intro h; subst h
          simp [glookup, gerase, lookup_erase_self] at hgp
        simp only [glookup, gerase, lookup_erase_ne _ _ _ hpb] at hgp
        have hpa : p ≠ a := by
          intro h; subst h
          simp [lookup_erase_self] at hgp
        rw [lookup_erase_ne _ _ _ hpa] at hgp
        split at hl
        · rw [lookup_set_ne _ _ _ _ hpb, lookup_erase_ne _ _ _ hpa] at hl
          exact ha p pid hgp f hl
        · exact ha p pid hgp f hl
  | unlink pid0 q =>
    cases hok
    simp only [apply] at hl
    by_cases hpq : p = q
    · subst hpq; rw [lookup_erase_self] at hl; cases hl
    · simp only [glookup, gerase, lookup_erase_ne _ _ _ hpq] at hgp
      rw [lookup_erase_ne _ _ _ hpq] at hl
      exact ha p pid hgp f hl
  | other pid0 => cases hok; exact ha p pid hgp f hl

theorem safe_nil (isFinal : String → Bool) : Safe isFinal [] ∧ Agree [] [] := by
  constructor
  · intro p f _ h; simp [lookup] at h
  · intro p pid h; simp [glookup, lookup] at h

theorem checkFrom_safe (isFinal : String → Bool) (tr : List Ev) :
    ∀ (g : Ghost) (s : State), Safe isFinal s → Agree g s → (checkFrom isFinal g tr).isSome = true →
      ∀ pre suf, tr = pre ++ suf → Safe isFinal (pre.foldl apply s) := by
  induction tr with
  | nil =>
    intro g s hs _ _ pre suf h
    have : pre = [] := by
      cases pre with
      | nil => rfl
      | cons a t => simp at h
    subst this; exact hs
  | cons e rest ih =>
    intro g s hs ha hck pre suf h
    cases pre with
    | nil => exact hs
    | cons e' pre' =>
      simp only [List.cons_append, List.cons.injEq] at h
      obtain ⟨rfl, hrest⟩ := h
      simp only [checkFrom] at hck
      cases hok : okEv isFinal g e with
      | none => rw [hok] at hck; simp at hck
      | some g' =>
        rw [hok] at hck
        simp only [List.foldl_cons]
        exact ih g' (apply s e) (okEv_safe isFinal g g' s e hok hs ha) (okEv_agree isFinal g g' s e hok ha) hck
          pre' suf hrest

/-- **a kill at any instant finds every final name closed**: for a trace accepted by the protocol predicate, after
*every prefix* of the trace (every point at which the process may be killed) no info / function / batch / result / data
file is open for writing — it either does not exist or is a complete, closed file that was moved into place -/
theorem c10_atomic_trace_safe (isFinal : String → Bool) (tr : List Ev) (h : atomicPublisher isFinal tr = true) :
    ∀ pre suf, tr = pre ++ suf → Safe isFinal (replay pre) :=
  checkFrom_safe isFinal tr [] [] (safe_nil isFinal).1 (safe_nil isFinal).2 h

/-! Non-vacuity: a real-looking trace (temporary written, closed, renamed) is accepted; the old order is rejected. -/
def exFinal (p : String) : Bool := p == "res-1"
example : atomicPublisher exFinal [.openw 1 ".tmp-a" true, .write 1 ".tmp-a" 10, .close 1 ".tmp-a", .rename 1 ".tmp-a" "res-1"] = true := by
  decide
example : atomicPublisher exFinal [.openw 1 "res-1" true, .write 1 "res-1" 10, .close 1 "res-1"] = false := by decide

end FS

namespace Conc

/-- **every visible result file is complete, whichever processes were killed** (a killed process is one the schedule
never runs again; the statement holds for every schedule) -/
theorem c10_reachable_inv (nb : Nat) (payload : Nat → Payload) (batches : List Nat) (sched : List Act) :
    ∀ i d, (run (init .tmpRename nb payload batches) sched).res i = some d → d = payload i := by
  intro i d h
  have := (c11_poller_safe nb payload batches sched).1 i d h
  rw [(run_nb_payload _ sched).2] at this
  exact this

/-- the same for the publication mode the current source implements (`sourceMode`, extracted from `write_to_disk`) -/
theorem c10_reachable_inv_source (nb : Nat) (payload : Nat → Payload) (batches : List Nat) (sched : List Act) :
    ∀ i d, (run (init sourceMode nb payload batches) sched).res i = some d → d = payload i := by
  rw [c11_source_mode]
  exact c10_reachable_inv nb payload batches sched

/-- **merged data survives**: while the data file is replaced by rename, every instant shows either the old or the new
complete content -/
theorem c10_harvest_survives (old new : Payload) (chunks k : Nat) :
    dataVisible .tmpRename old new chunks k = some old ∨ dataVisible .tmpRename old new chunks k = some new := by
  simp only [dataVisible]
  by_cases h : k < chunks + 3 <;> simp [h]

/-- …whereas remove-then-rewrite has an instant with no copy at all, and instants with a partial copy -/
theorem c10_direct_mode_counterexamples :
    dataVisible .direct [1, 2, 3] [1, 2, 3, 4] 2 1 = none ∧
    dataVisible .direct [1, 2, 3] [1, 2, 3, 4] 2 3 = some [1] ∧
    (run (init .direct 1 (fun _ => [7, 8]) [0]) [.grow 0, .grow 0]).res 0 = some [7] := by decide

end Conc

namespace Crop
open Core List
variable {β : Type}

/-- a reap stream built without placeholders succeeded ⇒ every result file was there and loadable -/
theorem reapStream_ok_none (o : Obj) (d : Dir β) (nb : Nat) (st : List β)
    (h : reapStream o d nb none = .ok st) :
    ∀ j, j < nb → ∃ rs, lookup d.results (j + 1) = some (.good rs) := by
  unfold reapStream at h
  induction nb generalizing st with
  | zero => intro j hj; omega
  | succ k ih =>
    rw [List.range_succ, List.foldl_append] at h
    simp only [List.foldl_cons, List.foldl_nil] at h
    cases hprev : (List.range k).foldl (reapStep o d none) (Except.ok []) with
    | error e => rw [hprev] at h; simp [reapStep] at h
    | ok st0 =>
      rw [hprev] at h
      intro j hj
      by_cases hjk : j < k
      · exact ih st0 hprev j hjk
      · have : j = k := by omega
        subst this
        simp only [reapStep] at h
        split at h
        · rename_i rs _; exact ⟨rs, by assumption⟩
        · cases h
        · cases h

/-- **error or exact**: on a directory where every present result is complete and correct (which the protocol
guarantees at every crash point), a reap that is not asked to tolerate gaps either fails or returns exactly the direct
run's nested result -/
theorem c10_reap_error_or_exact (P : Perms) (f : List Nat → β) (nl : β → β) (s s' : St β) (d : Dir β) (info : Info)
    (c : Batch.Cfg) (o : ReapOpts) (out : Nest β)
    (hd : s.dir = some d) (hg : Good f d info (sownBatches P c info.sweep info.shuffle))
    (hnb : info.nb = (sownBatches P c info.sweep info.shuffle).length)
    (hov : info.sweep.overlap = false) (hne : info.sweep.locs ≠ [])
    (hperm : info.shuffle = 0 ∨ P info.shuffle info.sweep.locs.length ~ List.range info.sweep.locs.length)
    (hai : o.allowIncomplete = false)
    (h : reapRaw P nl s o = .ok (s', out)) :
    ∃ r, core f nl info.sweep .seq = .ok r ∧ out = r.nested := by
  -- success means the gate passed and every result file was present
  have hgate : (readyGate s false o.wait).2 = true := by
    unfold reapRaw reapLinear at h
    rw [hai] at h
    by_cases hg' : (readyGate s false o.wait).2 = true
    · exact hg'
    · simp [hg'] at h
  have hpresent : ∀ j, j < info.nb → ∃ rs, lookup d.results (j + 1) = some (.good rs) := by
    unfold reapRaw reapLinear at h
    have hdir := readyGate_dir s false o.wait
    rw [hai] at h
    simp only [hgate, Bool.not_true, Bool.false_eq_true, if_false, hdir, hd, hg.hinfo] at h
    have hnone : (if o.wait = true then (none : Option β) else none) = none := by split <;> rfl
    rw [hnone] at h
    cases hst : reapStream (readyGate s false o.wait).1.obj d info.nb none with
    | error e => rw [hst] at h; simp at h
    | ok st => exact reapStream_ok_none _ d info.nb st hst
  have hr : ∀ j (hj : j < (sownBatches P c info.sweep info.shuffle).length),
      lookup d.results (j + 1) = some (.good ((sownBatches P c info.sweep info.shuffle)[j].map f)) := by
    intro j hj
    obtain ⟨rs, hrs⟩ := hpresent j (by rw [hnb]; exact hj)
    rw [hrs, hg.hr j hj _ hrs]
  obtain ⟨s'', r, h1, h2, _⟩ := c04_reap_eq_direct P f nl s d info c o hd hg.hinfo hov hnb hr hperm hai hne hgate
  rw [h2] at h
  cases h
  exact ⟨r, h1, rfl⟩

/-- **recovery is exact**: with the sown files in place (re-sown if any was missing), growing every batch that has no
result and reaping gives exactly the direct run's result -/
theorem c10_recovery_exact (P : Perms) (f : List Nat → β) (nl : β → β) (s : St β) (d : Dir β) (info : Info)
    (c : Batch.Cfg) (o : ReapOpts) (ms : List Nat)
    (hd : s.dir = some d) (hg : Good f d info (sownBatches P c info.sweep info.shuffle))
    (hnb : info.nb = (sownBatches P c info.sweep info.shuffle).length)
    (hov : info.sweep.overlap = false) (hne : info.sweep.locs ≠ [])
    (hperm : info.shuffle = 0 ∨ P info.shuffle info.sweep.locs.length ~ List.range info.sweep.locs.length)
    (hai : o.allowIncomplete = false)
    (hms : ∀ i, i ∈ ms ↔ 1 ≤ i ∧ i ≤ info.nb ∧ (lookup d.results i).isSome = false)
    (hgate : (readyGate { s with dir := some (growMany f (fun _ => false) d ms).1 } false o.wait).2 = true) :
    ∃ s' r, core f nl info.sweep .seq = .ok r ∧
      reapRaw P nl { s with dir := some (growMany f (fun _ => false) d ms).1 } o = .ok (s', r.nested) := by
  have hne' := Batch.c07_nonempty c (sowStream P info.sweep info.shuffle)
  have hms' : ∀ i, i ∈ ms ↔ 1 ≤ i ∧ i ≤ (sownBatches P c info.sweep info.shuffle).length ∧ (lookup d.results i).isSome = false := by
    intro i; rw [hms i, hnb]
  obtain ⟨g1, _, _⟩ := growMany_good f info _ hne' ms d hg (fun i hi => ⟨((hms' i).mp hi).1, ((hms' i).mp hi).2.1⟩)
  have hall := c08_grow_missing f info _ d hne' hg ms hms'
  have hr : ∀ j (hj : j < (sownBatches P c info.sweep info.shuffle).length),
      lookup (growMany f (fun _ => false) d ms).1.results (j + 1) =
        some (.good ((sownBatches P c info.sweep info.shuffle)[j].map f)) := by
    intro j hj
    have hsome := hall (j + 1) (by omega) (Nat.succ_le_of_lt hj)
    cases hl : lookup (growMany f (fun _ => false) d ms).1.results (j + 1) with
    | none => rw [hl] at hsome; simp at hsome
    | some r => rw [g1.hr j hj r hl]
  obtain ⟨s', r, h1, h2, _⟩ := c04_reap_eq_direct P f nl _ _ info c o rfl g1.hinfo hov hnb hr hperm hai hne hgate
  exact ⟨s', r, h1, h2⟩

end Crop
