import XyzModel.ParseCases
/-!
# C02 — every accepted spelling of a case list means the same cases

`parse_cases` (xyzpy/gen/prepare.py) normalises what the user wrote into a list of *argument ↦ value* dicts.  The
theorems say the documented spellings are interchangeable: dicts are taken as they are; tuples are zipped with the
argument names; and for a single argument bare values — numbers **or strings of any length** — mean the same as
1-tuples.  The test that recognises bare rows (`Gen.casesWrapBare`) is read off the source on every run.
-/
namespace ParseCases
open List

theorem dictZip_fold_nodup (acc l : List (String × V)) (h : ((acc ++ l).map (·.1)).Nodup) :
    l.foldl (fun acc kv =>
      if acc.any (·.1 == kv.1) then acc.map (fun p => if p.1 == kv.1 then (p.1, kv.2) else p) else acc ++ [kv]) acc
      = acc ++ l := by
  induction l generalizing acc with
  | nil => simp
  | cons kv rest ih =>
    rw [List.foldl_cons]
    have hno : acc.any (·.1 == kv.1) = false := by
      apply Bool.eq_false_iff.mpr
      intro hany
      obtain ⟨p, hp, hpk⟩ := List.any_eq_true.mp hany
      have hpk' : p.1 = kv.1 := by simpa using hpk
      rw [List.map_append, List.nodup_append] at h
      exact h.2.2 p.1 (List.mem_map.mpr ⟨p, hp, rfl⟩) kv.1 (by simp) hpk'
    simp only [hno, Bool.false_eq_true, if_false]
    have h' : (((acc ++ [kv]) ++ rest).map (·.1)).Nodup := by simpa using h
    rw [ih _ h']
    simp

theorem map_fst_zip_sublist (fa : List String) (vals : List V) : ((fa.zip vals).map (·.1)).Sublist fa := by
  induction fa generalizing vals with
  | nil => simp
  | cons a fa ih =>
    cases vals with
    | nil => simp
    | cons v vs => simp only [List.zip_cons_cons, List.map_cons]; exact (ih vs).cons₂ a

/-- with distinct argument names, `dict(zip(fn_args, vals))` is just the zip -/
theorem dictZip_nodup (fa : List String) (hnd : fa.Nodup) (vals : List V) : dictZip fa vals = fa.zip vals := by
  have hk : ((fa.zip vals).map (·.1)).Nodup := by
    exact hnd.sublist (map_fst_zip_sublist fa vals)
  have := dictZip_fold_nodup [] (fa.zip vals) (by simpa using hk)
  simpa [dictZip] using this

theorem mapM'_tuples (ls : List (List V)) : mapM' items (ls.map Row.tuple) = .ok ls := by
  induction ls with
  | nil => rfl
  | cons l ls ih => simp [mapM', items, ih]

/-- **dicts are taken as they are** -/
theorem c02_pc_dicts (fa : Option (List String)) (ds : List Case) (d : Case) (hd : d ≠ []) :
    parse fa (.dicts ds) = .ok ds ∧ parse fa (.oneDict d) = .ok [d] := by
  refine ⟨rfl, ?_⟩
  cases d with
  | nil => exact absurd rfl hd
  | cons x xs => rfl

/-- **tuples are zipped with the argument names**, row by row -/
theorem c02_pc_tuples (fa : List String) (hnd : fa.Nodup) (ls : List (List V)) :
    parse (some fa) (.rows (ls.map .tuple)) = .ok (ls.map fun l => fa.zip l) := by
  cases ls with
  | nil => rfl
  | cons l ls =>
    have hw : Gen.casesWrapBare (rowIsStr (Row.tuple l)) (rowIsIterable (Row.tuple l)) = false := by
      simp [Gen.casesWrapBare, Gen.Default.casesWrapBare, rowIsStr, rowIsIterable]
    have hm := mapM'_tuples (l :: ls)
    simp only [List.map_cons] at hm
    simp only [parse, List.map_cons, hw, Bool.false_eq_true, if_false, hm]
    congr 1
    simp only [← List.map_cons]
    apply List.map_congr_left
    intro x _
    exact dictZip_nodup fa hnd x

def isScalar : V → Bool
  | .tup _ => false
  | _ => true

/-- **one argument: bare values are 1-tuples** — for numbers and for strings of any length (the first row decides) -/
theorem c02_pc_bare (a : String) (v : V) (vs : List V) (hv : isScalar v = true) :
    parse (some [a]) (.rows ((v :: vs).map .bare)) = .ok ((v :: vs).map fun x => [(a, x)]) ∧
    parse (some [a]) (.rows ((v :: vs).map .bare)) = parse (some [a]) (.rows ((v :: vs).map fun x => .tuple [x])) := by
  have hw : Gen.casesWrapBare (rowIsStr (Row.bare v)) (rowIsIterable (Row.bare v)) = true := by
    cases v with
    | num n => simp [Gen.casesWrapBare, Gen.Default.casesWrapBare, rowIsStr, rowIsIterable]
    | str s => simp [Gen.casesWrapBare, Gen.Default.casesWrapBare, rowIsStr, rowIsIterable]
    | tup l => simp [isScalar] at hv
  have h1 : parse (some [a]) (.rows ((v :: vs).map .bare)) = .ok ((v :: vs).map fun x => [(a, x)]) := by
    simp only [parse, List.map_cons, hw, if_true, List.map_map]
    congr 1
  refine ⟨h1, ?_⟩
  rw [h1]
  have h2 := c02_pc_tuples [a] (by simp) ((v :: vs).map fun x => [x])
  rw [List.map_map] at h2
  have : (Row.tuple ∘ fun x : V => [x]) = fun x => Row.tuple [x] := rfl
  rw [this] at h2
  rw [h2, List.map_map]
  congr 1

/-- without argument names the tuple spelling is refused -/
theorem c02_pc_needs_fn_args (r : Row) (rs : List Row) : parse none (.rows (r :: rs)) = .error .type := rfl

/-- nothing requested -/
theorem c02_pc_empty (fa : Option (List String)) :
    parse fa .none = .ok [] ∧ parse fa (.rows []) = .ok [] ∧ parse fa (.dicts []) = .ok [] ∧ parse fa (.oneDict []) = .ok [] :=
  ⟨rfl, rfl, rfl, rfl⟩

/-! Non-vacuity -/
example : parse (some ["a"]) (.rows [.bare (.str "beta"), .bare (.str "al")]) =
    .ok [[("a", .str "beta")], [("a", .str "al")]] := by rfl
example : parse (some ["a", "b"]) (.rows [.tuple [.num 1, .str "x"], .tuple [.num 2, .str "y"]]) =
    .ok [[("a", .num 1), ("b", .str "x")], [("a", .num 2), ("b", .str "y")]] := by rfl

end ParseCases
