import XyzModel.Sampler
import XyzProofs.Props.C03
/-!
# C15 — sampling only ever appends correct rows

The data file is the truth: `add_df` reloads it before appending, so whichever Sampler object runs — the same one, a
fresh one, or an older one that another object has overtaken in the meantime — the file afterwards holds its previous
rows followed by the new ones, and the running object's memory equals the file.
-/
namespace Sampler
open List
variable {β : Type}

/-- memory and file agree (or nothing is loaded yet) -/
def Synced (s : St β) : Prop := s.mem = none ∨ s.mem = s.disk

/-- reachable states: as long as there is no file, no object has anything in memory -/
def Inv (s : St β) : Prop := s.disk = none → s.mem = none ∧ s.other = none

/-- the table a Sampler would show -/
def table (s : St β) : List (Row β) := (fullDf s).getD []

/-- the table in the file -/
def fileTable (s : St β) : List (Row β) := s.disk.getD []

theorem table_of_synced (s : St β) (h : Synced s) : table s = fileTable s := by
  unfold table fullDf fileTable
  rcases h with h | h
  · simp [h]
  · cases hm : s.mem with
    | none => simp
    | some t => rw [hm] at h; simp [← h]

/-- **a run appends exactly n rows to the file and changes no earlier row** — whatever the running object had in
memory (it may be stale: another object may have added rows since) -/
theorem c15_file_appends (f : List Nat → List β) (s : St β) (draws : List (List Nat)) (h : Inv s) :
    fileTable (step f s (.sample draws)) = fileTable s ++ rowsOf f draws ∧
    (step f s (.sample draws)).mem = (step f s (.sample draws)).disk := by
  unfold fileTable step addDf
  cases hd : s.disk with
  | none =>
    have := h hd
    simp [this.1]
  | some t => simp

/-- **appends exactly n rows, changes no earlier row**: what the running sampler shows, for a synced sampler -/
theorem c15_appends_n (f : List Nat → List β) (s : St β) (draws : List (List Nat)) (h : Synced s) (hi : Inv s) :
    table (step f s (.sample draws)) = table s ++ rowsOf f draws ∧
    (table (step f s (.sample draws))).length = (table s).length + draws.length ∧
    table s <+: table (step f s (.sample draws)) := by
  obtain ⟨h1, h2⟩ := c15_file_appends f s draws hi
  have key : table (step f s (.sample draws)) = table s ++ rowsOf f draws := by
    rw [table_of_synced _ (Or.inr h2), h1, table_of_synced s h]
  refine ⟨key, ?_, ?_⟩
  · rw [key]; simp [rowsOf]
  · rw [key]; exact List.prefix_append _ _

/-- **each new row is correct**: its outputs are the function's value at exactly its own arguments -/
theorem c15_row_correct (f : List Nat → List β) (draws : List (List Nat)) :
    ∀ r ∈ rowsOf f draws, r.outputs = f r.loc ∧ r.loc ∈ draws := by
  intro r hr
  simp only [rowsOf, List.mem_map] at hr
  obtain ⟨loc, hloc, rfl⟩ := hr
  exact ⟨rfl, hloc⟩

/-- **draws are allowed**: if every drawn value is among the choices (the environment's promise, checked by the
oracle on the real runs), so are the arguments of every row -/
theorem c15_draws_allowed (f : List Nat → List β) (draws : List (List Nat)) (allowed : List Nat → Prop)
    (h : ∀ d ∈ draws, allowed d) : ∀ r ∈ rowsOf f draws, allowed r.loc := by
  intro r hr
  exact h _ (c15_row_correct f draws r hr).2

theorem inv_step (f : List Nat → List β) (s : St β) (op : Op) (h : Inv s) : Inv (step f s op) := by
  cases op with
  | sample draws => intro hd; simp [step, addDf] at hd
  | newSampler => intro hd; exact ⟨rfl, (h hd).2⟩
  | switch => intro hd; exact ⟨(h hd).2, (h hd).1⟩
  | look =>
    intro hd
    have hd' : s.disk = none := hd
    have := h hd'
    refine ⟨?_, this.2⟩
    show (match s.mem with | some t => some t | none => s.disk) = none
    rw [this.1, hd']

/-- **disk = memory after every run** (and a fresh Sampler object has nothing in memory) -/
theorem c15_disk_eq_mem (f : List Nat → List β) (s : St β) (op : Op) (hi : Inv s) (hop : op ≠ .switch)
    (hop2 : op ≠ .look) : Synced (step f s op) := by
  cases op with
  | sample draws => right; exact (c15_file_appends f s draws hi).2
  | newSampler => left; rfl
  | switch => exact absurd rfl hop
  | look => exact absurd rfl hop2

/-- reading `full_df` keeps a synced sampler synced (and shows the file) -/
theorem c15_look_synced (f : List Nat → List β) (s : St β) (h : Synced s) :
    Synced (step f s .look) ∧ table (step f s .look) = fileTable s := by
  have hs : Synced (step f s .look) := by
    rcases h with h | h
    · right; show (match s.mem with | some t => some t | none => s.disk) = s.disk; rw [h]
    · cases hm : s.mem with
      | none => right; show (match s.mem with | some t => some t | none => s.disk) = s.disk; rw [hm]
      | some t => right; show (match s.mem with | some t => some t | none => s.disk) = s.disk; rw [hm]; rw [hm] at h; exact h
  exact ⟨hs, by rw [table_of_synced _ hs]; rfl⟩

/-- **whole histories**: from an empty store, after any sequence of runs, new Sampler objects and switches between two
live objects, the file holds exactly the rows of all runs in order — nothing dropped, nothing altered, nothing added -/
theorem c15_history (f : List Nat → List β) (ops : List Op) :
    ∀ s : St β, Inv s →
      Inv (run f s ops) ∧ fileTable (run f s ops) = fileTable s ++ rowsOf f (allDraws ops) := by
  induction ops with
  | nil => intro s h; exact ⟨h, by simp [run, allDraws, rowsOf]⟩
  | cons op rest ih =>
    intro s h
    have hs := inv_step f s op h
    obtain ⟨h1, h2⟩ := ih (step f s op) hs
    refine ⟨by simpa [run] using h1, ?_⟩
    have : run f s (op :: rest) = run f (step f s op) rest := rfl
    rw [this, h2]
    cases op with
    | sample draws =>
      rw [(c15_file_appends f s draws h).1]
      simp [allDraws, rowsOf, List.append_assoc]
    | newSampler => simp [allDraws, step, fileTable]
    | switch => simp [allDraws, step, fileTable]
    | look => simp [allDraws, step, fileTable]

/-- after a history that ends in a run, the running sampler shows exactly the file -/
theorem c15_history_shown (f : List Nat → List β) (ops : List Op) (draws : List (List Nat)) (s : St β) (h : Inv s) :
    table (run f s (ops ++ [.sample draws])) = fileTable s ++ rowsOf f (allDraws (ops ++ [.sample draws])) := by
  have hrun : run f s (ops ++ [.sample draws]) = step f (run f s ops) (.sample draws) := by
    simp [run, List.foldl_append]
  obtain ⟨hi, _⟩ := c15_history f ops s h
  have h2 := (c15_history f (ops ++ [.sample draws]) s h).2
  rw [← h2, hrun]
  exact table_of_synced _ (Or.inr (c15_file_appends f _ draws hi).2)

/-- **a new sampler continues from the file** -/
theorem c15_continue (s : St β) : table (step (fun _ => ([] : List β)) s .newSampler) = fileTable s := by
  have hs : Synced (step (fun _ => ([] : List β)) s .newSampler) := Or.inl rfl
  rw [table_of_synced _ hs]; rfl

/-- **two objects taking turns**: A runs, B (fresh) runs, A runs again — nothing of B's is lost -/
theorem c15_two_objects (f : List Nat → List β) (a b a' : List (List Nat)) :
    table (run f ({} : St β) [.sample a, .switch, .sample b, .switch, .sample a']) =
      rowsOf f a ++ rowsOf f b ++ rowsOf f a' := by
  have h := c15_history_shown f [.sample a, .switch, .sample b, .switch] a' ({} : St β) (fun _ => ⟨rfl, rfl⟩)
  simpa [allDraws, rowsOf, fileTable] using h

/-! Non-vacuity -/
example : Synced ({} : St Nat) := Or.inl rfl
example : Inv ({} : St Nat) := fun _ => ⟨rfl, rfl⟩
example : (table (run (fun l => [l.sum]) ({} : St Nat) [.sample [[1, 2], [3]], .newSampler, .sample [[4]]])).map (·.outputs)
    = [[3], [3], [4]] := by decide
example : (table (run (fun l => [l.sum]) ({} : St Nat) [.sample [[1]], .switch, .sample [[2]], .switch, .sample [[3]]])).map (·.outputs)
    = [[1], [2], [3]] := by decide

end Sampler
