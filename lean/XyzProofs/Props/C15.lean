import XyzModel.Sampler
import XyzProofs.Props.C03
/-!
# C15 — sampling only ever appends correct rows
-/
namespace Sampler
open List
variable {β : Type}

/-- memory and file agree (or nothing is loaded yet) -/
def Synced (s : St β) : Prop := s.mem = none ∨ s.mem = s.disk

/-- the table a Sampler would show -/
def table (s : St β) : List (Row β) := (fullDf s).getD []

theorem table_of_synced (s : St β) (h : Synced s) : table s = s.disk.getD [] := by
  unfold table fullDf
  rcases h with h | h
  · simp [h]
  · cases hm : s.mem with
    | none => simp
    | some t => rw [hm] at h; simp [← h]

/-- **appends exactly n rows, changes no earlier row**: one sampling run on a synced sampler -/
theorem c15_appends_n (f : List Nat → List β) (s : St β) (draws : List (List Nat)) (h : Synced s) :
    table (step f s (.sample draws)) = table s ++ rowsOf f draws ∧
    (table (step f s (.sample draws))).length = (table s).length + draws.length ∧
    table s <+: table (step f s (.sample draws)) := by
  have ht := table_of_synced s h
  have key : table (step f s (.sample draws)) = table s ++ rowsOf f draws := by
    rw [ht]
    unfold table fullDf step addDf
    rcases h with h | h
    · cases hd : s.disk <;> simp [h, hd]
    · cases hd : s.disk with
      | none => rw [hd] at h; simp [h, hd]
      | some t => simp [hd]
  refine ⟨key, ?_, ?_⟩
  · rw [key]; simp [rowsOf]
  · rw [key]; exact List.prefix_append _ _

/-- **each new row is correct**: its outputs are the function's value at exactly its own arguments -/
theorem c15_row_correct (f : List Nat → List β) (draws : List (List Nat)) :
    ∀ r ∈ rowsOf f draws, r.outputs = f r.loc ∧ r.loc ∈ draws := by
  intro r hr
  simp only [rowsOf, List.mem_map] at hr
  obtain ⟨loc, hloc, rfl⟩ := hr
  exact ⟨rfl, hloc⟩

/-- **draws are allowed**: if every drawn value is among the choices (the environment's promise, checked by the
oracle on the real runs), so are the arguments of every row -/
theorem c15_draws_allowed (f : List Nat → List β) (draws : List (List Nat)) (allowed : List Nat → Prop)
    (h : ∀ d ∈ draws, allowed d) : ∀ r ∈ rowsOf f draws, allowed r.loc := by
  intro r hr
  exact h _ (c15_row_correct f draws r hr).2

/-- **disk = memory after every run** (and after handing over to a new Sampler object) -/
theorem c15_disk_eq_mem (f : List Nat → List β) (s : St β) (op : Op) (h : Synced s) : Synced (step f s op) := by
  cases op with
  | sample draws => right; simp [step, addDf]
  | newSampler => left; rfl

/-- **whole histories**: from an empty store, after any sequence of runs and new Sampler objects the file holds
exactly the rows of all runs in order — nothing dropped, nothing altered, nothing added -/
theorem c15_history (f : List Nat → List β) (ops : List Op) :
    ∀ s : St β, Synced s →
      Synced (run f s ops) ∧ table (run f s ops) = table s ++ rowsOf f (allDraws ops) := by
  induction ops with
  | nil => intro s h; exact ⟨h, by simp [run, allDraws, rowsOf]⟩
  | cons op rest ih =>
    intro s h
    have hs := c15_disk_eq_mem f s op h
    obtain ⟨h1, h2⟩ := ih (step f s op) hs
    refine ⟨by simpa [run] using h1, ?_⟩
    have : run f s (op :: rest) = run f (step f s op) rest := rfl
    rw [this, h2]
    cases op with
    | sample draws =>
      rw [(c15_appends_n f s draws h).1]
      simp [allDraws, rowsOf, List.append_assoc]
    | newSampler =>
      have : table (step f s .newSampler) = table s := by
        rw [table_of_synced _ hs, table_of_synced _ h]; rfl
      rw [this]; simp [allDraws]

/-- **a new sampler continues from the file** -/
theorem c15_continue (s : St β) (h : Synced s) : table (step (fun _ => ([] : List β)) s .newSampler) = table s := by
  have hs : Synced (step (fun _ => ([] : List β)) s .newSampler) := Or.inl rfl
  rw [table_of_synced _ hs, table_of_synced _ h]; rfl

/-! Non-vacuity -/
example : Synced ({} : St Nat) := Or.inl rfl
example : (table (run (fun l => [l.sum]) ({} : St Nat) [.sample [[1, 2], [3]], .newSampler, .sample [[4]]])).map (·.outputs)
    = [[3], [3], [4]] := by decide

end Sampler
