import XyzProofs.Props.C01
import XyzModel.Value
/-!
# C02 — sparse cases run only what was asked and leave every other slot missing
-/
namespace Core
open List

variable {β : Type}

/-! ### sorted union of case coordinates -/

theorem mem_insertSorted (x y : Nat) (l : List Nat) :
    y ∈ Sweep.insertSorted x l ↔ y = x ∨ y ∈ l := by
  induction l with
  | nil => simp [Sweep.insertSorted]
  | cons z zs ih =>
    simp only [Sweep.insertSorted]
    split
    · simp
    · split
      · rename_i h1 h2; subst h2; simp
      · simp only [List.mem_cons, ih]
        constructor
        · rintro (h | h | h) <;> simp [h]
        · rintro (h | h | h) <;> simp [h]

theorem sorted_insertSorted (x : Nat) (l : List Nat) (h : l.Pairwise (· < ·)) :
    (Sweep.insertSorted x l).Pairwise (· < ·) := by
  induction l with
  | nil => simp [Sweep.insertSorted]
  | cons z zs ih =>
    simp only [Sweep.insertSorted]
    have hz := List.pairwise_cons.mp h
    split
    · rename_i hlt
      refine List.pairwise_cons.mpr ⟨?_, h⟩
      intro a ha
      rcases List.mem_cons.mp ha with rfl | ha
      · exact hlt
      · exact Nat.lt_trans hlt (hz.1 a ha)
    · split
      · exact h
      · rename_i h1 h2
        refine List.pairwise_cons.mpr ⟨?_, ih hz.2⟩
        intro a ha
        rcases (mem_insertSorted x a zs).mp ha with rfl | ha
        · omega
        · exact hz.1 a ha

theorem sortedSet_spec (l : List Nat) :
    (∀ y, y ∈ Sweep.sortedSet l ↔ y ∈ l) ∧ (Sweep.sortedSet l).Pairwise (· < ·) := by
  unfold Sweep.sortedSet
  suffices h : ∀ (acc : List Nat), acc.Pairwise (· < ·) →
      (∀ y, y ∈ l.foldl (fun acc x => Sweep.insertSorted x acc) acc ↔ y ∈ acc ∨ y ∈ l) ∧
      (l.foldl (fun acc x => Sweep.insertSorted x acc) acc).Pairwise (· < ·) by
    have := h [] List.Pairwise.nil
    simpa using this
  induction l with
  | nil => intro acc hacc; simp [hacc]
  | cons x xs ih =>
    intro acc hacc
    have := ih (Sweep.insertSorted x acc) (sorted_insertSorted x acc hacc)
    refine ⟨?_, this.2⟩
    intro y
    rw [List.foldl_cons, this.1 y, mem_insertSorted]
    simp only [List.mem_cons]
    constructor
    · rintro ((h | h) | h) <;> simp [h]
    · rintro (h | h | h) <;> simp [h]

/-- **coordinates**: along each case argument the output grid spans exactly the values that occur in the cases,
each once, in sorted order -/
theorem c02_coords_union (s : Sweep) (rows : List (List Nat)) (hr : s.caseRows = some rows)
    (j : Nat) (hj : j < s.caseArgs.length) :
    ∃ c, s.caseCoords[j]? = some c ∧ (∀ y, y ∈ c ↔ ∃ r ∈ rows, r.getD j 0 = y) ∧ c.Pairwise (· < ·) := by
  refine ⟨Sweep.sortedSet (rows.map fun r => r.getD j 0), ?_, ?_, (sortedSet_spec _).2⟩
  · simp [Sweep.caseCoords, hr, hj]
  · intro y
    rw [(sortedSet_spec _).1 y]
    simp

/-- **only what was asked**: the call log is a permutation of `[case ++ combo | case ∈ cases, combo ∈ product]` -/
theorem c02_calls_exactly_requested (f : List Nat → β) (nl : β → β) (s : Sweep) (st : Strategy)
    (rows : List (List Nat)) (hr : s.caseRows = some rows)
    (hov : s.overlap = false) (hwf : st.WF s.locs.length) :
    ∃ r, core f nl s st = .ok r ∧
      r.log ~ rows.flatMap (fun cp => (product s.comboVals).map (cp ++ ·)) ∧
      r.flat = (rows.flatMap (fun cp => (product s.comboVals).map (cp ++ ·))).map f := by
  obtain ⟨r, h1, h2, h3, _⟩ := core_ok f nl s st hov hwf
  have : s.locs = rows.flatMap (fun cp => (product s.comboVals).map (cp ++ ·)) := by
    simp [Sweep.locs, hr]
  exact ⟨r, h1, by rw [← this]; exact h2, by rw [← this]; exact h3⟩

/-- **own slot or placeholder**: at every index path of the output grid, the slot holds the function's value for
that location if the location was requested, and otherwise the placeholder made from the first result -/
theorem c02_slot [DecidableEq β] (f : List Nat → β) (nl : β → β) (s : Sweep) (st : Strategy)
    (rows : List (List Nat)) (hr : s.caseRows = some rows)
    (hov : s.overlap = false) (hwf : st.WF s.locs.length)
    (first : List Nat) (rest : List (List Nat)) (hne : s.locs = first :: rest)
    (idx : List Nat) (p : List Nat) (hp : pick s.coords idx = some p) :
    ∃ r, core f nl s st = .ok r ∧
      r.nested.get idx = some (.leaf (if p ∈ s.locs then f p else nl (f first))) := by
  obtain ⟨r, h1, _, _, h4⟩ := core_ok f nl s st hov hwf
  refine ⟨r, h1, ?_⟩
  rw [h4]
  simp only [processNested, hr]
  rw [unflatten_eq, nest_get _ _ _ _ hp]
  by_cases hmem : p ∈ s.locs
  · rw [lookup_zip_map f s.locs p hmem]; simp [hmem]
  · rw [lookup_zip_map_none f s.locs p hmem]
    simp only [hmem, if_false]
    rw [hne]
    rfl

/-- **overlap is rejected before anything runs** (no `Run`, hence no call log, is produced) -/
theorem c02_overlap_rejected (f : List Nat → β) (nl : β → β) (s : Sweep) (st : Strategy)
    (a : String) (h1 : a ∈ s.caseArgs) (h2 : a ∈ s.comboArgs) :
    core f nl s st = .error .overlap := by
  have : s.overlap = true := by
    simp only [Sweep.overlap, List.any_eq_true]
    exact ⟨a, h1, by simpa using h2⟩
  simp [core, this]

end Core

namespace Value

/-- **placeholder**: shaped like a real result, every leaf missing (`None` for plain bool/str, NaN otherwise) -/
theorem c02_placeholder_shape (v : Val) :
    shape (nanLike v) = shape v ∧ names (nanLike v) = names v ∧ ∀ l ∈ leaves (nanLike v), l.missing = true := by
  cases v with
  | scalar l => cases l <;> simp [nanLike, shape, names, leaves, Leaf.missing]
  | arr s l => simp [nanLike, shape, names, leaves, Leaf.missing]
  | tuple comps =>
    refine ⟨by simp [nanLike, shape, Function.comp_def], by simp [nanLike, names], ?_⟩
    intro l hl
    simp only [nanLike, leaves, List.map_map, List.mem_map, Function.comp_def] at hl
    obtain ⟨_, _, rfl⟩ := hl
    rfl
  | ds vars =>
    refine ⟨by simp [nanLike, shape, Function.comp_def], by simp [nanLike, names, Function.comp_def], ?_⟩
    intro l hl
    simp only [nanLike, leaves, List.map_map, List.mem_map, Function.comp_def] at hl
    obtain ⟨_, _, rfl⟩ := hl
    rfl

theorem c02_placeholder_none_iff (l : Leaf) :
    nanLike (.scalar l) = .scalar .none ↔ (l = .bool ∨ l = .str) := by
  cases l <;> simp [nanLike]

end Value

/-! Non-vacuity -/
namespace Core
def exCases : Sweep :=
  { caseArgs := ["a", "b"], caseRows := some [[2, 0], [0, 1]], comboArgs := ["c"], comboVals := [[0, 1]] }
example : exCases.overlap = false ∧ exCases.locs = [[2, 0, 0], [2, 0, 1], [0, 1, 0], [0, 1, 1]] := by decide
example : exCases.coords = [[0, 2], [0, 1], [0, 1]] := by decide
example : pick exCases.coords [0, 0, 1] = some [0, 0, 1] ∧ [0, 0, 1] ∉ exCases.locs := by decide
end Core
