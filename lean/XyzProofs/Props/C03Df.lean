import XyzProofs.Refine.Forwarding
import XyzProofs.Props.C03
/-!
# C03 — DataFrame rows, on the translated source

`Gen.dfRows` is the loop of `results_to_df`, `Gen.coreRunInfo` the slice of `combo_runner_core` from the shuffle
bookkeeping to `info["settings"] = …`, `Gen.casesZip` the zip at the end of `parse_cases` — all translated from
xyzpy/gen/combo_runner.py / prepare.py on every run (harness/anchors_flow.py).

* `dfRows_refines`: the translated loop computes, for row `i`, `rowOf settings[i] results[i]`;
* `c03_df_rows_src`: row `i` carries setting `i`'s own argument values and constants, result `i`'s outputs under the
  output names, no resource;
* `coreRunInfo_*`: the results come back in enumeration order AND the settings reported for labelling are in that same
  order, for every shuffle permutation and every way of running;
* `toDf_src`: composed — run, report, label: row `i` is `rowOf settings[i] (f settings[i])`, and the hand-written
  `ToDs.toDf` pairs the same locations with the same outputs (`toDf_refines`).
-/
set_option linter.unusedSimpArgs false
set_option linter.unusedVariables false
set_option linter.unusedSectionVars false
namespace DfRefine
open Core Gen CoreRefine Forwarding List

variable {V α β : Type}

/-! ## folds in `Except` -/

theorem foldlM_pure {γ δ : Type} (h : δ → γ → δ) (l : List γ) (a : δ) :
    l.foldlM (m := Except PyErr) (fun a x => .ok (h a x)) a = .ok (l.foldl h a) := by
  induction l generalizing a with
  | nil => rfl
  | cons x t ih => simp only [List.foldlM_cons, List.foldl_cons]; exact ih _

theorem foldlM_append_one {γ δ : Type} (F : List δ → γ → Except PyErr (List δ)) (g : γ → δ)
    (hF : ∀ acc x, F acc x = .ok (acc ++ [g x])) (l : List γ) (acc : List δ) :
    l.foldlM F acc = .ok (acc ++ l.map g) := by
  induction l generalizing acc with
  | nil => simp [pure, Except.pure]
  | cons x t ih =>
    simp only [List.foldlM_cons, hF]
    show t.foldlM F (acc ++ [g x]) = _
    rw [ih]; simp

/-! ## dict lemmas -/

theorem get_none_of_notin (e : List (String × V)) (k : String) (h : k ∉ e.map Prod.fst) : Py.dictGet e k = none := by
  induction e with
  | nil => rfl
  | cons x t ih =>
    simp only [List.map_cons, List.mem_cons, not_or] at h
    rw [dictGet_cons, if_neg (by simpa using fun hh : x.1 = k => h.1 hh.symm), ih h.2]

theorem mem_of_get (e : List (String × V)) (k : String) (v : V) (h : Py.dictGet e k = some v) : (k, v) ∈ e := by
  induction e with
  | nil => cases h
  | cons x t ih =>
    rw [dictGet_cons] at h
    by_cases hx : x.1 = k
    · rw [if_pos (by simpa using hx)] at h
      cases h; subst hx; exact List.mem_cons_self
    · rw [if_neg (by simpa using hx)] at h
      exact List.mem_cons_of_mem _ (ih h)

theorem get_eraseAll (ks : List String) (row : List (String × V)) (k : String) :
    Py.dictGet (ks.foldl Py.dictErase row) k = if k ∈ ks then none else Py.dictGet row k := by
  induction ks generalizing row with
  | nil => simp
  | cons a t ih =>
    rw [List.foldl_cons, ih, get_erase]
    by_cases h1 : k ∈ t
    · simp [h1]
    · by_cases h2 : k = a <;> simp [h1, h2]

theorem keys_fold_nodup (e : List (String × V)) (ks : List String) (h : ks.Nodup) :
    (e.foldl (fun ks x => if x.1 ∈ ks then ks else ks ++ [x.1]) ks).Nodup := by
  induction e generalizing ks with
  | nil => exact h
  | cons x t ih =>
    rw [List.foldl_cons]
    by_cases hx : x.1 ∈ ks
    · rw [if_pos hx]; exact ih ks h
    · rw [if_neg hx]; apply ih
      rw [List.nodup_append]
      exact ⟨h, by simp, by intro a ha b hb; simp at hb; subst hb; exact fun hab => hx (hab ▸ ha)⟩

theorem keys_ofList_nodup (l : List (String × V)) : ((Py.dictOfList l).map Prod.fst).Nodup := by
  have : Py.dictOfList l = Py.dictUpdate [] l := rfl
  rw [this, keys_update]
  exact keys_fold_nodup l [] List.nodup_nil

theorem get_ofList_notin (l : List (String × V)) (k : String) (h : k ∉ l.map Prod.fst) : Py.dictGet (Py.dictOfList l) k = none := by
  have : Py.dictOfList l = Py.dictUpdate [] l := rfl
  rw [this, get_update_notin l [] k h]; rfl

theorem keys_ofList_subset (l : List (String × V)) (k : String) (h : k ∈ (Py.dictOfList l).map Prod.fst) : k ∈ l.map Prod.fst := by
  apply Classical.byContradiction
  intro hk
  have := get_ofList_notin l k hk
  obtain ⟨x, hx, rfl⟩ := List.mem_map.mp h
  have h2 : Py.dictGet (Py.dictOfList l) x.1 ≠ none := by
    intro hn
    have : ∀ (e : List (String × V)), x ∈ e → Py.dictGet e x.1 ≠ none := by
      intro e
      induction e with
      | nil => intro h; cases h
      | cons y t ih =>
        intro hm
        rw [dictGet_cons]
        by_cases hy : y.1 = x.1
        · rw [if_pos (by simpa using hy)]; simp
        · rw [if_neg (by simpa using hy)]
          rcases List.mem_cons.mp hm with rfl | hm
          · exact absurd rfl hy
          · exact ih hm
    exact this _ hx hn
  exact h2 this

theorem fst_zip_sublist {γ δ : Type} (l1 : List γ) (l2 : List δ) : (l1.zip l2).map Prod.fst <+ l1 := by
  induction l1 generalizing l2 with
  | nil => simp
  | cons a t ih =>
    cases l2 with
    | nil => simp
    | cons b u => simp only [List.zip_cons_cons, List.map_cons]; exact (ih u).cons₂ a

/-- `dict(zip(names, values))` read at the `j`-th name (names distinct) is the `j`-th value -/
theorem get_ofList_zip (names : List String) (vals : List V) (hnd : names.Nodup) (j : Nat) (h1 : j < names.length)
    (h2 : j < vals.length) : Py.dictGet (Py.dictOfList (names.zip vals)) names[j] = some vals[j] := by
  have : Py.dictOfList (names.zip vals) = Py.dictUpdate [] (names.zip vals) := rfl
  rw [this]
  apply get_update_mem
  · exact hnd.sublist (fst_zip_sublist _ _)
  · have : (names.zip vals)[j]? = some (names[j], vals[j]) := by
      rw [List.getElem?_zip_eq_some]; exact ⟨List.getElem?_eq_getElem h1, List.getElem?_eq_getElem h2⟩
    exact List.mem_of_getElem? this

/-! ## `results_to_df` -/

/-- what `results_to_df` makes of one setting and its result: the resources are removed, the attributes added, then
the output(s) under the output name(s) — a single output is stored whole, several are unpacked in order -/
def rowOf (asCell : β → V) (outputs : β → List V) (attrs resources : List (String × V)) (varNames : List String)
    (row : List (String × V)) (result : β) : List (String × V) :=
  let r2 := Py.dictUpdate ((resources.map Prod.fst).foldl Py.dictErase row) attrs
  match varNames with
  | [n] => Py.dictSet r2 n (asCell result)
  | _ => Py.dictUpdate r2 (Py.dictOfList (varNames.zip (outputs result)))

/-- **the translated loop of `results_to_df`**: row `i` of the table is made of setting `i` and result `i` -/
theorem dfRows_refines (asCell : β → V) (outputs : β → List V) (results : List β) (settings : List (List (String × V)))
    (attrs resources : List (String × V)) (varNames : List String) :
    Gen.dfRows asCell outputs results settings attrs resources varNames
      = .ok ((settings.zip results).map fun p => rowOf asCell outputs attrs resources varNames p.1 p.2) := by
  simp only [Gen.dfRows, Gen.Default.dfRows]
  rw [foldlM_append_one (g := fun p => rowOf asCell outputs attrs resources varNames p.1 p.2)]
  · simp
  · rintro acc ⟨row, result⟩
    simp only [foldlM_pure]
    have hattrs : (if (!attrs.isEmpty) = true then Py.dictUpdate ((resources.map Prod.fst).foldl Py.dictErase row) attrs
        else (resources.map Prod.fst).foldl Py.dictErase row)
        = Py.dictUpdate ((resources.map Prod.fst).foldl Py.dictErase row) attrs := by
      cases attrs with
      | nil => rfl
      | cons a t => rfl
    match varNames with
    | [] => cases attrs <;> simp [rowOf, update_nil]
    | [n] => cases attrs <;> simp [rowOf, update_nil]
    | n :: m :: t => cases attrs <;> simp [rowOf, update_nil]

/-- **C03, DataFrame rows, on the translated `results_to_df`**: there is one row per (setting, result) pair, in order;
row `i` has, for every name that is neither a resource, an attribute nor an output, exactly the value setting `i` has
(the swept arguments and the constants in force); a resource is not recorded; a single output is result `i` itself,
several outputs are result `i`'s outputs in the order of the output names -/
theorem c03_df_rows_src (asCell : β → V) (outputs : β → List V) (results : List β) (settings : List (List (String × V)))
    (attrs resources : List (String × V)) (varNames : List String) (hlen : results.length = settings.length) :
    ∃ rows, Gen.dfRows asCell outputs results settings attrs resources varNames = .ok rows ∧
      rows.length = settings.length ∧
      ∀ i (hi : i < settings.length), ∃ row, rows[i]? = some row ∧
        (∀ k, k ∉ resources.map Prod.fst → k ∉ attrs.map Prod.fst → k ∉ varNames →
          Py.dictGet row k = Py.dictGet settings[i] k) ∧
        (∀ k, k ∈ resources.map Prod.fst → k ∉ attrs.map Prod.fst → k ∉ varNames → Py.dictGet row k = none) ∧
        (∀ n, varNames = [n] → Py.dictGet row n = some (asCell (results[i]'(hlen ▸ hi)))) ∧
        (varNames.length ≠ 1 → varNames.Nodup → ∀ j (hj : j < varNames.length)
          (hj' : j < (outputs (results[i]'(hlen ▸ hi))).length),
          Py.dictGet row varNames[j] = some (outputs (results[i]'(hlen ▸ hi)))[j]) := by
  refine ⟨_, dfRows_refines asCell outputs results settings attrs resources varNames, by simp [hlen], ?_⟩
  intro i hi
  have hi' : i < results.length := hlen ▸ hi
  refine ⟨rowOf asCell outputs attrs resources varNames settings[i] results[i], ?_, ?_, ?_, ?_, ?_⟩
  · rw [List.getElem?_map, (List.getElem?_zip_eq_some (z := (settings[i], results[i]))).mpr
      ⟨List.getElem?_eq_getElem hi, List.getElem?_eq_getElem hi'⟩]
    rfl
  · intro k h1 h2 h3
    have base : Py.dictGet (Py.dictUpdate ((resources.map Prod.fst).foldl Py.dictErase settings[i]) attrs) k
        = Py.dictGet settings[i] k := by
      rw [get_update_notin attrs _ k h2, get_eraseAll, if_neg h1]
    unfold rowOf
    split
    · rename_i n
      rw [get_set, if_neg (by simpa using fun h : k = n => h3 (by simp [h])), base]
    · rw [get_update_notin _ _ k, base]
      intro hk
      have := keys_ofList_subset _ k hk
      exact h3 ((fst_zip_sublist _ _).subset this)
  · intro k h1 h2 h3
    have base : Py.dictGet (Py.dictUpdate ((resources.map Prod.fst).foldl Py.dictErase settings[i]) attrs) k = none := by
      rw [get_update_notin attrs _ k h2, get_eraseAll, if_pos h1]
    unfold rowOf
    split
    · rename_i n
      rw [get_set, if_neg (by simpa using fun h : k = n => h3 (by simp [h])), base]
    · rw [get_update_notin _ _ k, base]
      intro hk
      have := keys_ofList_subset _ k hk
      exact h3 ((fst_zip_sublist _ _).subset this)
  · intro n hn
    subst hn
    simp [rowOf, get_set]
  · intro h1 hnd j hj hj'
    unfold rowOf
    split
    · rename_i n; simp at h1
    · apply get_update_mem _ _ _ _ (keys_ofList_nodup _)
      exact mem_of_get _ _ _ (get_ofList_zip varNames _ hnd j hj hj')

/-! ## the run and the settings reported for labelling -/

/-- without `shuffle`: the results as collected, the settings reported (to a flat run that asked for them) as run -/
theorem coreRunInfo_plain (leR : β → β → Bool) (σ : List Nat) (fl eg pa ig : Bool) (runSeq runExec : List α → List β)
    (settings : List α) :
    Gen.coreRunInfo leR σ false fl eg pa ig runSeq runExec settings
      = .ok ((if eg || pa then runExec else runSeq) settings, if ig && fl then settings else []) := by
  simp only [Gen.coreRunInfo, Gen.Default.coreRunInfo]
  cases eg <;> cases pa <;> cases ig <;> cases fl <;> rfl

/-- **shuffle**: the results are put back in enumeration order (`Core.runShuffled`) AND the settings reported for
labelling are put back the same way — for every index list within range, every way of running -/
theorem coreRunInfo_shuffled (leR : β → β → Bool) (f : α → β) (settings : List α) (σ : List Nat) (d : α)
    (fl eg pa ig : Bool) (hσ : ∀ i ∈ σ, i < settings.length) (hne : σ ≠ []) :
    Gen.coreRunInfo leR σ true fl eg pa ig (List.map f) (List.map f) settings
      = .ok (runShuffled f settings σ d, if ig && fl then runShuffled id settings σ d else []) := by
  have hkey : ∀ γ : Type, (fun (a b : Nat × γ) => Py.leNat a.1 b.1) = keyLE := by intro γ; funext a b; rfl
  have hsort : ∀ (γ : Type) (l : List (Nat × γ)), l ≠ [] →
      (if (l.mergeSort keyLE).isEmpty then none else some (l.mergeSort keyLE).unzip) = some (l.mergeSort keyLE).unzip := by
    intro γ l hl
    have : (l.mergeSort keyLE) ≠ [] := by
      intro h; apply hl; have := List.length_mergeSort (le := keyLE) l; rw [h] at this; exact List.length_eq_zero_iff.mp this.symm
    simp [this]
  have hz : σ.zip (List.map f (applyPerm σ settings d)) ≠ [] := by
    cases σ with
    | nil => exact absurd rfl hne
    | cons i t => simp [applyPerm]
  have hz' : σ.zip (applyPerm σ settings d) ≠ [] := by
    cases σ with
    | nil => exact absurd rfl hne
    | cons i t => simp [applyPerm]
  have hperm : (if (σ.map fun i => (i, settings.getD i d)).isEmpty then none
      else some (σ.map fun i => (i, settings.getD i d)).unzip) = some (σ, applyPerm σ settings d) := by
    cases σ with
    | nil => exact absurd rfl hne
    | cons i t => simp [unzip_map_pair, applyPerm]
  simp only [Gen.coreRunInfo, Gen.Default.coreRunInfo, permute_enumerate σ settings d hσ, Py.sortedOn, hkey, if_true, hperm,
    hsort _ _ hz, hsort _ _ hz']
  cases eg <;> cases pa <;> cases ig <;> cases fl <;> simp [runShuffled]

/-- so, for a permutation: results in enumeration order and the settings as enumerated -/
theorem coreRunInfo_perm (leR : β → β → Bool) (f : α → β) (settings : List α) (σ : List Nat)
    (fl eg pa ig : Bool) (hσ : σ ~ List.range settings.length) (hne : settings ≠ []) :
    Gen.coreRunInfo leR σ true fl eg pa ig (List.map f) (List.map f) settings
      = .ok (settings.map f, if ig && fl then settings else []) := by
  obtain ⟨d⟩ : Nonempty α := by cases settings with | nil => exact absurd rfl hne | cons a _ => exact ⟨a⟩
  have h1 : ∀ i ∈ σ, i < settings.length := fun i hi => by simpa using hσ.mem_iff.mp hi
  have h2 : σ ≠ [] := by
    intro h0; subst h0
    have := hσ.length_eq; simp at this
    exact hne (List.length_eq_zero_iff.mp this.symm)
  rw [coreRunInfo_shuffled leR f settings σ d fl eg pa ig h1 h2, runShuffled_eq f settings σ d hσ,
    runShuffled_eq id settings σ d hσ]
  simp

/-! ## composed: run, report, label -/

/-- **DataFrame through the translated pieces**: the core run with `flat` and an `info` dict (what `combo_runner_to_ds`
asks for when `to_df`, see `Forwarding.combo_to_ds_forwards`), then `results_to_df` on the results and the settings
reported: row `i` is made of setting `i` and `f`'s value at setting `i`, whatever the shuffle permutation -/
theorem toDf_src (asCell : β → V) (outputs : β → List V) (leR : β → β → Bool) (f : List (String × V) → β)
    (settings : List (List (String × V))) (attrs resources : List (String × V)) (varNames : List String)
    (shuffle : Option (List Nat)) (eg pa : Bool)
    (hσ : ∀ σ, shuffle = some σ → σ ~ List.range settings.length) (hne : settings ≠ []) :
    (Gen.coreRunInfo leR (shuffle.getD []) shuffle.isSome true eg pa true (List.map f) (List.map f) settings).bind
        (fun ri => Gen.dfRows asCell outputs ri.1 ri.2 attrs resources varNames)
      = .ok (settings.map fun s => rowOf asCell outputs attrs resources varNames s (f s)) := by
  have hrun : Gen.coreRunInfo leR (shuffle.getD []) shuffle.isSome true eg pa true (List.map f) (List.map f) settings
      = .ok (settings.map f, settings) := by
    cases shuffle with
    | none => simp [coreRunInfo_plain]
    | some σ => simpa using coreRunInfo_perm leR f settings σ true eg pa true (hσ σ rfl) hne
  rw [hrun]
  show Gen.dfRows asCell outputs (settings.map f) settings attrs resources varNames = _
  rw [dfRows_refines]
  congr 1
  apply List.ext_getElem
  · simp
  · intro i h1 h2
    simp

/-- **the hand-written `ToDs.toDf` pairs the same things**: its row `i` holds location `i` and `f`'s outputs there, and
the translated pipeline's row `i` is `rowOf` of the setting built from location `i` (`coreEnum_refines`) and that same
result -/
theorem toDf_refines (d : ToDs.Desc) (f : List Nat → List β) (nl : List β → List β) (s : Sweep) (st : Strategy)
    (hov : s.overlap = false) (hwf : st.WF s.locs.length)
    (asCell : List β → V) (outputs : List β → List V) (consts attrs resources : List (String × V)) (mk : List Nat → List (String × V)) :
    ∃ rows, ToDs.toDf d f nl s st = .ok rows ∧ rows.length = s.locs.length ∧
      (s.locs.map fun loc => rowOf asCell outputs attrs resources d.varNames (mk loc) (f loc))
        = rows.map fun r => rowOf asCell outputs attrs resources d.varNames (mk r.loc) r.outputs := by
  obtain ⟨rows, h1, h2, h3⟩ := ToDs.c03_df_rows d f nl s st hov hwf
  refine ⟨rows, h1, h2, ?_⟩
  apply List.ext_getElem
  · simp [h2]
  · intro i hi1 hi2
    have hi : i < s.locs.length := by simpa using hi1
    obtain ⟨row, hr, hl, ho, _⟩ := h3 i hi
    have : rows[i] = row := by
      have := List.getElem?_eq_getElem (l := rows) (by simpa [h2] using hi)
      rw [hr] at this; exact (Option.some.inj this).symm
    simp [this, hl, ho]

/-! ## `parse_cases`: the zip -/

/-- **tuple cases are zipped with the `fn_args` handed in** (for `run_cases`: the per-call ones when given —
`Forwarding.run_cases_fn_args`): case `c` becomes `dict(zip(fn_args, c))` -/
theorem casesZip_refines (fnArgs : List String) (cases : List (List V)) :
    Gen.casesZip fnArgs cases = cases.map fun c => Py.dictOfList (fnArgs.zip c) := by
  simp only [Gen.casesZip, Gen.Default.casesZip]

/-- argument `j` of the names handed in gets value `j` of the tuple -/
theorem casesZip_get (fnArgs : List String) (cases : List (List V)) (hnd : fnArgs.Nodup) (i : Nat) (hi : i < cases.length)
    (j : Nat) (hj : j < fnArgs.length) (hj' : j < cases[i].length) :
    ((Gen.casesZip fnArgs cases)[i]?).bind (fun row => Py.dictGet row fnArgs[j]) = some cases[i][j] := by
  rw [casesZip_refines, List.getElem?_map, List.getElem?_eq_getElem hi]
  exact get_ofList_zip fnArgs cases[i] hnd j hj hj'

/-! Non-vacuity -/
example : Gen.dfRows (fun r : List Nat => r.sum) id [[10, 11], [20, 21]] [[("a", 1), ("big", 0)], [("a", 2), ("big", 0)]]
    [("note", 7)] [("big", 0)] ["u", "v"]
    = .ok [[("a", 1), ("note", 7), ("u", 10), ("v", 11)], [("a", 2), ("note", 7), ("u", 20), ("v", 21)]] := by rfl
example : Gen.dfRows (fun r : List Nat => r.sum) id [[10, 11]] [[("a", 1)]] [] [] ["u"] = .ok [[("a", 1), ("u", 21)]] := by rfl
example : Gen.coreRunInfo (fun _ _ => true) [2, 0, 1] true true false false true (List.map (· * 10)) (List.map (· * 10)) [5, 6, 7]
    = .ok ([50, 60, 70], [5, 6, 7]) := by
  have := coreRunInfo_perm (fun _ _ => true) (· * 10) [5, 6, 7] [2, 0, 1] true false false true (by decide) (by decide)
  simpa using this
example : Gen.casesZip ["a", "b"] [[1, 2], [3, 4]] = [[("a", 1), ("b", 2)], [("a", 3), ("b", 4)]] := by decide

end DfRefine
