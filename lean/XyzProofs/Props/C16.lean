import XyzProofs.Lemmas.Script
/-!
# C16 — generated cluster scripts grow exactly the intended batches (partial)

All statements are about the model `XyzModel/Script.lean`, whose templates (`Gen.tpl…`) and decision logic
(`Gen.scriptIdsChoice`, `Gen.scriptRunStart/StopAll/StopPartial`, `Gen.scriptPieces`, `Gen.scriptSingleDynamic`, …) are
regenerated from `xyzpy/gen/cropping.py` on every run.  They quantify over every scheduler, every requested id list,
every number of batches, every set of already present results and every option record.

What is *not* proved here (and is validated by execution in `harness/props/c16.py` instead): that the rendered text is a
valid bash script, that the embedded program is valid Python, and that running it has the effect `taskBatch` /
`singleIds` describe.
-/
namespace Scr
open List

/-- **which ids**: the requested ones; or all of `1..B` when nothing has been grown yet; or exactly the missing ones
(which are distinct and are precisely the ids in `1..B` without a result). -/
theorem c16_ids (explicit : Option (List Nat)) (B : Nat) (done : List Nat) :
    (∀ l, explicit = some l → (chooseIds explicit B done).ids = l ∧ (chooseIds explicit B done).amode = .part) ∧
    (explicit = none → done = [] →
      (chooseIds explicit B done).ids = List.range' 1 B ∧ (chooseIds explicit B done).amode = .all ∧
      (chooseIds explicit B done).ids = missing B done) ∧
    (explicit = none → done ≠ [] →
      (chooseIds explicit B done).ids = missing B done ∧ (chooseIds explicit B done).amode = .part) ∧
    (missing B done).Nodup ∧ (∀ i, i ∈ missing B done ↔ 1 ≤ i ∧ i ≤ B ∧ i ∉ done) := by
  refine ⟨?_, ?_, ?_, nodup_missing B done, fun i => mem_missing⟩
  · intro l h; subst h
    simp [chooseIds, Gen.scriptIdsChoice, Gen.Default.scriptIdsChoice]
  · intro h hd; subst h; subst hd
    simp [chooseIds, Gen.scriptIdsChoice, Gen.Default.scriptIdsChoice, rangeList, Gen.scriptAllRangeStart,
      Gen.Default.scriptAllRangeStart, Gen.scriptAllRangeStop, Gen.Default.scriptAllRangeStop, missing_nil]
  · intro h hd; subst h
    have : done.length ≠ 0 := fun h0 => hd (List.length_eq_zero_iff.mp h0)
    simp [chooseIds, Gen.scriptIdsChoice, Gen.Default.scriptIdsChoice, this]

example : (chooseIds (some [4, 2]) 5 [1]).ids = [4, 2] := by decide +kernel
example : (chooseIds none 3 []).ids = [1, 2, 3] ∧ (chooseIds none 3 []).amode = .all := by decide +kernel
example : (chooseIds none 5 [2, 4]).ids = [1, 3, 5] ∧ (chooseIds none 5 [2, 4]).amode = .part := by decide +kernel

/-- the `grow(...)` line of every array template: `grow($VAR, …)` in "all" mode, `batch_ids = {batch_ids}` followed by
`grow(batch_ids[$VAR - 1], …)` in "partial" mode — read off the extracted template text -/
theorem growArg_templates (sched : Sched) :
    growArgOf (assemble sched .array .all) sched.var = .direct ∧
    growArgOf (assemble sched .array .part) sched.var = .indexed 1 := by
  cases sched <;> decide +kernel

/-- **array bijection**: for every scheduler the array range is `1..|ids|`, the task with index `t` grows `ids[t-1]`
(which is `t` itself in "all" mode), indices outside the range grow nothing, so the tasks of the range, in order, grow
exactly the ids, each once. -/
theorem c16_array_bijection (sched : Sched) (explicit : Option (List Nat)) (B : Nat) (done : List Nat) (base : Opts) :
    let s := mkScript sched .array explicit B done base
    s.ids = (chooseIds explicit B done).ids ∧
    s.runStart = 1 ∧ s.runStop = s.ids.length ∧ s.tasks = List.range' 1 s.ids.length ∧
    (∀ t, 1 ≤ t → t ≤ s.ids.length → taskBatch s t = s.ids[t - 1]?) ∧
    (∀ t, (t < 1 ∨ s.ids.length < t) → taskBatch s t = none) ∧
    s.tasks.map (taskBatch s) = s.ids.map some ∧
    s.tasks.filterMap (taskBatch s) = s.ids ∧
    (s.amode = .all → s.ids.length = B ∧ ∀ t, 1 ≤ t → t ≤ B → taskBatch s t = some t) := by
  intro s
  have hga := growArg_templates sched
  -- the three facts everything else follows from
  have hstart : s.runStart = 1 := by
    simp [s, mkScript, runStart, Gen.scriptRunStart, Gen.Default.scriptRunStart]
  have hids : s.ids = (chooseIds explicit B done).ids := rfl
  have hmode : s.mode = .array := rfl
  have hcases : (s.amode = .part ∧ s.runStop = s.ids.length ∧ s.growArg = .indexed 1) ∨
      (s.amode = .all ∧ s.runStop = s.ids.length ∧ s.growArg = .direct ∧ s.ids = List.range' 1 B) := by
    obtain ⟨h1, h2, h3, _, _⟩ := c16_ids explicit B done
    have part : (chooseIds explicit B done).amode = .part →
        (s.amode = .part ∧ s.runStop = s.ids.length ∧ s.growArg = .indexed 1) := by
      intro ha
      refine ⟨ha, ?_, ?_⟩
      · simp [s, mkScript, ha, runStop, Gen.scriptRunStopPartial, Gen.Default.scriptRunStopPartial]
      · simp only [s, mkScript, Script.growArg, ha]; exact hga.2
    cases explicit with
    | some l => exact Or.inl (part (h1 l rfl).2)
    | none =>
      by_cases hd : done = []
      · obtain ⟨hi, ha, _⟩ := h2 rfl hd
        refine Or.inr ⟨ha, ?_, ?_, hi⟩
        · simp [s, mkScript, ha, hi, runStop, Gen.scriptRunStopAll, Gen.Default.scriptRunStopAll]
        · simp only [s, mkScript, Script.growArg, ha]; exact hga.1
      · exact Or.inl (part (h3 rfl hd).2)
  have hstop : s.runStop = s.ids.length := by rcases hcases with h | h <;> exact h.2.1
  -- what a task grows
  have hin : ∀ t, 1 ≤ t → t ≤ s.ids.length → taskBatch s t = s.ids[t - 1]? := by
    intro t h1 h2
    have hc : s.mode = .array ∧ s.runStart ≤ (t : Int) ∧ (t : Int) ≤ s.runStop := by
      refine ⟨hmode, ?_, ?_⟩ <;> omega
    unfold taskBatch
    rw [if_pos hc]
    rcases hcases with h | h
    · rw [h.2.2]; simp [h1]
    · rw [h.2.2.1]
      have hl : s.ids.length = B := by rw [h.2.2.2]; simp
      rw [h.2.2.2, List.getElem?_range' (by omega)]
      simp; omega
  have hout : ∀ t, (t < 1 ∨ s.ids.length < t) → taskBatch s t = none := by
    intro t ht
    have hc : ¬ (s.mode = .array ∧ s.runStart ≤ (t : Int) ∧ (t : Int) ≤ s.runStop) := by
      rintro ⟨_, h1, h2⟩; omega
    unfold taskBatch
    rw [if_neg hc]
  have htasks : s.tasks = List.range' 1 s.ids.length := by
    simp only [Script.tasks, hmode, hstart, hstop]
    congr 1
    omega
  have hmap : s.tasks.map (taskBatch s) = s.ids.map some := by
    rw [htasks]; exact map_tasks s.ids (taskBatch s) hin
  refine ⟨hids, hstart, hstop, htasks, hin, hout, hmap, filterMap_of_map _ _ _ hmap, ?_⟩
  intro hall
  rcases hcases with h | h
  · rw [h.1] at hall; cases hall
  · have hl : s.ids.length = B := by rw [h.2.2.2]; simp
    refine ⟨hl, ?_⟩
    intro t h1 h2
    rw [hin t h1 (by omega), h.2.2.2, List.getElem?_range' (by omega)]
    simp; omega

-- non-vacuity: a partly grown crop of 5 batches on SGE, two explicit ids on PBS, a fresh crop on SLURM
example : ((mkScript .sge .array none 5 [2, 4] []).tasks.map (taskBatch (mkScript .sge .array none 5 [2, 4] []))) =
    [some 1, some 3, some 5] := by decide +kernel
example : ((mkScript .pbs .array (some [4, 2]) 5 [] []).tasks.map (taskBatch (mkScript .pbs .array (some [4, 2]) 5 [] []))) =
    [some 4, some 2] := by decide +kernel
example : ((mkScript .slurm .array none 3 [] []).tasks.map (taskBatch (mkScript .slurm .array none 3 [] []))) =
    [some 1, some 2, some 3] := by decide +kernel
example : taskBatch (mkScript .sge .array none 5 [2, 4] []) 4 = none := by decide +kernel

/-- **the PBS size-1 rewrite is sound**: the formatted text is rewritten only for PBS and only when exactly one id is
to be grown; the array range is then 1–1, the header line that is deleted is exactly the rendered PBS array header for
that range and the task variable is replaced by the index of the only task — so the rewritten script, run once
without a task variable, grows what task 1 of the unrewritten script grows. -/
theorem c16_pbs_rewrite (sched : Sched) (explicit : Option (List Nat)) (B : Nat) (done : List Nat) (base : Opts) :
    let s := mkScript sched .array explicit B done base
    (s.rewritten = true ↔ sched = .pbs ∧ s.ids.length = 1) ∧
    (s.rewritten = true → s.tasks = [1] ∧ s.runStart = 1 ∧ s.runStop = 1) ∧
    Gen.scriptPbsReplacements =
      [(renderD (parseTpl Gen.tplPbsArrayHeader) [(chars! "run_start", .int 1), (chars! "run_stop", .int 1)], []),
       ('$' :: Sched.pbs.var, natDigits 1)] := by
  intro s
  obtain ⟨_, hstart, hstop, htasks, _⟩ := c16_array_bijection sched explicit B done base
  have hlen : s.lenIds = s.ids.length := rfl
  have hiff : s.rewritten = true ↔ sched = .pbs ∧ s.ids.length = 1 := by
    simp only [Script.rewritten, hlen, Gen.scriptPbsRewrite, Gen.Default.scriptPbsRewrite, Bool.and_eq_true,
      decide_eq_true_eq]
    constructor
    · rintro ⟨h1, h2⟩; exact ⟨h1, by omega⟩
    · rintro ⟨h1, h2⟩; exact ⟨h1, by omega⟩
  refine ⟨hiff, ?_, by decide +kernel⟩
  intro hr
  have h1 := (hiff.mp hr).2
  refine ⟨?_, hstart, ?_⟩
  · show (mkScript sched .array explicit B done base).tasks = [1]
    rw [htasks]; show List.range' 1 s.ids.length = [1]; rw [h1]; rfl
  · show (mkScript sched .array explicit B done base).runStop = 1
    rw [hstop]; show ((s.ids.length : Nat) : Int) = 1; rw [h1]; rfl

example : (mkScript .pbs .array (some [3]) 4 [] []).rewritten = true := by decide +kernel
example : (mkScript .pbs .array (some [3, 1]) 4 [] []).rewritten = false := by decide +kernel
example : (mkScript .sge .array (some [3]) 4 [] []).rewritten = false := by decide +kernel

/-- **single mode**: the one job grows exactly the requested ids, or — when none are requested — the ids that are
missing at the time it runs (the generated program calls `crop.missing_results()` itself); there is no array range. -/
theorem c16_single_ids (sched : Sched) (explicit : Option (List Nat)) (B : Nat) (done : List Nat) (base : Opts) :
    let s := mkScript sched .single explicit B done base
    s.tasks = [] ∧ (∀ t, taskBatch s t = none) ∧
    (∀ l, explicit = some l → ∀ missingNow, singleIds s missingNow = l) ∧
    (explicit = none → ∀ missingNow, singleIds s missingNow = missingNow) := by
  intro s
  have hg : ∀ am, growsBoundIds (assemble sched .single am) = true := by
    intro am; cases sched <;> cases am <;> decide +kernel
  have hmode : s.mode = .single := rfl
  refine ⟨by simp [Script.tasks, hmode], ?_, ?_, ?_⟩
  · intro t; simp [taskBatch, hmode]
  · intro l h m; subst h
    have hi : s.ids = l := (c16_ids (some l) B done).1 l rfl |>.1
    have hd : s.dynamic = false := by
      simp [s, mkScript, Gen.scriptSingleDynamic, Gen.Default.scriptSingleDynamic]
    have ht : growsBoundIds s.template = true := hg _
    simp [singleIds, hmode, ht, hd, hi]
  · intro h m; subst h
    have hd : s.dynamic = true := by
      simp [s, mkScript, Gen.scriptSingleDynamic, Gen.Default.scriptSingleDynamic]
    have ht : growsBoundIds s.template = true := hg _
    simp [singleIds, hmode, ht, hd]

example : singleIds (mkScript .pbs .single (some [3, 1]) 4 [1] []) [2, 3, 4] = [3, 1] := by decide +kernel
example : singleIds (mkScript .sge .single none 4 [1] []) [2, 3, 4] = [2, 3, 4] := by decide +kernel

/-- **fields closed**: for every configuration, the assembled template is well formed and every `{field}` in it is
supplied by the option record of that mode (`run_start`/`run_stop` only in array mode); the only format spec used is
`:02`, and only on hours / minutes / seconds. -/
theorem c16_fields_closed (sched : Sched) (mode : Mode) (am : AMode) :
    Seg.bad ∉ parseTpl (assemble sched mode am) ∧
    ∀ n sp, Seg.fld n sp ∈ parseTpl (assemble sched mode am) →
      n ∈ supplied mode ∧ (sp = [] ∨ (sp = ['0', '2'] ∧ n ∈ [chars! "hours", chars! "minutes", chars! "seconds"])) := by
  have h : closedB mode (parseTpl (assemble sched mode am)) = true := by
    cases sched <;> cases mode <;> cases am <;> decide +kernel
  rw [closedB, List.all_eq_true] at h
  constructor
  · intro hb; simpa using h _ hb
  · intro n sp hm
    have := h _ hm
    simp only [Bool.and_eq_true, Bool.or_eq_true, List.contains_eq_mem, decide_eq_true_eq, beq_iff_eq] at this
    exact this

/-- the same for each of the sixteen extracted template constants on its own (w.r.t. the full option record) -/
theorem c16_templates_closed : ∀ t ∈ allTemplates, closedB .array (parseTpl t) = true := by
  decide +kernel

example : (fields (parseTpl (assemble .pbs .array .part))).length = 23 := by decide +kernel
example : (chars! "batch_ids", []) ∈ fields (parseTpl (assemble .sge .array .part)) := by decide +kernel
example : (chars! "hours", ['0', '2']) ∈ fields (parseTpl (assemble .slurm .single .all)) := by decide +kernel

/-- consequently `format` cannot fail with a KeyError / TypeError / ValueError: if the option record binds every
supplied key and the three time fields hold values that accept `:02`, rendering succeeds. -/
theorem c16_render_total (sched : Sched) (mode : Mode) (am : AMode) (o : Opts)
    (hkeys : ∀ n ∈ supplied mode, ∃ v, lookup o n = some v)
    (htime : ∀ n ∈ [chars! "hours", chars! "minutes", chars! "seconds"], ∀ v, lookup o n = some v → (fmt v ['0', '2']).isSome) :
    (render (parseTpl (assemble sched mode am)) o).isSome := by
  obtain ⟨hbad, hf⟩ := c16_fields_closed sched mode am
  unfold render
  have : (parseTpl (assemble sched mode am)).all (segOk o) = true := by
    rw [List.all_eq_true]
    intro seg hs
    cases seg with
    | lit t => rfl
    | bad => exact absurd hs hbad
    | fld n sp =>
      obtain ⟨hn, hsp⟩ := hf n sp hs
      obtain ⟨v, hv⟩ := hkeys n hn
      simp only [segOk, hv]
      rcases hsp with h | ⟨h, hn'⟩
      · subst h; simp [fmt]
      · subst h; exact htime n hn' v hv
  rw [if_pos this]; rfl

/-- **balanced Python body**: for EVERY requested id list / every set of present results / every number of batches
(hence every value of `batch_ids`: any int tuple, `range(1, B+1)`, or `crop.missing_results()`), and every option
record whose string values are themselves balanced, the rendered embedded Python program has as many opening as
closing brackets of each kind and an even number of quotes of each kind.

This is a *necessary* condition for the program to be valid Python (it is exactly what D9 violated), not a proof of
validity: real validity is checked by `ast.parse` and by running the script in the harness.  The text is the program
as rendered by `str.format`; the shell later replaces `$VAR` by digits, which does not change any count. -/
theorem c16_python_balanced (sched : Sched) (mode : Mode) (explicit : Option (List Nat)) (B : Nat) (done : List Nat)
    (base : Opts) (hbase : ∀ p ∈ base, ValNeutral p.2) :
    let s := mkScript sched mode explicit B done base
    Bal (renderD (parseTpl (pythonPart s.template)) s.opts) := by
  intro s
  have hlit : ∀ am, Bal (litPart (parseTpl (pythonTemplate sched mode am))) := by
    intro am; cases sched <;> cases mode <;> cases am <;> decide +kernel
  have hdyn : Bal Gen.scriptSingleDynamicIds := by decide +kernel
  have hopts : ∀ p ∈ s.opts, ValNeutral p.2 := by
    intro p hp
    simp only [s, mkScript, List.mem_cons, List.mem_append] at hp
    rcases hp with (rfl | hp) | hp
    · dsimp only
      split
      · exact hdyn
      · simp only [chooseIds]
        split <;> trivial
    · cases mode <;> simp at hp
      rcases hp with rfl | rfl <;> simp [ValNeutral]
    · exact hbase p hp
  exact bal_renderD (hlit _) (bal_fldPart hopts _)

/-- the structural lemma behind it: Python's `repr` of any int tuple — `()`, `(3,)`, `(1, 3)` — is balanced -/
theorem c16_reprTuple_balanced (l : List Nat) : Bal (reprTuple l) := bal_reprTuple l

example : reprTuple [] = chars! "()" ∧ reprTuple [3] = chars! "(3,)" ∧ reprTuple [1, 3, 12] = chars! "(1, 3, 12)" := by decide +kernel
example : pyStr (.range 1 4) = chars! "range(1, 4)" := by decide +kernel
example : Bal (renderD (parseTpl (pythonPart (assemble .sge .array .part)))
    (mkScript .sge .array (some [4, 2]) 5 [] [(chars! "name", .str (chars! "t"))]).opts) := by decide +kernel
-- the balance predicate does reject an unmatched bracket (the shape of defect D9)
example : ¬ Bal (chars! "    batch_ids = (1, 3)]\n") := by decide +kernel

/-- **then ready**: when every array task of a script generated without explicit ids has run (each task adding the
result of the batch `taskBatch` gives it), every batch `1..B` has a result and nothing else was touched, so
`is_ready_to_reap` (extracted: `Gen.isReady`) holds; with explicit ids, exactly those results are added.
(Stated over the abstract effect `growF`; that reaped values equal a direct run is C04 + the harness.) -/
theorem c16_then_ready (sched : Sched) (explicit : Option (List Nat)) (B : Nat) (has : Nat → Bool) (base : Opts) :
    let s := mkScript sched .array explicit B (doneList has B) base
    (∀ i, runArray s has i = (s.ids.contains i || has i)) ∧
    (explicit = none → 0 < B →
      (∀ i, 1 ≤ i → i ≤ B → runArray s has i = true) ∧
      (∀ i, runArray s has i = true → has i = true ∨ (1 ≤ i ∧ i ≤ B)) ∧
      Gen.isReady ((List.range' 1 B).countP (runArray s has)) B = true) := by
  intro s
  obtain ⟨hids, _, _, _, _, _, _, hfm, _⟩ := c16_array_bijection sched explicit B (doneList has B) base
  have hrun : ∀ i, runArray s has i = (s.ids.contains i || has i) := by
    intro i
    show growMany (s.tasks.filterMap (taskBatch s)) has i = _
    rw [hfm, growMany_eq]
  refine ⟨hrun, ?_⟩
  intro he hB
  subst he
  have hmiss : s.ids = missing B (doneList has B) := by
    rw [hids]
    obtain ⟨_, h2, h3, _, _⟩ := c16_ids none B (doneList has B)
    by_cases hd : doneList has B = []
    · exact (h2 rfl hd).2.2
    · exact (h3 rfl hd).1
  have hall : ∀ i, 1 ≤ i → i ≤ B → runArray s has i = true := by
    intro i h1 h2
    rw [hrun, hmiss]
    cases hh : has i
    · have : i ∈ missing B (doneList has B) := by
        rw [mem_missing]
        refine ⟨h1, h2, ?_⟩
        simp [doneList, hh]
      simp [this]
    · simp
  refine ⟨hall, ?_, ?_⟩
  · intro i hi
    rw [hrun, hmiss] at hi
    cases hh : has i
    · right
      simp only [hh, Bool.or_false, List.contains_eq_mem, decide_eq_true_eq] at hi
      have := mem_missing.mp hi
      exact ⟨this.1, this.2.1⟩
    · left; rfl
  · have hc : (List.range' 1 B).countP (runArray s has) = B := by
      have := (List.countP_eq_length (l := List.range' 1 B) (p := runArray s has)).mpr
        (fun i hi => hall i (List.mem_range'_1.mp hi).1 (by have := (List.mem_range'_1.mp hi).2; omega))
      simpa using this
    rw [hc]
    simp [Gen.isReady, Gen.Default.isReady]
    omega

/-- the same for the single-mode job generated without explicit ids -/
theorem c16_then_ready_single (sched : Sched) (B : Nat) (has : Nat → Bool) (base : Opts) (hB : 0 < B) :
    let s := mkScript sched .single none B (doneList has B) base
    (∀ i, 1 ≤ i → i ≤ B → runSingle s B has i = true) ∧
    (∀ i, runSingle s B has i = true → has i = true ∨ (1 ≤ i ∧ i ≤ B)) ∧
    Gen.isReady ((List.range' 1 B).countP (runSingle s B has)) B = true := by
  intro s
  have hs : singleIds s (missing B (doneList has B)) = missing B (doneList has B) :=
    (c16_single_ids sched none B (doneList has B) base).2.2.2 rfl _
  have hrun : ∀ i, runSingle s B has i = ((missing B (doneList has B)).contains i || has i) := by
    intro i
    show growMany (singleIds s (missing B (doneList has B))) has i = _
    rw [hs, growMany_eq]
  have hall : ∀ i, 1 ≤ i → i ≤ B → runSingle s B has i = true := by
    intro i h1 h2
    rw [hrun]
    cases hh : has i
    · have : i ∈ missing B (doneList has B) := by
        rw [mem_missing]
        refine ⟨h1, h2, ?_⟩
        simp [doneList, hh]
      simp [this]
    · simp
  refine ⟨hall, ?_, ?_⟩
  · intro i hi
    rw [hrun] at hi
    cases hh : has i
    · right
      simp only [hh, Bool.or_false, List.contains_eq_mem, decide_eq_true_eq] at hi
      have := mem_missing.mp hi
      exact ⟨this.1, this.2.1⟩
    · left; rfl
  · have hc : (List.range' 1 B).countP (runSingle s B has) = B := by
      have := (List.countP_eq_length (l := List.range' 1 B) (p := runSingle s B has)).mpr
        (fun i hi => hall i (List.mem_range'_1.mp hi).1 (by have := (List.mem_range'_1.mp hi).2; omega))
      simpa using this
    rw [hc]
    simp [Gen.isReady, Gen.Default.isReady]
    omega

-- non-vacuity: batches 2 and 4 of 5 present; after the three array tasks all five are
example : (List.range' 1 5).map (runArray (mkScript .slurm .array none 5 (doneList (fun i => i == 2 || i == 4) 5) [])
    (fun i => i == 2 || i == 4)) = [true, true, true, true, true] := by decide +kernel
example : doneList (fun i => i == 2 || i == 4) 5 = [2, 4] := by decide +kernel

end Scr
