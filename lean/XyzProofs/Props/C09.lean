import XyzProofs.Props.C04
/-!
# C09 — a partial reap shows finished batches exactly and everything else as missing

`fin i` says whether batch `i` has a result file.  The placeholder for a missing batch has the length of the sown
batch file it stands in for (the Reaper reads that file), so no arithmetic on batch sizes is involved.
-/
namespace Crop
open Core List

variable {β : Type}

/-- the stream a partial reap should see: per batch, `f` on the batch if finished, else the placeholder per item -/
def partialStream (f : List Nat → β) (ph : β) (fin : Nat → Bool) (bsl : List (List (List Nat))) : List β :=
  ((List.range bsl.length).zip bsl |>.map fun (j, b) => b.map fun x => if fin (j + 1) then f x else ph).flatten

theorem range_zip_snoc {γ} (l : List γ) (x : γ) :
    (List.range (l ++ [x]).length).zip (l ++ [x]) = (List.range l.length).zip l ++ [(l.length, x)] := by
  simp only [List.length_append, List.length_cons, List.length_nil, Nat.zero_add, List.range_succ]
  rw [List.zip_append (by simp)]
  simp

/-- **the Reaper's stream on a partly grown crop**: finished batches contribute their exact results, every other batch
contributes one placeholder per setting it contains -/
theorem c09_stream_partial (f : List Nat → β) (ph : β) (fin : Nat → Bool) (o : Obj) (d : Dir β)
    (bsl : List (List (List Nat))) (hne : ∀ b ∈ bsl, b ≠ [])
    (hb : ∀ j (hj : j < bsl.length), lookup d.batches (j + 1) = some bsl[j])
    (hfin : ∀ j (hj : j < bsl.length), fin (j + 1) = true → lookup d.results (j + 1) = some (.good (bsl[j].map f)))
    (hnot : ∀ j (hj : j < bsl.length), fin (j + 1) = false → lookup d.results (j + 1) = none) :
    reapStream o d bsl.length (some ph) = .ok (partialStream f ph fin bsl) := by
  unfold reapStream partialStream
  suffices h : ∀ m (hm : m ≤ bsl.length),
      (List.range m).foldl (reapStep o d (some ph)) (Except.ok []) =
        (Except.ok (((List.range m).zip (bsl.take m) |>.map fun (j, b) => b.map fun x => if fin (j + 1) then f x else ph).flatten)
          : Except Err (List β)) by
    have := h bsl.length (Nat.le_refl _)
    simpa using this
  intro m
  induction m with
  | zero => intro _; simp
  | succ k ih =>
    intro hk
    have hk' : k < bsl.length := by omega
    rw [List.range_succ, List.foldl_append, ih (by omega)]
    simp only [List.foldl_cons, List.foldl_nil, reapStep]
    have htake : bsl.take (k + 1) = bsl.take k ++ [bsl[k]] := List.take_succ_eq_append_getElem hk'
    have hlen : (bsl.take k).length = k := by simp; omega
    have hzip : (List.range k ++ [k]).zip (bsl.take (k + 1)) = (List.range k).zip (bsl.take k) ++ [(k, bsl[k])] := by
      rw [htake, List.zip_append (by simp [hlen])]
      simp
    rw [hzip]
    simp only [List.map_append, List.flatten_append, List.map_cons, List.map_nil, List.flatten_cons, List.flatten_nil,
      List.append_nil]
    cases hf : fin (k + 1) with
    | true =>
      rw [hfin k hk' hf]
      have hnek : bsl[k] ≠ [] := hne _ (List.getElem_mem hk')
      have : (bsl[k].map f).isEmpty = false := by
        cases hbk : bsl[k] with
        | nil => exact absurd hbk hnek
        | cons a t => rfl
      simp [this]
    | false =>
      rw [hnot k hk' hf, hb k hk']
      simp only [Bool.false_eq_true, if_false]
      congr 2
      apply List.ext_getElem <;> simp

/-- **where each value lands**: if the reaper's `k`-th call returns `vals[k]`, then after sorting the (index, result)
pairs back, enumeration index `σ[k]` holds `vals[k]` — for every permutation `σ` -/
theorem c09_unshuffle_positions (P : Perms) (seed n : Nat) (vals : List β) (hlen : vals.length = n)
    (hseed : seed ≠ 0) (hperm : P seed n ~ List.range n) :
    ∃ r, reorder P seed n vals = .ok r ∧ r.length = n ∧
      ∀ k (hk : k < n), r[(P seed n)[k]'(by rw [hperm.length_eq]; simpa using hk)]? = vals[k]? := by
  have hσlen : (P seed n).length = n := by rw [hperm.length_eq]; simp
  have hnodup : (P seed n).Nodup := hperm.nodup_iff.mpr (List.nodup_range)
  -- express vals as a function of the permutation's entries
  let h : Nat → Option β := fun i => vals[(P seed n).idxOf i]?
  have hvals : vals.map some = (P seed n).map h := by
    apply List.ext_getElem
    · simp [hlen, hσlen]
    · intro k h1 h2
      simp only [List.getElem_map, h]
      have hk : k < (P seed n).length := by simpa using h2
      rw [hnodup.idxOf_getElem k hk]
      simp at h1
      simp [h1]
  unfold reorder
  simp only [hlen, Nat.lt_irrefl, if_false, hseed]
  refine ⟨_, rfl, ?_, ?_⟩
  · simp [List.length_zip, hσlen, hlen]
  · intro k hk
    -- go through `Option`-valued lists to reuse `sort_map_range`
    have hsort := sort_map_range h (P seed n) n hperm
    have hzip : ((P seed n).zip vals).map (fun p => (p.1, some p.2)) = (P seed n).map (fun i => (i, h i)) := by
      rw [show ((P seed n).zip vals).map (fun p => (p.1, some p.2)) = (P seed n).zip (vals.map some) by
        rw [List.zip_map_right]; rfl]
      rw [hvals]
      clear hvals hsort
      generalize P seed n = σ
      induction σ with
      | nil => rfl
      | cons a t ih => simp only [List.map_cons, List.zip_cons_cons, ih]
    -- mergeSort commutes with mapping the payload (keys unchanged)
    have hcomm : (((P seed n).zip vals).mergeSort keyLE).map (fun p => (p.1, some p.2)) =
        (((P seed n).zip vals).map (fun p => (p.1, some p.2))).mergeSort keyLE := by
      apply List.map_mergeSort
      intro a _ b _
      simp [keyLE]
    rw [hzip, hsort] at hcomm
    have hk' : (P seed n)[k]'(by rw [hσlen]; exact hk) < n := by
      have := hperm.mem_iff.mp (List.getElem_mem (by rw [hσlen]; exact hk) : (P seed n)[k] ∈ P seed n)
      simpa using this
    have hget := congrArg (fun l => (l.map Prod.snd)[(P seed n)[k]'(by rw [hσlen]; exact hk)]?) hcomm
    simp only [List.map_map, List.getElem?_map] at hget
    have hrange : (List.range n)[(P seed n)[k]'(by rw [hσlen]; exact hk)]? = some ((P seed n)[k]'(by rw [hσlen]; exact hk)) := by
      simp [hk']
    rw [hrange] at hget
    simp only [Option.map_some, Function.comp, h] at hget
    rw [hnodup.idxOf_getElem k (by rw [hσlen]; exact hk)] at hget
    -- unwrap the outer `some`
    cases hr : ((((P seed n).zip vals).mergeSort keyLE).map Prod.snd)[(P seed n)[k]'(by rw [hσlen]; exact hk)]? with
    | none =>
      have : ((((P seed n).zip vals).mergeSort keyLE))[(P seed n)[k]'(by rw [hσlen]; exact hk)]? = none := by
        simpa [List.getElem?_map] using hr
      rw [this] at hget
      simp at hget
    | some v =>
      rw [List.getElem?_map] at hr
      cases hq : (((P seed n).zip vals).mergeSort keyLE)[(P seed n)[k]'(by rw [hσlen]; exact hk)]? with
      | none => rw [hq] at hr; simp at hr
      | some q =>
        rw [hq] at hr hget
        simp at hr hget
        rw [← hget, ← hr]

/-- **partial reap, linear form**: with `allow_incomplete` the reap succeeds on any non-empty set of finished batches and
its linear results are the partial stream (un-shuffled by `reorder`) -/
theorem c09_partial_linear (P : Perms) (f : List Nat → β) (nl : β → β) (fin : Nat → Bool) (s : St β) (d : Dir β)
    (info : Info) (bsl : List (List (List Nat))) (cu : Option Bool) (r0 : β) (rest0 : List β) (k0 : Nat)
    (hd : s.dir = some d) (hinfo : d.info = some info) (hnb : info.nb = bsl.length)
    (hne : ∀ b ∈ bsl, b ≠ [])
    (hb : ∀ j (hj : j < bsl.length), lookup d.batches (j + 1) = some bsl[j])
    (hfin : ∀ j (hj : j < bsl.length), fin (j + 1) = true → lookup d.results (j + 1) = some (.good (bsl[j].map f)))
    (hnot : ∀ j (hj : j < bsl.length), fin (j + 1) = false → lookup d.results (j + 1) = none)
    (hhead : d.results.head? = some (k0, .good (r0 :: rest0)))
    (hgood : ∀ kv ∈ d.results, ∃ rs, kv.2 = .good rs) :
    ∃ res, reapLinear P nl s { allowIncomplete := true, wait := false, cleanUp := cu } =
        (reorder P info.shuffle info.sweep.locs.length (partialStream f (nl r0) fin bsl)).map (fun r => (s, info, r)) ∧
      res = partialStream f (nl r0) fin bsl := by
  refine ⟨_, ?_, rfl⟩
  have hnan : allNanResult nl d = .ok (nl r0) := by
    unfold allNanResult
    cases hres : d.results with
    | nil => rw [hres] at hhead; simp at hhead
    | cons kv rest =>
      rw [hres] at hhead
      simp only [List.head?_cons, Option.some.injEq] at hhead
      subst hhead
      have hany : (((k0, ResFile.good (r0 :: rest0)) :: rest).any fun kv => kv.2.isBad) = false := by
        rw [List.any_eq_false]
        intro x hx
        obtain ⟨rs, hrs⟩ := hgood x (by rw [hres]; exact hx)
        simp [hrs, ResFile.isBad]
      simp only [hany, Bool.false_eq_true, if_false]
  have hstream := c09_stream_partial f (nl r0) fin s.obj d bsl hne hb hfin hnot
  unfold reapLinear
  simp only [readyGate, Bool.true_or, if_true, Bool.not_true, Bool.false_eq_true, if_false, hd, hnan, Except.map,
    hinfo, hnb, hstream]
  cases reorder P info.shuffle info.sweep.locs.length (partialStream f (nl r0) fin bsl) <;> rfl

/-- **refused**: without `allow_incomplete` and without `wait`, a crop that is not ready is refused with the
not-ready error (no state is returned: nothing was touched) -/
theorem c09_refused (P : Perms) (nl : β → β) (s : St β) (cu : Option Bool)
    (h : (isReady s).2 = false) :
    reapRaw P nl s { allowIncomplete := false, wait := false, cleanUp := cu } = .error .notReady := by
  unfold reapRaw reapLinear readyGate
  simp [h]

/-- **nothing is deleted by default** after a partial reap: `clean_up=None` resolves to `not allow_incomplete` -/
theorem c09_no_delete_by_default : cleanUpResolved none true = false ∧ cleanUpResolved none false = true := by
  simp [cleanUpResolved, Gen.cleanUpDefault, Gen.Default.cleanUpDefault]

/-- explicit `clean_up` values are honoured whatever `allow_incomplete` is -/
theorem c09_explicit_clean_up (b a : Bool) : cleanUpResolved (some b) a = b := by
  simp [cleanUpResolved, Gen.cleanUpDefault, Gen.Default.cleanUpDefault]

/-- a successful reap leaves the directory exactly as it was unless clean-up applies -/
theorem reapRaw_dir (P : Perms) (nl : β → β) (s s' : St β) (o : ReapOpts) (out : Nest β)
    (h : reapRaw P nl s o = .ok (s', out)) :
    s'.dir = if cleanUpResolved o.cleanUp o.allowIncomplete then none else s.dir := by
  unfold reapRaw at h
  split at h
  · cases h
  · rename_i s1 info results hlin
    have hs1 : s1.dir = s.dir := by
      unfold reapLinear at hlin
      have hg := readyGate_dir s o.allowIncomplete o.wait
      generalize readyGate s o.allowIncomplete o.wait = g at hlin hg
      obtain ⟨g1, g2⟩ := g
      simp only at hlin hg
      split at hlin
      · cases hlin
      · split at hlin
        · cases hlin
        · split at hlin
          · cases hlin
          · split at hlin
            · cases hlin
            · split at hlin
              · cases hlin
              · split at hlin
                · cases hlin
                · cases hlin; exact hg
    cases h
    split
    · rfl
    · exact hs1

/-- `allow_incomplete` needs at least one finished batch to infer the placeholder from -/
theorem c09_needs_one_finished (nl : β → β) (d : Dir β) (h : d.results = []) :
    allNanResult nl d = .error .noResultForNan := by
  simp [allNanResult, h]

/-! Non-vacuity: 5 settings in batches of 2 (short last batch), batches {1, 3} finished. -/
example : partialStream (fun l => l.sum) 99 (fun i => i == 1 || i == 3) [[[0], [1]], [[2], [3]], [[4]]]
    = [0, 1, 99, 99, 4] := by decide

end Crop
